// Native replay for the StringReader contracts (C01/C02): driver <function> g_len=.. g_off=.. in_offset=.. in_size=.. in_advance=..
// The buffer ends at a PROT_NONE guard page, so an out-of-bounds read faults (reported by ASan as SEGV).
// exit 1 = the contract's postcondition is violated on the real code; 0 = holds on this input; 2 = usage / not replayable.
#include "replay/common/args.hh"
#include "Strings.hh"
#include <sys/mman.h>
#include <stdexcept>
using namespace phosg;
using namespace std;

static uint8_t* guarded(size_t n) {
  size_t pg = 4096, tot = ((n + pg - 1) / pg + 1) * pg;
  uint8_t* m = (uint8_t*)mmap(nullptr, tot, PROT_READ | PROT_WRITE, MAP_PRIVATE | MAP_ANONYMOUS, -1, 0);
  mprotect(m + tot - pg, pg, PROT_NONE);
  uint8_t* p = m + tot - pg - n;
  for (size_t i = 0; i < n; i++) p[i] = (uint8_t)(i * 37 + 11) | ((i % 5 == 0) ? 0x80 : 0);
  return p;
}
static bool inr(size_t off, size_t n, size_t len) { return off <= len && n <= len - off; }
static size_t clampn(size_t off, size_t n, size_t len) { return off >= len ? 0 : (n <= len - off ? n : len - off); }
static uint64_t dec(const uint8_t* p, int n, bool big) { uint64_t v = 0; for (int i = 0; i < n; i++) v |= (uint64_t)p[big ? n - 1 - i : i] << (8 * i); return v; }

enum Exc { NONE, OOR, INVARG, OTHER };
template <typename F> static Exc run(F&& f) {
  try { f(); return NONE; } catch (const out_of_range&) { return OOR; } catch (const invalid_argument&) { return INVARG; } catch (...) { return OTHER; }
}

int main(int argc, char** argv) {
  Args A(argc, argv);
  size_t len = A.u("g_len"), off = A.u("g_off"), offset = A.u("in_offset"), size = A.u("in_size");
  bool adv = A.u("in_advance") != 0;
  const string& m = A.mode;
  printf("%s: len=%zu cursor=%zu offset=%zu size=%zu advance=%d\n", m.c_str(), len, off, offset, size, adv);
  if (len > (1u << 24)) { printf("buffer too large to replay natively\n"); return 2; }
  uint8_t* d = guarded(len);
  StringReader r(d, len, off);
  if (m == "pgetv") { const void* p = nullptr; Exc e = run([&] { p = r.pgetv(offset, size); });
    RCHECK((e == NONE) == inr(offset, size, len) && (e == NONE || e == OOR), "pgetv(%zu,%zu) on %zu bytes: %s", offset, size, len, e == NONE ? "returned" : "threw");
    RCHECK(e != NONE || p == d + offset, "pointer"); }
  else if (m == "getv") { const void* p = nullptr; Exc e = run([&] { p = r.getv(size, adv); });
    RCHECK((e == NONE) == inr(off, size, len), "getv(%zu) at cursor %zu on %zu bytes: %s", size, off, len, e == NONE ? "returned" : "threw");
    RCHECK(e != NONE || (p == d + off && r.where() == off + (adv ? size : 0)), "pointer/cursor");
    RCHECK(e == NONE || r.where() == off, "cursor moved on failure"); }
  else if (m == "tmpl_get" || m == "tmpl_pget") {
    bool pos = m == "tmpl_pget"; size_t at = pos ? offset : off; const int8_t* p = nullptr;
    Exc e = run([&] { p = pos ? &r.pget<int8_t>(at, size) : &r.get<int8_t>(adv, size); });
    RCHECK((e == NONE) == inr(at, size, len) && (e == NONE || e == OOR), "%s<int8_t>(size=%zu) at %zu on %zu bytes: %s (cursor now %zu)", pos ? "pget" : "get", size, at, len, e == NONE ? "returned" : "threw", r.where());
    if (e == NONE) { RCHECK((const uint8_t*)p == d + at, "pointer"); if (!pos) RCHECK(r.where() == off + (adv ? size : 0), "cursor %zu", r.where()); }
    else if (!pos) RCHECK(r.where() == off, "cursor moved on failure");
  }
  else if (m == "peek") { const void* p = nullptr; Exc e = run([&] { p = r.peek(size); });
    RCHECK((e == NONE) == inr(off, size, len), "peek(%zu) at cursor %zu on %zu bytes: %s", size, off, len, e == NONE ? "returned" : "threw");
    RCHECK(e != NONE || p == d + off, "pointer"); }
  else if (m == "skip") { Exc e = run([&] { r.skip(size); });
    RCHECK((e == NONE) == inr(off, size, len), "skip(%zu) at cursor %zu on %zu bytes: %s, cursor now %zu", size, off, len, e == NONE ? "returned" : "threw", r.where());
    RCHECK(e == NONE ? r.where() == off + size : r.where() == len, "cursor after skip is %zu", r.where()); }
  else if (m == "pread_str" || m == "read_str" || m == "preadx_str" || m == "readx_str") {
    bool pos = m[0] == 'p', x = m.find('x') != string::npos; size_t at = pos ? offset : off; string s;
    Exc e = run([&] { s = x ? (pos ? r.preadx(at, size) : r.readx(size, adv)) : (pos ? r.pread(at, size) : r.read(size, adv)); });
    if (x) RCHECK((e == NONE) == inr(at, size, len) && (e == NONE || e == OOR), "%s(%zu,%zu) on %zu bytes: %s", m.c_str(), at, size, len, e == NONE ? "returned" : e == OOR ? "threw out_of_range" : "threw something other than out_of_range (the request reached std::string)");
    else RCHECK(e == NONE, "%s threw", m.c_str());
    if (e == NONE) { size_t want = x ? size : clampn(at, size, len);
      RCHECK(s.size() == want, "returned %zu bytes, expected %zu", s.size(), want);
      RCHECK(memcmp(s.data(), d + at, want) == 0, "bytes differ");
      if (!pos) RCHECK(r.where() == off + (adv ? want : 0) && (off > len || r.where() <= len), "cursor %zu", r.where()); }
    else if (!pos) RCHECK(r.where() == off, "cursor moved on failure");
  }
  else if (m == "pget_cstr" || m == "get_cstr") {
    bool pos = m[0] == 'p'; size_t at = pos ? offset : off; string s;
    // place a terminator somewhere (or nowhere) depending on the size argument so that both exits are exercised
    for (size_t i = 0; i < len; i++) if (d[i] == 0) d[i] = 1;
    if (A.has("in_size") && size < len) d[size] = 0;
    Exc e = run([&] { s = pos ? r.pget_cstr(at) : r.get_cstr(adv); });
    size_t z = at; bool found = false; if (at < len) { for (z = at; z < len; z++) if (d[z] == 0) { found = true; break; } }
    RCHECK((e == NONE) == found && (e == NONE || e == OOR), "%s at %zu on %zu bytes (terminator %s): %s", m.c_str(), at, len, found ? "present" : "absent", e == NONE ? "returned" : "threw");
    if (e == NONE) { RCHECK(s.size() == z - at && memcmp(s.data(), d + at, z - at) == 0, "string content");
      if (!pos) RCHECK(r.where() == off + (adv ? s.size() + 1 : 0) && r.where() <= len, "cursor %zu", r.where()); }
    // the same call on an EMPTY string (the terminator right at the position) and on a one-character string
    if (at < len) {
      for (size_t body = 0; body < 2 && at + body < len; body++) {
        for (size_t i = at; i < len; i++) if (d[i] == 0) d[i] = 1;
        d[at + body] = 0;
        StringReader r2(d, len, off); string s2;
        Exc e2 = run([&] { s2 = pos ? r2.pget_cstr(at) : r2.get_cstr(adv); });
        RCHECK(e2 == NONE, "%s threw on a %zu-character string at %zu", m.c_str(), body, at);
        RCHECK(s2.size() == body && memcmp(s2.data(), d + at, body) == 0, "%s on a %zu-character string returned %zu bytes", m.c_str(), body, s2.size());
        if (!pos) RCHECK(r2.where() == off + (adv ? body + 1 : 0), "cursor after %s on a %zu-character string: %zu, expected %zu (right behind the terminator)", m.c_str(), body, r2.where(), off + (adv ? body + 1 : 0));
      }
    }
  }
  else if (m == "get_line") {
    for (size_t i = 0; i < len; i++) if (d[i] == '\n') d[i] = 'x';
    if (A.has("in_size") && size < len) d[size] = '\n';
    string s; Exc e = run([&] { s = r.get_line(adv); });
    RCHECK((e == NONE) == (off < len), "get_line at %zu on %zu bytes: %s", off, len, e == NONE ? "returned" : "threw");
    if (e == NONE) { RCHECK(off > len || r.where() <= len, "cursor %zu is beyond the end of the %zu-byte buffer (remaining() = %zu)", r.where(), len, r.remaining());
      RCHECK(memcmp(s.data(), d + off, s.size()) == 0, "line content"); }
    // the same line once more, terminated by CR LF and by LF alone: the line is the bytes up to the terminator (a trailing CR removed),
    // the cursor ends right behind the LF (or at the end of the data when there is none)
    if (off < len) {
      for (int crlf = 0; crlf < 2; crlf++) {
        size_t nl = off; while (nl < len && d[nl] != '\n') nl++;
        for (size_t i = off; i < nl; i++) if (d[i] == '\r') d[i] = 'y';
        if (crlf && nl > off) d[nl - 1] = '\r';
        StringReader r2(d, len, off);
        string s2; Exc e2 = run([&] { s2 = r2.get_line(adv); });
        size_t body = nl - off - ((crlf && nl > off) ? 1 : 0);
        RCHECK(e2 == NONE, "get_line threw on a %s line", crlf ? "CRLF-terminated" : "LF-terminated");
        RCHECK(s2.size() == body && memcmp(s2.data(), d + off, body) == 0, "get_line on a %s line returned %zu bytes, the line has %zu", crlf ? "CRLF-terminated" : "LF-terminated", s2.size(), body);
        size_t want = adv ? (nl < len ? nl + 1 : len) : off;
        RCHECK(r2.where() == want, "cursor after get_line on a %s line: %zu, expected %zu (right behind the line terminator)", crlf ? "CRLF-terminated" : "LF-terminated", r2.where(), want);
      }
    }
  }
  else if (m == "bitr_pread" || m == "bitr_read") {
    // len / offsets are in bits here
    size_t nbits = len, at = (m == "bitr_pread") ? offset : off; uint8_t n = (uint8_t)size;
    if (n > 64) { BitReader br(d, nbits, off); bool threw = false; try { br.pread(at, n); } catch (const logic_error&) { threw = true; } RCHECK(threw, "size > 64 must throw"); printf("holds\n"); return 0; }
    if (!inr(at, n, nbits)) { printf("out-of-range bit read is outside the contract (precondition)\n"); return 2; }
    uint8_t* bd = guarded((nbits + 7) / 8); BitReader br(bd, nbits, off);
    uint64_t v = (m == "bitr_pread") ? br.pread(at, n) : br.read(n, adv);
    uint64_t e = 0; for (size_t i = 0; i < n; i++) e = (e << 1) | ((bd[(at + i) >> 3] >> (7 - ((at + i) & 7))) & 1);
    RCHECK(v == e, "read %u bits at bit %zu: 0x%llX, MSB-first packing gives 0x%llX", n, at, (unsigned long long)v, (unsigned long long)e);
    if (m == "bitr_read") RCHECK(br.where() == off + (adv ? n : 0), "cursor %zu", br.where());
  }
  else if (m == "bitw_write" || m == "bitw_size") {
    size_t nbits = A.u("g_oldbits"); if (nbits > (1u << 16)) return 2; BitWriter w; string ref;
    for (size_t i = 0; i < nbits; i++) { bool b = (i * 7 + 3) % 5 < 2; w.write(b); ref.push_back(b); }
    RCHECK(w.size() == nbits, "size() = %zu after %zu writes", w.size(), nbits);
    bool v = A.u("in_v") != 0; w.write(v); ref.push_back(v);
    RCHECK(w.size() == nbits + 1, "size() = %zu after one more write", w.size());
    const string& s = w.str();
    for (size_t i = 0; i < ref.size(); i++) RCHECK((((uint8_t)s[i >> 3] >> (7 - (i & 7))) & 1) == (uint8_t)ref[i], "bit %zu is not what was written (MSB-first)", i);
    if (ref.size() & 7) RCHECK((((uint8_t)s.back()) & ((1u << (8 - (ref.size() & 7))) - 1)) == 0, "unset bits of the last byte are not zero");
  }
  else if (m == "sw_write_str") {
    // the std::string overload: blocks with zero bytes at the start, in the middle and at the end must be appended whole
    size_t ws = A.u("g_wsize"); if (ws > (1u << 20)) ws = 3;
    for (const string& blk : {string("ab\0cd", 5), string("\0xy", 3), string("xyz\0", 4), string("plain"), string()}) {
      StringWriter w; w.extend_to(ws, 'q'); w.write(blk);
      RCHECK(w.size() == ws + blk.size(), "write(std::string) of a %zu-byte block grew the buffer by %zu bytes", blk.size(), w.size() - ws);
      RCHECK(memcmp(w.str().data() + ws, blk.data(), blk.size()) == 0 && w.str().compare(0, ws, string(ws, 'q')) == 0, "write(std::string): content");
    }
  }
  else if (m == "sw_write" || m == "sw_extend_to" || m == "sw_extend_by" || m == "sw_size") {
    size_t ws = A.u("g_wsize"); if (ws > (1u << 20) || size > (1u << 20)) return 2;
    StringWriter w; w.extend_to(ws, 'q'); string src(size, 'Z'); for (size_t i = 0; i < size; i++) src[i] = (char)(i * 13 + 1);
    if (m == "sw_write") { w.write(src.data(), size); RCHECK(w.size() == ws + size && memcmp(w.str().data() + ws, src.data(), size) == 0 && w.str().compare(0, ws, string(ws, 'q')) == 0, "write: size %zu", w.size()); }
    else if (m == "sw_extend_to") { char c = (char)A.u("in_v"); w.extend_to(size, c); RCHECK(w.size() == size, "extend_to"); for (size_t i = 0; i < size; i++) RCHECK(w.str()[i] == (i < ws ? 'q' : c), "byte %zu", i); }
    else if (m == "sw_extend_by") { char c = (char)A.u("in_v"); w.extend_by(size, c); RCHECK(w.size() == ws + size, "extend_by"); for (size_t i = 0; i < ws + size; i++) RCHECK(w.str()[i] == (i < ws ? 'q' : c), "byte %zu", i); }
    else RCHECK(w.size() == ws, "size");
  }
  else if (m == "bw_pwrite" || m == "bw_write") {
    if (size > (1u << 20)) return 2; bool pos = m == "bw_pwrite"; size_t at = pos ? offset : off;
    uint8_t* buf = guarded(len); string src(size, 'Z'); BufferWriter w(buf, len);
    if (!pos && off) { if (off > len) return 2; string pre(off, 'p'); w.write(pre); }
    Exc e = NONE; try { if (pos) w.pwrite(at, src.data(), size); else w.write(src.data(), size); } catch (const runtime_error&) { e = OTHER; }
    RCHECK((e == NONE) == inr(at, size, len), "%s(%zu, %zu bytes) into %zu-byte buffer: %s", m.c_str(), at, size, len, e == NONE ? "stored" : "threw");
  }
  else if (m.rfind("pget_", 0) == 0 || m.rfind("get_", 0) == 0) {
    bool pos = m[0] == 'p'; string k = m.substr(pos ? 5 : 4);   // u24b, s48l, ...
    bool sg = k[0] == 's', big = k.back() == 'b'; int n = (k.substr(1, 2) == "24") ? 3 : 6;
    size_t at = pos ? offset : off; uint64_t v = 0;
    Exc e = run([&] {
      if (n == 3) v = pos ? (sg ? (uint32_t)(big ? r.pget_s24b(at) : r.pget_s24l(at)) : (big ? r.pget_u24b(at) : r.pget_u24l(at)))
                          : (sg ? (uint32_t)(big ? r.get_s24b(adv) : r.get_s24l(adv)) : (big ? r.get_u24b(adv) : r.get_u24l(adv)));
      else v = pos ? (sg ? (uint64_t)(big ? r.pget_s48b(at) : r.pget_s48l(at)) : (big ? r.pget_u48b(at) : r.pget_u48l(at)))
                   : (sg ? (uint64_t)(big ? r.get_s48b(adv) : r.get_s48l(adv)) : (big ? r.get_u48b(adv) : r.get_u48l(adv)));
    });
    RCHECK((e == NONE) == inr(at, n, len), "%s at %zu on %zu bytes: %s", m.c_str(), at, len, e == NONE ? "returned" : "threw");
    if (e == NONE) {
      uint64_t x = dec(d + at, n, big);
      if (sg && (x >> (8 * n - 1))) x |= (n == 3) ? 0xFF000000ull : 0xFFFF000000000000ull;
      if (n == 3) x &= 0xFFFFFFFFull;
      RCHECK(v == x, "value 0x%llX, bytes encode 0x%llX", (unsigned long long)v, (unsigned long long)x);
      if (!pos) RCHECK(r.where() == off + (adv ? n : 0), "cursor %zu", r.where());
    } else if (!pos) RCHECK(r.where() == off, "cursor moved on failure");
  }
  else if (m == "sub2" || m == "subx2" || m == "sub1" || m == "subx1") {
    bool x = m[3] == 'x', two = m.back() == '2'; StringReader s; Exc e = run([&] { s = two ? (x ? r.subx(offset, size) : r.sub(offset, size)) : (x ? r.subx(offset) : r.sub(offset)); });
    size_t want = two ? (x ? size : clampn(offset, size, len)) : (offset <= len ? len - offset : 0);
    bool ok = x ? (two ? inr(offset, size, len) : offset <= len) : true;
    RCHECK((e == NONE) == ok, "%s(%zu,%zu) on %zu bytes: %s", m.c_str(), offset, size, len, e == NONE ? "returned" : "threw");
    if (e == NONE) { RCHECK(s.size() == want, "sub-reader has %zu bytes, parent allows %zu", s.size(), want);
      if (want) RCHECK(s.pgetv(0, 0) == d + offset, "sub-reader start"); }
  }
  else if (m == "sub_bits2" || m == "subx_bits2" || m == "sub_bits1" || m == "subx_bits1") {
    bool x = m[3] == 'x', two = m.back() == '2'; BitReader s; Exc e = run([&] { s = two ? (x ? r.subx_bits(offset, size) : r.sub_bits(offset, size)) : (x ? r.subx_bits(offset) : r.sub_bits(offset)); });
    size_t want = two ? (x ? size : clampn(offset, size, len)) : (offset <= len ? len - offset : 0);
    bool ok = x ? (two ? inr(offset, size, len) : offset <= len) : true;
    RCHECK((e == NONE) == ok, "%s(%zu,%zu) on %zu bytes: %s", m.c_str(), offset, size, len, e == NONE ? "returned" : "threw");
    if (e == NONE) RCHECK(s.size() == want * 8, "bit sub-reader has %zu bits, parent allows %zu", s.size(), want * 8);
  }
  else if (m == "truncate") { Exc e = run([&] { r.truncate(size); }); RCHECK((e == NONE) == (size <= len) && r.size() == (size <= len ? size : len), "truncate"); }
  else if (m == "remaining") { if (off <= len) RCHECK(r.remaining() == len - off, "remaining"); }
  else if (m == "eof") { RCHECK(r.eof() == (off >= len), "eof"); }
  else if (m == "pread_buf" || m == "read_buf" || m == "preadx_buf" || m == "readx_buf") {
    if (size > (1u << 24)) { printf("destination too large to replay\n"); return 2; }
    bool pos = m[0] == 'p', x = m.find('x') != string::npos; size_t at = pos ? offset : off;
    uint8_t* out = guarded(size); size_t got = 0;
    Exc e = run([&] { if (x) { if (pos) r.preadx(at, out, size); else r.readx(out, size, adv); got = size; } else got = pos ? r.pread(at, out, size) : r.read(out, size, adv); });
    if (x) RCHECK((e == NONE) == (inr(at, size, len) && at < len), "%s: %s", m.c_str(), e == NONE ? "returned" : "threw");
    else RCHECK(e == NONE && got == clampn(at, size, len), "%s returned %zu, expected %zu", m.c_str(), got, clampn(at, size, len));
    if (e == NONE) { RCHECK(memcmp(out, d + at, got) == 0, "bytes differ"); if (!pos) RCHECK(r.where() == off + (adv ? got : 0), "cursor"); }
  }
  else if (m == "skip_if") {
    if (size > (1u << 20)) return 2; string pat((const char*)d + (off <= len ? off : 0), inr(off, size, len) ? size : 0);
    bool res = false; Exc e = run([&] { res = r.skip_if(pat.data(), pat.size()); });
    // (with the cursor already beyond the end -- possible only after an explicit go() -- out_of_range is an accepted answer, as in the contract)
    RCHECK((e == NONE || (off > len && e == OOR)) && (!res || r.where() == off + pat.size()), "skip_if %s", e == NONE ? "returned" : "threw");
    // a pattern LONGER than what is left in the reader: must answer false (or throw) without comparing bytes beyond the end
    // (the buffer ends at a red zone: an over-read is reported by the sanitizer)
    for (size_t c0 : {off <= len ? off : (size_t)0, (size_t)0, len / 2}) {
      size_t rem = len - c0;
      for (size_t extra : {(size_t)1, (size_t)9}) {
        string longer((const char*)d + c0, rem); longer.append(extra, 'x');
        StringReader r3(d, len, c0); bool res3 = false;
        Exc e3 = run([&] { res3 = r3.skip_if(longer.data(), longer.size()); });
        RCHECK(e3 == NONE, "skip_if threw on a %zu-byte pattern with %zu bytes left and the cursor inside the data (it answers false)", longer.size(), rem);
        RCHECK(!res3, "skip_if matched a %zu-byte pattern with only %zu bytes left", longer.size(), rem);
        RCHECK(r3.where() == c0, "skip_if moved the cursor to %zu on a pattern longer than the remaining data", r3.where());
      }
    }
  }
  else if (m == "where" || m == "size" || m == "go") { r.go(size); RCHECK(r.where() == size && r.size() == len, "trivial accessors"); }
  else { fprintf(stderr, "unknown mode %s\n", m.c_str()); return 2; }
  printf("holds on this input\n");
  return 0;
}
