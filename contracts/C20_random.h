/* C20 side-car contracts for src/Random.cc / src/Random.hh.
 * Function text: x_random.c (random_data x2, random_int) and x_random_object.inc (template random_object<T>), extracted
 * on every run.
 *
 * Specification (property C20): random_data fills exactly the requested bytes; random_int(lo,hi) lies in [lo,hi] whenever
 * hi - lo < 2^63.  The random source is a stub: readx(fd, 4096) delivers 4096 arbitrary bytes or throws io_error.
 *
 * "fills exactly the requested bytes":
 *   - nothing outside [data, data+bytes) is written: the assigns clause (checked at every memcpy of the real text)
 *   - every byte in it is written exactly once: ghost index g_k < bytes (arbitrary, fixed before the call), ghost counter
 *     g_k_hits counts the memcpy calls whose destination range contains offset g_k; g_filled is the running total
 *     (DESIGN.md 3.4 ghost index).  The ghost bookkeeping is attached to memcpy by the extraction rule memcpy -> G_MEMCPY.
 */
#ifndef C20_RANDOM_H
#define C20_RANDOM_H
#include "contracts/verif.h"
#include <string.h>
#include <stdlib.h>

/* ---- trusted model of std::string for the function-local `static thread_local string buffer` (hoisted to file scope, as
 * dfcc havocs function-local statics): the buffer only ever holds the result of readx(fd, 4096), so a fixed capacity of
 * 4096 bytes is enough; `buffer.size() <= 4096` (BUFFER_OK) is the type invariant carried across calls. */
#define VSTR_CAP 4096
typedef struct { size_t size; char* data; } vstr;
char buffer_store[VSTR_CAP + 1];                  /* storage of the string (capacity + terminator) */
vstr buffer = { 0, buffer_store };                /* .data always points to buffer_store (never reassigned) */
#define BUFFER_OK (buffer.size <= VSTR_CAP && buffer.data == buffer_store)

/* std::string::resize, only the shrinking case occurs */
static inline void vstr_resize(vstr* s, size_t n) {
  __CPROVER_precondition(n <= s->size, "string model: only a shrinking resize is modelled");
  s->size = n;
}
/* buffer = readx(fd, size): exactly `size` arbitrary bytes, or io_error (src/Filesystem.cc readx) */
size_t g_refills;
static inline void readx_into(vstr* s, size_t size) {
  __CPROVER_precondition(size <= VSTR_CAP, "string model: capacity");
  _Bool fail;            /* nondet */
  if (fail) { verif_exc = EXC_io_error; return; }
  g_refills++;           /* ghost: number of successful refills */
  /* content: not modelled (memcpy_model below abstracts byte values, nothing ever reads them) */
  s->size = size;
}

/* ---- ghosts */
void* g_data0; size_t g_bytes0;    /* entry values of data / bytes (the loop overwrites the parameters) */
size_t g_filled;                   /* total number of bytes stored so far */
size_t g_k, g_k_hits;              /* arbitrary offset < bytes, number of stores that covered it */
size_t g_size0;                    /* buffer.size() on entry */
/* conservation (every byte taken from the source is handed out at most once, none is dropped on the way): what was in
 * the buffer on entry plus what the refills delivered equals what was stored plus what is left (modulo 2^64) */
#define CONSERVED (g_filled + buffer.size == g_size0 + (size_t)4096 * g_refills)
/* memcpy, content abstracted: the source must be readable for n bytes; into the destination one arbitrary byte is stored
 * at an arbitrary offset j < n.  That store goes through the pointer checks and through dfcc's assigns-clause check, and
 * j is universally quantified (nondet), so the frame obligation "nothing outside [data, data+bytes) is written" is checked
 * for every byte of every memcpy destination range.  No clause of this property speaks about byte values.
 * (A symbolic-length __CPROVER_havoc_slice / real memcpy into a symbolic-size object needs > 12 GB in the propositional
 * back ends: measured.) */
static inline void memcpy_model(void* d, const void* s, size_t n) {
  __CPROVER_precondition(__CPROVER_r_ok(s, n), "memcpy: source readable");
  size_t j; char v;      /* nondet */
  if (j < n) ((char*)d)[j] = v;
}
#define G_MEMCPY(d, s, n) (g_k_hits += ((g_k >= g_filled && g_k - g_filled < (n)) ? 1 : 0), g_filled += (n), memcpy_model(d, s, n))

/* loop contract of the refill loop (injected by the extractor) */
#define RD_LOOP \
  __CPROVER_assigns(data, bytes, buffer.size, g_filled, g_k_hits, g_refills, verif_exc, \
                    __CPROVER_object_upto(g_data0, g_bytes0)) \
  __CPROVER_loop_invariant(verif_exc == 0 && BUFFER_OK && bytes <= g_bytes0 && g_filled == g_bytes0 - bytes) \
  __CPROVER_loop_invariant(data == (void*)((uint8_t*)g_data0 + g_filled)) \
  __CPROVER_loop_invariant(g_k_hits == ((g_k < g_filled) ? 1 : 0)) \
  __CPROVER_loop_invariant(CONSERVED) \
  __CPROVER_decreases(bytes, VSTR_CAP - buffer.size)

void random_data(void* data, size_t bytes)
__CPROVER_requires(__CPROVER_is_fresh(data, bytes))
__CPROVER_requires(verif_exc == 0 && BUFFER_OK && (bytes == 0 || g_k < bytes))
__CPROVER_ensures(verif_exc == 0 ==> (g_filled == bytes && (bytes != 0 ==> g_k_hits == 1)))
__CPROVER_ensures(verif_exc == 0 ==> CONSERVED)
__CPROVER_ensures(verif_exc == 0 || verif_exc == EXC_io_error)
__CPROVER_ensures(BUFFER_OK)
__CPROVER_assigns(__CPROVER_object_upto(data, bytes), buffer.size, g_data0, g_bytes0, g_size0, g_filled, g_k_hits, g_refills, verif_exc);

/* ---- std::string random_data(size_t bytes): model of the returned string = pointer + size */
typedef struct { char* data; size_t size; } pstr;
/* string ret(bytes, fill): allocation of bytes (+ terminator), or bad_alloc */
static inline void pstr_init_fill(pstr* s, size_t n, char fill) {
  s->size = 0;
  s->data = (n + 1 == 0) ? 0 : malloc(n + 1);
  if (!s->data) { verif_exc = EXC_bad_alloc; return; }
  s->size = n;
}
void random_data_str(pstr* ret, size_t bytes)
__CPROVER_requires(__CPROVER_is_fresh(ret, sizeof(pstr)))
__CPROVER_requires(verif_exc == 0 && BUFFER_OK && (bytes == 0 || g_k < bytes))
__CPROVER_ensures(verif_exc == 0 ==> (ret->size == bytes && g_filled == bytes && (bytes != 0 ==> g_k_hits == 1)))
__CPROVER_ensures(BUFFER_OK)
__CPROVER_assigns(__CPROVER_object_whole(ret), buffer.size, g_data0, g_bytes0, g_size0, g_filled, g_k_hits, g_refills, verif_exc);

/* ---- random_int: hi - lo < 2^63 (the property's domain), result in [lo, hi] */
int64_t random_int(int64_t low, int64_t high)
__CPROVER_requires(low <= high && (uint64_t)high - (uint64_t)low <= (uint64_t)INT64_MAX)
__CPROVER_requires(verif_exc == 0 && BUFFER_OK && g_k == 0)
__CPROVER_ensures(verif_exc == 0 ==> (low <= __CPROVER_return_value && __CPROVER_return_value <= high))
__CPROVER_ensures(BUFFER_OK)
__CPROVER_assigns(buffer.size, g_data0, g_bytes0, g_size0, g_filled, g_k_hits, g_refills, verif_exc);

#endif
