/* Side-car contracts: string-returning StringReader functions and the cstr / line loops (C01, C02).
 * The result string is an out-parameter (vstr) that is empty on entry with capacity > length ("allocation succeeds"). */
#ifndef RW_STR_H
#define RW_STR_H
#include "contracts/RW_reader.h"
#include "contracts/RW_wtypes.h"
#define RET_STR_REQ(self) __CPROVER_requires(__CPROVER_is_fresh(ret, sizeof(vstr))) __CPROVER_requires(ret->cap <= VSTR_MAXCAP && ret->size == 0 && ret->cap > (self)->length) \
                          __CPROVER_requires(__CPROVER_is_fresh(ret->data, ret->cap))
#define RET_STR_OK(self) (VSTR_EMPTY_OK(ret) && ret->cap > (self)->length)

/* clamping form: the in-range prefix */
void StringReader_pread_str(const StringReader* self, vstr* ret, size_t offset, size_t size)
RD_REQ(self) RET_STR_REQ(self)
E02(verif_exc == 0 && ret->size == CLAMPN(offset, size, self->length))
E01(ret->size == CLAMPN(offset, size, self->length))
E01(g_vk < ret->size ==> ret->data[g_vk] == (char)self->data[offset + g_vk])
__CPROVER_assigns(ret->size, __CPROVER_object_whole(ret->data));

/* throwing form: exactly the requested slice or out_of_range */
void StringReader_preadx_str(const StringReader* self, vstr* ret, size_t offset, size_t size)
RD_REQ(self) RET_STR_REQ(self)
E02(THROWS_OOR(INR(offset, size, self->length)))
E02(verif_exc == 0 ==> ret->size == size)
E01(verif_exc == 0 ==> (ret->size == size && (g_vk < size ==> ret->data[g_vk] == (char)self->data[offset + g_vk])))
__CPROVER_assigns(verif_exc, ret->size, __CPROVER_object_whole(ret->data));

void StringReader_read_str(StringReader* self, vstr* ret, size_t size, bool advance)
RD_REQ(self) RET_STR_REQ(self)
E02(verif_exc == 0 && ret->size == CLAMPN(__CPROVER_old(self->offset), size, self->length))
E02(__CPROVER_old(self->offset) <= self->length ==> self->offset <= self->length)
E01(self->offset == __CPROVER_old(self->offset) + (advance ? ret->size : 0))
E01(g_vk < ret->size ==> ret->data[g_vk] == (char)self->data[__CPROVER_old(self->offset) + g_vk])
__CPROVER_assigns(self->offset, ret->size, __CPROVER_object_whole(ret->data));

void StringReader_readx_str(StringReader* self, vstr* ret, size_t size, bool advance)
RD_REQ(self) RET_STR_REQ(self)
E02(THROWS_OOR(INR(__CPROVER_old(self->offset), size, self->length)))
E02(verif_exc != 0 ==> self->offset == __CPROVER_old(self->offset))
E02(__CPROVER_old(self->offset) <= self->length ==> self->offset <= self->length)
E01(verif_exc == 0 ==> (ret->size == size && self->offset == __CPROVER_old(self->offset) + (advance ? size : 0)))
E01(verif_exc == 0 ==> (g_vk < size ==> ret->data[g_vk] == (char)self->data[__CPROVER_old(self->offset) + g_vk]))
__CPROVER_assigns(verif_exc, self->offset, ret->size, __CPROVER_object_whole(ret->data));

/* NUL-terminated string at offset: success => terminator found at offset+len inside the data, every returned byte is the
 * source byte and is non-zero; failure => out_of_range and no byte of [offset, length) is zero (universals in conclusions,
 * ghost index g_vk) */
void StringReader_pget_cstr(const StringReader* self, vstr* ret, size_t offset)
RD_REQ(self) RET_STR_REQ(self)
E02(verif_exc == 0 || verif_exc == EXC_out_of_range)
__CPROVER_ensures(verif_exc == 0 ==> (offset < self->length && ret->size < self->length - offset))   /* needed by callers under both properties */
E02(verif_exc == 0 ==> self->data[offset + ret->size] == 0)
E02((verif_exc != 0 && offset <= self->length && g_vk < self->length - offset) ==> self->data[offset + g_vk] != 0)
E01(verif_exc == 0 ==> self->data[offset + ret->size] == 0)
E01((verif_exc == 0 && g_vk < ret->size) ==> (ret->data[g_vk] == (char)self->data[offset + g_vk] && self->data[offset + g_vk] != 0))
__CPROVER_assigns(verif_exc, ret->size, __CPROVER_object_whole(ret->data));

void StringReader_get_cstr(StringReader* self, vstr* ret, bool advance)
RD_REQ(self) RET_STR_REQ(self)
E02(verif_exc == 0 || verif_exc == EXC_out_of_range)
E02(verif_exc != 0 ==> self->offset == __CPROVER_old(self->offset))
E02(__CPROVER_old(self->offset) <= self->length ==> self->offset <= self->length)
E01(verif_exc == 0 ==> self->offset == __CPROVER_old(self->offset) + (advance ? ret->size + 1 : 0))
E01(verif_exc == 0 ==> self->data[__CPROVER_old(self->offset) + ret->size] == 0)
E01((verif_exc == 0 && g_vk < ret->size) ==> (ret->data[g_vk] == (char)self->data[__CPROVER_old(self->offset) + g_vk] && self->data[__CPROVER_old(self->offset) + g_vk] != 0))
__CPROVER_assigns(verif_exc, self->offset, ret->size, __CPROVER_object_whole(ret->data));

/* line at the cursor: bytes up to (not including) the next '\n' or the end of data, one trailing '\r' dropped; the
 * cursor moves past the '\n' when there is one and to the end of data otherwise -- never beyond the end */
void StringReader_get_line(StringReader* self, vstr* ret, bool advance)
RD_REQ(self) RET_STR_REQ(self)
E02(THROWS_OOR(__CPROVER_old(self->offset) < self->length))
E02(__CPROVER_old(self->offset) <= self->length ==> self->offset <= self->length)
E02(verif_exc != 0 ==> self->offset == __CPROVER_old(self->offset))
E01((verif_exc == 0 && g_vk < ret->size) ==> (ret->data[g_vk] == (char)self->data[__CPROVER_old(self->offset) + g_vk] && self->data[__CPROVER_old(self->offset) + g_vk] != '\n'))
E01((verif_exc == 0 && !advance) ==> self->offset == __CPROVER_old(self->offset))
E01((verif_exc == 0 && advance) ==> (self->offset >= __CPROVER_old(self->offset) + ret->size && self->offset <= __CPROVER_old(self->offset) + ret->size + 2))
E01((verif_exc == 0 && advance && self->offset < self->length) ==> self->data[self->offset - 1] == '\n')
__CPROVER_assigns(verif_exc, self->offset, ret->size, __CPROVER_object_whole(ret->data));

/* the accessor templates themselves, instantiated for int8_t, with an explicit size argument (get<T>(advance, size)):
 * the whole requested slice [offset, offset+size) must be in range, the cursor advances by size */
const int8_t* StringReader_pget__int8_t(const StringReader* self, size_t offset, size_t size)
RD_REQ(self)
E02(THROWS_OOR(INR(offset, size, self->length)))
E02(verif_exc == 0 ==> __CPROVER_return_value == (const int8_t*)(self->data + offset))
E01(verif_exc == 0 ==> __CPROVER_return_value == (const int8_t*)(self->data + offset))
__CPROVER_assigns(verif_exc);

const int8_t* StringReader_get__int8_t(StringReader* self, bool advance, size_t size)
RD_REQ(self)
E02(THROWS_OOR(INR(__CPROVER_old(self->offset), size, self->length)))
E02(verif_exc == 0 ==> __CPROVER_return_value == (const int8_t*)(self->data + __CPROVER_old(self->offset)))
E02(verif_exc != 0 ==> self->offset == __CPROVER_old(self->offset))
E02(__CPROVER_old(self->offset) <= self->length ==> self->offset <= self->length)
E01(verif_exc == 0 ==> self->offset == __CPROVER_old(self->offset) + (advance ? size : 0))
E01(verif_exc == 0 ==> __CPROVER_return_value == (const int8_t*)(self->data + __CPROVER_old(self->offset)))
__CPROVER_assigns(verif_exc, self->offset);
#endif
