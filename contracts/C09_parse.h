/* C09 O-1: totality of parse_data_string on every NUL-terminated text (side-car contract; the definition is extracted text).
 * C view of the signature: the result string is the out-parameter `data` (empty on entry), `s` is s.c_str() and s_size is
 * s.size() (ghost: only used by the specification), mask is the optional out-parameter.
 * Statement: "the parser accepts any text at all without crashing, hanging or reading out of bounds":
 *   - no exception (verif_exc stays 0; load_file is never reached with ALLOW_FILES off),
 *   - every read of the text is inside [s, s + s_size] (cbmc pointer checks on every in[0] / in[1], strto* argument check),
 *   - the loop terminates (decreases clause), the output needs at most 4 bytes per input character,
 *   - mask, when requested, has the length of the data and consists of 0xFF / 0x00 bytes only. */
#ifndef C09_PARSE_H
#define C09_PARSE_H
#include "contracts/C09_glue.h"



#ifdef MASK_NULL
#define PDS_MASK_REQ __CPROVER_requires(mask == 0)
#define PDS_MASK_ASSIGNS
#else
#define PDS_MASK_REQ __CPROVER_requires(__CPROVER_is_fresh(mask, sizeof(vstr))) \
                     __CPROVER_requires(mask->cap <= VSTR_MAXCAP && mask->size <= mask->cap && mask->cap >= 4 * s_size) \
                     __CPROVER_requires(__CPROVER_is_fresh(mask->data, mask->cap))
#define PDS_MASK_ASSIGNS , mask->size, __CPROVER_object_whole(mask->data)
#endif

void parse_data_string(vstr* data, const char* s, size_t s_size, vstr* mask, uint64_t flags)
__CPROVER_requires(s_size <= PDS_MAXTEXT)
__CPROVER_requires(__CPROVER_is_fresh(s, s_size + 1))
__CPROVER_requires(s[s_size] == 0)
__CPROVER_requires(__CPROVER_is_fresh(data, sizeof(vstr)))
__CPROVER_requires(data->cap <= VSTR_MAXCAP && data->size == 0 && data->cap >= 4 * s_size)
__CPROVER_requires(__CPROVER_is_fresh(data->data, data->cap))
PDS_MASK_REQ
__CPROVER_requires((flags & ParseDataFlags_ALLOW_FILES) == 0)
__CPROVER_requires(verif_exc == 0 && g_load_calls == 0)
__CPROVER_ensures(verif_exc == 0 && g_load_calls == 0)
__CPROVER_ensures(data->size <= 4 * s_size)
__CPROVER_ensures(mask != 0 ==> mask->size == data->size)
__CPROVER_ensures((mask != 0 && g_vk < mask->size) ==> PDS_IS_MASK_BYTE(mask->data[g_vk]))
__CPROVER_assigns(verif_exc, g_end, g_st_calls, g_st_arg, g_st_end, g_st_base, g_st_kind, g_num, g_dbl, g_flt, g_load_calls,
                  data->size, __CPROVER_object_whole(data->data) PDS_MASK_ASSIGNS);

#endif
