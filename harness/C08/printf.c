/* C08: string_vprintf over the abstract formatted text (stubs/C08_printf.h) */
#include "contracts/C08_printf.h"
int verif_exc; size_t g_fmt_len, g_fk, g_vk; char g_fch;
#include "x_vprintf.c"
void h_string_vprintf(void) {
  size_t in_len, in_k; char in_ch; verif_va_list va; const char* fmt; vstr* ret;
  g_fmt_len = in_len; g_fk = in_k; g_fch = in_ch; g_vk = in_k;
  string_vprintf(ret, fmt, va);
  VERIF_REACH();
}
