/* C11 TRUSTED stubs for the library calls of the escapers in src/Strings.cc (models with bodies, inlined):
 *
 *  c11_append_lit(s, lit, n)     std::string::operator+=(const char*) for a literal of n <= 2 characters
 *  c11_append_printf1(s, fmt, a) `s += phosg::string_printf(fmt, a)` (vsnprintf into a std::string) for exactly the two
 *                                formats the escapers use; ISO C 7.21.6.1:
 *                                  "\\x%02X"   '\\', 'x', then the unsigned int argument in upper-case hexadecimal,
 *                                              zero-padded to at least 2 digits (more digits if the value exceeds 0xFF --
 *                                              outside the model: assertion)
 *                                  "%%%02hhX"  '%', then the int argument converted to unsigned char, upper-case
 *                                              hexadecimal, zero-padded to 2 digits (always exactly 2)
 *                                any other format string: assertion failure (outside the model)
 *  c11_isalnum(c)                isalnum in the "C" locale for every value a `char` argument can take after integer
 *                                promotion (-128..255).  ISO C leaves isalnum(negative value other than EOF) undefined;
 *                                glibc defines it through a table covering -128..255 and classifies none of the values
 *                                outside 0..127 as alphanumeric in the "C" locale (phosg never calls setlocale). */
#ifndef STUBS_C11_STR_H
#define STUBS_C11_STR_H
#include "stubs/vstr.h"

#define C11_HEXDIGIT(v) ((char)((v) < 10 ? '0' + (v) : 'A' + ((v) - 10)))

static inline void c11_append_lit(vstr* s, const char* lit, size_t n) {
  __CPROVER_assert(n <= 2, "string literal longer than two characters (outside the model)");
  if (n >= 1) vstr_push_back(s, lit[0]);
  if (n >= 2) vstr_push_back(s, lit[1]);
}

static inline void c11_append_printf1(vstr* s, const char* fmt, int arg) {
  if (fmt[0] == '\\' && fmt[1] == 'x' && fmt[2] == '%' && fmt[3] == '0' && fmt[4] == '2' && fmt[5] == 'X' && fmt[6] == 0) {
    unsigned v = (unsigned)arg;
    __CPROVER_assert(v <= 0xFF, "%02X with an argument above 0xFF prints more than two digits (outside the model)");
    vstr_push_back(s, '\\'); vstr_push_back(s, 'x');
    vstr_push_back(s, C11_HEXDIGIT((v >> 4) & 15)); vstr_push_back(s, C11_HEXDIGIT(v & 15));
  } else if (fmt[0] == '%' && fmt[1] == '%' && fmt[2] == '%' && fmt[3] == '0' && fmt[4] == '2' && fmt[5] == 'h' && fmt[6] == 'h' && fmt[7] == 'X' && fmt[8] == 0) {
    unsigned v = (unsigned char)arg;
    vstr_push_back(s, '%');
    vstr_push_back(s, C11_HEXDIGIT((v >> 4) & 15)); vstr_push_back(s, C11_HEXDIGIT(v & 15));
  } else {
    __CPROVER_assert(0, "string_printf format string outside the model");
  }
}

static inline int c11_isalnum(int c) {
  __CPROVER_assert(c >= -128 && c <= 255, "isalnum argument outside -128..255");
  return (c >= '0' && c <= '9') || (c >= 'A' && c <= 'Z') || (c >= 'a' && c <= 'z');
}


/* ISO C 7.24.5.2 strchr / 7.24.5.1 memchr on a (constant) table string: the terminating NUL is part of the string for strchr */
static inline char* c11_strchr(const char* s, int c)
{
  for (size_t i = 0;; i++) {
    if (s[i] == (char)c) return (char*)(s + i);
    if (s[i] == 0) return 0;
  }
}
static inline void* c11_memchr(const void* s, int c, size_t n)
{
  for (size_t i = 0; i < n; i++) if (((const unsigned char*)s)[i] == (unsigned char)c) return (void*)((const char*)s + i);
  return 0;
}
#endif
