/* C17 side-car contracts for the single-value getters of phosg::Arguments (src/Arguments.hh; definitions are extracted,
 * exception-lowered text).
 *
 * Spec source: property C17 -- "Typed getters return the value iff the text is a complete numeral ... that fits ... or is a
 * complete floating-point literal, otherwise they throw invalid_argument (out_of_range or the supplied default when the
 * argument is absent), and assert_none_unused throws iff some supplied argument was never read."
 *
 * For the last clause a getter must mark exactly the argument it reads: `used` of the element it delivered becomes true,
 * every other flag keeps its value (ghost indices g_pk into positional, g_nj into the option's vector; ghost value idiom).
 *
 * "present": a positional index below positional.size(); an option name that is a key of `named` (g_present) -- its
 * vector g_vals has at least one element (class invariant: entries are created by named[k].emplace_back only).
 * An option given more than once has no single value; the statement does not say what a single-value getter does with
 * it, so for g_vals->size > 1 only the exception class and the frame are specified. */
#ifndef C17_GETTERS_H
#define C17_GETTERS_H
#include "contracts/C17_args.h"

extern bool g_pkused, g_njused;   /* ghost values: positional[g_pk].used / g_vals[g_nj].used at entry */

#define C17_GETTER_REQ(self) \
  __CPROVER_requires(__CPROVER_is_fresh(self, sizeof(Arguments))) \
  __CPROVER_requires((self)->positional.size <= C17_MAXVEC) \
  __CPROVER_requires(__CPROVER_is_fresh((self)->positional.data, (self)->positional.size * sizeof(ArgText))) \
  __CPROVER_requires(__CPROVER_is_fresh(g_vals, sizeof(ArgVec))) \
  __CPROVER_requires(g_vals->size >= 1 && g_vals->size <= C17_MAXVEC) \
  __CPROVER_requires(__CPROVER_is_fresh(g_vals->data, g_vals->size * sizeof(ArgText))) \
  __CPROVER_requires(g_pk < (self)->positional.size ==> (self)->positional.data[g_pk].used == g_pkused) \
  __CPROVER_requires(g_nj < g_vals->size ==> g_vals->data[g_nj].used == g_njused) \
  __CPROVER_requires(verif_exc == EXC_none)

#define C17_POS_FRAME(self, except) ((g_pk < (self)->positional.size && g_pk != (except)) ==> (self)->positional.data[g_pk].used == g_pkused)
#define C17_POS_FRAME_ALL(self) (g_pk < (self)->positional.size ==> (self)->positional.data[g_pk].used == g_pkused)
#define C17_NAMED_FRAME(except) ((g_nj < g_vals->size && g_nj != (except)) ==> g_vals->data[g_nj].used == g_njused)
#define C17_NAMED_FRAME_ALL (g_nj < g_vals->size ==> g_vals->data[g_nj].used == g_njused)
#define C17_SINGLE (g_present && g_vals->size == 1)

const vstr* Arguments_get_string_named(Arguments* self, const vstr* name, bool throw_if_missing)
C17_GETTER_REQ(self)
/* present with one value: that text, marked as read */
__CPROVER_ensures(C17_SINGLE ==> (verif_exc == EXC_none && __CPROVER_return_value == &g_vals->data[0].text && g_vals->data[0].used))
/* absent: out_of_range, or the empty string when the caller does not insist */
__CPROVER_ensures((!g_present && throw_if_missing) ==> verif_exc == EXC_out_of_range)
__CPROVER_ensures((!g_present && !throw_if_missing) ==> (verif_exc == EXC_none && __CPROVER_return_value == &C17_empty_string))
__CPROVER_ensures(verif_exc == EXC_none || verif_exc == EXC_out_of_range)
/* frame: nothing else is marked */
__CPROVER_ensures(C17_POS_FRAME_ALL(self))
__CPROVER_ensures(C17_SINGLE ? C17_NAMED_FRAME(0) : C17_NAMED_FRAME_ALL)
__CPROVER_assigns(verif_exc; g_present: g_vals->data[0].used);

const vstr* Arguments_get_string_pos(Arguments* self, size_t position, bool throw_if_missing)
C17_GETTER_REQ(self)
__CPROVER_ensures(position < self->positional.size ==>
                  (verif_exc == EXC_none && __CPROVER_return_value == &self->positional.data[position].text && self->positional.data[position].used))
__CPROVER_ensures((position >= self->positional.size && throw_if_missing) ==> verif_exc == EXC_out_of_range)
__CPROVER_ensures((position >= self->positional.size && !throw_if_missing) ==> (verif_exc == EXC_none && __CPROVER_return_value == &C17_empty_string))
__CPROVER_ensures(C17_POS_FRAME(self, position))
__CPROVER_ensures(C17_NAMED_FRAME_ALL)
__CPROVER_assigns(verif_exc; position < self->positional.size: self->positional.data[position].used);

/* flags: true iff the option was given (once); never throws */
bool Arguments_get_bool(Arguments* self, const vstr* id)
C17_GETTER_REQ(self)
__CPROVER_ensures(verif_exc == EXC_none)
__CPROVER_ensures(C17_SINGLE ==> (__CPROVER_return_value && g_vals->data[0].used))
__CPROVER_ensures(!g_present ==> !__CPROVER_return_value)
__CPROVER_ensures(C17_POS_FRAME_ALL(self))
__CPROVER_ensures(C17_SINGLE ? C17_NAMED_FRAME(0) : C17_NAMED_FRAME_ALL)
__CPROVER_assigns(verif_exc; g_present: g_vals->data[0].used);

/* all values of an option (get_multi iterates over it): the option's vector, or an empty vector when absent; never throws */
ArgVec* Arguments_get_values_multi(Arguments* self, const vstr* name)
C17_GETTER_REQ(self)
__CPROVER_ensures(verif_exc == EXC_none)
__CPROVER_ensures(g_present ? __CPROVER_return_value == g_vals : (__CPROVER_return_value == &C17_empty_vec && C17_empty_vec.size == 0))
__CPROVER_ensures(C17_POS_FRAME_ALL(self) && C17_NAMED_FRAME_ALL)
__CPROVER_assigns(verif_exc);


/* ---------------------------------------------------------------------------------------------------- get_multi<RetT>
 * -DC17_GM_KIND=0 std::string, 1 integral, 2 floating point.  The conversion of one value is abstract here (parse_int /
 * parse_float have their own groups): GM_PARSE yields, per element, either a value or invalid_argument; the outcome of the
 * observed element g_nj is (g_ok, g_val). */
#ifdef GM_NAME
extern bool g_ok; extern uint64_t g_val;
#if C17_GM_KIND == 2
#define C17_BITS(v) C17_dbits((double)(v))
static inline uint64_t C17_dbits(double d) { union { double d; uint64_t u; } x; x.d = d; return d != d ? 0x7FF8000000000000ull : x.u; }   /* NaN modulo payload */
#else
#define C17_BITS(v) (v)
#endif
#if C17_GM_KIND != 0
RetT GM_PARSE(const vstr* id, const vstr* text, int format)
__CPROVER_requires(verif_exc == EXC_none)
__CPROVER_ensures(verif_exc == EXC_none || verif_exc == EXC_invalid_argument)
__CPROVER_ensures((g_nj < g_vals->size && text == &g_vals->data[g_nj].text) ==> (verif_exc == (g_ok ? EXC_none : EXC_invalid_argument)))
__CPROVER_ensures((g_nj < g_vals->size && text == &g_vals->data[g_nj].text && g_ok) ==> (uint64_t)C17_BITS(__CPROVER_return_value) == g_val)
__CPROVER_assigns(verif_exc);
#define C17_GM_ELEM_OK (g_ok && g_out_written && g_out_val == g_val)
#define C17_GM_FORMAT , int format
#else
#define C17_GM_ELEM_OK (g_out_written && g_out_ptr == &g_vals->data[g_nj].text)
#define C17_GM_FORMAT
#endif
#if C17_GM_KIND != 1
#undef C17_GM_FORMAT
#define C17_GM_FORMAT
#endif

void GM_NAME(Arguments* self, C17_outvec* ret, const vstr* name C17_GM_FORMAT)
C17_GETTER_REQ(self)
__CPROVER_requires(__CPROVER_is_fresh(ret, sizeof(C17_outvec)))
__CPROVER_requires(ret->size == 0 && !g_out_written && C17_empty_vec.size == 0)
/* all values converted: one result per value, in order, every value marked read */
__CPROVER_ensures(verif_exc == EXC_none ==> ret->size == (g_present ? g_vals->size : 0))
__CPROVER_ensures((verif_exc == EXC_none && g_present && g_nj < g_vals->size) ==> (C17_GM_ELEM_OK && g_vals->data[g_nj].used))
/* otherwise invalid_argument, raised by the conversion of value g_wit_j, all values before it being valid (which of this
 * option's values count as read after the exception is not specified) */
__CPROVER_ensures(verif_exc == EXC_none || (verif_exc == EXC_invalid_argument && C17_GM_KIND != 0 && g_present && g_wit_j < g_vals->size))
__CPROVER_ensures((verif_exc != EXC_none && g_wit_j == g_nj) ==> !g_ok)
__CPROVER_ensures((verif_exc != EXC_none && g_nj < g_wit_j) ==> g_ok)
/* frame */
__CPROVER_ensures(!g_present ==> C17_NAMED_FRAME_ALL)
__CPROVER_ensures(C17_POS_FRAME_ALL(self))
__CPROVER_assigns(verif_exc, ret->size, g_out_written, g_out_val, g_out_ptr, g_wit_j; g_present: __CPROVER_object_whole(g_vals->data));
#endif

/* ------------------------------------------------------------------------------------------ typed single-value getters
 * One textual instantiation per group: RetT, IdentT (-DC17_IDENT_NAMED=1: option name, 0: positional index), and the case
 * split -DC17_CASE_PRESENT=1 (the argument exists; its text is any std::string, abstract numeral as in C17_parse.h) /
 * 0 (absent).  get<std::string> and parse_int / parse_float are replaced by their contracts (proved in their own groups). */
#ifdef GETTER_TYPED
#include "contracts/C17_parse.h"
#if C17_IDENT_NAMED
#define IdentT const vstr*
#define GET_STRING(self, id, f) Arguments_get_string_named(self, id, f)
#define ID_PTR(id) ((const void*)(id))
#define C17_PRESENT(self, id) g_present
#define C17_ELEM(self, id) (&g_vals->data[0])
/* the option was given once (a repeated option has no single value: not specified); positional is not touched.
 * The frame ("no other used flag changes") is the assigns clause here: one conditional target, checked by --dfcc. */
#define C17_IDENT_REQ(self) \
  __CPROVER_requires(__CPROVER_is_fresh(self, sizeof(Arguments))) \
  __CPROVER_requires(__CPROVER_is_fresh(g_vals, sizeof(ArgVec))) \
  __CPROVER_requires(g_vals->size == 1) \
  __CPROVER_requires(__CPROVER_is_fresh(g_vals->data, sizeof(ArgText)))
#else
#define IdentT size_t
#define GET_STRING(self, id, f) Arguments_get_string_pos(self, id, f)
#define ID_PTR(id) ((const void*)0)
#define C17_PRESENT(self, id) ((id) < (self)->positional.size)
#define C17_ELEM(self, id) (&(self)->positional.data[id])
#define C17_IDENT_REQ(self) \
  __CPROVER_requires(__CPROVER_is_fresh(self, sizeof(Arguments))) \
  __CPROVER_requires((self)->positional.size <= C17_MAXVEC) \
  __CPROVER_requires(__CPROVER_is_fresh((self)->positional.data, (self)->positional.size * sizeof(ArgText)))
#endif
#define C17_ETEXT(self, id) (&C17_ELEM(self, id)->text)

#if C17_CASE_PRESENT
#define C17_CASE_REQ(self, id) \
  __CPROVER_requires(C17_PRESENT(self, id)) \
  __CPROVER_requires(C17_ETEXT(self, id)->size < 0x10000 && C17_ETEXT(self, id)->cap == C17_ETEXT(self, id)->size + 1 && \
                     C17_ETEXT(self, id)->size == g_size && g_endoff <= g_size) \
  __CPROVER_requires(__CPROVER_is_fresh(C17_ETEXT(self, id)->data, C17_ETEXT(self, id)->cap)) \
  __CPROVER_requires(C17_ETEXT(self, id)->data[g_size] == 0 && C17_ETEXT(self, id)->data[g_endoff] == g_stopch) \
  C17_ARGV_REQ(C17_ETEXT(self, id))
#else
#define C17_CASE_REQ(self, id) __CPROVER_requires(!C17_PRESENT(self, id))
#endif
#define C17_TYPED_REQ(self, id) C17_IDENT_REQ(self) C17_CASE_REQ(self, id) __CPROVER_requires(verif_exc == EXC_none && g_ncalls == 0)
#define C17_TYPED_ASSIGNS(self, id) verif_exc, g_base, g_ncalls, verif_errno; C17_PRESENT(self, id): C17_ELEM(self, id)->used

#if !C17_FLOAT
/* get<RetT>(id, format) */
RetT GI_NAME(Arguments* self, IdentT id, int format)
C17_TYPED_REQ(self, id)
__CPROVER_requires(C17_FORMAT_VALID(format))
#if C17_CASE_PRESENT
__CPROVER_ensures(C17_DECIDED ==> ((verif_exc == EXC_none) == (C17_COMPLETE(C17_ETEXT(self, id)) && C17_FITS)))
__CPROVER_ensures(!C17_COMPLETE(C17_ETEXT(self, id)) ==> verif_exc == EXC_invalid_argument)
__CPROVER_ensures(verif_exc == EXC_none || verif_exc == EXC_invalid_argument)
__CPROVER_ensures((verif_exc == EXC_none && C17_DECIDED) ==> __CPROVER_return_value == C17_VALUE)
__CPROVER_ensures(g_base == C17_SPEC_BASE(format))
__CPROVER_ensures(verif_exc == EXC_none ==> C17_ELEM(self, id)->used)   /* a delivered argument counts as read (after invalid_argument: not specified) */
#else
__CPROVER_ensures(verif_exc == EXC_out_of_range)
#endif
__CPROVER_assigns(C17_TYPED_ASSIGNS(self, id));

/* get<RetT>(id, default_value, format) */
RetT GID_NAME(Arguments* self, IdentT id, RetT default_value, int format)
C17_TYPED_REQ(self, id)
__CPROVER_requires(C17_FORMAT_VALID(format))
#if C17_CASE_PRESENT
__CPROVER_ensures(C17_DECIDED ==> ((verif_exc == EXC_none) == (C17_COMPLETE(C17_ETEXT(self, id)) && C17_FITS)))
__CPROVER_ensures(!C17_COMPLETE(C17_ETEXT(self, id)) ==> verif_exc == EXC_invalid_argument)
__CPROVER_ensures(verif_exc == EXC_none || verif_exc == EXC_invalid_argument)
__CPROVER_ensures((verif_exc == EXC_none && C17_DECIDED) ==> __CPROVER_return_value == C17_VALUE)
__CPROVER_ensures(g_base == C17_SPEC_BASE(format))
__CPROVER_ensures(verif_exc == EXC_none ==> C17_ELEM(self, id)->used)
#else
__CPROVER_ensures(verif_exc == EXC_none && __CPROVER_return_value == default_value)      /* the supplied default */
#endif
__CPROVER_assigns(C17_TYPED_ASSIGNS(self, id));
#else
typedef C17_OPTIONAL(RetT) C17_OPT;
/* get<RetT>(id, std::optional<RetT> default_value) */
RetT GF_NAME(Arguments* self, IdentT id, C17_OPT default_value)
C17_TYPED_REQ(self, id)
#if C17_CASE_PRESENT
__CPROVER_ensures((verif_exc == EXC_none) == C17_COMPLETE(C17_ETEXT(self, id)))
__CPROVER_ensures(verif_exc == EXC_none || verif_exc == EXC_invalid_argument)
__CPROVER_ensures(verif_exc == EXC_none ==> C17_FEQ(__CPROVER_return_value, (RetT)g_fval))
__CPROVER_ensures(verif_exc == EXC_none ==> C17_ELEM(self, id)->used)
#else
__CPROVER_ensures(default_value.has_value ? (verif_exc == EXC_none && C17_FEQ(__CPROVER_return_value, default_value.value)) : verif_exc == EXC_out_of_range)
#endif
__CPROVER_assigns(C17_TYPED_ASSIGNS(self, id));
#endif
#endif

#endif
