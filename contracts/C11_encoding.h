/* C11 side-car contracts: base64_encode / base64_decode / rot13 (src/Encoding.cc).
 * std::string results are vstr out-parameters (empty on entry, capacity = "allocation succeeds").
 *
 * Structure of the proofs.  The whole functions are proved under loop contracts.  In addition each loop body (and each
 * branch of the encoder's tail) is extracted as a function of its own ("block", "tail1", "tail2") and proved against a
 * loop-free step contract (a wrong step then fails a postcondition of its own, with a replayable input).
 *
 * Universals are stated at ONE symbolic group/block index g_blk fixed by the caller before the call (ghost index idiom);
 * the caller supplies the octets of that group as ghost scalars (g_b*, g_c*), tied to the buffer by `requires`; all
 * specification macros (spec/C11_base64.h, RFC 4648) are evaluated over scalars only.  g_s0..g_s3 are the octets the
 * *current* block works on (set by a ghost statement right before the block is entered). */
#ifndef C11_ENCODING_H
#define C11_ENCODING_H
#include "stubs/vstr.h"
#include "spec/C11_base64.h"
#include "spec/C11_rot13.h"

#ifdef VERIF_SMALL            /* replay search: small buffers so that the counterexample can be replayed natively */
#define C11_MAXLEN 12
#else
#define C11_MAXLEN 0x1FFFFFFFFFFFull      /* 2^45-1: 4/3 * length stays below the cbmc object size limit */
#endif

extern const char DEFAULT_ALPHABET[];
extern const char URLSAFE_ALPHABET[];

/* ghosts (defined in the harness) */
extern int g_url;                          /* 1: RFC 4648 table 2 (URLSAFE_ALPHABET), 0: table 1 (default) */
extern size_t g_len;                       /* size of the input buffer (for the block functions) */
extern size_t g_blk;                       /* ghost group / block index */
extern uint8_t g_b0, g_b1, g_b2;           /* encode: the octets of input group g_blk */
extern char g_e0, g_e1, g_e2, g_e3;        /* encode: the characters RFC 4648 prescribes for group g_blk */
extern uint8_t g_c0, g_c1, g_c2, g_c3;     /* decode: the characters of input block g_blk */
extern uint8_t g_l2, g_l3;                 /* decode: the last two characters of the text */
extern uint8_t g_s0, g_s1, g_s2, g_s3;     /* the octets of the group / block being processed right now */
extern size_t g_wit;                       /* decode: offset of the block being examined when the exception was raised */
extern size_t g_q, g_i;                    /* encode: size / 3 and the number of loop iterations begun */
extern size_t g_k;                         /* rot13: ghost byte index */
extern char g_ch;                          /* rot13: the input byte at g_k */

#define ALPHA_REQ \
  __CPROVER_requires(alphabet == 0 || alphabet == DEFAULT_ALPHABET || alphabet == URLSAFE_ALPHABET) \
  __CPROVER_requires(g_url == (alphabet == URLSAFE_ALPHABET))
#define ALPHA_REQ_NONNULL \
  __CPROVER_requires(alphabet == DEFAULT_ALPHABET || alphabet == URLSAFE_ALPHABET) \
  __CPROVER_requires(g_url == (alphabet == URLSAFE_ALPHABET))
/* empty result string with enough capacity */
#define RET_REQ(need) \
  __CPROVER_requires(__CPROVER_is_fresh(ret, sizeof(vstr))) \
  __CPROVER_requires(ret->size == 0 && ret->cap <= VSTR_MAXCAP && ret->cap >= (need)) \
  __CPROVER_requires(__CPROVER_is_fresh(ret->data, ret->cap))
/* result string being appended to, room for `room` more characters */
/* an early `return string();`: the result is the empty string */
#define C11_RET_EMPTY(ret) ((ret)->size = 0)
#define RET_APPEND_REQ(room) \
  __CPROVER_requires(__CPROVER_is_fresh(ret, sizeof(vstr))) \
  __CPROVER_requires(ret->cap <= VSTR_MAXCAP && ret->size <= ret->cap && (room) <= ret->cap - ret->size) \
  __CPROVER_requires(__CPROVER_is_fresh(ret->data, ret->cap))
#define DATA_REQ(off, n) \
  __CPROVER_requires(g_len <= C11_MAXLEN) \
  __CPROVER_requires(__CPROVER_is_fresh(data, g_len)) \
  __CPROVER_requires((off) <= g_len && (n) <= g_len - (off))
/* appends only: earlier bytes of the string are not touched */
#define APPEND_ASSIGNS(...) __CPROVER_assigns(__VA_ARGS__ ret->size, __CPROVER_object_from(ret->data + ret->size))

/* C11_ENC_T / C11_DEC_T: the element type through which base64_encode / base64_decode read their input, as declared in the source
 * (x_b64_alphabets.h, written by the extraction); the specification always speaks about the OCTET value (uint8_t) of an input element */
/* ===============================================================================================================
 * base64_encode */

/* one complete 24-bit group -> four characters (loop body) */
void base64_encode_block(vstr* ret, const C11_ENC_T* data, size_t offset, const char* alphabet)
RET_APPEND_REQ(4)
DATA_REQ(offset, 3)
ALPHA_REQ_NONNULL
__CPROVER_requires(g_s0 == (uint8_t)data[offset] && g_s1 == (uint8_t)data[offset + 1] && g_s2 == (uint8_t)data[offset + 2])
__CPROVER_ensures(ret->size == __CPROVER_old(ret->size) + 4)
__CPROVER_ensures(ret->data[ret->size - 4] == B64_ENC0(g_s0, g_s1, g_s2, 3, g_url))
__CPROVER_ensures(ret->data[ret->size - 3] == B64_ENC1(g_s0, g_s1, g_s2, 3, g_url))
__CPROVER_ensures(ret->data[ret->size - 2] == B64_ENC2(g_s0, g_s1, g_s2, 3, g_url))
__CPROVER_ensures(ret->data[ret->size - 1] == B64_ENC3(g_s0, g_s1, g_s2, 3, g_url))
APPEND_ASSIGNS();

/* final quantum of 16 bits -> three characters and one '=' */
void base64_encode_tail2(vstr* ret, const C11_ENC_T* data, size_t end_offset, const char* alphabet)
RET_APPEND_REQ(4)
DATA_REQ(end_offset, 2)
ALPHA_REQ_NONNULL
__CPROVER_requires(g_s0 == (uint8_t)data[end_offset] && g_s1 == (uint8_t)data[end_offset + 1])
__CPROVER_ensures(ret->size == __CPROVER_old(ret->size) + 4)
__CPROVER_ensures(ret->data[ret->size - 4] == B64_ENC0(g_s0, g_s1, 0, 2, g_url))
__CPROVER_ensures(ret->data[ret->size - 3] == B64_ENC1(g_s0, g_s1, 0, 2, g_url))
__CPROVER_ensures(ret->data[ret->size - 2] == B64_ENC2(g_s0, g_s1, 0, 2, g_url))
__CPROVER_ensures(ret->data[ret->size - 1] == B64_ENC3(g_s0, g_s1, 0, 2, g_url))
APPEND_ASSIGNS();

/* final quantum of 8 bits -> two characters and "==" */
void base64_encode_tail1(vstr* ret, const C11_ENC_T* data, size_t end_offset, const char* alphabet)
RET_APPEND_REQ(4)
DATA_REQ(end_offset, 1)
ALPHA_REQ_NONNULL
__CPROVER_requires(g_s0 == (uint8_t)data[end_offset])
__CPROVER_ensures(ret->size == __CPROVER_old(ret->size) + 4)
__CPROVER_ensures(ret->data[ret->size - 4] == B64_ENC0(g_s0, 0, 0, 1, g_url))
__CPROVER_ensures(ret->data[ret->size - 3] == B64_ENC1(g_s0, 0, 0, 1, g_url))
__CPROVER_ensures(ret->data[ret->size - 2] == B64_ENC2(g_s0, 0, 0, 1, g_url))
__CPROVER_ensures(ret->data[ret->size - 1] == B64_ENC3(g_s0, 0, 0, 1, g_url))
APPEND_ASSIGNS();

/* whole function: result length 4*ceil(size/3); characters 4k..4k+3 are the RFC 4648 encoding of input group k.
 * g_e0..g_e3 are DEFINED by the requires clause below as the four characters RFC 4648 prescribes for group g_blk.
 * g_q == size / 3: groups 0 .. g_q-1 are complete (three octets); group g_q exists iff size % 3 != 0 and holds the
 * remaining one or two octets.  ENC_HAS: group g_blk exists;  ENC_N: the number of octets in it. */
#define ENC_REM  (size - 3 * g_q)
#define ENC_HAS  (g_blk < g_q || (g_blk == g_q && ENC_REM != 0))
#define ENC_N    (g_blk < g_q ? 3 : ENC_REM)
void base64_encode(vstr* ret, const void* vdata, size_t size, const char* alphabet)
RET_REQ(2 * size + 4)
__CPROVER_requires(size <= C11_MAXLEN && g_len == size && g_q == size / 3)
__CPROVER_requires(__CPROVER_is_fresh(vdata, size))
ALPHA_REQ
__CPROVER_requires(g_blk <= C11_MAXLEN)
__CPROVER_requires(ENC_HAS ==> g_b0 == ((const uint8_t*)vdata)[3 * g_blk + 0])
__CPROVER_requires((ENC_HAS && ENC_N >= 2) ==> g_b1 == ((const uint8_t*)vdata)[3 * g_blk + 1])
__CPROVER_requires((ENC_HAS && ENC_N >= 3) ==> g_b2 == ((const uint8_t*)vdata)[3 * g_blk + 2])
__CPROVER_requires(ENC_HAS ==> (g_e0 == B64_ENC0(g_b0, g_b1, g_b2, ENC_N, g_url) && g_e1 == B64_ENC1(g_b0, g_b1, g_b2, ENC_N, g_url) &&
                                g_e2 == B64_ENC2(g_b0, g_b1, g_b2, ENC_N, g_url) && g_e3 == B64_ENC3(g_b0, g_b1, g_b2, ENC_N, g_url)))
/* length: one block of four characters per group */
__CPROVER_ensures(ret->size == 4 * (g_q + (ENC_REM != 0 ? 1 : 0)))
__CPROVER_ensures(ENC_HAS ==> ret->data[4 * g_blk + 0] == g_e0)
__CPROVER_ensures(ENC_HAS ==> ret->data[4 * g_blk + 1] == g_e1)
__CPROVER_ensures(ENC_HAS ==> ret->data[4 * g_blk + 2] == g_e2)
__CPROVER_ensures(ENC_HAS ==> ret->data[4 * g_blk + 3] == g_e3)
__CPROVER_assigns(g_i, ret->size, __CPROVER_object_whole(ret->data));

/* ===============================================================================================================
 * base64_decode: strict inverse.
 *   no exception  <=>  size % 4 == 0  and every block is acceptable (B64_BLOCK_OK: four alphabet characters, or the
 *   last block of the form xx== / xxx=); the only exception is invalid_argument.
 *   "=>" : at the caller's block g_blk  (block not acceptable  ==>  exception)
 *   "<=" : an exception raised inside the loop names the block it was examining (g_wit); when that is the caller's
 *          block, the block is not acceptable (generalise over g_blk: the witness block is never acceptable).
 *   output: 3 octets per block, minus the padding of the last block; octets 3k.. are the RFC decoding of block k. */

/* one block of four characters (loop body).  The inverse table has to be right at the four characters looked up. */
#define BLK_LAST (offset == end_offset - 4)
#define BLK_OK   B64_BLOCK_OK(g_s0, g_s1, g_s2, g_s3, BLK_LAST, g_url)
void base64_decode_block(vstr* ret, const C11_DEC_T* data, size_t offset, size_t end_offset, const char* inverse_alphabet)
RET_APPEND_REQ(3)
DATA_REQ(offset, 4)
__CPROVER_requires(verif_exc == 0 && end_offset <= C11_MAXLEN)
__CPROVER_requires(__CPROVER_is_fresh(inverse_alphabet, 0x100))
__CPROVER_requires(g_s0 == (uint8_t)data[offset] && g_s1 == (uint8_t)data[offset + 1] && g_s2 == (uint8_t)data[offset + 2] && g_s3 == (uint8_t)data[offset + 3])
__CPROVER_requires((uint8_t)inverse_alphabet[g_s0] == B64_VAL(g_s0, g_url) && (uint8_t)inverse_alphabet[g_s1] == B64_VAL(g_s1, g_url))
__CPROVER_requires((uint8_t)inverse_alphabet[g_s2] == B64_VAL(g_s2, g_url) && (uint8_t)inverse_alphabet[g_s3] == B64_VAL(g_s3, g_url))
__CPROVER_ensures(BLK_OK ? verif_exc == 0 : verif_exc == EXC_invalid_argument)
__CPROVER_ensures(verif_exc == 0 ==> ret->size == __CPROVER_old(ret->size) + B64_NOUT(g_s2, g_s3))
__CPROVER_ensures(verif_exc == 0 ==> ret->data[__CPROVER_old(ret->size)] == (char)B64_DEC0(g_s0, g_s1, g_url))
__CPROVER_ensures((verif_exc == 0 && B64_NOUT(g_s2, g_s3) >= 2) ==> ret->data[__CPROVER_old(ret->size) + 1] == (char)B64_DEC1(g_s1, g_s2, g_url))
__CPROVER_ensures((verif_exc == 0 && B64_NOUT(g_s2, g_s3) >= 3) ==> ret->data[__CPROVER_old(ret->size) + 2] == (char)B64_DEC2(g_s2, g_s3, g_url))
APPEND_ASSIGNS(verif_exc,);

#define DEC_LAST (4 * g_blk + 4 == size)
#define DEC_OK   B64_BLOCK_OK(g_c0, g_c1, g_c2, g_c3, DEC_LAST, g_url)
#define DEC_NOUT B64_NOUT(g_c2, g_c3)
#define DEC_PADN (3 - B64_NOUT(g_l2, g_l3))      /* pad characters at the end of the whole text */

void base64_decode(vstr* ret, const void* vdata, size_t size, const char* alphabet)
RET_REQ(size)
__CPROVER_requires(size <= C11_MAXLEN && verif_exc == 0 && g_len == size)
__CPROVER_requires(__CPROVER_is_fresh(vdata, size))
ALPHA_REQ
__CPROVER_requires(g_blk <= C11_MAXLEN)
__CPROVER_requires(4 * g_blk + 0 < size ==> g_c0 == ((const uint8_t*)vdata)[4 * g_blk + 0])
__CPROVER_requires(4 * g_blk + 1 < size ==> g_c1 == ((const uint8_t*)vdata)[4 * g_blk + 1])
__CPROVER_requires(4 * g_blk + 2 < size ==> g_c2 == ((const uint8_t*)vdata)[4 * g_blk + 2])
__CPROVER_requires(4 * g_blk + 3 < size ==> g_c3 == ((const uint8_t*)vdata)[4 * g_blk + 3])
__CPROVER_requires(size >= 2 ==> (g_l2 == ((const uint8_t*)vdata)[size - 2] && g_l3 == ((const uint8_t*)vdata)[size - 1]))
__CPROVER_ensures(verif_exc == 0 || verif_exc == EXC_invalid_argument)
__CPROVER_ensures((size & 3) != 0 ==> verif_exc == EXC_invalid_argument)
__CPROVER_ensures(((size & 3) == 0 && 4 * g_blk < size && !DEC_OK) ==> verif_exc == EXC_invalid_argument)
__CPROVER_ensures((verif_exc != 0 && (size & 3) == 0) ==> ((g_wit & 3) == 0 && g_wit < size))
__CPROVER_ensures((verif_exc != 0 && (size & 3) == 0 && g_wit == 4 * g_blk) ==> !DEC_OK)
__CPROVER_ensures(verif_exc == 0 ==> ret->size == 3 * (size >> 2) - (size != 0 ? DEC_PADN : 0))
__CPROVER_ensures((verif_exc == 0 && 4 * g_blk < size) ==> ret->data[3 * g_blk] == (char)B64_DEC0(g_c0, g_c1, g_url))
__CPROVER_ensures((verif_exc == 0 && 4 * g_blk < size && DEC_NOUT >= 2) ==> ret->data[3 * g_blk + 1] == (char)B64_DEC1(g_c1, g_c2, g_url))
__CPROVER_ensures((verif_exc == 0 && 4 * g_blk < size && DEC_NOUT >= 3) ==> ret->data[3 * g_blk + 2] == (char)B64_DEC2(g_c2, g_c3, g_url))
__CPROVER_assigns(verif_exc, g_wit, ret->size, __CPROVER_object_whole(ret->data));

/* ===============================================================================================================
 * rot13: same length, byte k is ROT13_SPEC of input byte k */
void rot13(vstr* ret, const void* vdata, size_t size)
RET_REQ(size)
__CPROVER_requires(size <= C11_MAXLEN)
__CPROVER_requires(__CPROVER_is_fresh(vdata, size))
__CPROVER_requires(g_k < size ==> g_ch == ((const char*)vdata)[g_k])
__CPROVER_ensures(ret->size == size)
__CPROVER_ensures(g_k < size ==> ret->data[g_k] == ROT13_SPEC(g_ch))
__CPROVER_assigns(ret->size, __CPROVER_object_whole(ret->data));

#endif
