"""C09 -- data strings (format_data_string / parse_data_string) decode back; hex dump mostly not decidable here (DESIGN.md section 4, C09)."""
import re
from vf.extract import Source, Unit
from vf.lex import Rule, ExtractionBreak
from vf.pipeline import Group, Replay, ALL_LIB

ID = 'C09'
LEVEL = 'proof'
CC = 'src/Strings.cc'
HH = 'src/Strings.hh'

PARSE_SIG = r'string parse_data_string\(const string& s, string\* mask, uint64_t flags\)'
FORMAT_SIG = r'string format_data_string\(const void\* vdata, size_t size, const void\* vmask, uint64_t flags\)'


# --------------------------------------------------------------------------------------------------------- extraction
def enum_value(u, src, enum, name):
    """value of an enumerator, read from the header on every run"""
    v = u.snippet(src, HH, r'enum %s \{[^}]*?\b%s = (\w+),' % (enum, name), group=1)
    return '%s_%s = %s' % (enum, name, v)


HOST_BE = Rule(r'bool host_big_endian = (true|false);', r'enum { host_big_endian = \1 };', regex=True, count=2)


def parser_rules(ret_stmt, nret, whole):
    """std::string / libc uses of parse_data_string -> the string model (stubs/vstr.h, stubs/C09_str.h).  Purely type-directed;
    regexes so that edits of the operands still extract (and are then judged by the contracts)."""
    pre = [Rule('ParseDataFlags::ALLOW_FILES', 'ParseDataFlags_ALLOW_FILES', count=1), HOST_BE] if whole else []
    return pre + [
        Rule(r'data \+= load_file\(filename\);', 'C09_load_file(data, &filename); if (verif_exc) %s' % ret_stmt, regex=True, count=1),
        Rule(r'\bdata \+= ([^;]+);', r'vstr_push_back(data, \1);', regex=True, count='+'),
        Rule(r'\bdata\.append\(\(const char\*\)&value, ([^;]+)\);', r'C09_append_bytes(data, (const char*)&value, \1);', regex=True, count='+'),
        Rule(r'\bdata\.append\(1, ([^;]+)\);', r'vstr_push_back(data, \1);', regex=True, count='+'),
        Rule(r'\bdata\.size\(\)', 'vstr_size(data)', regex=True, count=2),
        Rule(r'\bstrtoull\(', 'C09_strtoull(', regex=True, count='+'),
        Rule(r'\bstrtod\(', 'C09_strtod(', regex=True, count='+'),
        Rule(r'\bstrtof\(', 'C09_strtof(', regex=True, count='+'),
        Rule(r'\bfilename\.append\(1, ([^;]+)\);', r'vstr_push_back(&filename, \1);', regex=True, count=1),
        Rule('filename.clear();', 'vstr_clear(&filename);', count=1),
        Rule(r'return data;', ret_stmt, count=nret),
    ]


def prelude_unit(ctx, src):
    u = Unit(ctx, 'c09_prelude')
    u.raw('#ifndef X_C09_PRELUDE\n#define X_C09_PRELUDE')
    u.raw('#include "stubs/C09_str.h"\n#include "contracts/C09_glue.h"\n')
    u.raw('enum { %s, %s };' % (enum_value(u, src, 'ParseDataFlags', 'ALLOW_FILES'), enum_value(u, src, 'FormatDataFlags', 'SKIP_STRINGS')))
    u.raw(u.snippet(src, 'src/Platform.hh', r'#if defined\(__BYTE_ORDER__\) && \(__BYTE_ORDER__ == __ORDER_LITTLE_ENDIAN__\).*?\n#endif'))
    u.function(src, CC, r'static inline void add_mask_bits\(string\* mask, bool mask_enabled, size_t num_bytes\)',
               new_header='static inline void add_mask_bits(vstr* mask, bool mask_enabled, size_t num_bytes)',
               rules=[Rule(r'mask->append\(', 'C09_append_fill(mask, ', regex=True, count=1)])
    u.raw('#endif')
    u.write()
    return u


PARSE_LOOP = """
__CPROVER_assigns(in, chr, reading_string, reading_unicode_string, reading_comment, reading_multiline_comment, reading_high_nybble,
                  reading_filename, big_endian, mask_enabled, filename.size, verif_exc,
                  g_st_calls, g_st_arg, g_st_end, g_st_base, g_st_kind, g_num, g_dbl, g_flt, g_load_calls,
                  data->size, __CPROVER_object_whole(data->data);
                  mask != 0: mask->size, __CPROVER_object_whole(mask->data))
__CPROVER_loop_invariant(__CPROVER_same_object(in, s) && __CPROVER_POINTER_OFFSET(in) <= s_size)
__CPROVER_loop_invariant(verif_exc == 0 && !reading_filename && g_load_calls == 0)
__CPROVER_loop_invariant(PDS_MODES_OK(reading_comment, reading_multiline_comment, reading_string, reading_unicode_string))
__CPROVER_loop_invariant(PDS_NYBBLE_OK(reading_high_nybble, chr))
__CPROVER_loop_invariant(data->size <= 4 * (size_t)__CPROVER_POINTER_OFFSET(in))
__CPROVER_loop_invariant(mask != 0 ==> mask->size == data->size)
__CPROVER_loop_invariant((mask != 0 && g_vk < mask->size) ==> PDS_IS_MASK_BYTE(mask->data[g_vk]))
__CPROVER_decreases(s_size - (size_t)__CPROVER_POINTER_OFFSET(in))
"""


def parse_unit(ctx, src):
    """the whole parser, loop contract on its single loop (totality: memory safety, termination, no exception)"""
    u = Unit(ctx, 'pds_full')
    u.function(src, CC, PARSE_SIG,
               new_header='void parse_data_string(vstr* data, const char* s, size_t s_size, vstr* mask, uint64_t flags)',
               rules=parser_rules('return;', 3, True) + [
                   Rule(r'const char\* in = s\.c_str\(\);', 'const char* in = s;', regex=True, count=1),
                   Rule('string data;', '', count=1),
                   Rule('mask->clear();', 'vstr_clear(mask);', count=1),
                   Rule('string filename;', 'vstr filename = { 0, 0, 0 };', count=1)],
               body_prefix=' g_end = s + s_size; ', nloops=1, loops={1: PARSE_LOOP})
    u.write()
    return u


def step_unit(ctx, src):
    """one iteration of the parser's loop as a function over the parser state (file-scope variables declared in
    contracts/C09_glue.h under PDS_STATE_GLOBALS): the transition function the per-construct contracts talk about"""
    u = Unit(ctx, 'pds_step')
    u.raw(u.snippet(src, CC, r'#ifdef PHOSG_BIG_ENDIAN\s*constexpr bool host_big_endian = true;\s*#else\s*constexpr bool host_big_endian = false;\s*#endif',
                    rules=[HOST_BE]))
    # the state variables the loop body works on are exactly the locals declared between the function start and the loop
    decl = u.snippet(src, CC, r'uint8_t chr = 0;\s*bool reading_string = false;\s*bool reading_unicode_string = false;\s*bool reading_comment = false;\s*'
                              r'bool reading_multiline_comment = false;\s*bool reading_high_nybble = true;\s*bool reading_filename = false;\s*'
                              r'bool big_endian = false;\s*bool mask_enabled = true;\s*string filename;\s*while \(in\[0\]\)')
    u.raw('/* initial parser state, from the declarations in front of the loop */\n#define PDS_INIT_STATE() do { %s } while (0)'
          % ' '.join(re.sub(r'^(?:uint8_t|bool) ', '', d.strip()) + ';' for d in decl.split(';')[:9]))
    u.block(src, CC, PARSE_SIG, r'while \(in\[0\]\)', new_header='void pds_step(void)',
            rules=parser_rules('{ g_returned = 1; return; }', 2, False))
    u.write()
    return u


FMT_RULES = [
    Rule('FormatDataFlags::SKIP_STRINGS', 'FormatDataFlags_SKIP_STRINGS', count=None),
    Rule(r"\bret \+= ('(?:[^'\\]|\\.)+');", r'vstr_push_back(ret, \1);', regex=True, count=None),
    Rule(r'\bret \+= ("(?:[^"\\]|\\.)*");', r'C09_append_lit(ret, \1, sizeof(\1) - 1);', regex=True, count=None),
    Rule(r'\bret\.push_back\(', 'vstr_push_back(ret, ', regex=True, count=None),
    Rule(r'\bret \+= string_printf\(("[^"]*"), ', r'C09_append_printf_hex(ret, \1, ', regex=True, count=None),
]

FMT_LOOP1 = """
__CPROVER_assigns(z, is_printable, g_w)
__CPROVER_loop_invariant(z <= size)
__CPROVER_loop_invariant(is_printable ==> (g_k < z ==> FDS_PRINTABLE(data[g_k])))
__CPROVER_loop_invariant(!is_printable ==> (g_w < size && !FDS_PRINTABLE(data[g_w])))
__CPROVER_decreases(size - z)
"""
FMT_LOOP2 = """
__CPROVER_assigns(x, mask_enabled, ret->size, __CPROVER_object_whole(ret->data))
__CPROVER_loop_invariant(x <= size && ret->size >= 1 && ret->size <= 1 + 5 * x && (mask == 0 ==> ret->size <= 1 + 2 * x))
__CPROVER_loop_invariant(ret->data[0] == '"')
__CPROVER_decreases(size - x)
"""
FMT_LOOP3 = """
__CPROVER_assigns(x, mask_enabled, ret->size, __CPROVER_object_whole(ret->data))
__CPROVER_loop_invariant(x <= size && ret->size >= 2 * x && ret->size <= 3 * x && (mask == 0 ==> ret->size == 2 * x))
__CPROVER_decreases(size - x)
"""

QUOTED_INTRO = r"ret \+= '[^']*';\s*for \(size_t x = 0; x < size; x\+\+\)"
HEX_INTRO = r"\} else \{\s*for \(size_t x = 0; x < size; x\+\+\)"


def format_unit(ctx, src):
    u = Unit(ctx, 'fds_full')
    u.function(src, CC, FORMAT_SIG,
               new_header='void format_data_string(vstr* ret, const void* vdata, size_t size, const void* vmask, uint64_t flags)',
               rules=FMT_RULES + [
                   Rule('string ret;', 'g_quoted = is_printable;', count=1),
                   Rule(r'is_printable = false;', '{ g_w = z; is_printable = false; }', count=1),
                   Rule('return ret;', 'return;', count=1)],
               nloops=3, loops={1: FMT_LOOP1, 2: FMT_LOOP2, 3: FMT_LOOP3})
    # every use of the result string must have been rewritten to a model call (ret as a pointer argument only)
    if re.search(r'\bret\s*(\+=|\.)', u.parts[-1]):
        raise ExtractionBreak('format_data_string: unrewritten uses of the result string')
    u.write()
    return u


def fstep_unit(ctx, src):
    """the bodies of the two rendering loops as functions: what the formatter emits for ONE byte"""
    u = Unit(ctx, 'fds_step')
    me = Rule(r'\bmask_enabled\b', '(*mask_enabled_p)', regex=True, count='+')
    hdr = 'static inline void %s(vstr* ret, const uint8_t* data, const uint8_t* mask, size_t x, bool* mask_enabled_p)'
    u.block(src, CC, FORMAT_SIG, QUOTED_INTRO, new_header=hdr % 'fds_quoted_step', rules=FMT_RULES + [me])
    u.block(src, CC, FORMAT_SIG, HEX_INTRO, new_header=hdr % 'fds_hex_step', rules=FMT_RULES + [me])
    u.write()
    return u


def plan(ctx):
    src = Source(ctx.src)
    from props import C03 as c03
    leaf = c03.leaf_unit(ctx, src)
    leaf.write()
    upre = prelude_unit(ctx, src)
    up = parse_unit(ctx, src)
    us = step_unit(ctx, src)
    uf = format_unit(ctx, src)
    ufs = fstep_unit(ctx, src)
    ctx.functions_under_contract = up.functions + us.functions + uf.functions + ufs.functions
    groups = []
    RT = lambda mode: Replay(driver='C09/datastring.cc', mode=mode, sources=ALL_LIB)
    for mn, d in (('mask', []), ('nomask', ['MASK_NULL'])):
        groups.append(Group(name='parse_data_string.totality[%s]' % mn, harness='harness/C09/parse.c', entry='h_parse', function='parse_data_string',
                            enforce='parse_data_string', loops=True, kind='loop-contract', defines=d, timeout=600, object_bits=12,
                            replay=RT('parse_total')))
    for mn, d in (('mask', []), ('nomask', ['MASK_NULL'])):
        groups.append(Group(name='parse_data_string.step[%s]' % mn, harness='harness/C09/step.c', entry='h_step', function='parse_data_string (loop body)',
                            enforce='pds_step', replace=['C09_append_bytes', 'C09_append_fill'], defines=d, timeout=300, object_bits=12, engines=['minisat', 'cadical'], min_post=10,
                            replay=RT('step')))
    return groups
