/* C06: P7 header loop (termination, rejection of truncated headers, acceptance and meaning of well-formed headers) */
#include "contracts/C06_p7.h"
int verif_exc; size_t g_rem;
uint64_t g_hw, g_hh, g_hmax, g_hdepth; uint8_t g_htup, g_hdepth_seen, g_hwell, g_hend; int g_hfirst;
#include "x_p7_header.c"
void h_p7_header(void) {
  size_t in_rem; g_rem = in_rem;
  C6FILE* f; size_t *w, *h, *d; uint64_t* mv; C6Format* fmt;
  uint64_t in_w0, in_h0, in_m0; g_hw = in_w0; g_hh = in_h0; g_hmax = in_m0; g_htup = 0; g_hdepth_seen = 0; g_hwell = 1; g_hend = 0; g_hfirst = 0;
  Image_load_p7_header(f, w, h, mv, d, fmt);
  VERIF_REACH();
}
