// C05 native replay: runs the REAL phosg::JSON::parse on a small text reconstructed from a verifier counterexample and
// evaluates the property's postconditions natively against an independent reference parser written from RFC 8259
// (+ the four documented extensions of src/JSON.hh for the default mode).
//   driver text  in_de=0|1 g_b0=.. ... g_b7=.. g_len=N            -- the input bytes themselves (leaf scanners, entry points)
//   driver list|dict  in_de=0|1 g_nt=N g_tok=0xHEX               -- abstract token stream of a container (children abstract)
//   driver number|string ...                                     -- as text, plus the witness texts of that branch
//   driver witness                                                 -- fixed witness texts for the known defect classes
// exit 1 = a postcondition of the property is violated on the real code, 0 = holds, 2 = usage.
#include <errno.h>
#include <cmath>
#include <memory>
#include <stdexcept>
#include <string>
#include <vector>

#include "JSON.hh"
#include "Strings.hh"
#include "replay/common/args.hh"

using namespace std;
using namespace phosg;

// ---------------------------------------------------------------------------------------------- reference parser
struct RV {
  enum K { NUL, BOOL, INT, FLT, STR, LIST, DICT } k = NUL;
  bool b = false;
  int64_t i = 0;
  double d = 0;
  string s;
  vector<RV> items;
  vector<pair<string, RV>> members;
};
struct RefFail {
  bool truncated;
};

struct Ref {
  const string& t;
  size_t p = 0;
  bool ext;            // accept the documented extensions (default mode)
  bool used_ext = false;
  bool out_of_range_number = false;   // number outside int64 / double range: outside the statement
  bool used_x_escape = false;         // \x escape: undocumented extension, reported as an observation only
  Ref(const string& t, bool ext) : t(t), ext(ext) {}

  [[noreturn]] void fail() { throw RefFail{p >= t.size()}; }
  int peek() const { return p < t.size() ? (unsigned char)t[p] : -1; }
  void ws() {
    for (;;) {
      int c = peek();
      if (c == ' ' || c == '\t' || c == '\r' || c == '\n') {
        p++;
      } else if (ext && c == '/' && p + 1 < t.size() && t[p + 1] == '/') {
        used_ext = true;
        while (p < t.size() && t[p] != '\n' && t[p] != '\r') p++;
      } else {
        return;
      }
    }
  }
  static int hexv(int c) {
    if (c >= '0' && c <= '9') return c - '0';
    if (c >= 'a' && c <= 'f') return c - 'a' + 10;
    if (c >= 'A' && c <= 'F') return c - 'A' + 10;
    return -1;
  }
  RV value() {
    ws();
    int c = peek();
    RV v;
    if (c == '{') {
      p++;
      v.k = RV::DICT;
      ws();
      if (peek() == '}') { p++; return v; }
      for (;;) {
        ws();
        if (peek() != '"') fail();
        RV key = value();
        ws();
        if (peek() != ':') fail();
        p++;
        RV val = value();
        v.members.emplace_back(key.s, val);
        ws();
        if (peek() == ',') {
          p++;
          ws();
          if (ext && peek() == '}') { used_ext = true; p++; return v; }
          continue;
        }
        if (peek() == '}') { p++; return v; }
        fail();
      }
    } else if (c == '[') {
      p++;
      v.k = RV::LIST;
      ws();
      if (peek() == ']') { p++; return v; }
      for (;;) {
        v.items.push_back(value());
        ws();
        if (peek() == ',') {
          p++;
          ws();
          if (ext && peek() == ']') { used_ext = true; p++; return v; }
          continue;
        }
        if (peek() == ']') { p++; return v; }
        fail();
      }
    } else if (c == '"') {
      p++;
      v.k = RV::STR;
      for (;;) {
        int ch = peek();
        if (ch < 0) fail();
        p++;
        if (ch == '"') return v;
        if (ch != '\\') { v.s.push_back((char)ch); continue; }
        int e = peek();
        if (e < 0) fail();
        p++;
        switch (e) {
          case '"': v.s.push_back('"'); break;
          case '\\': v.s.push_back('\\'); break;
          case '/': v.s.push_back('/'); break;
          case 'b': v.s.push_back('\b'); break;
          case 'f': v.s.push_back('\f'); break;
          case 'n': v.s.push_back('\n'); break;
          case 'r': v.s.push_back('\r'); break;
          case 't': v.s.push_back('\t'); break;
          case 'x': {   // not RFC 8259, not documented: observation only
            used_x_escape = true;
            int a = hexv(peek()); if (a < 0) fail(); p++;
            int b = hexv(peek()); if (b < 0) fail(); p++;
            v.s.push_back((char)(a * 16 + b));
            break;
          }
          case 'u': {
            int x = 0;
            for (int k = 0; k < 4; k++) { int h = hexv(peek()); if (h < 0) fail(); p++; x = x * 16 + h; }
            if (x > 0xFF) { out_of_range_number = true; fail(); }   // outside the statement (\u up to U+00FF)
            v.s.push_back((char)x);
            break;
          }
          default: p--; fail();
        }
      }
    } else if (c == '-' || (c >= '0' && c <= '9')) {
      size_t s = p;
      bool neg = false;
      if (c == '-') { neg = true; p++; }
      if (ext && peek() == '0' && p + 2 < t.size() + 0 && t[p + 1] == 'x' && hexv((unsigned char)t[p + 2]) >= 0) {
        used_ext = true;
        p += 2;
        uint64_t acc = 0; int nd = 0;
        while (hexv(peek()) >= 0) { acc = (acc << 4) | hexv(peek()); p++; nd++; }
        if (nd > 15) out_of_range_number = true;
        v.k = RV::INT; v.i = neg ? -(int64_t)acc : (int64_t)acc;
        return v;
      }
      if (peek() == '0') { p++; }
      else if (peek() >= '1' && peek() <= '9') { while (peek() >= '0' && peek() <= '9') p++; }
      else fail();
      bool isint = true;
      if (peek() == '.') { size_t q = p + 1; if (q < t.size() && t[q] >= '0' && t[q] <= '9') { isint = false; p = q; while (peek() >= '0' && peek() <= '9') p++; } else { p++; fail(); } }
      if (peek() == 'e' || peek() == 'E') {
        size_t q = p + 1;
        if (q < t.size() && (t[q] == '+' || t[q] == '-')) q++;
        if (q < t.size() && t[q] >= '0' && t[q] <= '9') { isint = false; p = q; while (peek() >= '0' && peek() <= '9') p++; } else { p = q; fail(); }
      }
      string num = t.substr(s, p - s);
      if (isint) {
        // an integer numeral inside the int64 range is that integer; outside it (still a number in double range, e.g.
        // 100000000000000000000) it cannot be an int64 and must not wrap around: the value a reference parser gives it, as a float
        errno = 0;
        long long iv = strtoll(num.c_str(), nullptr, 10);
        if (errno == ERANGE) {
          v.k = RV::FLT; v.d = strtod(num.c_str(), nullptr);
          if (!std::isfinite(v.d)) out_of_range_number = true;
        } else {
          v.k = RV::INT; v.i = iv;
        }
      } else {
        v.k = RV::FLT; v.d = strtod(num.c_str(), nullptr);
        if (!std::isfinite(v.d)) out_of_range_number = true;
      }
      return v;
    } else if (t.compare(p, 4, "null") == 0) { p += 4; v.k = RV::NUL; return v;
    } else if (t.compare(p, 4, "true") == 0) { p += 4; v.k = RV::BOOL; v.b = true; return v;
    } else if (t.compare(p, 5, "false") == 0) { p += 5; v.k = RV::BOOL; v.b = false; return v;
    } else if (ext && (c == 'n' || c == 't' || c == 'f')) {
      used_ext = true; p++;
      if (c == 'n') v.k = RV::NUL; else { v.k = RV::BOOL; v.b = (c == 't'); }
      return v;
    }
    fail();
  }
};

static bool same(const RV& a, const JSON& j, string& why) {
  switch (a.k) {
    case RV::NUL: if (!j.is_null()) { why = "expected null"; return false; } return true;
    case RV::BOOL: if (!j.is_bool() || j.as_bool() != a.b) { why = "expected bool"; return false; } return true;
    case RV::INT: if (!j.is_int() || j.as_int() != a.i) { why = "expected the integer " + to_string(a.i) + ", got " + j.serialize(); return false; } return true;
    case RV::FLT:
      if (!j.is_float()) { why = "expected a float (" + to_string(a.d) + "), got the " + string(j.is_int() ? "integer " : "value ") + j.serialize(); return false; }
      if (fabs(j.as_float() - a.d) > 1e-6 * fabs(a.d) + 1e-320) { why = "float value differs (not part of the proof; native oracle only)"; return false; }
      return true;
    case RV::STR: if (!j.is_string() || j.as_string() != a.s) { why = "expected the string '" + a.s + "'"; return false; } return true;
    case RV::LIST:
      if (!j.is_list() || j.size() != a.items.size()) { why = "expected a list of " + to_string(a.items.size()); return false; }
      for (size_t k = 0; k < a.items.size(); k++) if (!same(a.items[k], j.at(k), why)) return false;
      return true;
    case RV::DICT: {
      if (!j.is_dict()) { why = "expected a dict"; return false; }
      for (auto& m : a.members) {
        bool dup = false;
        for (auto& m2 : a.members) if (&m2 != &m && m2.first == m.first) dup = true;
        if (dup) continue;   // duplicate keys: RFC leaves the result open
        try { if (!same(m.second, j.at(m.first), why)) return false; } catch (const out_of_range&) { why = "missing key " + m.first; return false; }
      }
      return true;
    }
  }
  return false;
}

enum Outcome { OK, PARSE_ERROR, OUT_OF_RANGE, OTHER };
static const char* oname(Outcome o) { return o == OK ? "value" : o == PARSE_ERROR ? "parse_error" : o == OUT_OF_RANGE ? "out_of_range" : "UNDOCUMENTED EXCEPTION"; }

struct Real { Outcome o; JSON v; string what; size_t consumed = 0; };
static Real run_string(const string& text, bool de) {
  Real r;
  try { r.v = JSON::parse(text, de); r.o = OK; }      // std::string overload (a literal would select (const char*, size_t, bool))
  catch (const JSON::parse_error& e) { r.o = PARSE_ERROR; r.what = e.what(); }
  catch (const out_of_range& e) { r.o = OUT_OF_RANGE; r.what = e.what(); }
  catch (const exception& e) { r.o = OTHER; r.what = string(typeid(e).name()) + ": " + e.what(); }
  catch (...) { r.o = OTHER; r.what = "non-std exception"; }
  return r;
}
static Real run_reader(const string& text, bool de) {
  Real r;
  StringReader sr(text.data(), text.size());
  try { r.v = JSON::parse(sr, de); r.o = OK; }
  catch (const JSON::parse_error& e) { r.o = PARSE_ERROR; r.what = e.what(); }
  catch (const out_of_range& e) { r.o = OUT_OF_RANGE; r.what = e.what(); }
  catch (const exception& e) { r.o = OTHER; r.what = string(typeid(e).name()) + ": " + e.what(); }
  catch (...) { r.o = OTHER; r.what = "non-std exception"; }
  r.consumed = sr.where();
  return r;
}

static string show(const string& t) {
  string s;
  for (unsigned char c : t) { if (c >= 0x20 && c < 0x7F) s.push_back(c); else { char b[8]; snprintf(b, sizeof b, "\\x%02X", c); s += b; } }
  return s;
}

// all top-level clauses of the statement on one text; returns 1 on a violation
static bool g_quiet = false;
static int check_text(const string& text) {
  int bad = 0;
  // reference, strict RFC 8259
  bool ref_ok = false, ref_in_range = true; RV rv; size_t ref_extent = 0; bool ref_whole = false;
  {
    Ref ref(text, false);
    try { rv = ref.value(); ref_ok = true; ref_extent = ref.p; ref.ws(); ref_whole = ref.p == text.size(); } catch (const RefFail&) {}
    ref_in_range = !ref.out_of_range_number && !ref.used_x_escape;
  }
  // reference, RFC + documented extensions
  bool ext_ok = false, ext_used = false, ext_in_range = true; RV ev; bool ext_whole = false;
  {
    Ref ref(text, true);
    try { ev = ref.value(); ext_ok = true; ref.ws(); ext_whole = ref.p == text.size(); } catch (const RefFail&) {}
    ext_used = ref.used_ext; ext_in_range = !ref.out_of_range_number && !ref.used_x_escape;
  }
  for (int de = 0; de <= 1; de++) {
    Real rs = run_string(text, de);
    Real rr = run_reader(text, de);
    const char* mode = de ? "strict" : "default";
    if (!g_quiet) printf("text '%s' (%zu bytes) %s: string entry -> %s %s; reader entry -> %s, consumed %zu\n", show(text).c_str(), text.size(), mode, oname(rs.o),
           rs.o == OK ? rs.v.serialize().c_str() : rs.what.c_str(), oname(rr.o), rr.consumed);
    if (rs.o == OTHER || rr.o == OTHER) {
      printf("POSTCONDITION VIOLATED on the real code: only parse_error / out_of_range may escape; got %s\n", (rs.o == OTHER ? rs : rr).what.c_str());
      bad = 1;
    }
    if (rr.consumed > text.size()) { printf("POSTCONDITION VIOLATED on the real code: cursor beyond the end\n"); bad = 1; }
    if (ref_ok && ref_whole && ref_in_range) {      // a standard-compliant document
      string why;
      if (rs.o != OK) { printf("POSTCONDITION VIOLATED on the real code: standard-compliant document rejected in %s mode (%s)\n", mode, oname(rs.o)); bad = 1; }
      else if (!same(rv, rs.v, why)) { printf("POSTCONDITION VIOLATED on the real code: %s mode yields a different value than the reference parser: %s\n", mode, why.c_str()); bad = 1; }
      if (rr.o == OK && rr.consumed != ref_extent && !(ref_extent < text.size() && rr.consumed > ref_extent && text.find_first_not_of(" \t\r\n", ref_extent) == string::npos)) {
        printf("POSTCONDITION VIOLATED on the real code: reader entry consumed %zu bytes, the value's extent is %zu\n", rr.consumed, ref_extent); bad = 1;
      }
    }
    // string entry = reader entry + "only whitespace (and, with extensions, comments) may follow"
    if (rr.o == OK && rr.consumed <= text.size()) {
      Ref tail(text, !de);
      tail.p = rr.consumed;
      tail.ws();
      bool only_ws = tail.p == text.size();
      bool lone_slash = !de && tail.p + 1 == text.size() && text[tail.p] == '/';      // observation: look-ahead of the comment scanner throws out_of_range
      if (!only_ws && rs.o == OK) { printf("POSTCONDITION VIOLATED on the real code: trailing data after a value accepted by the string entry point in %s mode\n", mode); bad = 1; }
      if (!only_ws && rs.o != PARSE_ERROR && rs.o != OK && !lone_slash) { printf("POSTCONDITION VIOLATED on the real code: trailing data rejected with %s instead of parse_error\n", oname(rs.o)); bad = 1; }
      if (only_ws && rs.o != OK) { printf("POSTCONDITION VIOLATED on the real code: string entry point rejects (%s) although only whitespace follows the value\n", oname(rs.o)); bad = 1; }
    }
    if (de && rr.o == OK && !ref_ok && ext_ok && ext_used && ext_in_range) {
      printf("POSTCONDITION VIOLATED on the real code: strict mode (reader entry) accepts a value that needs a documented extension\n"); bad = 1;
    }
    if (ext_ok && ext_whole && ext_used && ext_in_range) {     // uses a documented extension
      if (de && rs.o == OK) { printf("POSTCONDITION VIOLATED on the real code: strict mode accepts a documented extension\n"); bad = 1; }
      string why;
      if (!de && rs.o != OK) { printf("POSTCONDITION VIOLATED on the real code: default mode rejects a documented extension (%s)\n", oname(rs.o)); bad = 1; }
      else if (!de && !same(ev, rs.v, why)) { printf("POSTCONDITION VIOLATED on the real code: default mode gives an extension a different meaning: %s\n", why.c_str()); bad = 1; }
    }
  }
  return bad;
}

// containers: g_nt = number of tokens of the iteration | DFA state at the loop head << 8; g_tok = those tokens, 4 bits each, oldest first
static string from_tokens(uint64_t tok, int packed, bool dict) {
  int nt = packed & 0xFF, hq = (packed >> 8) & 0xFF;
  string t;
  // a well-formed prefix that brings the parser to the state of the loop head (1 = after the opening bracket, 3 = after a comma, 5 = bad separator)
  if (hq == 1) t = dict ? "{" : "[";
  else if (hq == 3) t = dict ? "{\"k\":1," : "[1,";
  else if (hq == 5) t = dict ? "{\"k\":1x" : "[1x";
  if (nt > 16) nt = 16;
  int prev = 0;
  for (int k = nt - 1; k >= 0; k--) {
    int code = (tok >> (4 * k)) & 0xF;
    switch (code) {
      case 1: t += dict ? "{" : "["; break;
      case 2: t += dict ? "}" : "]"; break;
      case 3: t += ","; break;
      case 4: t += ":"; break;
      case 5: t += "1"; break;
      case 6: t += "\"k\""; break;
      case 7: t += "x"; break;
      case 8: return t;
      case 9: if (!(prev == 2 || prev == 3 || prev == 4 || prev == 8)) t += "?"; break;   // a child called AT a structural byte fails without consuming
      default: break;
    }
    prev = code;
  }
  return t;
}

int main(int argc, char** argv) {
  Args a(argc, argv);
  vector<string> texts;
  if (a.mode == "text" || a.mode == "number" || a.mode == "string") {
    // the eight input bytes of the VERIF_SMALL counterexample.  The length may be missing from the trace (formula slicing drops ghosts no
    // obligation depends on) and callees are abstracted by their contracts in the proof (e.g. the whitespace scanner in the dispatcher
    // group), so the value may start at a later cursor than the bytes in front of it justify: every sub-range of the bytes is a candidate
    string all;
    for (size_t k = 0; k < 8; k++) { char nm[8]; snprintf(nm, sizeof nm, "g_b%zu", k); all.push_back((char)a.u(nm)); }
    size_t n = a.has("in_size") ? a.u("in_size") : a.has("g_len") ? a.u("g_len") : 8;
    if (n > 8) n = 8;
    texts.push_back(all.substr(0, n));
    for (size_t len = 8; len >= 1; len--)
      for (size_t k = 0; k + len <= 8; k++) { string s = all.substr(k, len); bool dup = false; for (auto& x : texts) dup |= x == s; if (!dup) texts.push_back(s); }
    // counterexamples of loop-contract proofs pass through havocked loop states: the bytes need not drive the real code down the
    // same path; the witness texts of the defect classes of this branch are tried as well
    if (a.mode == "number") for (const char* w : {"5e-1", "1E+2", "1e30", "-2.5e3", "0x1F", "-0", "12.5", "100000000000000000000", "9223372036854775808", "-9223372036854775809", "-9223372036854775808", "9223372036854775807", "18446744073709551616", "3e-308", "2.2250738585072014e-308", "1e308", "1.5e-310", "7e-300"}) texts.push_back(w);
    if (a.mode == "string") for (const char* w : {"\"\\n\"", "\"\\u00e9\"", "\"\\u0100\"", "\"\\q\"", "\"a\\/b\""}) texts.push_back(w);
  } else if (a.mode == "list" || a.mode == "dict") {
    string t = from_tokens(a.u("g_tok"), (int)a.u("g_nt"), a.mode == "dict");
    // the trace ends where the obligation failed: the text is also tried with continuations that complete the document
    if (!t.empty())
      for (const char* tail : {"", "}", "]", "2}", "2]", ":2}", "\"k\":2}", "1]"}) {
        string u = t + tail;
        texts.push_back(u);
        // the same stream with blanks between the tokens (whitespace is allowed at every token boundary)
        string s; for (char c : u) { s.push_back(c); if (c != '"' && c != 'k') s.push_back(' '); } texts.push_back(s);
      }
    if (texts.empty()) texts = a.mode == "dict" ? vector<string>{"{}", "{ }", "{1:2}", "{\"a\":1,}", "{\"a\":1}"} : vector<string>{"[]", "[ ]", "[1,]", "[1]"};
    // white space at every token boundary of a small document (also between a key and its colon, which the token texts above leave out)
    if (a.mode == "dict") for (const char* w : {"{\"k\" : 2}", "{ \"k\" :2 }", "{\"k\"\n:\t2}", "{\"k\":2 ,\"j\" : [ ] }", "[{\"k\" : {}}]"}) texts.push_back(w);
    else for (const char* w : {"[1 , 2]", "[ 1 ,2 ]", "[\n1\t,\r2 ]"}) texts.push_back(w);
  } else if (a.mode == "selftest") {
    // development aid: random short texts over a JSON-ish alphabet; on a tree without the defects the oracle must stay silent
    const char alpha[] = "[]{},:\"\\ \n/0123456789-+.eExabcdfntrulsXF";
    uint64_t s = a.u("seed", 1);
    for (uint64_t k = 0; k < a.u("count", 20000); k++) {
      s = s * 6364136223846793005ull + 1442695040888963407ull;
      size_t len = (s >> 33) % 9;
      string x;
      uint64_t q = s;
      for (size_t j = 0; j < len; j++) { q = q * 6364136223846793005ull + 1442695040888963407ull; x.push_back(alpha[(q >> 33) % (sizeof(alpha) - 1)]); }
      texts.push_back(x);
    }
  } else if (a.mode == "witness") {
    texts = {"{}", "[]", "5e-1", "1E+2", "{1:2}", "1e30"};
  } else {
    fprintf(stderr, "unknown mode %s\n", a.mode.c_str());
    return 2;
  }
  int bad = 0;
  g_quiet = a.mode == "selftest";
  for (auto& t : texts) { int b = check_text(t); if (b && g_quiet) printf("  ^ text '%s'\n", show(t).c_str()); bad |= b; }
  return bad;
}
