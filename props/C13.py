"""C13 -- KDTree equals a brute-force multiset under any insert/erase history (DESIGN.md section 4, C13).

Bounded only (shape-enumerated): for every tree shape with <= 3 (quick) / <= 4 (thorough) nodes, concrete pointers built
from indices, symbolic coordinates constrained only by the ordering invariant of the shape, symbolic values and operation
arguments, every operation is run once on the extracted text and compared with a linear scan over the entry list.
"""
import re

from vf.extract import Source, Unit
from vf.lex import Rule, ExtractionBreak
from vf.pipeline import Group, Replay

ID = 'C13'
LEVEL = 'other'
EXPLANATION = (
    'Bounded, shape-enumerated check; nothing is proved for unbounded trees. The invariant of a k-d tree is an inductive predicate '
    'over an unbounded heap structure and delete_node rewrites an unbounded path; cbmc has no inductive heap predicates, so no '
    'function contract over "any tree" can be stated. Instead: for EVERY binary tree shape with <= 3 nodes (quick: empty + 8 shapes, all '
    'operations; plus delete_node on the 14 four-node shapes) and <= 4 nodes (thorough: all operations on the 14 four-node shapes) the real text of KDTree (cut from src/KDTree-inl.hh on every run, instantiated as '
    'KDTree<Vector2<int16_t>, int>, in thorough also Vector3<int16_t> and Vector2<int64_t>) is executed symbolically ONCE per '
    '(shape, operation) from an arbitrary state of that shape: pointers are built from indices, all coordinates and values are '
    'symbolic and constrained only by the ordering invariant (before: strictly smaller on the split axis, after_or_equal: the rest), '
    'so every tie pattern and every duplicate pattern of that size is covered; operation arguments (point, value, query box, '
    'erase decisions during iteration) are symbolic. After the operation the harness checks, against a plain entry list: the '
    'representation invariant again (parent links, dim = depth mod k, node_count, ordering, no dangling or leaked node) -- so '
    'every check is one inductive step from an arbitrary invariant state of that size --, the multiset of entries (through a '
    'symbolic probe entry), return values, size(), at/exists == linear scan, within / exists(low,high) == linear scan, iteration '
    'and iteration+erase_advance visit every entry exactly once, the destructor frees every node exactly once and touches no freed '
    'or null node. Loops are unwound to the shape size with unwinding assertions.')
TRUSTED = [
    'stubs/C13_deque.h: std::deque<Node*> as a bounded FIFO (capacity asserted)',
    'stubs/C13_pair.h: std::pair / std::make_pair / the std::vector<pair> returned by within() as a bounded array (capacity asserted)',
    'stubs/C13_pool.h: new Node / delete as a registry of malloc objects with a ghost state (live / freed) per node',
    'harness/C13/kd.c: the brute-force list model, the representation-invariant checker and the shape builder (specification)',
    'props/C13.py: lowering of the Node constructor initialiser list to assignments, of try/catch in exists(pt) to goto + flag, '
    'of reference parameters to pointers and of the returned Iterator / vector to out-parameters',
]
ASSUMPTIONS = [
    'the pre-state of every check is an arbitrary tree of the enumerated shape that satisfies the representation invariant '
    '(assumed on the symbolic coordinates; this is the induction hypothesis, the same predicate is asserted on the post-state)',
    'allocation never fails (cbmc --no-malloc-may-fail); std::bad_alloc is not modelled',
    'coordinates are int16_t (quick) -- the template only compares coordinates (<, >, >=, ==), so the width only changes the '
    'comparator size; thorough repeats the <= 3-node shapes with int64_t and with the 3-D point type',
    'ValueType = int (copy-assignable scalar); std::move of a value is a copy',
]
DROPS = ('template instantiation by macro (CoordType = Vector2/Vector3 of T, ValueType = int); references -> pointers; returned '
         'Iterator and vector -> out-parameter; std::deque / vector / pair -> stubs; new/delete -> node pool stub; throw -> verif_exc '
         'flag; try/catch -> goto + flag; const-qualification of methods dropped; emplace(), depth(), count_subtree(), collect_into() '
         'are not extracted (not part of the statement)')
NOT_DECIDED = [
    'trees with more than 4 nodes (3 in the quick tier): nothing is proved for them; the per-shape checks are inductive steps for '
    'trees of the enumerated sizes only',
    'histories are covered only through the invariant (one step from any invariant state of the bounded size), not as sequences',
    'value types with non-trivial copy/move/destructor, allocation failure, KDTree::emplace (does not compile when instantiated: '
    'std::forward(args) without template argument)',
    'point types other than Vector2/Vector3 over a signed integer',
]
CLAIMED = True

KD = 'src/KDTree-inl.hh'
KDH = 'src/KDTree.hh'
VI = 'src/Vector-inl.hh'
VH = 'src/Vector.hh'
K = r'KDTree<CoordType, ValueType>::'

# ---- rewrite rules shared by the member functions -------------------------------------------------------------------------

def R(pat, rep, count='+'):
    return Rule(pat, rep, count=count, regex=True)


AT_REF = R(r'(?<![>\w.])(pt|low|high)\.at\(', r'COORD_AT(\1, ')
AT_NODE = R(r'\b(\w+)->pt\.at\(', r'COORD_AT(&\1->pt, ')
DIMS_CALL = R(r'\bCoordType::dimensions\(\)', 'COORD_DIMS()')
# a local work list of node pointers, std::deque<Node*> or std::vector<Node*>, default- or fill-constructed (type-directed:
# the same sequence stub serves both; front/pop_front and back/pop_back are both modelled)
DQ_DECL = R(r'\b(?:deque|vector)<Node\*> (\w+)(?:\(([^;()]*)\))?;',
            lambda mo: 'vdeque %s; vdeque_init(&%s);' % (mo.group(1), mo.group(1)) + (' vdeque_fill(&%s, %s);' % (mo.group(1), mo.group(2)) if mo.group(2) else ''), count=1)
DQ_GET = R(r'((?:\w+->)?\w+)\.(front|pop_front|back|pop_back|empty|size)\(\)', r'vdeque_\2(&\1)')
DQ_PUT = R(r'((?:\w+->)?\w+)\.(?:emplace_back|push_back)\(', r'vdeque_emplace_back(&\1, ')
DQ = [DQ_DECL, DQ_GET, DQ_PUT]
PT_EQ = R(r'\bn->pt == pt\b', 'COORD_EQ(&n->pt, pt)', count=1)
DELETE = R(r'\bdelete n;', 'node_delete(n);', count=1)
CALL_DELETE_NODE = R(r'\bself->delete_node\(', 'KDTree_delete_node(self, ', count=1)


class LowerTry:
    """try { B } catch (const T&) { H }  ->  { B' goto verif_end; } verif_catch: if (verif_exc == EXC_T) { verif_exc = 0; H }
    else { return 0; } verif_end: ;   where B' has `if (verif_exc) goto verif_catch;` after every call of a may-throw callee."""
    count = 1

    def __init__(self, callee_pat, callee_rep):
        self.pat = 'try/catch lowering'
        self.callee_pat, self.callee_rep = callee_pat, callee_rep

    def apply(self, text, where=''):
        mo = re.search(r'\btry\s*\{(.*?)\}\s*catch\s*\(\s*const (\w+)&\s*\w*\)\s*\{(.*?)\}', text, re.S)
        if not mo or len(re.findall(r'\btry\b', text)) != 1 or len(re.findall(r'\bcatch\b', text)) != 1:
            raise ExtractionBreak('%s: expected exactly one `try { } catch (const T&) { }`' % where)
        b, n = re.subn(self.callee_pat, self.callee_rep + ' if (verif_exc) goto verif_catch;', mo.group(1))
        if n != 1:
            raise ExtractionBreak('%s: expected one may-throw call in the try block, found %d' % (where, n))
        rep = ('{%s goto verif_end; }\n  verif_catch:\n  if (verif_exc == EXC_%s) { verif_exc = 0; %s }\n  else { return 0; }\n  verif_end: ;'
               % (b, mo.group(2), mo.group(3)))
        return text[:mo.start()] + rep + text[mo.end():]


def build_unit(ctx, src, nd):
    """The whole KDTree<Vector{nd}<T>, ValueType> as one C file x_kd{nd}.c (T, ValueType are macros of the harness)."""
    V = 'Vector%d' % nd
    u = Unit(ctx, 'kd%d' % nd)
    u.raw('#include <stdint.h>\n#include <stddef.h>\n#include <stdbool.h>\n#include "stubs/C13_deque.h"')
    # -- the point type: data members, at(), operator==, dimensions() ------------------------------------------------------
    members = u.snippet(src, VH, r'struct %s \{(.*?)\n\s*%s\(\);' % (V, V), group=1)
    if not re.fullmatch(r'(\s*union \{(\s*T \w+;)+\s*\};)+\s*', members) or len(re.findall(r'\bunion\b', members)) != nd:
        raise ExtractionBreak('%s is no longer %d anonymous unions of T' % (V, nd))
    u.raw('typedef struct %s {%s\n} %s;' % (V, members, V))
    u.raw('#define CoordType %s\n#define COORD_AT(p, d) %s_at((p), (d))\n#define COORD_EQ(a, b) %s_eq((a), (b))\n'
          '#define COORD_DIMS() %s_dimensions()' % (V, V, V, V))
    u.function(src, VI, r'T %s<T>::at\(size_t dim\) const' % V, new_header='static inline T %s_at(const %s* self, size_t dim)' % (V, V),
               rules=[R(r'\(this\)', '(self)', count=1)])
    u.function(src, VI, r'bool %s<T>::operator==\(const %s<T>& other\) const' % (V, V),
               new_header='static inline bool %s_eq(const %s* self, const %s* other)' % (V, V, V),
               rules=[R(r'\bother\.', 'other->')])
    u.function(src, VI, r'size_t %s<T>::dimensions\(\)' % V, new_header='static inline size_t %s_dimensions(void)' % V)
    u.raw('#include "stubs/C13_pair.h"')
    # -- Node / KDTree / Iterator layouts -----------------------------------------------------------------------------------
    nm = u.snippet(src, KDH, r'struct Node \{(.*?)\n\s*Node\(Node\* parent', group=1, rules=[Rule('Node*', 'struct Node*', count=3)])
    fields = re.findall(r'(\w+);', nm)
    if fields != ['pt', 'dim', 'before', 'after_or_equal', 'parent', 'value']:
        raise ExtractionBreak('KDTree::Node has fields %r' % fields)
    u.raw('struct Node {%s\n};\ntypedef struct Node Node;' % nm)
    tm = u.snippet(src, KDH, r'\n\s*(Node\* root;\s*size_t node_count;)\s*\n', group=1)
    u.raw('typedef struct KDTree { %s } KDTree;' % tm)
    im = u.snippet(src, KDH, r'private:\s*(std::deque<Node\*> pending;\s*std::pair<CoordType, ValueType> current;)\s*friend class KDTree;',
                   group=1, rules=[Rule('deque<Node*>', 'vdeque', count=1), Rule('pair<CoordType, ValueType>', 'Pair', count=1)])
    u.raw('typedef struct Iterator { %s } Iterator;' % im)
    u.raw('#include "stubs/C13_pool.h"')
    # -- Node(const CoordType& pt, Args&&... args): initialiser list -> assignments ----------------------------------------
    il = u.snippet(src, KD, r'Node::Node\(\s*const CoordType& pt, Args&&\.\.\. args\)\s*:\s*(.*?)\{\s*\}', group=1,
                   rules=[Rule('forward<Args>(args)...', '*v', count=1), R(r'\bpt\(pt\)', 'pt(*pt)', count=1)])
    inits = re.findall(r'(\w+)\(([^()]*)\)\s*(?:,|$)', il.strip())
    if [f for f, _ in inits] != fields:
        raise ExtractionBreak('Node constructor initialises %r, fields are %r' % ([f for f, _ in inits], fields))
    u.raw('static inline Node* Node_new(const CoordType* pt, const ValueType* v)\n{\n  Node* n = node_alloc();\n%s  return n;\n}'
          % ''.join('  n->%s = %s;\n' % (f, e) for f, e in inits))
    u.functions.append({'file': KD, 'cxx_header': 'Node::Node(const CoordType& pt, Args&&... args) : ...', 'line': 0,
                        'c_header': 'Node* Node_new(const CoordType* pt, const ValueType* v)'})
    # -- member functions ---------------------------------------------------------------------------------------------------
    H = dict(
        dtor='void KDTree_dtor(KDTree* self)',
        insert='void KDTree_insert(KDTree* self, const CoordType* pt, const ValueType* v, Iterator* ret)',
        link_node='void KDTree_link_node(KDTree* self, Node* new_node)',
        erase='bool KDTree_erase(KDTree* self, const CoordType* pt, const ValueType* v)',
        erase_advance='void KDTree_erase_advance(KDTree* self, Iterator* it)',
        at='const ValueType* KDTree_at(const KDTree* self, const CoordType* pt)',
        exists='bool KDTree_exists(const KDTree* self, const CoordType* pt)',
        within='void KDTree_within(const KDTree* self, const CoordType* low, const CoordType* high, vvec* ret)',
        exists_range='bool KDTree_exists_range(const KDTree* self, const CoordType* low, const CoordType* high)',
        size='size_t KDTree_size(const KDTree* self)',
        delete_node='bool KDTree_delete_node(KDTree* self, Node* n)',
        find_subtree_min_max='Node* KDTree_find_subtree_min_max(Node* n, size_t target_dim, bool find_max)',
        it_ctor='void Iterator_ctor(Iterator* self, Node* n)',
        it_preinc='Iterator* Iterator_preinc(Iterator* self)',
        it_eq='bool Iterator_eq(const Iterator* self, const Iterator* other)',
        it_ne='bool Iterator_ne(const Iterator* self, const Iterator* other)',
        it_deref='const Pair* Iterator_deref(const Iterator* self)',
        it_arrow='const Pair* Iterator_arrow(const Iterator* self)',
        it_postinc='Iterator Iterator_postinc(Iterator* self)',
        begin='void KDTree_begin(const KDTree* self, Iterator* ret)',
        end='void KDTree_end(const KDTree* self, Iterator* ret)',
    )
    for h in H.values():
        u.raw(h + ';')
    u.function(src, KD, K + r'~KDTree\(\)', new_header=H['dtor'], rules=DQ + [DELETE], nloops=1)
    u.function(src, KD, K + r'insert\(const CoordType& pt, const ValueType& v\)', new_header=H['insert'],
               rules=[R(r'\bnew Node\(pt, v\)', 'Node_new(pt, v)', count=1), R(r'\bself->link_node\(', 'KDTree_link_node(self, ', count=1),
                      R(r'\breturn Iterator\(n\);', 'Iterator_ctor(ret, n); return;', count=1)])
    u.function(src, KD, r'void ' + K + r'link_node\(Node\* new_node\)', new_header=H['link_node'],
               rules=[AT_NODE, DIMS_CALL], nloops=1)
    u.function(src, KD, r'bool ' + K + r'erase\(\s*const CoordType& pt, const ValueType& v\)', new_header=H['erase'],
               rules=[PT_EQ, R(r'\bn->value (==|!=) v\b', r'n->value \1 *v', count=None), CALL_DELETE_NODE, AT_REF, AT_NODE], nloops=1)
    u.function(src, KD, r'void ' + K + r'erase_advance\(Iterator& it\)', new_header=H['erase_advance'],
               rules=[R(r'\bit\.', 'it->'), DQ_GET, CALL_DELETE_NODE])
    u.function(src, KD, r'const ValueType& ' + K + r'at\(\s*const CoordType& pt\) const', new_header=H['at'], ret_zero='0',
               rules=[PT_EQ, R(r'\breturn n->value;', 'return &n->value;', count=1), AT_REF, AT_NODE], nloops=1)
    u.function(src, KD, r'bool ' + K + r'exists\(const CoordType& pt\) const', new_header=H['exists'],
               rules=[LowerTry(r'\bself->at\(pt\);', 'KDTree_at(self, pt);')])
    u.function(src, KD, K + r'within\(\s*const CoordType& low, const CoordType& high\) const', new_header=H['within'], ret_zero='',
               rules=[R(r'\bvector<pair<CoordType, ValueType>> ret;', 'vvec_init(ret);', count=1),
                      R(r'\breturn ret;', 'return;'), R(r'\bret\.emplace_back\(', 'vvec_emplace_back(ret, ', count=1),
                      AT_REF, AT_NODE, DIMS_CALL] + DQ, nloops=2)
    u.function(src, KD, r'bool ' + K + r'exists\(const CoordType& low,\s*const CoordType& high\) const', new_header=H['exists_range'],
               rules=[AT_REF, AT_NODE, DIMS_CALL] + DQ, nloops=2)
    u.function(src, KD, r'size_t ' + K + r'size\(\) const', new_header=H['size'])
    u.function(src, KD, r'bool ' + K + r'delete_node\(Node\* n\)', new_header=H['delete_node'], ret_zero='0',
               rules=[R(r'\bKDTree::find_subtree_min_max\(', 'KDTree_find_subtree_min_max('),
                      R(r'\bmove\((\w+->value)\)', r'\1', count=1), DELETE], nloops=1)
    u.function(src, KD, K + r'find_subtree_min_max\(Node\* n,\s*size_t target_dim, bool find_max\)',
               new_header=H['find_subtree_min_max'], rules=DQ + [AT_NODE], nloops=1)
    u.function(src, KD, K + r'Iterator::Iterator\(Node\* n\)', new_header=H['it_ctor'], rules=[DQ_PUT],
               body_prefix=' vdeque_init(&self->pending); ')
    u.function(src, KD, K + r'Iterator::operator\+\+\(\)', new_header=H['it_preinc'],
               rules=[DQ_GET, DQ_PUT, R(r'\breturn \*this;', 'return self;', count=1)])
    u.function(src, KD, r'bool ' + K + r'Iterator::operator==\(\s*const Iterator& other\) const', new_header=H['it_eq'],
               rules=[R(r'\bother\.', 'other->'), DQ_GET])
    u.function(src, KD, r'bool ' + K + r'Iterator::operator!=\(\s*const Iterator& other\) const', new_header=H['it_ne'],
               rules=[R(r'\bself->operator==\(other\)', 'Iterator_eq(self, other)', count=1)])
    u.function(src, KD, K + r'Iterator::operator\*\(\) const', new_header=H['it_deref'],
               rules=[R(r'\breturn self->current;', 'return &self->current;', count=1)])
    u.function(src, KD, K + r'Iterator::operator->\(\) const', new_header=H['it_arrow'],
               rules=[R(r'\breturn &self->current;', 'return &self->current;', count=1)])
    u.function(src, KD, K + r'Iterator::operator\+\+\(int\)', new_header=H['it_postinc'],
               rules=[R(r'\*this\b', '*self', count=1), R(r'\bself->operator\+\+\(\)', 'Iterator_preinc(self)', count=1)])
    u.function(src, KD, K + r'begin\(\) const', new_header=H['begin'],
               rules=[R(r'\breturn Iterator\(self->root\);', 'Iterator_ctor(ret, self->root); return;', count=1)])
    u.function(src, KD, K + r'end\(\) const', new_header=H['end'],
               rules=[R(r'\breturn Iterator\(0\);', 'Iterator_ctor(ret, 0); return;', count=1)])
    u.write()
    return u


# ---- shapes -------------------------------------------------------------------------------------------------------------

def shapes(n):
    """All binary tree shapes with n nodes as (parent[], side[]) in breadth-first numbering (parent index < child index)."""
    def gen(k):
        if k == 0:
            return [None]
        out = []
        for l in range(k):
            for a in gen(l):
                for b in gen(k - 1 - l):
                    out.append((a, b))
        return out
    if n == 0:
        return [([], [])]
    res = []
    for t in gen(n):
        parent, side = [], []
        queue = [(t, -1, 0)]
        while queue:
            node, p, s = queue.pop(0)
            i = len(parent)
            parent.append(p)
            side.append(s)
            if node[0] is not None:
                queue.append((node[0], i, 0))
            if node[1] is not None:
                queue.append((node[1], i, 1))
        res.append((parent, side))
    return res


def shape_name(parent, side):
    """e.g. 'n3.b(b,a)': root with a before-child that has two children"""
    n = len(parent)
    if n == 0:
        return 'n0'
    def sub(i):
        ch = [j for j in range(n) if parent[j] == i]
        if not ch:
            return ''
        return '(' + ','.join(('b' if side[j] == 0 else 'a') + sub(j) for j in ch) + ')'
    return 'n%d.r%s' % (n, sub(0))


def shape_defines(parent, side, nd):
    n = len(parent)
    depth = []
    for i in range(n):
        depth.append(0 if parent[i] < 0 else depth[parent[i]] + 1)
    arr = lambda xs: '{' + ','.join(str(x) for x in list(xs) + [-1]) + '}'
    return ['SHAPE_N=%d' % n, 'SHAPE_PARENT=' + arr(parent), 'SHAPE_SIDE=' + arr(side),
            'SHAPE_DIM=' + arr(d % nd for d in depth), 'DIMS=%d' % nd, 'KD_UNIT="x_kd%d.c"' % nd]


HARNESS = 'harness/C13/kd.c'
NOTE = ('harness/C13/kd.c: post-state satisfies the representation invariant, multiset of entries / return value / query result '
        'equal the linear scan over the entry list')


def groups_for(parent, side, nd, coord, tier, tag=''):
    n = len(parent)
    nm = shape_name(parent, side)
    inst = 'V%d<%s>' % (nd, coord) + tag
    base = shape_defines(parent, side, nd) + ['COORD_T=' + coord]
    extra = ['dims=%d' % nd, 'n=%d' % n, 'coord_bits=%d' % (64 if coord == 'int64_t' else 16), 'shape_parent=' + ','.join(str(x) for x in parent + [-1]),
             'shape_side=' + ','.join(str(x) for x in side + [-1])]
    unwind = str(max(n + 4, 5))
    out = []

    # delete_node and the breadth-first search inside it: at most n-1 replacements / n-1 visited nodes; a tight per-loop bound
    # (instead of the global one) divides the formula size by 4 (measured on the 4-node chain)
    tight = 'KDTree_delete_node.0:%d,KDTree_find_subtree_min_max.0:%d' % (max(n + 1, 2), max(n + 1, 2))

    def G(op, fn, entry, defs=(), t=tier, timeout=300 if n < 4 else 900, mode=None):
        flags = ['--unwind', unwind, '--unwinding-assertions', '--no-malloc-may-fail']
        if entry in ('h_delete_node', 'h_erase', 'h_erase_advance'):
            flags += ['--unwindset', tight]
        g = Group(name='KDTree[%s].%s.%s' % (inst, nm, op), harness=HARNESS, entry=entry, function=fn,
                  defines=base + list(defs), kind='bounded',
                  bound='tree shape %s (%d nodes), %d-D %s coordinates, loops unwound %s times (delete_node / find_subtree_min_max: %d) '
                        'with unwinding assertions' % (nm, n, nd, coord, unwind, max(n + 1, 2)),
                  cbmc_flags=flags,
                  timeout=timeout, engines=['cadical', 'minisat'], first='cadical', stage1=90, tier=t, clause_note=NOTE,
                  replay=Replay(driver='C13/kdtree.cc', mode=mode or op.split('[')[0], extra=extra + [d.lower() for d in defs if d.startswith(('DEL_K', 'ER_MASK'))]))
        out.append(g)

    G('insert', 'KDTree::insert / link_node', 'h_insert')
    for k in range(n):
        G('delete_node[%d]' % k, 'KDTree::delete_node / find_subtree_min_max', 'h_delete_node', ['DEL_K=%d' % k])
    G('erase', 'KDTree::erase', 'h_erase')
    G('at', 'KDTree::at', 'h_at')
    G('exists', 'KDTree::exists(pt)', 'h_exists')
    G('within', 'KDTree::within', 'h_within')
    G('exists_range', 'KDTree::exists(low, high)', 'h_exists_range')
    G('iterate', 'KDTree::begin / end / Iterator::operator++ / ++(int) / == / != / * / ->', 'h_iterate')
    # iteration with erase_advance: one group per erase pattern (bit s = erase the entry visited at step s); with symbolic
    # decisions the same check needs > 300 s already for 3 nodes, the 2^n concrete patterns take < 1 s each
    for mask in range(1 << n):
        G('erase_advance[%s]' % ''.join('e' if (mask >> s) & 1 else '-' for s in range(n)), 'KDTree::erase_advance + iteration',
          'h_erase_advance', ['ER_MASK=%d' % mask])
    G('destroy', 'KDTree::~KDTree', 'h_destroy')
    return out


def plan(ctx):
    src = Source(ctx.src)
    u2 = build_unit(ctx, src, 2)
    ctx.functions_under_contract = list(u2.functions)
    groups = []
    for n in range(0, 4):
        for parent, side in shapes(n):
            groups += groups_for(parent, side, 2, 'int16_t', 'quick')
    # 4-node shapes: delete_node in the quick tier (the pruning of find_subtree_min_max only matters from depth 3 on), every other
    # operation in the thorough tier
    for parent, side in shapes(4):
        for g in groups_for(parent, side, 2, 'int16_t', 'thorough'):
            if '.delete_node[' in g.name:
                g.tier = 'quick'
            groups.append(g)
    if ctx.tier == 'thorough':
        u3 = build_unit(ctx, src, 3)
        ctx.functions_under_contract += [f for f in u3.functions if 'Vector3' in f['c_header']]
        for n in range(0, 4):
            for parent, side in shapes(n):
                groups += groups_for(parent, side, 3, 'int16_t', 'thorough')
                groups += groups_for(parent, side, 2, 'int64_t', 'thorough')
    return groups


MANIFEST = dict(
    category='other',
    text=('BOUNDED ONLY, nothing is proved for trees of unbounded size. The text of KDTree (insert/link_node, erase, delete_node, '
          'find_subtree_min_max, at, exists, within, exists(low,high), erase_advance, Iterator ctor/++/++(int)/==/!=/*/->, begin/end, size, ~KDTree) and of '
          'Vector2/Vector3::at/==/dimensions is cut from /repo/src on every run, instantiated as KDTree<Vector2<int16_t>, int> and executed '
          'symbolically by cbmc once per (tree shape, operation): every binary tree shape with <= 3 nodes (empty tree + 8 shapes; all operations) and, '
          'for delete_node, every shape with 4 nodes (14 shapes) in the quick tier; thorough adds all operations on the 14 four-node shapes and repeats '
          'the <= 3-node shapes with Vector3<int16_t> and Vector2<int64_t>. Pointers of the pre-state are built from indices; ALL coordinates and values '
          'are symbolic, constrained only by the representation invariant of the shape (before strictly smaller / after_or_equal greater-or-equal on the '
          'split axis), so every tie and duplicate pattern of that size is covered; operation arguments (point, value, query box) are symbolic; the '
          'erase-while-iterating check enumerates all 2^n erase patterns. Checked per operation against a plain entry list: the representation invariant '
          'holds again (parent links, dim = depth mod k, node_count, strict ordering, no dangling / leaked / doubly freed node), the stored multiset '
          '(symbolic probe entry), size(), return values (erase reports whether a matching entry existed and removes exactly one), at/exists find every '
          'stored point and only stored points, within/exists(low,high) equal the linear scan over the half-open box, iteration and iteration with '
          'erase_advance visit every entry exactly once, the destructor frees each node exactly once and touches no null or freed node (empty tree '
          'included). Because pre- and post-state satisfy the same predicate, each check is one inductive step from an arbitrary invariant state, but '
          'only for trees of the enumerated sizes.'),
    note=('Not covered: trees with more than 4 nodes (more than 3 for operations other than delete_node in the quick tier); value types other than int; '
          'allocation failure; emplace(). Trusted: cbmc, the SAT solver (cadical/minisat), the extractor and its lowering rules (props/C13.py), the stubs '
          'for std::deque / std::vector / std::pair / new / delete (stubs/C13_*.h, capacity and misuse are assertions), the list model and invariant '
          'checker in harness/C13/kd.c. Three genuine defects were found by these checks and reproduced natively on the real template '
          '(replay/C13/kdtree.cc under ASan): ~KDTree on an empty tree dereferenced null; within() threw on an empty tree; delete_node replaced a node by '
          'the maximum of its before-subtree, which under ties on the split axis left an equal coordinate on the strictly-less side, so a surviving entry '
          'was no longer found by at/exists/erase/within (witness {(5,5),(3,7),(3,2)} minus the root loses (3,2)). Fixes: fixes/C13-1..3.'),
    technique='bounded symbolic execution (cbmc, loops unwound with unwinding assertions) of the mechanically extracted KDTree text from '
              'every tree shape up to the bound, against a brute-force list model; no function/loop contract is discharged for this property',
)
