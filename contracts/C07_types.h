/* C mirror of class Image (src/Image.hh); the member list is checked against the class text by props/C07.py:check_members
 * on every run.  The class has no other data members. */
#ifndef C07_TYPES_H
#define C07_TYPES_H
#include "contracts/verif.h"
#include <stdlib.h>

/* union DataPtrs { void* raw; uint8_t* as8; uint16_t* as16; uint32_t* as32; uint64_t* as64; }: five views of ONE pointer.
 * cbmc 6.11 mishandles pointers read out of a union (a store through p->u.as16[i] after u.raw was assigned is lost; reproduced in
 * isolation), so the mirror keeps the single pointer and every `X.asN[i]` of the source is rewritten to `((uintN_t*)X.raw)[i]` by a
 * must-fire extraction rule (props/C07.py: AS); sizeof and layout are unchanged. */
typedef struct DataPtrs {
  void* raw;
} DataPtrs;

typedef struct Image {
  ssize_t width;
  ssize_t height;
  bool has_alpha;
  uint8_t channel_width;
  uint64_t max_value;
  DataPtrs data;
} Image;

#endif
