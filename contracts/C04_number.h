/* C04: lock-step loop contracts for the two integer scanners of the number branch of JSON::parse (DESIGN.md 3.4, "lock-step
 * ghost spec").  The ghosts are written by the numeral models of stubs/C04_printf.h: the text is [sign] [0x] d_0 .. d_{n-1},
 * g_dstart = index of d_0, g_ndigits = n, g_pref[k] = value of the first k decimal digits, g_mag = value of the whole numeral.
 * Invariant: after the scanner has consumed j digits its accumulator is the value of the j-digit prefix.
 * Only active under -DC04_INT_LOCKSTEP (the other groups unwind these loops). */
#ifndef C04_NUMBER_H
#define C04_NUMBER_H
#include "stubs/C04_printf.h"
#ifdef C04_INT_LOCKSTEP
#define C04_NUM_FRAME(r) (verif_exc == 0 && (r)->length == g_dstart + g_ndigits && g_dstart <= (r)->offset && (r)->offset <= (r)->length)
#define C04_DEC_LOOP(...) /* arguments: the local variables the loop assigns, read from the loop's own text */ \
  __CPROVER_assigns(__VA_ARGS__, r->offset, verif_exc) \
  __CPROVER_loop_invariant(C04_NUM_FRAME(r)) \
  __CPROVER_loop_invariant((uint64_t)int_data == g_pref[r->offset - g_dstart]) \
  C04_DEC_OVF_INV \
  __CPROVER_decreases(r->length - r->offset)
/* C04_DEC_OVF_INV (defined by the extraction, props/C04.py): when the number block keeps a flag "the integer digits left the int64
 * range", the flag stays clear on every prefix of the canonical numeral of an int64 value */
/* value of the first j of n hexadecimal digits of m */
#define C04_HEX_PREFIX(m, n, j) ((j) == 0 ? (uint64_t)0 : (m) >> (4 * ((n) - (j))))
#define C04_HEX_LOOP(...) \
  __CPROVER_assigns(__VA_ARGS__, r->offset, verif_exc) \
  __CPROVER_loop_invariant(C04_NUM_FRAME(r)) \
  __CPROVER_loop_invariant((uint64_t)int_data == C04_HEX_PREFIX(g_mag, g_ndigits, r->offset - g_dstart)) \
  __CPROVER_decreases(r->length - r->offset)
#else
#define C04_DEC_LOOP(...)
#define C04_HEX_LOOP(...)
#endif
#endif
