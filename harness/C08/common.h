/* shared prelude of the C08 harnesses: ghost state is set from nondet locals (globals are zero-initialised, dfcc havocs statics) */
#include "contracts/C08_split.h"
int verif_exc;
size_t g_vk, g_sk, g_wit, g_cand, g_pj, g_pstart, g_plen, g_nstart, g_joff, g_joff2; char g_oval; size_t g_obase, g_rk; size_t g_pjs, g_pjl, g_srcsize; const char* g_srcd; char g_sval; size_t g_shift, g_inst;
#define IN_GHOSTS size_t in_ok, in_sk, in_wit, in_cand, in_pj, in_pstart, in_plen, in_nstart, in_joff, in_joff2; g_joff = in_joff; g_joff2 = in_joff2; char in_oval; g_oval = in_oval; size_t in_obase, in_rk; g_obase = in_obase; g_rk = in_rk; size_t in_pjs, in_pjl, in_srcsize; g_pjs = in_pjs; g_pjl = in_pjl; g_srcsize = in_srcsize; const char* in_srcd; g_srcd = in_srcd; char in_sval; g_sval = in_sval; size_t in_shift; g_shift = in_shift; size_t in_inst; g_inst = in_inst; \
  g_vk = in_ok; g_sk = in_sk; g_wit = in_wit; g_cand = in_cand; g_pj = in_pj; g_pstart = in_pstart; g_plen = in_plen; g_nstart = in_nstart
