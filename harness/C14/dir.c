/* C14: directory listers (loop contracts; any number of entries, any names). */
#include "contracts/C14_dir.h"
int verif_exc;
#include "x_dir.c"
#define IN_DIR size_t in_total, in_dk; g_total = in_total; g_dk = in_dk; g_dn = 0; g_dk_stored = 0; g_foreign = 0; g_closedirs = 0; \
  g_dir_open = 0; g_cur_name = 0; g_dk_dot = 0; verif_exc = 0
void h_list_directory(void) { IN_DIR; c14_names* fs; const vstr* dn; phosg_list_directory(fs, dn); VERIF_REACH(); }
void h_list_directory_sorted(void) { IN_DIR; c14_names* fs; const vstr* dn; phosg_list_directory_sorted(fs, dn); VERIF_REACH(); }
