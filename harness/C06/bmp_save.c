/* C06: the WINDOWS_BITMAP case of Image::save_helper (-DC06_DIM -DC06_ALPHA -DC06_SAVE -DC06_DECODE_BMP_HEADER).
 * Function text: x_bmp_save.c (init_bmp_header + the case block), header structs: x_bmp_types.h. */
#include "contracts/C06_bmp.h"
#include "x_bmp_types.h"
#include "x_bmp_save.c"

int verif_exc;

void h_bmp_save(void) {
  uint8_t in_x, in_y, in_c;
  size_t in_k;
  uint8_t in_v;
  uint8_t in_w, in_h; /* narrow, see ppm_load.c; for the replay: the requires clauses on g_fr / g_oidx tie them to the dimensions of the is_fresh image */
  g_x = in_x; g_y = in_y; g_c = in_c;
  g_wk = in_k;
  g_pv = in_v;
  g_w = in_w; g_h = in_h;
  g_fr = (size_t)in_h - 1 - g_y;
  g_oidx = (g_y * (size_t)in_w + g_x) * C06_PB(C06_ALPHA) + g_c;
  const Image* self;
  Image_save_bmp(self);
  VERIF_REACH();
}
