// C12 instantiation gate, native side: explicit instantiation of every member of both templates at the types the check
// uses.  If the tree under check does not compile here, the build of this driver fails and the compiler diagnostic is
// recorded in the replay file (the defect is "the member cannot be used at all", there is no failing *input*).
#include <cstdio>

#include "LRUMap.hh"
#include "LRUSet.hh"

template class phosg::LRUSet<int>;
template class phosg::LRUMap<int, int>;

int main(int, char**) {
  // it compiled: use the two members on lvalues / a const container once
  phosg::LRUMap<int, int> m;
  const int k = 1, v = 2;
  bool created = m.insert(k, v, 3);
  const phosg::LRUMap<int, int>& cm = m;
  int got = cm.at(k);
  if (!created || got != 2 || m.size() != 3 || m.count() != 1) {
    printf("POSTCONDITION VIOLATED on the real code: insert(const&)/at() const: created=%d at=%d size=%zu count=%zu\n", (int)created, got,
           m.size(), m.count());
    return 1;
  }
  printf("LRUSet<int> and LRUMap<int,int> instantiate completely\n");
  return 0;
}
