/* C05: side-car contracts and ghost specification for the JSON parser (src/JSON.cc:19-258).
 *
 * The specification is written from RFC 8259 and from the extension list of src/JSON.hh (trailing commas, hex integers,
 * n/t/f, // comments) -- not from the code.  All heavy specification work is done by ghost statements (macros C05_*)
 * that the extraction places at anchors of the real text; contracts and invariants only mention ghost variables.
 * Ghost state that has to survive a recursive call lives in locals (verif_*) and is mirrored into globals (g_*) after
 * every step so that postconditions and counterexamples can see it.
 */
#ifndef C05_JSON_H
#define C05_JSON_H
#include "contracts/RW_reader.h"
#include "stubs/C05_jval.h"

bool nondet_bool(void);
/* `catch (const std::out_of_range&)`: no class of the model's exception table derives from out_of_range */
#define C05_CATCHES_out_of_range(x) ((x) == EXC_out_of_range)

#ifdef VERIF_SMALL            /* replay search: a counterexample on a text of at most 8 bytes, cursor at 0 */
#define C05_MAX 8
#else
#define C05_MAX VERIF_MAXLEN
#endif

/* ---------------------------------------------------------------------------------------------- character classes */
#define C05_ISWS(c) ((c) == ' ' || (c) == '\t' || (c) == '\r' || (c) == '\n')            /* RFC 8259 section 2: ws */
#define C05_ISDIGIT(c) ((c) >= '0' && (c) <= '9')
#define C05_ISHEX(c) (C05_ISDIGIT(c) || ((c) >= 'a' && (c) <= 'f') || ((c) >= 'A' && (c) <= 'F'))
#define C05_HEXVAL(c) ((c) <= '9' ? (c) - '0' : (c) <= 'F' ? (c) - 'A' + 10 : (c) - 'a' + 10)
/* a byte that cannot start a value and is a structural character of the enclosing container */
#define C05_ISCLOSER(c) ((c) == ']' || (c) == '}' || (c) == ',' || (c) == ':')
/* byte at the cursor / after the cursor as an int 0..255, -1 at the end of the input */
#define C05_PEEK(r) ((r)->offset < (r)->length ? (int)(r)->data[(r)->offset] : -1)
#define C05_PEEK2(r) ((r)->offset < (r)->length && (r)->offset + 1 < (r)->length ? (int)(r)->data[(r)->offset + 1] : -1)

/* ---------------------------------------------------------------------------------------------------------- ghosts */
#define C05_GHOSTS_NUM int nq, nc, nc2; uint64_t nacc; bool novf, nneg, nalpha, nhex; size_t nstart; uint64_t nexp; bool neovf, nexp_ok;
#define C05_GHOSTS_STR int sq, sc, sout; unsigned su; bool shas, sobs; uint8_t sbyte; size_t sn, sstart;
extern size_t g_len, g_off, g_mk;                 /* reader-contract ghosts (contracts/RW_types.h, stubs/libc.h) */
extern size_t g_wk;                               /* ghost index into the bytes consumed by skip_whitespace_and_comments (input ghost) */
extern uint8_t g_b0, g_b1, g_b2, g_b3, g_b4, g_b5, g_b6, g_b7;      /* VERIF_SMALL: the input bytes (for the native replay) */
/* ghosts written by the code under proof are members of two objects (one assigns target each: the cost of --dfcc grows with
 * the number of assigns targets) */
struct c05_skip_ghost {
  int c0, c1, ce, ce2;                            /* the two bytes at the cursor on entry / on (normal) exit */
  size_t off0;                                    /* entry cursor */
  bool cm, k_ok, sc;                              /* spec automaton: inside a comment; byte g_wk consumed as the spec says; spec consumes the current byte */
};
struct c05_ghost {
  bool de;                                        /* disable_extensions of the call under proof (replay) */
  int pc;                                         /* byte at the cursor when JSON::parse is entered (-1: end) */
  size_t cmk;                                     /* ghost index for skip_if's "matched bytes" clause */
  int root; size_t rootoff;                       /* first byte after whitespace and its position */
  int cq; size_t cn, cend; bool csync;            /* containers: output mirrors of the per-activation locals verif_q, ... */
  int stage; size_t fin_off;                      /* entry points */
  C05_GHOSTS_NUM C05_GHOSTS_STR
};
extern int g_nt; extern uint64_t g_tok;            /* containers, for the replay: tokens of the current loop iteration (count | DFA state at the loop head << 8; 4 bits per token) */
extern struct c05_skip_ghost g_w;
extern struct c05_ghost g_j;
#define C05_GHOSTS_LEAF g_len, g_off, g_mk, g_w
#define C05_GHOSTS C05_GHOSTS_LEAF, g_j, g_nt, g_tok

/* every reader call: name the reader state for the C01/C02 contracts (RD_REQ) */
#define RD(call) (g_len = r->length, g_off = r->offset, g_mk = g_j.cmk, (call))

/* ------------------------------------------------------------------------------------------------ common requires */
#define C05_RD_REQ(r) __CPROVER_requires(__CPROVER_is_fresh(r, sizeof(StringReader))) __CPROVER_requires((r)->length <= C05_MAX) \
                      __CPROVER_requires(__CPROVER_is_fresh((r)->data, (r)->length)) \
                      __CPROVER_requires(verif_exc == 0 && (r)->offset <= (r)->length) C05_BYTES_REQ(r)
#ifdef VERIF_SMALL
#define C05_BYTES_REQ(r) __CPROVER_requires((r)->offset == 0) \
  __CPROVER_requires((0 < (r)->length ==> (r)->data[0] == g_b0) && (1 < (r)->length ==> (r)->data[1] == g_b1) && (2 < (r)->length ==> (r)->data[2] == g_b2) && \
                     (3 < (r)->length ==> (r)->data[3] == g_b3) && (4 < (r)->length ==> (r)->data[4] == g_b4) && (5 < (r)->length ==> (r)->data[5] == g_b5) && \
                     (6 < (r)->length ==> (r)->data[6] == g_b6) && (7 < (r)->length ==> (r)->data[7] == g_b7))
#else
#define C05_BYTES_REQ(r)
#endif
#define C05_RET_REQ __CPROVER_requires(__CPROVER_is_fresh(ret, sizeof(JVal)))
/* O-1: the documented exception set, the cursor stays inside the input and never moves backwards */
#define C05_EXCSET (verif_exc == 0 || verif_exc == EXC_parse_error || verif_exc == EXC_out_of_range)
#define C05_TOTAL(r) __CPROVER_ensures(C05_EXCSET) \
                     __CPROVER_ensures((r)->offset <= (r)->length && (r)->offset >= __CPROVER_old((r)->offset))
#define C05_ASSIGNS(r) __CPROVER_assigns(verif_exc, (r)->offset, __CPROVER_object_whole(ret), C05_GHOSTS)

/* ============================================================================================ value_for_hex_char */
uint8_t value_for_hex_char(char x)
__CPROVER_requires(verif_exc == 0)
__CPROVER_ensures(C05_ISHEX(x) ? (verif_exc == 0 && __CPROVER_return_value == C05_HEXVAL(x)) : verif_exc == EXC_out_of_range)
__CPROVER_assigns(verif_exc);

/* ================================================================================= skip_whitespace_and_comments
 * spec automaton (RFC 8259 ws; JSON.hh: "Comments" extension = `//` up to end of line, only when extensions are enabled):
 *   outside a comment: ws -> consume | `//` (extensions on) -> enter comment, consume | anything else -> stop
 *   inside a comment:  consume; LF or CR leaves the comment
 * Observation (not part of the statement): with extensions on, a `/` that is the last byte of the input makes the
 * look-ahead throw out_of_range. */
#define C05_SKIP(r, de) (g_w.c0 = C05_PEEK(r), g_w.c1 = C05_PEEK2(r), skip_whitespace_and_comments(r, de))
#define C05_SKIP_ENTRY g_w.off0 = r->offset; g_w.cm = 0; g_w.k_ok = 0; g_w.sc = 0
#define C05_WSPEC_CONSUME(cm, c, c2, de) ((cm) || C05_ISWS(c) || (!(de) && (c) == '/' && (c2) == '/'))
/* ghost at loop-body start: what the spec does with the byte at the cursor */
#define C05_SKIP_STEP { int verif_c = C05_PEEK(r); int verif_c2 = C05_PEEK2(r); \
                        g_w.sc = C05_WSPEC_CONSUME(g_w.cm, verif_c, verif_c2, disable_extensions); \
                        if (r->offset == g_wk) g_w.k_ok = g_w.sc; \
                        g_w.cm = g_w.cm ? !(verif_c == '\n' || verif_c == '\r') : (!C05_ISWS(verif_c) && g_w.sc); }
/* ghost at every normal exit: the two bytes at the final cursor */
#define C05_SKIP_EXIT g_w.ce = C05_PEEK(r); g_w.ce2 = C05_PEEK2(r)
/* the byte c (followed by c2) stops the scan */
#define C05_WSTOP(c, c2, de) (!C05_ISWS(c) && ((de) || (c) != '/' || (c2) != '/'))
#ifdef C05_LIGHT          /* callers that only need the cursor facts use a subset of the clauses (all are proved in the group of the function itself) */
#define EFULL(x)
#else
#define EFULL(x) __CPROVER_ensures(x)
#endif
void skip_whitespace_and_comments(StringReader* r, bool disable_extensions)
C05_RD_REQ(r)
__CPROVER_requires(g_w.c0 == C05_PEEK(r) && g_w.c1 == C05_PEEK2(r))
__CPROVER_ensures(verif_exc == 0 || verif_exc == EXC_out_of_range)
__CPROVER_ensures(r->offset <= r->length && r->offset >= __CPROVER_old(r->offset))
/* g_w.ce / g_w.ce2: the bytes at the final cursor (-1: end of input) */
__CPROVER_ensures(verif_exc == 0 ==> g_w.ce == C05_PEEK(r))
EFULL(verif_exc == 0 ==> g_w.ce2 == C05_PEEK2(r))
__CPROVER_ensures(verif_exc == 0 ==> !C05_ISWS(g_w.ce))
/* stops exactly where the spec automaton stops: at the end, or outside a comment at a byte that is not consumable */
EFULL(verif_exc == 0 ==> (g_w.ce == -1 || (!g_w.cm && C05_WSTOP(g_w.ce, g_w.ce2, disable_extensions))))
EFULL(verif_exc != 0 ==> (!disable_extensions && C05_PEEK(r) == '/' && C05_PEEK2(r) == -1))
/* nothing to skip => nothing consumed, no exception */
__CPROVER_ensures((__CPROVER_old(g_w.c0) == -1 || (!C05_ISWS(__CPROVER_old(g_w.c0)) && (disable_extensions || __CPROVER_old(g_w.c0) != '/'))) ==> (verif_exc == 0 && r->offset == __CPROVER_old(r->offset)))
EFULL((__CPROVER_old(g_w.c0) == -1 || C05_WSTOP(__CPROVER_old(g_w.c0), __CPROVER_old(g_w.c1), disable_extensions)) ==> r->offset == __CPROVER_old(r->offset))
/* every consumed byte (ghost index g_wk) is one the spec consumes: ws, or -- extensions on -- part of a // comment */
EFULL((__CPROVER_old(r->offset) <= g_wk && g_wk < r->offset) ==> g_w.k_ok)
EFULL((disable_extensions && __CPROVER_old(r->offset) <= g_wk && g_wk < r->offset) ==> C05_ISWS(r->data[g_wk]))
__CPROVER_assigns(verif_exc, r->offset, C05_GHOSTS_LEAF);

/* ============================================================================================ container loops (O-3)
 * Abstract token stream: structural bytes, end of input, and "a value starts here" (decided by the child call, which is
 * the parser's own contract).  5+ state DFA, written from RFC 8259 section 4/5 + the trailing-comma extension:
 *   list:  [ ws ]  |  [ ws V ws (, ws V ws)* ]                 extensions on: additionally  , ws ]
 *   dict:  { ws }  |  { ws S ws : ws V ws (, ws S ws : ws V ws)* }   (S = a value that is a string; anything else: parse_error) */
enum { CQ_START = 0, CQ_OPEN = 1, CQ_AFTERV = 2, CQ_AFTERC = 3, CQ_ACC = 4, CQ_REJ = 5, CQ_CHILDFAIL = 6, CQ_TRUNC = 7,
       CQ_PENDING = 8, CQ_KEYOK = 9, CQ_COLON = 10, CQ_PENDV = 11 };
/* token codes recorded for the replay (4 bits each, most recent token in the low nibble of g_tok):
 * 1 open, 2 close, 3 comma, 4 colon, 5 value (not a string), 6 string value, 7 other byte, 8 end of input, 9 value that fails */
#define C05_TOKCODE(c, close) ((c) == -1 ? 8 : (c) == (close) ? 2 : (c) == ',' ? 3 : (c) == ':' ? 4 : 7)
#define C05_REC(code) (verif_tok = (verif_tok << 4) | (uint64_t)(code), verif_nt = verif_nt < 100 ? verif_nt + 1 : verif_nt)
#define C05_C_SYNC (g_j.cq = verif_q, g_j.cn = verif_n, g_j.csync = verif_sync, g_j.cend = verif_end, g_nt = verif_nt | ((verif_hq & 15) << 8), g_tok = verif_tok)
/* loop-body start: a counterexample of a loop-contract proof shows ONE iteration from a havocked loop head; the replay needs the DFA
 * state at that loop head (verif_hq, packed into g_nt) and the tokens of this iteration */
#define C05_C_ITER { verif_hq = verif_q; verif_tok = 0; verif_nt = 0; C05_C_SYNC; }
#define C05_C_ENTRY int verif_q = CQ_START; size_t verif_n = 0, verif_end = 0; bool verif_sync = 1; size_t verif_off0 = r->offset; \
                    int verif_nt = 0, verif_hq = CQ_START; uint64_t verif_tok = 0; g_j.de = disable_extensions; C05_C_SYNC
/* the opening bracket */
#define C05_C_OPEN { verif_q = CQ_OPEN; C05_REC(1); C05_C_SYNC; }
/* token boundary where a value or the closing bracket may come (after the opening bracket / after a comma) */
#define C05_C_PEEK_A(close) { int verif_c = C05_PEEK(r); verif_sync = verif_sync && !C05_ISWS(verif_c); g_j.pc = verif_c; g_j.cmk = 0; \
    if (verif_c == -1 || C05_ISCLOSER(verif_c)) C05_REC(C05_TOKCODE(verif_c, close)); \
    if (verif_q == CQ_OPEN || verif_q == CQ_AFTERC) { \
      verif_q = verif_c == -1 ? CQ_TRUNC : verif_c == (close) ? ((verif_q == CQ_OPEN || !disable_extensions) ? CQ_ACC : CQ_REJ) : C05_ISCLOSER(verif_c) ? CQ_REJ : CQ_PENDING; \
      if (verif_q == CQ_ACC) verif_end = r->offset + 1; } \
    C05_C_SYNC; C05_VARIANT; }
/* token boundary after a value: comma or the closing bracket */
#define C05_C_PEEK_C(close) { int verif_c = C05_PEEK(r); verif_sync = verif_sync && !C05_ISWS(verif_c); \
    C05_REC(C05_TOKCODE(verif_c, close)); \
    if (verif_q == CQ_AFTERV) { \
      verif_q = verif_c == -1 ? CQ_TRUNC : verif_c == ',' ? CQ_AFTERC : verif_c == (close) ? CQ_ACC : CQ_REJ; \
      if (verif_q == CQ_ACC) verif_end = r->offset + 1; } \
    C05_C_SYNC; }
/* after the recursive call (expression: runs before the exception is propagated) */
#define C05_C_VAL_DONE(pend, v) (verif_q = verif_q == (pend) ? (verif_exc ? CQ_CHILDFAIL : CQ_AFTERV) : verif_q, verif_n = verif_n + (verif_exc == 0), \
    C05_REC(verif_exc ? 9 : (v).is_string ? 6 : 5), C05_C_SYNC)

#define C05_LIST_ENTRY C05_C_ENTRY
#define C05_LIST_OPEN C05_C_OPEN
#define C05_LIST_PEEK_A C05_C_PEEK_A(']')
#define C05_VARIANT __CPROVER_assert(r->offset > verif_off0, "recursion variant: the recursive call parses a strictly shorter suffix of the input")
#define C05_LIST_PEEK_V g_j.pc = C05_PEEK(r); g_j.cmk = 0; C05_VARIANT
#define C05_LIST_CHILD_DONE C05_C_VAL_DONE(CQ_PENDING, verif_v)
#define C05_LIST_PEEK_C C05_C_PEEK_C(']')

#define C05_DICT_ENTRY C05_C_ENTRY
#define C05_DICT_OPEN C05_C_OPEN
#define C05_DICT_PEEK_A C05_C_PEEK_A('}')
/* the key has been parsed: a key that is not a string is a parse error (RFC 8259 section 4: member = string : value) */
#define C05_DICT_KEY_DONE (verif_q = verif_q == CQ_PENDING ? (verif_exc ? CQ_CHILDFAIL : key.is_string ? CQ_KEYOK : CQ_REJ) : verif_q, \
    C05_REC(verif_exc ? 9 : key.is_string ? 6 : 5), C05_C_SYNC)
#define C05_DICT_PEEK_D { int verif_c = C05_PEEK(r); verif_sync = verif_sync && !C05_ISWS(verif_c); \
    C05_REC(C05_TOKCODE(verif_c, '}')); \
    if (verif_q == CQ_KEYOK) { verif_q = verif_c == -1 ? CQ_TRUNC : verif_c == ':' ? CQ_COLON : CQ_REJ; } \
    C05_C_SYNC; }
#define C05_DICT_PEEK_V { int verif_c = C05_PEEK(r); verif_sync = verif_sync && !C05_ISWS(verif_c); g_j.pc = verif_c; g_j.cmk = 0; \
    if (verif_c == -1 || C05_ISCLOSER(verif_c)) C05_REC(C05_TOKCODE(verif_c, '}')); \
    if (verif_q == CQ_COLON) { \
      verif_q = verif_c == -1 ? CQ_TRUNC : C05_ISCLOSER(verif_c) ? CQ_REJ : CQ_PENDV; } \
    C05_C_SYNC; C05_VARIANT; }
#define C05_DICT_VAL_DONE C05_C_VAL_DONE(CQ_PENDV, verif_v)
#define C05_DICT_VAL_DONE_IN(v) C05_C_VAL_DONE(CQ_PENDV, v) /* same step when the source names its own temporary */
#define C05_DICT_PEEK_C C05_C_PEEK_C('}')

#define C05_CONTAINER_POST(kindv) \
/* spec accepts <=> code accepts */ \
__CPROVER_ensures(g_j.cq == CQ_ACC ==> verif_exc == 0) \
__CPROVER_ensures(verif_exc == 0 ==> g_j.cq == CQ_ACC) \
/* which documented exception: malformed -> parse_error, unterminated -> out_of_range */ \
__CPROVER_ensures(g_j.cq == CQ_REJ ==> verif_exc == EXC_parse_error) \
__CPROVER_ensures(g_j.cq == CQ_TRUNC ==> verif_exc == EXC_out_of_range) \
/* value: kind, number of members; extent: the cursor is right behind the closing bracket the spec accepted; every token \
 * boundary was reached with the whitespace skipped */ \
__CPROVER_ensures(verif_exc == 0 ==> (ret->kind == (kindv) && ret->count == g_j.cn && ret->is_string == false)) \
__CPROVER_ensures(verif_exc == 0 ==> (r->offset == g_j.cend && g_j.csync)) \
/* ... on EVERY outcome: white space (in default mode: a comment) in front of a token is skipped, never taken for the token -- a \
 * document is not rejected because of white space between two tokens (RFC 8259 section 2: insignificant white space is allowed \
 * before or after any of the six structural characters) */ \
__CPROVER_ensures(g_j.csync) \
__CPROVER_ensures(verif_exc == 0 ==> r->offset > __CPROVER_old(r->offset))

void JSON_parse_list(StringReader* r, bool disable_extensions, JVal* ret)
C05_RD_REQ(r) C05_RET_REQ
__CPROVER_requires(r->offset < r->length && r->data[r->offset] == '[')
C05_TOTAL(r)
C05_CONTAINER_POST(JV_LIST)
C05_ASSIGNS(r);

void JSON_parse_dict(StringReader* r, bool disable_extensions, JVal* ret)
C05_RD_REQ(r) C05_RET_REQ
__CPROVER_requires(r->offset < r->length && r->data[r->offset] == '{')
C05_TOTAL(r)
C05_CONTAINER_POST(JV_DICT)
C05_ASSIGNS(r);

#define C05_CONTAINER_INV(open, close, kindv) \
__CPROVER_assigns(verif_exc, r->offset, separator, expected_separator, __CPROVER_object_whole(ret), C05_GHOSTS, \
                  verif_q, verif_n, verif_end, verif_sync, verif_nt, verif_tok, verif_hq) \
__CPROVER_loop_invariant(verif_exc == 0 && r->offset <= r->length && r->offset > verif_off0 && verif_sync) \
__CPROVER_loop_invariant(ret->kind == (kindv) && ret->count == verif_n && !ret->is_string) \
__CPROVER_loop_invariant(g_j.cq == verif_q && g_j.cn == verif_n && g_j.csync == verif_sync && g_j.cend == verif_end && g_nt == (verif_nt | ((verif_hq & 15) << 8)) && g_tok == verif_tok) \
__CPROVER_loop_invariant((verif_q == CQ_OPEN && separator == (open) && expected_separator == (open)) || \
                         (expected_separator == ',' && ((separator == ',' && verif_q == CQ_AFTERC) || \
                                                        (separator == (close) && verif_q == CQ_ACC && verif_end == r->offset) || \
                                                        (separator != ',' && separator != (close) && verif_q == CQ_REJ)))) \
__CPROVER_decreases(r->length - r->offset)

/* ================================================================================================== number (O-2) */
/* Ghost automaton for the RFC 8259 number grammar  -? ( 0 | [1-9][0-9]* ) ( . [0-9]+ )? ( [eE] [+-]? [0-9]+ )?
 * plus the documented extension "hexadecimal integers"  -? 0x [0-9a-fA-F]+  (extensions on).  It is advanced over exactly the
 * bytes the code consumes (macro RDC/RDG of the extracted text), one transition per byte. */
enum { NQ_START = 0, NQ_MINUS = 1, NQ_ZERO = 2, NQ_INT = 3, NQ_DOT = 4, NQ_FRAC = 5, NQ_E = 6, NQ_ESIGN = 7, NQ_EXP = 8, NQ_HEXP = 9, NQ_HEX = 10, NQ_DEAD = 11 };
#define C05_NUM_NEXT(q, c) ( \
  (q) == NQ_START ? ((c) == '-' ? NQ_MINUS : (c) == '0' ? NQ_ZERO : ((c) >= '1' && (c) <= '9') ? NQ_INT : NQ_DEAD) : \
  (q) == NQ_MINUS ? ((c) == '0' ? NQ_ZERO : ((c) >= '1' && (c) <= '9') ? NQ_INT : NQ_DEAD) : \
  (q) == NQ_ZERO ? ((c) == '.' ? NQ_DOT : ((c) == 'e' || (c) == 'E') ? NQ_E : NQ_DEAD) : \
  (q) == NQ_INT ? (C05_ISDIGIT(c) ? NQ_INT : (c) == '.' ? NQ_DOT : ((c) == 'e' || (c) == 'E') ? NQ_E : NQ_DEAD) : \
  (q) == NQ_DOT ? (C05_ISDIGIT(c) ? NQ_FRAC : NQ_DEAD) : \
  (q) == NQ_FRAC ? (C05_ISDIGIT(c) ? NQ_FRAC : ((c) == 'e' || (c) == 'E') ? NQ_E : NQ_DEAD) : \
  (q) == NQ_E ? (((c) == '+' || (c) == '-') ? NQ_ESIGN : C05_ISDIGIT(c) ? NQ_EXP : NQ_DEAD) : \
  ((q) == NQ_ESIGN || (q) == NQ_EXP) ? (C05_ISDIGIT(c) ? NQ_EXP : NQ_DEAD) : \
  ((q) == NQ_HEXP || (q) == NQ_HEX) ? (C05_ISHEX(c) ? NQ_HEX : NQ_DEAD) : NQ_DEAD)
/* the match can be extended by the byte c (followed by c2) */
#define C05_NUM_HAS_NEXT(q, c, c2, de) (C05_NUM_NEXT(q, c) != NQ_DEAD || ((q) == NQ_ZERO && !(de) && (c) == 'x' && C05_ISHEX(c2)))
#define C05_NUM_ACCEPTING(q) ((q) == NQ_ZERO || (q) == NQ_INT || (q) == NQ_FRAC || (q) == NQ_EXP || (q) == NQ_HEX)
#define C05_NUM_INTEGRAL(q) ((q) == NQ_ZERO || (q) == NQ_INT || (q) == NQ_HEX)
/* bytes a number (in either notation) is made of: a scanner that consumes anything else has run into the next token */
#define C05_NUMCHAR(c) (C05_ISHEX(c) || (c) == '-' || (c) == '+' || (c) == '.' || (c) == 'x')
#define C05_PEEK3(r) ((r)->offset < (r)->length && (r)->offset + 2 < (r)->length ? (int)(r)->data[(r)->offset + 2] : -1)
/* acc * 10 + d exceeds the int64 range of its sign: magnitude > INT64_MAX for a positive numeral, > 2^63 for a negative one */
#define C05_DEC_OVF(acc, d, neg) ((acc) > 922337203685477580ull || ((acc) == 922337203685477580ull && (d) > ((neg) ? 8u : 7u)))
#define C05_INT_LIMIT(neg) (0x7FFFFFFFFFFFFFFFull + ((neg) ? 1u : 0u))
#define C05_NUM_ENTRY g_j.nexp = 0; g_j.neovf = 0; g_j.nexp_ok = 1; g_j.nq = NQ_START; g_j.nacc = 0; g_j.novf = 0; g_j.nneg = 0; g_j.nalpha = 1; g_j.nhex = 0; g_j.nstart = r->offset; g_j.nc = 0; g_j.nc2 = 0
/* before every get_s8() that consumes a byte: one transition; Horner fold of the integer digits (decimal: base 10, hex: base 16) */
#define C05_NUM_STEP (g_j.nc = C05_PEEK(r), \
  g_j.nalpha = g_j.nalpha && C05_NUMCHAR(g_j.nc), \
  g_j.nneg = g_j.nneg || (g_j.nq == NQ_START && g_j.nc == '-'), \
  g_j.novf = g_j.novf || (((g_j.nq == NQ_START || g_j.nq == NQ_MINUS || g_j.nq == NQ_INT) && C05_ISDIGIT(g_j.nc)) ? C05_DEC_OVF(g_j.nacc, (unsigned)(g_j.nc - '0'), g_j.nneg) : \
                          ((g_j.nq == NQ_HEXP || g_j.nq == NQ_HEX) && C05_ISHEX(g_j.nc)) ? (g_j.nacc >> 59) != 0 : 0), \
  g_j.nacc = ((g_j.nq == NQ_START || g_j.nq == NQ_MINUS || g_j.nq == NQ_INT) && C05_ISDIGIT(g_j.nc)) ? g_j.nacc * 10 + (unsigned)(g_j.nc - '0') : \
             ((g_j.nq == NQ_HEXP || g_j.nq == NQ_HEX) && C05_ISHEX(g_j.nc)) ? ((g_j.nacc << 4) | (unsigned)C05_HEXVAL(g_j.nc)) : g_j.nacc, \
  g_j.neovf = g_j.neovf || (C05_NUM_IN_EXP(g_j.nq) && C05_ISDIGIT(g_j.nc) && g_j.nexp > 9999999ull), \
  g_j.nexp = (C05_NUM_IN_EXP(g_j.nq) && C05_ISDIGIT(g_j.nc)) ? g_j.nexp * 10 + (unsigned)(g_j.nc - '0') : g_j.nexp, \
  g_j.nq = C05_NUM_NEXT(g_j.nq, g_j.nc))
/* the decimal exponent: nexp = value of the exponent digits consumed so far (neovf: nine or more digits, not tracked).  The code's exponent
 * counter must carry every exponent up to 400 exactly -- that covers every finite double, denormals included, for any mantissa of up to ~75
 * digits -- and may saturate above that, but not below it (a clamp at the largest NORMAL exponent loses 1e-308 .. 1e-323) */
#define C05_NUM_IN_EXP(q) ((q) == NQ_E || (q) == NQ_ESIGN || (q) == NQ_EXP)
#define C05_EXP_CARRIED(e, E) ((E) <= 400 ? (uint64_t)(e) == (E) : ((e) > 400 && (uint64_t)(e) <= (E)))
#define C05_NUM_EXP_DONE g_j.nexp_ok = (g_j.neovf || C05_EXP_CARRIED(e, g_j.nexp))
/* before go(where + 2): the two bytes `0x` are consumed at once */
#define C05_NUM_GO_STEP (g_j.nhex = 1, g_j.nc = C05_PEEK(r), g_j.nc2 = C05_PEEK2(r), \
  g_j.nalpha = g_j.nalpha && C05_NUMCHAR(g_j.nc) && C05_NUMCHAR(g_j.nc2), \
  g_j.nq = ((g_j.nq == NQ_START || g_j.nq == NQ_MINUS) && g_j.nc == '0' && g_j.nc2 == 'x' && !disable_extensions && C05_ISHEX(C05_PEEK3(r))) ? NQ_HEXP : NQ_DEAD)
#define C05_NUM_EXP_DIGIT
#define C05_NUM_EXIT g_j.nc = C05_PEEK(r); g_j.nc2 = C05_PEEK2(r)
#ifdef C05_NUM_RESTRICT     /* numerals whose integer digits cannot overflow int64: at most 18 decimal / 15 hexadecimal digits (ghost witnesses: \
                               the position of a byte that ends the digit run) */
#define C05_NUM_DOMAIN \
__CPROVER_requires(g_nw <= 18 && g_nwx <= 15) \
__CPROVER_requires(r->offset + (root_type_ch == '-') + g_nw >= r->length || !C05_ISDIGIT(r->data[r->offset + (root_type_ch == '-') + g_nw])) \
__CPROVER_requires(r->offset + (root_type_ch == '-') + 2 + g_nwx >= r->length || !C05_ISHEX(r->data[r->offset + (root_type_ch == '-') + 2 + g_nwx]))
#define C05_POW10(k) ((k) == 0 ? 1ull : (k) == 1 ? 10ull : (k) == 2 ? 100ull : (k) == 3 ? 1000ull : (k) == 4 ? 10000ull : (k) == 5 ? 100000ull : (k) == 6 ? 1000000ull : \
  (k) == 7 ? 10000000ull : (k) == 8 ? 100000000ull : (k) == 9 ? 1000000000ull : (k) == 10 ? 10000000000ull : (k) == 11 ? 100000000000ull : (k) == 12 ? 1000000000000ull : \
  (k) == 13 ? 10000000000000ull : (k) == 14 ? 100000000000000ull : (k) == 15 ? 1000000000000000ull : (k) == 16 ? 10000000000000000ull : (k) == 17 ? 100000000000000000ull : 1000000000000000000ull)
/* extra loop invariants of the digit loops: the cursor stays in front of the witness, the accumulator is below base^digits */
#define C05_NUM_INV_DEC __CPROVER_loop_invariant(r->offset <= g_j.nstart + (negative ? 1 : 0) + g_nw && (uint64_t)int_data < C05_POW10(r->offset - g_j.nstart - (negative ? 1 : 0)))
#define C05_NUM_INV_HEX __CPROVER_loop_invariant(r->offset >= g_j.nstart + (negative ? 1 : 0) + 2 && r->offset <= g_j.nstart + (negative ? 1 : 0) + 2 + g_nwx && \
                                                 ((uint64_t)int_data >> (4 * (r->offset - g_j.nstart - (negative ? 1 : 0) - 2))) == 0)
#else
#define C05_NUM_DOMAIN
#define C05_NUM_INV_DEC
#define C05_NUM_INV_HEX
#endif
extern size_t g_nw, g_nwx;
void JSON_parse_number(StringReader* r, bool disable_extensions, char root_type_ch, JVal* ret)
C05_RD_REQ(r) C05_RET_REQ
__CPROVER_requires(r->offset < r->length && (char)r->data[r->offset] == root_type_ch)
__CPROVER_requires(root_type_ch == '-' || root_type_ch == '+' || C05_ISDIGIT(root_type_ch))
C05_NUM_DOMAIN
C05_TOTAL(r)
__CPROVER_ensures(verif_exc == 0 ==> (r->offset > __CPROVER_old(r->offset) || root_type_ch == '+'))
__CPROVER_ensures(verif_exc == 0 ==> ((ret->kind == JV_INT || ret->kind == JV_FLOAT) && ret->is_string == false))
/* the only exception: the input ends right after the exponent marker (out_of_range, "unterminated") */
EFULL(verif_exc != 0 ==> (verif_exc == EXC_out_of_range && (g_j.nq == NQ_E || g_j.nq == NQ_DEAD) && r->offset == r->length))
/* never runs into the next token: every consumed byte is a byte numbers are made of */
EFULL(g_j.nalpha)
/* extent = longest match: while the consumed bytes are a prefix of a number, the scan stops only where no transition exists */
EFULL((verif_exc == 0 && g_j.nq != NQ_DEAD) ==> !C05_NUM_HAS_NEXT(g_j.nq, g_j.nc, g_j.nc2, disable_extensions))
/* kind: integer <=> neither fraction nor exponent -- and, in decimal notation, a value inside the int64 range: an integer numeral
 * outside it (e.g. 100000000000000000000, a number in double range) cannot be an int64 and must not wrap around; it is a float */
EFULL((verif_exc == 0 && C05_NUM_ACCEPTING(g_j.nq)) ==> ((ret->kind == JV_INT) == (C05_NUM_INTEGRAL(g_j.nq) && !(g_j.novf && !g_j.nhex))))
/* integer value = Horner fold of the digits, for every numeral inside the int64 range (INT64_MIN included) */
EFULL((verif_exc == 0 && C05_NUM_INTEGRAL(g_j.nq) && !g_j.novf) ==> (ret->kind == JV_INT && (uint64_t)ret->i == (g_j.nneg ? 0 - g_j.nacc : g_j.nacc)))
/* exponent-form numbers: the exponent the scaling is done with is the value of the exponent digits (see C05_EXP_CARRIED) */
EFULL((verif_exc == 0 && g_j.nq == NQ_EXP) ==> g_j.nexp_ok)
/* hexadecimal notation only when extensions are enabled */
EFULL(g_j.nhex ==> !disable_extensions)
C05_ASSIGNS(r);

/* ================================================================================================== string (O-2) */
/* Ghost automaton for RFC 8259 section 7:  " ( unescaped | \ ( " \ / b f n r t | u XXXX ) )* "  advanced over exactly the bytes the code
 * consumes; it also produces the decoded bytes (count g_j.sn, the byte at the ghost index g_sk in g_j.sbyte).
 * The statement limits \u escapes to U+0000..U+00FF (above: rejected with parse_error).
 * Observations, not counted as violations (g_j.sobs): the code also accepts `\xHH` (an extension JSON.hh does not list) and raw
 * control characters below 0x20 inside strings -- both also in strict mode. */
enum { SQ_START = 0, SQ_BODY = 1, SQ_ESC = 2, SQ_U1 = 3, SQ_U2 = 4, SQ_U3 = 5, SQ_U4 = 6, SQ_X1 = 7, SQ_X2 = 8, SQ_END = 9, SQ_DEAD = 10 };
#define C05_SIMPLE_ESC(c) ((c) == '"' || (c) == '\\' || (c) == '/' || (c) == 'b' || (c) == 'f' || (c) == 'n' || (c) == 'r' || (c) == 't')
#define C05_ESC_BYTE(c) ((c) == 'b' ? 8 : (c) == 'f' ? 12 : (c) == 'n' ? 10 : (c) == 'r' ? 13 : (c) == 't' ? 9 : (c))
#define C05_HEXACC(su, c) ((((su) << 4) | (unsigned)C05_HEXVAL(c)) & 0xFFFFu)
#define C05_STR_NEXT(q, c, su) ((c) == -1 ? (q) : \
  (q) == SQ_START ? ((c) == '"' ? SQ_BODY : SQ_DEAD) : \
  (q) == SQ_BODY ? ((c) == '"' ? SQ_END : (c) == '\\' ? SQ_ESC : SQ_BODY) : \
  (q) == SQ_ESC ? (C05_SIMPLE_ESC(c) ? SQ_BODY : (c) == 'u' ? SQ_U1 : (c) == 'x' ? SQ_X1 : SQ_DEAD) : \
  ((q) == SQ_U1 || (q) == SQ_U2 || (q) == SQ_U3 || (q) == SQ_X1) ? (C05_ISHEX(c) ? (q) + 1 : SQ_DEAD) : \
  (q) == SQ_U4 ? ((C05_ISHEX(c) && C05_HEXACC(su, c) <= 0xFF) ? SQ_BODY : SQ_DEAD) : \
  (q) == SQ_X2 ? (C05_ISHEX(c) ? SQ_BODY : SQ_DEAD) : SQ_DEAD)
/* the byte c completes a character: does the spec emit a decoded byte, and which */
#define C05_STR_HAS_OUT(q, c, su) ((c) != -1 && (((q) == SQ_BODY && (c) != '"' && (c) != '\\') || ((q) == SQ_ESC && C05_SIMPLE_ESC(c)) || \
                                   (((q) == SQ_U4 || (q) == SQ_X2) && C05_ISHEX(c) && C05_HEXACC(su, c) <= 0xFF)))
#define C05_STR_OUT(q, c, su) ((q) == SQ_BODY ? (c) : (q) == SQ_ESC ? C05_ESC_BYTE(c) : (int)(C05_HEXACC(su, c) & 0xFF))
#define C05_STR_ENTRY g_j.sq = SQ_START; g_j.sc = 0; g_j.su = 0; g_j.sout = 0; g_j.shas = 0; g_j.sobs = 0; g_j.sbyte = 0; g_j.sn = 0; g_j.sstart = r->offset
#define C05_STR_STEP (g_j.sc = C05_PEEK(r), \
  g_j.shas = C05_STR_HAS_OUT(g_j.sq, g_j.sc, g_j.su), g_j.sout = C05_STR_OUT(g_j.sq, g_j.sc, g_j.su), \
  g_j.sbyte = (g_j.shas && g_j.sn == g_sk) ? (uint8_t)g_j.sout : g_j.sbyte, g_j.sn = g_j.sn + (g_j.shas ? 1 : 0), \
  g_j.sobs = g_j.sobs || (g_j.sq == SQ_ESC && g_j.sc == 'x') || (g_j.sq == SQ_BODY && g_j.sc >= 0 && g_j.sc < 0x20), \
  g_j.sq = C05_STR_NEXT(g_j.sq, g_j.sc, g_j.su), \
  g_j.su = (g_j.sc != -1 && C05_ISHEX(g_j.sc)) ? C05_HEXACC(g_j.su, g_j.sc) : 0)
#define C05_STR_CAP(r) ((r)->length)
#define C05_STR_PUSH(s, c) vstr_push_back(s, c)
#define C05_STR_EXIT
#define C05_SQ_INHEX(q) ((q) == SQ_U1 || (q) == SQ_U2 || (q) == SQ_U3 || (q) == SQ_U4 || (q) == SQ_X1 || (q) == SQ_X2)
void JSON_parse_string(StringReader* r, JVal* ret)
C05_RD_REQ(r) C05_RET_REQ
__CPROVER_requires(r->offset < r->length && r->data[r->offset] == '"')
C05_TOTAL(r)
__CPROVER_ensures(verif_exc == 0 ==> r->offset > __CPROVER_old(r->offset))
__CPROVER_ensures(verif_exc == 0 ==> (ret->kind == JV_STRING && ret->is_string == true))
/* accepted => the consumed bytes are a complete RFC string (up to the two observations); the cursor is behind the closing quote */
EFULL(verif_exc == 0 ==> g_j.sq == SQ_END)
/* an escape RFC 8259 does not allow, a non-hex digit in \u / \x, \u above U+00FF: parse_error */
EFULL(g_j.sq == SQ_DEAD ==> verif_exc == EXC_parse_error)
/* nothing else is rejected, except an input that ends inside the string: out_of_range (parse_error inside a hex escape) */
EFULL(verif_exc == EXC_out_of_range ==> (r->offset == r->length && (g_j.sq == SQ_BODY || g_j.sq == SQ_ESC)))
EFULL(verif_exc == EXC_parse_error ==> (g_j.sq == SQ_DEAD || (r->offset == r->length && C05_SQ_INHEX(g_j.sq))))
/* decoded text: length and every byte (ghost index g_sk) are the spec's */
EFULL(verif_exc == 0 ==> ret->count == g_j.sn)
EFULL((verif_exc == 0 && g_sk < g_j.sn) ==> ret->sk_byte == g_j.sbyte)
C05_ASSIGNS(r);

/* ============================================================================================= string entry points */
#define C05_CSTR_ENTRY g_j.stage = 0; g_j.pc = C05_PEEK(r); g_j.cmk = 0
#define C05_CSTR_PARSED (g_j.stage = verif_exc ? -1 : 1)     /* (the callee's contract havocs g_j) */
#define C05_CSTR_SKIPPED g_j.stage = 2; g_j.fin_off = r->offset
void JSON_parse_cstr(const char* s, size_t size, bool disable_extensions, JVal* ret)
__CPROVER_requires(size <= C05_MAX) __CPROVER_requires(__CPROVER_is_fresh(s, size)) C05_RET_REQ
__CPROVER_requires(verif_exc == 0)
__CPROVER_ensures(C05_EXCSET)
/* success => nothing but whitespace/comments remained: the whole text was consumed */
__CPROVER_ensures(verif_exc == 0 ==> (g_j.stage == 2 && g_j.fin_off == size))
/* a value followed by something that is not whitespace/comment is rejected with parse_error */
__CPROVER_ensures((g_j.stage == 2 && g_j.fin_off != size) ==> verif_exc == EXC_parse_error)
__CPROVER_assigns(verif_exc, __CPROVER_object_whole(ret), C05_GHOSTS);

void JSON_parse_str(const vstr* s, bool disable_extensions, JVal* ret)
__CPROVER_requires(__CPROVER_is_fresh(s, sizeof(vstr))) __CPROVER_requires(s->size <= C05_MAX && s->size <= s->cap && s->cap <= VSTR_MAXCAP)
__CPROVER_requires(__CPROVER_is_fresh(s->data, s->cap)) C05_RET_REQ
__CPROVER_requires(verif_exc == 0)
__CPROVER_ensures(C05_EXCSET)
__CPROVER_ensures(verif_exc == 0 ==> (g_j.stage == 2 && g_j.fin_off == s->size))
__CPROVER_ensures((g_j.stage == 2 && g_j.fin_off != s->size) ==> verif_exc == EXC_parse_error)
__CPROVER_assigns(verif_exc, __CPROVER_object_whole(ret), C05_GHOSTS);

/* ========================================================================================== JSON::parse (reader)
 * O-1 (also the induction hypothesis for the recursive calls inside the container loops): */
#define C05_LIT_NULL(k) ((k) == 0 ? 'n' : (k) == 1 ? 'u' : 'l')
#define C05_LIT_TRUE(k) ((k) == 0 ? 't' : (k) == 1 ? 'r' : (k) == 2 ? 'u' : 'e')
#define C05_LIT_FALSE(k) ((k) == 0 ? 'f' : (k) == 1 ? 'a' : (k) == 2 ? 'l' : (k) == 3 ? 's' : 'e')
#define C05_CONSUMED(r) ((r)->offset - g_j.rootoff)
void JSON_parse(StringReader* r, bool disable_extensions, JVal* ret)
C05_RD_REQ(r) C05_RET_REQ
__CPROVER_requires(g_j.pc == C05_PEEK(r))
C05_TOTAL(r)
/* success => at least one byte consumed.  Observation: a lone '+' is taken as the integer 0 and consumes nothing. */
__CPROVER_ensures(verif_exc == 0 ==> (r->offset > __CPROVER_old(r->offset) || __CPROVER_old(g_j.pc) == '+'))
__CPROVER_ensures(__CPROVER_old(g_j.pc) == -1 ==> verif_exc == EXC_out_of_range)
__CPROVER_ensures((C05_ISCLOSER(__CPROVER_old(g_j.pc)) && __CPROVER_old(g_j.cmk) == 0) ==> verif_exc == EXC_parse_error)
/* the kind of the value is decided by the first byte after the whitespace */
EFULL(verif_exc == 0 ==> ((g_j.root == '"') == (ret->kind == JV_STRING) && (g_j.root == '{') == (ret->kind == JV_DICT) && (g_j.root == '[') == (ret->kind == JV_LIST)))
__CPROVER_ensures(verif_exc == 0 ==> ret->is_string == (ret->kind == JV_STRING))
EFULL(verif_exc == 0 ==> ((g_j.root == '-' || g_j.root == '+' || C05_ISDIGIT(g_j.root)) == (ret->kind == JV_INT || ret->kind == JV_FLOAT)))
/* constants (O-2): null / true / false are spelled out, or -- extensions on only -- abbreviated to their first letter
 * (every byte of the literal at the ghost index g_j.cmk) */
/* O-4, extent of the value (passed through from the branch that parsed it): containers end right behind the bracket the DFA accepted,
 * strings behind the closing quote, numbers where the RFC automaton has no transition (longest match) */
EFULL((verif_exc == 0 && (ret->kind == JV_LIST || ret->kind == JV_DICT)) ==> (g_j.cq == CQ_ACC && r->offset == g_j.cend))
EFULL((verif_exc == 0 && ret->kind == JV_STRING) ==> g_j.sq == SQ_END)
EFULL((verif_exc == 0 && (ret->kind == JV_INT || ret->kind == JV_FLOAT) && g_j.nq != NQ_DEAD) ==> !C05_NUM_HAS_NEXT(g_j.nq, g_j.nc, g_j.nc2, disable_extensions))
EFULL((verif_exc == 0 && ret->kind == JV_NULL) ==> (C05_CONSUMED(r) == 4 || (!disable_extensions && C05_CONSUMED(r) == 1)))
EFULL((verif_exc == 0 && ret->kind == JV_BOOL && ret->b) ==> (C05_CONSUMED(r) == 4 || (!disable_extensions && C05_CONSUMED(r) == 1)))
EFULL((verif_exc == 0 && ret->kind == JV_BOOL && !ret->b) ==> (C05_CONSUMED(r) == 5 || (!disable_extensions && C05_CONSUMED(r) == 1)))
EFULL((verif_exc == 0 && ret->kind == JV_NULL && __CPROVER_old(g_j.cmk) < C05_CONSUMED(r)) ==> r->data[g_j.rootoff + __CPROVER_old(g_j.cmk)] == C05_LIT_NULL(__CPROVER_old(g_j.cmk)))
EFULL((verif_exc == 0 && ret->kind == JV_BOOL && ret->b && __CPROVER_old(g_j.cmk) < C05_CONSUMED(r)) ==> r->data[g_j.rootoff + __CPROVER_old(g_j.cmk)] == C05_LIT_TRUE(__CPROVER_old(g_j.cmk)))
EFULL((verif_exc == 0 && ret->kind == JV_BOOL && !ret->b && __CPROVER_old(g_j.cmk) < C05_CONSUMED(r)) ==> r->data[g_j.rootoff + __CPROVER_old(g_j.cmk)] == C05_LIT_FALSE(__CPROVER_old(g_j.cmk)))
C05_ASSIGNS(r);
#define C05_PARSE_ENTRY
/* the blocks' contracts havoc g_j: the dispatcher keeps its ghosts in locals and mirrors them after every call */
#define C05_PARSE_SYNC (g_j.root = verif_root, g_j.rootoff = verif_rootoff)
#define C05_PARSE_ROOT int verif_root = root_type_ch; size_t verif_rootoff = r->offset; C05_PARSE_SYNC


#endif
