#!/bin/sh
# C18: cvc5 with bit-vector arithmetic translated to integer arithmetic ("int-blasting").  The nested floor-division
# identities behind format_duration's field decomposition (u / (a*b) == (u / a) / b on 64-bit values) are linear integer
# facts that no bit-blasting back end of the portfolio decides within minutes; cvc5 decides them in < 1 s this way.
# Used through `cbmc --cvc5 --external-smt2-solver <this script>` for the C18 groups that need it (props/C18.py).
exec cvc5 --solve-bv-as-int=sum "$@"
