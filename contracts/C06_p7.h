/* C06: the P7 (PAM) header loop of Image::load.
 * (1) Truncation clause of the property: "any truncated file is rejected with an exception or decodes identically -- never a crash":
 *     for EVERY stream (any number of remaining bytes, any line contents) the header loop TERMINATES (loop variant: bytes left in the
 *     stream) and ends either with an exception or with ENDHDR; an end of file inside the header is rejected with an exception.
 * (2) "every supported input variant (... P7 including grayscale and alpha tuple types) decodes ...": a WELL-FORMED header -- newline after
 *     the signature, then only WIDTH / HEIGHT / DEPTH / MAXVAL / TUPLTYPE lines with acceptable arguments, then ENDHDR, and a DEPTH that
 *     is the tuple type's number of samples (GRAYSCALE 1, GRAYSCALE_ALPHA 2, RGB 3, RGB_ALPHA 4) -- is ACCEPTED, and an accepted header
 *     yields the width / height / maxval the header says (last occurrence), gray vs colour from the tuple type and the alpha channel
 *     exactly for the *_ALPHA types (in-memory pixel depth 4, otherwise 3).  (stubs/C06_p7.h: abstract line contents and header ghosts) */
#ifndef C06C_P7_H
#define C06C_P7_H
#include "stubs/C06_p7.h"
typedef enum { Format_GRAYSCALE_PPM = 0, Format_COLOR_PPM, Format_WINDOWS_BITMAP, Format_PNG } C6Format;
#define P7_FMT(t) (((t) == T_GRAYSCALE || (t) == T_GRAYSCALE_ALPHA) ? Format_GRAYSCALE_PPM : Format_COLOR_PPM)
#define P7_MEMDEPTH(t) (((t) == T_GRAYSCALE_ALPHA || (t) == T_RGB_ALPHA) ? 4 : 3)
#define P7_FILEDEPTH(t) ((t) == T_GRAYSCALE ? 1 : (t) == T_GRAYSCALE_ALPHA ? 2 : (t) == T_RGB ? 3 : 4)
#define P7_WELL_FORMED (g_hfirst == '\n' && g_hwell && g_hend && (!g_hdepth_seen || g_htup == 0 || g_hdepth == P7_FILEDEPTH(g_htup)))
#define P7_TUPLE_INV(fmt, depth) (g_htup != 0 ==> ((fmt) == P7_FMT(g_htup) && (depth) == P7_MEMDEPTH(g_htup)))
void Image_load_p7_header(C6FILE* f, size_t* new_width, size_t* new_height, uint64_t* new_max_value, size_t* new_depth, C6Format* format)
__CPROVER_requires(__CPROVER_is_fresh(f, sizeof(C6FILE)))
__CPROVER_requires(__CPROVER_is_fresh(new_width, sizeof(size_t)))
__CPROVER_requires(__CPROVER_is_fresh(new_height, sizeof(size_t)))
__CPROVER_requires(__CPROVER_is_fresh(new_max_value, sizeof(uint64_t)))
__CPROVER_requires(__CPROVER_is_fresh(new_depth, sizeof(size_t)))
__CPROVER_requires(__CPROVER_is_fresh(format, sizeof(C6Format)))
__CPROVER_requires(verif_exc == 0)
__CPROVER_requires(g_hw == *new_width && g_hh == *new_height && g_hmax == *new_max_value && g_htup == 0 && !g_hdepth_seen && g_hwell == 1 && !g_hend)
__CPROVER_ensures(verif_exc == 0 || verif_exc == EXC_runtime_error || verif_exc == EXC_invalid_argument || verif_exc == EXC_out_of_range)
__CPROVER_ensures(__CPROVER_old(g_rem) == 0 ==> verif_exc != 0)          /* empty (fully truncated) header is rejected */
__CPROVER_ensures(P7_WELL_FORMED ==> verif_exc == 0)                      /* a well-formed header is accepted */
__CPROVER_ensures(verif_exc == 0 ==> g_hend)                              /* an accepted header ended with ENDHDR */
__CPROVER_ensures(verif_exc == 0 ==> (*new_width == g_hw && *new_height == g_hh && *new_max_value == g_hmax))
__CPROVER_ensures(verif_exc == 0 ==> P7_TUPLE_INV(*format, *new_depth))
__CPROVER_assigns(verif_exc, g_rem, *new_width, *new_height, *new_max_value, *new_depth, *format, g_hw, g_hh, g_hmax, g_hdepth, g_htup, g_hdepth_seen, g_hwell, g_hend, g_hfirst);
#endif
