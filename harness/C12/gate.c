/* C12: instantiation gate.  cbmc cannot type-check C++ templates; props/C12.py asks g++ (-std=c++20 -fsyntax-only) whether
 * `template class phosg::LRUMap<int, int>;` accepts the member and passes the answer in as C12_GATE_OK.  A member that
 * does not compile cannot be called by anybody, whatever its text means; it is reported through this group (never counted
 * as a proof) and its semantic groups are left out of the plan until it compiles. */
#include "contracts/verif.h"
void h_gate(void)
{
  int in_instantiates = C12_GATE_OK;
  __CPROVER_assert(in_instantiates == 1, "the member function compiles when LRUMap<int,int> is instantiated (g++ -std=c++20 -fsyntax-only): " C12_GATE_DIAG);
  VERIF_REACH();
}
