/* C18: arithmetic lemma functions.  Each has an empty body and a contract that is PROVED by its own obligation group
 * (goto-instrument --enforce-contract, for all 2^64 arguments); proofs that need the fact call the function as a ghost
 * statement and bind the call to the contract (--replace-call-with-contract).  Nothing here is assumed. */
#ifndef SPEC_C18_ARITH_H
#define SPEC_C18_ARITH_H
#include <stdint.h>

#define C18_US_MIN  60000000ull          /* microseconds per minute */
#define C18_US_HOUR 3600000000ull
#define C18_US_DAY  86400000000ull

/* floor(floor(u / a) / b) == floor(u / (a * b)): the hours and days quotients are nested quotients of the minutes quotient */
void c18_lemma_nested_div(uint64_t u)
__CPROVER_requires(1)
__CPROVER_ensures(u / C18_US_HOUR == (u / C18_US_MIN) / 60)
__CPROVER_ensures(u / C18_US_DAY == ((u / C18_US_MIN) / 60) / 24)
__CPROVER_assigns()
{
}

/* the mixed-radix decomposition: with d = u / DAY, h = (u / HOUR) % 24, m = (u / MIN) % 60 (each computed from u itself)
 * the terms d*DAY, h*HOUR, m*MIN can be subtracted from u one after the other without wrap-around and leave less than a minute.
 * Proved with c18_lemma_nested_div bound to its contract. */
#define C18_D(u) ((u) / C18_US_DAY)
#define C18_H(u) (((u) / C18_US_HOUR) % 24)
#define C18_M(u) (((u) / C18_US_MIN) % 60)
void c18_lemma_dhm(uint64_t u)
__CPROVER_requires(1)
__CPROVER_ensures(C18_D(u) * C18_US_DAY <= u)
__CPROVER_ensures(C18_H(u) * C18_US_HOUR <= u - C18_D(u) * C18_US_DAY)
__CPROVER_ensures(C18_M(u) * C18_US_MIN <= u - C18_D(u) * C18_US_DAY - C18_H(u) * C18_US_HOUR)
__CPROVER_ensures(u - C18_D(u) * C18_US_DAY - C18_H(u) * C18_US_HOUR - C18_M(u) * C18_US_MIN < C18_US_MIN)
__CPROVER_assigns()
{
  c18_lemma_nested_div(u);
}
#endif
