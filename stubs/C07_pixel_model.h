/* C07: canonical models of the loop-level contracts of contracts/C07_image.h ("havoc the assigns clause, assume the ensures clauses"
 * -- what --replace-call-with-contract does, written out so that symbolic execution does not pay for the write-set bookkeeping
 * of a contract replacement in every loop body: measured 25k -> 6k symex steps and 5x less solver time per blit).
 *
 * Pixel accessors: every assumption below is literally an ensures clause macro of the contract (WP_EXC, WP_PIX, RP_PIX); the
 * requires clauses are asserted.  The groups Image.model.* enforce the contract on each model (model |= contract); contract |=
 * model holds by construction (the model assumes nothing else).
 * Outlined arithmetic helpers (-DC07_ARITH_MODEL): the function-point contract of the helper (BLH8 / BLHM / BLHA in the contract
 * header, proved on the extracted expression text by the groups Image.<fn>.arith[k]) with its definitional hypothesis
 * "g_bo == specification formula of the tuple" discharged -- that hypothesis is a precondition (DEF_REQ) wherever a loop-level
 * contract is used, see contracts/C07_image.h. */
#ifndef C07_PIXEL_MODEL_H
#define C07_PIXEL_MODEL_H
#include "contracts/C07_image.h"

uint64_t nondet_C07_u64(void);
uint32_t nondet_C07_u32(void);
int nondet_C07_int(void);
ssize_t nondet_C07_ssize(void);

#define MODEL_REQ(self) \
  __CPROVER_assert(verif_exc == 0, "pixel accessor called with an exception in flight"); \
  __CPROVER_assert(IMG_VALID(self), "pixel accessor: Image type invariant")

void Image_read_pixel(const Image* self, ssize_t x, ssize_t y, uint64_t* r, uint64_t* g, uint64_t* b, uint64_t* a)
{
  MODEL_REQ(self);
  verif_exc = nondet_C07_int();
  if (r) *r = nondet_C07_u64();
  if (g) *g = nondet_C07_u64();
  if (b) *b = nondet_C07_u64();
  if (a) *a = nondet_C07_u64();
  __CPROVER_assume(WP_EXC(self, x, y, verif_exc));
  __CPROVER_assume(self == g_dimg ==> RP_PIX(self, x, y, r, g, b, a, g_dx, g_dy, g_dr, g_dg, g_db, g_da));
  __CPROVER_assume(self == g_simg ==> RP_PIX(self, x, y, r, g, b, a, g_sx, g_sy, g_sr, g_sg, g_sb, g_sa));
  __CPROVER_assume(self == g_mimg ==> RP_PIX(self, x, y, r, g, b, a, g_mx, g_my, g_mr, g_mg, g_mb, g_ma));
#ifdef C07_GHOST2
  __CPROVER_assume(self == g_dimg ==> RP_PIX(self, x, y, r, g, b, a, g_ex, g_ey, g_er, g_eg, g_eb, g_ea));
#endif
}

void Image_write_pixel(Image* self, ssize_t x, ssize_t y, uint64_t r, uint64_t g, uint64_t b, uint64_t a)
{
  MODEL_REQ(self);
  __CPROVER_assert(self == g_dimg, "write_pixel on a canvas other than the destination");
  uint64_t o_r = g_dr, o_g = g_dg, o_b = g_db, o_a = g_da;
  verif_exc = nondet_C07_int();
  g_dr = nondet_C07_u64(); g_dg = nondet_C07_u64(); g_db = nondet_C07_u64(); g_da = nondet_C07_u64();
  __CPROVER_assume(WP_EXC(self, x, y, verif_exc));
  __CPROVER_assume(WP_PIX(self, x, y, r, g, b, a, g_dx, g_dy, o_r, o_g, o_b, o_a, g_dr, g_dg, g_db, g_da));
#ifdef C07_GHOST2
  uint64_t p_r = g_er, p_g = g_eg, p_b = g_eb, p_a = g_ea;
  g_er = nondet_C07_u64(); g_eg = nondet_C07_u64(); g_eb = nondet_C07_u64(); g_ea = nondet_C07_u64();
  __CPROVER_assume(WP_PIX(self, x, y, r, g, b, a, g_ex, g_ey, p_r, p_g, p_b, p_a, g_er, g_eg, g_eb, g_ea));
#endif
}

/* ---- custom_blit callbacks: an arbitrary function, sampled at one symbolic argument tuple ---- */
void verif_cb32(uint32_t* dc, uint32_t sc)
{
  uint32_t o = *dc;
  *dc = nondet_C07_u32();
  __CPROVER_assume((o == g_cb_d && sc == g_cb_s) ==> *dc == g_cb_out);
}
void verif_cb64(uint64_t* dr, uint64_t* dg, uint64_t* db, uint64_t* da, uint64_t sr, uint64_t sg, uint64_t sb, uint64_t sa)
{
  uint64_t o_r = *dr, o_g = *dg, o_b = *db, o_a = *da;
  *dr = nondet_C07_u64(); *dg = nondet_C07_u64(); *db = nondet_C07_u64(); *da = nondet_C07_u64();
  __CPROVER_assume((o_r == g_ci_dr && o_g == g_ci_dg && o_b == g_ci_db && o_a == g_ci_da && sr == g_ci_sr && sg == g_ci_sg && sb == g_ci_sb && sa == g_ci_sa)
                   ==> (*dr == g_co_r && *dg == g_co_g && *db == g_co_b && *da == g_co_a));
}

#ifdef C07_ARITH_MODEL
/* ---- the outlined dash selector of the axis-aligned lines: an unconstrained value (it only selects a branch); its precondition is asserted ---- */
ssize_t x_h_div1(ssize_t x, ssize_t dash_length)
{ __CPROVER_assert(dash_length != 0 && COORD_OK(x) && COORD_OK(dash_length), "dash selector: no division by zero / overflow"); return nondet_C07_ssize(); }
ssize_t x_v_div1(ssize_t y, ssize_t dash_length)
{ __CPROVER_assert(dash_length != 0 && COORD_OK(y) && COORD_OK(dash_length), "dash selector: no division by zero / overflow"); return nondet_C07_ssize(); }

/* ---- the outlined slope of draw_line: any double ---- */
double nondet_C07_double(void);
double x_line_slope(ssize_t dy, ssize_t dx) { return nondet_C07_double(); }

/* ---- the outlined blend expressions ---- */
#define MBLH8(name, AL, C, D, gc, gd, gbo) uint64_t name(P8) { uint64_t ret = nondet_C07_u64(); \
  __CPROVER_assume((g_tup_ok && (AL) == g_t_al && (C) == gc && (D) == gd) ==> ret == gbo); return ret; }
MBLH8(x_fill_bl1, p1, p2, p5, g_t_cr, g_t_dr, g_bo_r)
MBLH8(x_fill_bl2, p1, p3, p6, g_t_cg, g_t_dg, g_bo_g)
MBLH8(x_fill_bl3, p1, p4, p7, g_t_cb, g_t_db, g_bo_b)
MBLH8(x_fill_bl4, p1, p1, p8, g_t_ca, g_t_da, g_bo_a)
MBLH8(x_blit_bl1, p4, p1, p5, g_t_cr, g_t_dr, g_bo_r)
MBLH8(x_blit_bl2, p4, p2, p6, g_t_cg, g_t_dg, g_bo_g)
MBLH8(x_blit_bl3, p4, p3, p7, g_t_cb, g_t_db, g_bo_b)
MBLH8(x_blit_bl4, p4, p4, p8, g_t_ca, g_t_da, g_bo_a)
#define MBLHM(name, C, D, gc, gd, gbo) uint64_t name(const Image* self, P8) { uint64_t ret = nondet_C07_u64(); \
  __CPROVER_assert(self->max_value != 0, "blend helper: max_value != 0"); \
  __CPROVER_assume((g_tup_ok && p4 == g_t_al && (C) == gc && (D) == gd && self->max_value == g_t_mx) ==> ret == gbo); return ret; }
MBLHM(x_blend_bl1, p1, p5, g_t_cr, g_t_dr, g_bo_r)
MBLHM(x_blend_bl2, p2, p6, g_t_cg, g_t_dg, g_bo_g)
MBLHM(x_blend_bl3, p3, p7, g_t_cb, g_t_db, g_bo_b)
MBLHM(x_blend_bl4, p4, p8, g_t_ca, g_t_da, g_bo_a)
uint64_t x_blenda_bl1(const Image* self, uint64_t source_alpha, uint64_t sr, uint64_t sg, uint64_t sb, uint64_t sa)
{ uint64_t ret = nondet_C07_u64(); __CPROVER_assert(self->max_value != 0, "blend helper: max_value != 0");
  __CPROVER_assume((g_tup_ok && source_alpha == g_t_e1 && sa == g_t_e2 && self->max_value == g_t_mx) ==> ret == g_bo_e); return ret; }
#define MBLHA(name, C, D, gc, gd, gbo) uint64_t name(const Image* self, uint64_t source_alpha, uint64_t effective_alpha, P8) { uint64_t ret = nondet_C07_u64(); \
  __CPROVER_assert(self->max_value != 0, "blend helper: max_value != 0"); \
  __CPROVER_assume((g_tup_ok && effective_alpha == g_t_al && (C) == gc && (D) == gd && self->max_value == g_t_mx) ==> ret == gbo); return ret; }
MBLHA(x_blenda_bl2, p1, p5, g_t_cr, g_t_dr, g_bo_r)
MBLHA(x_blenda_bl3, p2, p6, g_t_cg, g_t_dg, g_bo_g)
MBLHA(x_blenda_bl4, p3, p7, g_t_cb, g_t_db, g_bo_b)
#endif
#endif
