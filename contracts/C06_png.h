/* C06 side-car contract for write_png_chunk (src/Image.cc); PNG specification (ISO/IEC 15948) 5.3 "Chunk layout":
 *   Length (4 bytes, big-endian, counts only the data field) | Chunk Type (4 bytes) | Chunk Data (Length bytes) | CRC (4 bytes,
 *   big-endian, "calculated on the preceding bytes in the chunk, including the chunk type field and chunk data fields, but not
 *   including the length field. The CRC is always present, even for chunks containing no data.")
 * The CRC function is abstract (stubs/C06_png.h): CRC(type) = g_crc_type, CRC(type||data) = g_crc_full. */
#ifndef C06_PNG_CONTRACT_H
#define C06_PNG_CONTRACT_H
#include "stubs/C06_png.h"

#define C6P_LAST (g_png_size ? 3 : 2)
#define C6P_EXPECTED_CRC (g_png_size ? g_crc_full : g_crc_type)

static void write_png_chunk(const char* type, const void* data, uint32_t size_host)
__CPROVER_requires(__CPROVER_is_fresh(type, 5))
__CPROVER_requires(size_host == 0 || (size_host <= C6P_MAXDATA && __CPROVER_is_fresh(data, size_host)))   /* no data: any pointer, null included (IEND) */
__CPROVER_requires(g_png_type == type && g_png_data == data && g_png_size == size_host)
__CPROVER_requires(g_pw_calls == 0 && g_pw_total == 0 && g_crc_bad == 0)
__CPROVER_ensures(g_pw_calls == (g_png_size ? 4 : 3) && g_pw_total == 12 + (size_t)g_png_size)
__CPROVER_ensures(g_pw_len[0] == 4 && g_pw_be[0] == g_png_size)                       /* length field */
__CPROVER_ensures(g_pw_len[1] == 4 && g_pw_ptr[1] == (const void*)g_png_type)                      /* chunk type   */
__CPROVER_ensures(g_png_size != 0 ==> (g_pw_ptr[2] == g_png_data && g_pw_len[2] == g_png_size))    /* chunk data   */
__CPROVER_ensures(g_pw_len[C6P_LAST] == 4 && g_pw_be[C6P_LAST] == C6P_EXPECTED_CRC) /* CRC over type||data, also for an empty chunk */
__CPROVER_ensures(g_crc_bad == 0)
__CPROVER_assigns(g_pw_calls, g_pw_total, g_crc_bad, __CPROVER_object_whole(g_pw_ptr), __CPROVER_object_whole(g_pw_len), __CPROVER_object_whole(g_pw_be));
#endif
