/* C01/C02: typed accessors for ONE type T per compilation:
 *   wrapper types:  -DT=be_uint16_t -DCE=be_uint16_t -DCLS=big_endian -DExposedT=uint16_t -DStoredT=uint16_t -DW=16 -DNAMED=1 -DISFLOAT=0 ...
 *   native 8-bit:   -DT=uint8_t -DNATIVE8=1 -DExposedT=uint8_t
 * plus -DFN_RD_GET=StringReader_get_u16b ... naming the one-liners that use T. */
#include "harness/RW/common.h"
#include "x_reader_core.c"
#include "x_writer_core.c"
#if !NATIVE
#include "contracts/C03_spec.h"
#include "x_bswap_spec.c"
#include "x_platform.h"
#include "x_ce_map.h"
#define M(n) CAT(CE, _##n)
#define BSWAP_SPEC_(A, R) bswap__##A##__##R
#define BSWAP_SPEC(A, R) BSWAP_SPEC_(A, R)
typedef struct __attribute__((packed)) { StoredT value; } CE;
#define BASE CAT(BASE_, CLS)
#define ArgT ExposedT
#define ResultT StoredT
#define ST_FN M(onstore)
#include CAT(STORE_INC_, BASE)
#undef ArgT
#undef ResultT
#undef ST_FN
#define ArgT StoredT
#define ResultT ExposedT
#define ST_FN M(onload)
#include CAT(LOAD_INC_, BASE)
#undef ArgT
#undef ResultT
#undef ST_FN
StoredT g_self_raw;
#define R int
#define COMMON int
#define COMMON_SIGNED 1
#define COMMON_MIN INT_MIN
#include "contracts/C03_ce.h"
#include "x_ce_members.inc"
#define CONVT(p) M(conv)(p)
#define CTORT(w, v) M(ctor)(w, v)
#else
#define CONVT(p) (*(p))
#define CTORT(w, v) (*(w) = (v))
#endif
#include "contracts/RW_typed.h"
#include "x_rw_tmpl.inc"
#include ONE_INC

#if FKIND == 1
void h_fn(void) { StringReader* r; IN_STATE; bool in_advance; FN(r, in_advance); VERIF_REACH(); }
#elif FKIND == 2
void h_fn(void) { StringReader* r; IN_STATE; size_t in_offset; FN(r, in_offset); VERIF_REACH(); }
#elif FKIND == 3
void h_fn(void) { StringWriter* w; IN_STATE; SPEC_T in_v; FN(w, in_v); VERIF_REACH(); }
#elif FKIND == 4
void h_fn(void) { StringWriter* w; IN_STATE; size_t in_offset; SPEC_T in_v; FN(w, in_offset, in_v); VERIF_REACH(); }
#elif FKIND == 5
void h_fn(void) { BufferWriter* w; IN_STATE; SPEC_T in_v; FN(w, in_v); VERIF_REACH(); }
#elif FKIND == 6
void h_fn(void) { BufferWriter* w; IN_STATE; size_t in_offset; SPEC_T in_v; FN(w, in_offset, in_v); VERIF_REACH(); }
#endif

#if FKIND == 7
/* C01 round trip, a lemma over the two contracts: a value appended with put_X and read back with get_X at the same
 * position is bit-identical, and the cursor advances by exactly the encoded width. */
#ifndef LEMMA_MAX
#define LEMMA_MAX 0x100000
#endif
void l_roundtrip_sw(void) {
  IN_STATE; SPEC_T in_v; verif_exc = 0;
  StringWriter* w = malloc(sizeof(StringWriter));
  __CPROVER_assume(w != 0);
  __CPROVER_assume(in_wcap <= LEMMA_MAX && in_wsize <= in_wcap && WB <= in_wcap - in_wsize);
  w->data.data = malloc(in_wcap); w->data.size = in_wsize; w->data.cap = in_wcap;
  __CPROVER_assume(w->data.data != 0);
  __CPROVER_assume(in_vk >= in_wsize && in_vk - in_wsize < WB);   /* ghost byte index inside the appended value */
  __CPROVER_assume(in_vk < in_wsize ==> in_vval == (uint8_t)w->data.data[in_vk]);
  FN(w, in_v);
  StringReader* r = malloc(sizeof(StringReader));
  __CPROVER_assume(r != 0);
  r->data = (const uint8_t*)w->data.data; r->length = w->data.size; r->offset = in_wsize;
  g_len = r->length; g_off = r->offset;
  SPEC_T back = FN2(r, 1);
  __CPROVER_assert(verif_exc == 0, "reading back what was appended does not throw");
  __CPROVER_assert(SBYTE(SBITS(back), in_vk - in_wsize) == SBYTE(SBITS(in_v), in_vk - in_wsize), "every byte (ghost index) of get_X(put_X(v)) equals that byte of v: bit-identical");
  __CPROVER_assert(r->offset == in_wsize + WB && r->offset == r->length, "cursor advanced by exactly the encoded width");
  VERIF_REACH();
}
#endif
