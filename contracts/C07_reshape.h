/* C07: MEMORY-LEVEL contracts of the whole-buffer operations of Image (src/Image.cc): set_channel_width, set_has_alpha, copy / move.
 * The loops are closed by loop contracts over a ghost sample / pixel index, but the element count width*height*channels is a product of
 * two symbolic values that occurs in the allocation size, the loop bound and the buffer size: BOUNDED in canvas dimension like the pixel
 * accessors (both dimensions below 2^RS_DIMBITS).  One instantiation per channel-width pair / alpha direction (-DOW -DNW -DHA).
 * Allocation is assumed to succeed (cbmc --no-malloc-may-fail): the code does not test the result of malloc. */
#ifndef C07_RESHAPE_H
#define C07_RESHAPE_H
#include "contracts/C07_clauses.h"
#include "stubs/libc.h"

extern size_t g_k;                 /* ghost sample / pixel / byte index */
extern uint64_t g_v, g_v1, g_v2;   /* ghost value idiom: the sample(s) at g_k on entry */
#ifndef RS_DIMBITS
#define RS_DIMBITS 4             /* the element count width*height is a non-linear term: canvas dimensions below 2^4 (quick) / 2^5 (thorough), symbolic within the bound */
#endif
#define RS_DIM ((ssize_t)1 << RS_DIMBITS)
#define NCHAN(ha) ((ha) ? 4 : 3)
#define PIXELS(i) (((size_t)(i)->width) * ((size_t)(i)->height))
#define CT_(w) uint##w##_t
#define CT(w) CT_(w)
#define SAMPLE(i, w, k) ((uint64_t)((const CT(w)*)(i)->data.raw)[k])
#define RS_REQ(self, cw, ha) \
  __CPROVER_requires(__CPROVER_is_fresh(self, sizeof(Image))) \
  __CPROVER_requires(verif_exc == 0) \
  __CPROVER_requires(IMG_VALID(self) && self->channel_width == (cw) && self->has_alpha == (ha) && self->width < RS_DIM && self->height < RS_DIM) \
  __CPROVER_requires(SHAPE_IS(self, g_dw, g_dh, g_dalpha, g_dcw)) \
  __CPROVER_requires(__CPROVER_is_fresh(self->data.raw, PIXELS(self) * NCHAN(ha) * ((cw) / 8)))

/* ---- set_channel_width: Image.cc comment: "If the new channel width is larger than the current width, expand the channels by copying the
 * now-high bits to the lower bits. If the new channel width is smaller, preserve only the high bits of the original values." ---- */
#define REP2(v, w) (((v) << (w)) | (v))
#define WIDEN(v, ow, nw) ((nw) == 2 * (ow) ? REP2((uint64_t)(v), ow) : (nw) == 4 * (ow) ? REP2(REP2((uint64_t)(v), ow), 2 * (ow)) : REP2(REP2(REP2((uint64_t)(v), ow), 2 * (ow)), 4 * (ow)))
#define NARROW(v, ow, nw) (((uint64_t)(v)) >> ((ow) - (nw)))
#define CONVW(v, ow, nw) ((nw) > (ow) ? WIDEN(v, ow, nw) : NARROW(v, ow, nw))
#if defined(OW) && defined(NW)
void Image_set_channel_width(Image* self, uint8_t new_width)
RS_REQ(self, OW, HA)
__CPROVER_requires(new_width == NW)
__CPROVER_requires(g_k < PIXELS(self) * NCHAN(HA) ==> g_v == SAMPLE(self, OW, g_k))
__CPROVER_ensures(verif_exc == 0)
__CPROVER_ensures(self->channel_width == NW && self->max_value == MASKW(NW) && self->width == g_dw && self->height == g_dh && self->has_alpha == HA)
__CPROVER_ensures(g_k < PIXELS(self) * NCHAN(HA) ==> SAMPLE(self, NW, g_k) == CONVW(g_v, OW, NW))
__CPROVER_assigns(verif_exc, self->channel_width, self->max_value, self->data.raw)
__CPROVER_frees(self->data.raw);
#endif

/* ---- set_has_alpha: the colour channels of every pixel are kept; an added alpha channel holds max_value ---- */
#if defined(CWA)
void Image_set_has_alpha(Image* self, bool new_has_alpha)
RS_REQ(self, CWA, HA)
__CPROVER_requires(new_has_alpha == !HA)
__CPROVER_requires(g_k < PIXELS(self) ==> (g_v == SAMPLE(self, CWA, g_k * NCHAN(HA)) && g_v1 == SAMPLE(self, CWA, g_k * NCHAN(HA) + 1) && g_v2 == SAMPLE(self, CWA, g_k * NCHAN(HA) + 2)))
__CPROVER_ensures(verif_exc == 0)
__CPROVER_ensures(self->has_alpha == !HA && self->channel_width == CWA && self->max_value == MASKW(CWA) && self->width == g_dw && self->height == g_dh)
__CPROVER_ensures(g_k < PIXELS(self) ==> (SAMPLE(self, CWA, g_k * NCHAN(!HA)) == g_v && SAMPLE(self, CWA, g_k * NCHAN(!HA) + 1) == g_v1 && SAMPLE(self, CWA, g_k * NCHAN(!HA) + 2) == g_v2))
__CPROVER_ensures((g_k < PIXELS(self) && !HA) ==> SAMPLE(self, CWA, g_k * 4 + 3) == MASKW(CWA))
__CPROVER_assigns(verif_exc, self->has_alpha, self->data.raw)
__CPROVER_frees(self->data.raw);
#endif

/* ---- copies are deep: equal shape, a fresh buffer, equal bytes (ghost byte index g_mk of the memcpy stub) ---- */
#define BYTES(i) (PIXELS(i) * (3 + (size_t)(i)->has_alpha) * ((size_t)(i)->channel_width / 8))
#define SRC_IMG_REQ(im) \
  __CPROVER_requires(__CPROVER_is_fresh(im, sizeof(Image))) \
  __CPROVER_requires(IMG_VALID(im) && im->width < RS_DIM && im->height < RS_DIM) \
  __CPROVER_requires(SHAPE_IS(im, g_sw, g_sh, g_salpha, g_scw)) \
  __CPROVER_requires(__CPROVER_is_fresh(im->data.raw, BYTES(im)))
#define SAME_SHAPE(a, b) ((a)->width == (b)->width && (a)->height == (b)->height && (a)->has_alpha == (b)->has_alpha && \
                          (a)->channel_width == (b)->channel_width && (a)->max_value == (b)->max_value)
#define BYTE_AT(i, k) (((const uint8_t*)(i)->data.raw)[k])
void Image_copy_ctor(Image* self, const Image* im)
__CPROVER_requires(__CPROVER_is_fresh(self, sizeof(Image)))
SRC_IMG_REQ(im)
__CPROVER_requires(verif_exc == 0)
__CPROVER_ensures(verif_exc == 0 && SAME_SHAPE(self, im))
__CPROVER_ensures(__CPROVER_is_fresh(self->data.raw, BYTES(im)))
__CPROVER_ensures(g_mk < BYTES(im) ==> BYTE_AT(self, g_mk) == BYTE_AT(im, g_mk))
__CPROVER_assigns(verif_exc, __CPROVER_object_whole(self));
/* the old buffer of an assignment target: none (-DOLD_NULL=1) or a heap object of its own */
#if OLD_NULL
#define OLD_BUF_REQ(self) __CPROVER_requires(self->data.raw == 0)
#else
#define OLD_BUF_REQ(self) __CPROVER_requires(__CPROVER_is_fresh(self->data.raw, 16))
#endif
void Image_copy_assign(Image* self, const Image* im)
__CPROVER_requires(__CPROVER_is_fresh(self, sizeof(Image)))
OLD_BUF_REQ(self)
SRC_IMG_REQ(im)
__CPROVER_requires(verif_exc == 0)
__CPROVER_ensures(verif_exc == 0 && SAME_SHAPE(self, im))
__CPROVER_ensures(__CPROVER_is_fresh(self->data.raw, BYTES(im)))
__CPROVER_ensures(g_mk < BYTES(im) ==> BYTE_AT(self, g_mk) == BYTE_AT(im, g_mk))
__CPROVER_assigns(verif_exc, __CPROVER_object_whole(self))
__CPROVER_frees(self->data.raw);
/* ---- moves: the buffer changes hands, the source becomes the empty 8-bit canvas ---- */
#define EMPTIED(im) ((im)->width == 0 && (im)->height == 0 && !(im)->has_alpha && (im)->channel_width == 8 && (im)->max_value == 0xFF && (im)->data.raw == 0)
void Image_move_ctor(Image* self, Image* im)
__CPROVER_requires(__CPROVER_is_fresh(self, sizeof(Image)))
__CPROVER_requires(__CPROVER_is_fresh(im, sizeof(Image)))
__CPROVER_ensures(self->width == __CPROVER_old(im->width) && self->height == __CPROVER_old(im->height) && self->has_alpha == __CPROVER_old(im->has_alpha))
__CPROVER_ensures(self->channel_width == __CPROVER_old(im->channel_width) && self->max_value == __CPROVER_old(im->max_value) && self->data.raw == __CPROVER_old(im->data.raw))
__CPROVER_ensures(EMPTIED(im))
__CPROVER_assigns(__CPROVER_object_whole(self), __CPROVER_object_whole(im));
void Image_move_assign(Image* self, Image* im)
__CPROVER_requires(__CPROVER_is_fresh(self, sizeof(Image)))
OLD_BUF_REQ(self)
__CPROVER_requires(__CPROVER_is_fresh(im, sizeof(Image)))
__CPROVER_ensures(self->width == __CPROVER_old(im->width) && self->height == __CPROVER_old(im->height) && self->has_alpha == __CPROVER_old(im->has_alpha))
__CPROVER_ensures(self->channel_width == __CPROVER_old(im->channel_width) && self->max_value == __CPROVER_old(im->max_value) && self->data.raw == __CPROVER_old(im->data.raw))
__CPROVER_ensures(EMPTIED(im))
__CPROVER_assigns(__CPROVER_object_whole(self), __CPROVER_object_whole(im))
__CPROVER_frees(self->data.raw);
#endif
