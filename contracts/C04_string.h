/* C04: loop contracts of JSON::escape_string and of the string branch of JSON::parse (placeholders are refined below). */
#ifndef C04_STRING_H
#define C04_STRING_H
#include "stubs/C04_json.h"

#define C04_ESCAPE_GHOST ((void)0)
#define C04_ESCAPE_GHOSTS g_c04_dummy
#define C04_ESCAPE_LOOP_INV(ret, s, i) ((i) <= (s)->size)
#define C04_STREAM_GHOSTS g_c04_dummy
#define C04_STRING_LOOP_INV(r, data) (1 == 1)
#define C04_STRING_LOOP_VARIANT(r, data) ((r)->length - (r)->offset)
extern int g_c04_dummy;

void JSON_escape_string(vstr* ret, const vstr* s, int mode);
#endif
