/* C08: split / join and the join(split(s, d), d) == s lemma. */
#include "harness/C08/common.h"
#include "x_split.c"
#include "x_join.c"

void h_split(void) { vvec* ret; const vstr* s; char in_delim; size_t in_max_splits; IN_GHOSTS; split(ret, s, in_delim, in_max_splits); VERIF_REACH(); }
void h_split_w(void) { vvec* ret; const vstr* s; char in_delim; size_t in_max_splits; IN_GHOSTS; split_w(ret, s, in_delim, in_max_splits); VERIF_REACH(); }
void h_join_delim(void) { vout* ret; const vsvec* items; char in_delim; IN_GHOSTS; join_delim(ret, items, in_delim); VERIF_REACH(); }
void h_join_plain(void) { vout* ret; const vsvec* items; IN_GHOSTS; join_plain(ret, items); VERIF_REACH(); }

#define SPLITFN split
#define LEMMA_NAME l_join_split
#include "harness/C08/lemma.h"

/* ---- bounded stand-in for the numeric clause  count == min(#delimiters, max_splits or infinity) + 1  (strings up to BSPLIT_N bytes,
 * every content, delimiter and max_splits; find has its executable definition here) ------------------------------------------- */
#ifdef C8_CONCRETE
#ifndef BSPLIT_N
#define BSPLIT_N 6
#endif
void b_split_count(void) {
  char in_buf[BSPLIT_N]; size_t in_size, in_max_splits; char in_delim; IN_GHOSTS; verif_exc = 0;
  __CPROVER_assume(in_size <= BSPLIT_N);
  vstr s = { in_buf, in_size, BSPLIT_N }; vvec ret = { 0 };
  split(&ret, &s, in_delim, in_max_splits);
  size_t n = 0;
  for (size_t i = 0; i < in_size; i++) if (in_buf[i] == in_delim) n++;
  __CPROVER_assert(verif_exc == 0, "split does not throw");
  __CPROVER_assert(ret.size == ((in_max_splits != 0 && in_max_splits < n) ? in_max_splits : n) + 1, "count == min(#delimiters, max_splits) + 1");
  VERIF_REACH();
}
#endif
