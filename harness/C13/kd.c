/* C13: KDTree against a brute-force entry list, one (shape, operation) per obligation group -- BOUNDED checks only.
 *
 * -DSHAPE_N=n '-DSHAPE_PARENT={..,-1}' '-DSHAPE_SIDE={..,-1}' '-DSHAPE_DIM={..,-1}' -DDIMS=2|3 -DCOORD_T=int16_t
 * '-DKD_UNIT="x_kd2.c"' [-DDEL_K=k]
 * Nodes are numbered breadth-first (parent index < child index); side 0 = before, 1 = after_or_equal.  Every pointer of the
 * pre-state is built from these indices (never nondet).  Coordinates / values / operation arguments are nondet locals named
 * in_* (read from the trace for the native replay). */
#include "contracts/verif.h"
int verif_exc;

#ifndef COORD_T
#define COORD_T int16_t
#endif
typedef COORD_T T;
#define ValueType int
#define VDEQUE_CAP (SHAPE_N + 2)
#define VVEC_CAP (SHAPE_N + 2)
#define KD_POOL (SHAPE_N + 2)
#include KD_UNIT
/* the extracted unit includes the three stubs; named here again (include guards) so that the evidence scan lists their assumes */
#include "stubs/C13_deque.h"
#include "stubs/C13_pair.h"
#include "stubs/C13_pool.h"

#define N SHAPE_N
#define NA (SHAPE_N + 1) /* array length: the shape arrays carry one trailing dummy so that they are never empty */
#define NE (SHAPE_N + 1) /* entry list capacity: the shape's entries plus one inserted entry */

static const int sh_parent[NA] = SHAPE_PARENT;
static const int sh_side[NA] = SHAPE_SIDE;
static const int sh_dim[NA] = SHAPE_DIM;

/* ---- the brute-force model: a plain list of entries ------------------------------------------------------------------- */
static T e_c[NE][3];
static ValueType e_v[NE];
static int e_alive[NE];

static Node* nd[NA];
static KDTree tree;

#if DIMS == 2
#define KD_INPUTS T in_c0[NA], in_c1[NA]; ValueType in_v[NA]; \
  for (int i_ = 0; i_ < N; i_++) { e_c[i_][0] = in_c0[i_]; e_c[i_][1] = in_c1[i_]; e_c[i_][2] = 0; e_v[i_] = in_v[i_]; e_alive[i_] = 1; }
#define KD_POINT(name) T in_##name##0, in_##name##1; T name##c[3]; name##c[0] = in_##name##0; name##c[1] = in_##name##1; name##c[2] = 0
#define PT_SET(p, c) do { (p).x = (c)[0]; (p).y = (c)[1]; } while (0)
#define PT_GET(p, d) ((d) == 0 ? (p).x : (p).y)
#else
#define KD_INPUTS T in_c0[NA], in_c1[NA], in_c2[NA]; ValueType in_v[NA]; \
  for (int i_ = 0; i_ < N; i_++) { e_c[i_][0] = in_c0[i_]; e_c[i_][1] = in_c1[i_]; e_c[i_][2] = in_c2[i_]; e_v[i_] = in_v[i_]; e_alive[i_] = 1; }
#define KD_POINT(name) T in_##name##0, in_##name##1, in_##name##2; T name##c[3]; name##c[0] = in_##name##0; name##c[1] = in_##name##1; name##c[2] = in_##name##2
#define PT_SET(p, c) do { (p).x = (c)[0]; (p).y = (c)[1]; (p).z = (c)[2]; } while (0)
#define PT_GET(p, d) ((d) == 0 ? (p).x : (d) == 1 ? (p).y : (p).z)
#endif

static int c_eq(const T* a, const T* b) {
  for (int d = 0; d < DIMS; d++) {
    if (a[d] != b[d]) {
      return 0;
    }
  }
  return 1;
}
static int pt_is(const CoordType* p, const T* c) {
  for (int d = 0; d < DIMS; d++) {
    if (PT_GET(*p, d) != c[d]) {
      return 0;
    }
  }
  return 1;
}
static int in_box(const T* c, const T* lo, const T* hi) {
  for (int d = 0; d < DIMS; d++) {
    if (c[d] < lo[d] || c[d] >= hi[d]) {
      return 0;
    }
  }
  return 1;
}
/* number of live list entries equal to (c, v) / located at c / inside the half-open box */
static int list_count(const T* c, ValueType v) {
  int k = 0;
  for (int i = 0; i < NE; i++) {
    if (e_alive[i] && c_eq(e_c[i], c) && e_v[i] == v) {
      k++;
    }
  }
  return k;
}
static int list_count_at(const T* c) {
  int k = 0;
  for (int i = 0; i < NE; i++) {
    if (e_alive[i] && c_eq(e_c[i], c)) {
      k++;
    }
  }
  return k;
}
static int list_count_box(const T* lo, const T* hi) {
  int k = 0;
  for (int i = 0; i < NE; i++) {
    if (e_alive[i] && in_box(e_c[i], lo, hi)) {
      k++;
    }
  }
  return k;
}
static int list_size(void) {
  int k = 0;
  for (int i = 0; i < NE; i++) {
    k += e_alive[i] != 0;
  }
  return k;
}

/* ---- pre-state: an arbitrary tree of the given shape that satisfies the representation invariant ---------------------- */
static void kd_build(void) {
  verif_exc = 0;
  for (int i = 0; i < N; i++) {
    nd[i] = node_alloc();
  }
  for (int i = 0; i < N; i++) {
    PT_SET(nd[i]->pt, e_c[i]);
    nd[i]->value = e_v[i];
    nd[i]->dim = (size_t)sh_dim[i];
    nd[i]->before = 0;
    nd[i]->after_or_equal = 0;
    nd[i]->parent = sh_parent[i] < 0 ? 0 : nd[sh_parent[i]];
  }
  for (int i = 1; i < N; i++) {
    if (sh_side[i] == 0) {
      nd[sh_parent[i]]->before = nd[i];
    } else {
      nd[sh_parent[i]]->after_or_equal = nd[i];
    }
  }
  tree.root = N ? nd[0] : 0;
  tree.node_count = N;
  /* ordering invariant, the induction hypothesis: relative to every ancestor p (split axis dim(p)) an entry below
   * p->before is strictly smaller, an entry below p->after_or_equal is greater or equal */
  for (int i = 1; i < N; i++) {
    int a = i;
    for (int s = 0; s < N; s++) {
      if (sh_parent[a] < 0) {
        break;
      }
      int p = sh_parent[a];
      int d = sh_dim[p];
      if (sh_side[a] == 0) {
        __CPROVER_assume(e_c[i][d] < e_c[p][d]);
      } else {
        __CPROVER_assume(e_c[i][d] >= e_c[p][d]);
      }
      a = p;
    }
  }
}

/* ---- post-state: representation invariant + multiset ------------------------------------------------------------------ */
static Node* seen[KD_POOL + 1];
static int nseen;

/* collects the reachable nodes; asserts the structural part of the invariant */
static void kd_check_structure(void) {
  nseen = 0;
  int ok_ptr = 1, ok_parent = 1, ok_dim = 1;
  if (tree.root) {
    if (kd_live_index(tree.root) < 0) {
      ok_ptr = 0;
    } else {
      ok_parent = ok_parent && (tree.root->parent == 0);
      ok_dim = ok_dim && (tree.root->dim == 0);
      seen[nseen++] = tree.root;
    }
  }
  for (int k = 0; k < KD_POOL; k++) {
    if (k >= nseen) {
      break;
    }
    Node* n = seen[k];
    if (n->before && n->before == n->after_or_equal) {
      ok_ptr = 0;
      break;
    }
    for (int s = 0; s < 2; s++) {
      Node* c = s ? n->after_or_equal : n->before;
      if (!c) {
        continue;
      }
      if (kd_live_index(c) < 0 || nseen >= KD_POOL) {
        ok_ptr = 0;
        continue;
      }
      ok_parent = ok_parent && (c->parent == n);
      ok_dim = ok_dim && (c->dim == (n->dim + 1) % DIMS);
      seen[nseen++] = c;
    }
  }
  __CPROVER_assert(ok_ptr, "every child pointer of a reachable node leads to a live node (no dangling pointer, no sharing)");
  __CPROVER_assert(ok_parent, "parent pointers mirror the child pointers");
  __CPROVER_assert(ok_dim, "dim of a node is its depth modulo the number of dimensions");
  int live = 0;
  for (int i = 0; i < KD_POOL; i++) {
    live += (i < (int)kd_used && kd_state[i] == KD_LIVE);
  }
  __CPROVER_assert(live == nseen, "no node is leaked: every live node is reachable from the root");
  __CPROVER_assert(tree.node_count == (size_t)nseen, "node_count equals the number of reachable nodes");
  __CPROVER_assert(KDTree_size(&tree) == (size_t)list_size(), "size() equals the length of the entry list");
}

/* ordering invariant on the post-state (call after kd_check_structure): walks from every reachable node to the root */
static void kd_check_order(void) {
  int ok = 1;
  for (int k = 0; k < KD_POOL; k++) {
    if (k >= nseen) {
      break;
    }
    const Node* x = seen[k];
    const Node* c = x;
    for (int s = 0; s < KD_POOL; s++) {
      const Node* p = c->parent;
      if (!p) {
        break;
      }
      T xv = PT_GET(x->pt, p->dim);
      T pv = PT_GET(p->pt, p->dim);
      if (p->before == c) {
        ok = ok && (xv < pv);
      } else {
        ok = ok && (xv >= pv);
      }
      c = p;
    }
  }
  __CPROVER_assert(ok, "ordering invariant: before-subtree strictly smaller, after_or_equal-subtree greater or equal on the split axis");
}

/* the multiset of entries stored in the reachable nodes equals the entry list, at the symbolic probe entry (q, qv) */
static void kd_check_multiset(const T* q, ValueType qv) {
  int k = 0;
  for (int i = 0; i < KD_POOL; i++) {
    if (i >= nseen) {
      break;
    }
    if (pt_is(&seen[i]->pt, q) && seen[i]->value == qv) {
      k++;
    }
  }
  __CPROVER_assert(k == list_count(q, qv), "the tree stores every entry as often as the entry list does (symbolic probe entry)");
}

#define KD_CHECK_ALL() do { KD_POINT(q); ValueType in_qv; kd_check_structure(); kd_check_order(); kd_check_multiset(qc, in_qv); } while (0)

/* ---- operations --------------------------------------------------------------------------------------------------------- */

void h_insert(void) {
  KD_INPUTS;
  kd_build();
  KD_POINT(p);
  ValueType in_pv;
  CoordType p;
  PT_SET(p, pc);
  Iterator it;
  KDTree_insert(&tree, &p, &in_pv, &it);
  for (int d = 0; d < 3; d++) {
    e_c[N][d] = pc[d];
  }
  e_v[N] = in_pv;
  e_alive[N] = 1;
  __CPROVER_assert(verif_exc == 0, "insert does not throw");
  KD_CHECK_ALL();
  Iterator e;
  KDTree_end(&tree, &e);
  __CPROVER_assert(Iterator_ne(&it, &e), "insert returns a dereferenceable iterator");
  const Pair* cur = Iterator_deref(&it);
  __CPROVER_assert(pt_is(&cur->first, pc) && cur->second == in_pv, "the iterator returned by insert designates the new entry");
  VERIF_REACH();
}

#ifndef DEL_K
#define DEL_K 0
#endif
void h_delete_node(void) {
  KD_INPUTS;
  kd_build();
  int was_leaf = 1;
  for (int i = 0; i < N; i++) {
    if (sh_parent[i] == DEL_K) {
      was_leaf = 0;
    }
  }
  bool r = KDTree_delete_node(&tree, nd[DEL_K]);
  e_alive[DEL_K] = 0;
  __CPROVER_assert(verif_exc == 0, "delete_node does not throw");
  __CPROVER_assert(r == (bool)was_leaf, "delete_node reports whether the node itself was unlinked (it was a leaf)");
  KD_CHECK_ALL();
  VERIF_REACH();
}

void h_erase(void) {
  KD_INPUTS;
  kd_build();
  KD_POINT(p);
  ValueType in_pv;
  CoordType p;
  PT_SET(p, pc);
  int had = list_count(pc, in_pv);
  bool r = KDTree_erase(&tree, &p, &in_pv);
  __CPROVER_assert(verif_exc == 0, "erase does not throw");
  __CPROVER_assert(r == (had > 0), "erase reports whether a matching entry existed");
  /* the list removes exactly one matching entry */
  int removed = 0;
  for (int i = 0; i < N; i++) {
    if (!removed && e_alive[i] && c_eq(e_c[i], pc) && e_v[i] == in_pv) {
      e_alive[i] = 0;
      removed = 1;
    }
  }
  KD_CHECK_ALL();
  VERIF_REACH();
}

void h_at(void) {
  KD_INPUTS;
  kd_build();
  KD_POINT(p);
  CoordType p;
  PT_SET(p, pc);
  int cnt = list_count_at(pc);
  const ValueType* r = KDTree_at(&tree, &p);
  if (cnt == 0) {
    __CPROVER_assert(verif_exc == EXC_out_of_range, "at() throws out_of_range for a point that is not stored");
  } else {
    __CPROVER_assert(verif_exc == 0 && r != 0, "at() finds every stored point");
    int ok = 0;
    if (verif_exc == 0 && r != 0) {
      for (int i = 0; i < N; i++) {
        if (c_eq(e_c[i], pc) && e_v[i] == *r) {
          ok = 1;
        }
      }
    }
    __CPROVER_assert(ok, "at() returns the value of an entry stored at that point");
  }
  VERIF_REACH();
}

void h_exists(void) {
  KD_INPUTS;
  kd_build();
  KD_POINT(p);
  CoordType p;
  PT_SET(p, pc);
  int cnt = list_count_at(pc);
  bool r = KDTree_exists(&tree, &p);
  __CPROVER_assert(verif_exc == 0, "exists(pt) does not throw");
  __CPROVER_assert(r == (cnt > 0), "exists(pt) is true exactly for the stored points");
  VERIF_REACH();
}

void h_within(void) {
  KD_INPUTS;
  kd_build();
  KD_POINT(lo);
  KD_POINT(hi);
  CoordType lo, hi;
  PT_SET(lo, loc);
  PT_SET(hi, hic);
  vvec ret;
  vvec_init(&ret);
  KDTree_within(&tree, &lo, &hi, &ret);
  __CPROVER_assert(verif_exc == 0, "within() does not throw (an empty tree has an empty answer)");
  if (verif_exc == 0) {
    __CPROVER_assert(ret.size == (size_t)list_count_box(loc, hic), "within() returns as many entries as the linear scan finds in the box");
    KD_POINT(q);
    ValueType in_qv;
    int k = 0;
    for (int i = 0; i < VVEC_CAP; i++) {
      if (i < (int)ret.size && pt_is(&ret.item[i].first, qc) && ret.item[i].second == in_qv) {
        k++;
      }
    }
    __CPROVER_assert(k == (in_box(qc, loc, hic) ? list_count(qc, in_qv) : 0),
        "within() returns exactly the entries of the half-open box, each as often as it is stored (symbolic probe entry)");
  }
  VERIF_REACH();
}

void h_exists_range(void) {
  KD_INPUTS;
  kd_build();
  KD_POINT(lo);
  KD_POINT(hi);
  CoordType lo, hi;
  PT_SET(lo, loc);
  PT_SET(hi, hic);
  bool r = KDTree_exists_range(&tree, &lo, &hi);
  __CPROVER_assert(verif_exc == 0, "exists(low, high) does not throw");
  __CPROVER_assert(r == (list_count_box(loc, hic) > 0), "exists(low, high) is true exactly when the linear scan finds an entry in the box");
  VERIF_REACH();
}

void h_iterate(void) {
  KD_INPUTS;
  kd_build();
  KD_POINT(q);
  ValueType in_qv;
  Iterator it, e;
  KDTree_begin(&tree, &it);
  KDTree_end(&tree, &e);
  int steps = 0, hits = 0, post_ok = 1;
  for (int s = 0; s < N + 1; s++) {
    if (!Iterator_ne(&it, &e)) {
      break;
    }
    /* even steps: *it and ++it, odd steps: it-> and it++ (whose result must still designate the entry just visited) */
    const Pair* cur = (s & 1) ? Iterator_arrow(&it) : Iterator_deref(&it);
    Pair visited = *cur;
    if (pt_is(&visited.first, qc) && visited.second == in_qv) {
      hits++;
    }
    if (s & 1) {
      Iterator old = Iterator_postinc(&it);
      const Pair* oc = Iterator_deref(&old);
      for (int d = 0; d < DIMS; d++) {
        post_ok = post_ok && (PT_GET(oc->first, d) == PT_GET(visited.first, d));
      }
      post_ok = post_ok && (oc->second == visited.second) && Iterator_ne(&old, &it);
    } else {
      Iterator_preinc(&it);
    }
    steps++;
  }
  __CPROVER_assert(!Iterator_ne(&it, &e) && Iterator_eq(&it, &e), "iteration ends after at most size() steps");
  __CPROVER_assert(steps == N, "iteration makes exactly size() steps");
  __CPROVER_assert(hits == list_count(qc, in_qv), "iteration yields every entry exactly as often as it is stored (symbolic probe entry)");
  __CPROVER_assert(post_ok, "it++ returns an iterator that still designates the entry just visited");
  VERIF_REACH();
}

void h_erase_advance(void) {
  KD_INPUTS;
  kd_build();
  KD_POINT(q);
  ValueType in_qv;
  _Bool in_er[NA];
#ifdef ER_MASK
  /* the erase decisions of this group are concrete: bit s of ER_MASK = erase at step s */
  for (int s = 0; s < NA; s++) {
    in_er[s] = (ER_MASK >> s) & 1;
  }
#endif
  Iterator it, e;
  KDTree_begin(&tree, &it);
  KDTree_end(&tree, &e);
  int before = list_count(qc, in_qv);
  int steps = 0, hits = 0, listed = 1;
  for (int s = 0; s < N + 1; s++) {
    if (!Iterator_ne(&it, &e)) {
      break;
    }
    const Pair* cur = Iterator_deref(&it);
    hits += pt_is(&cur->first, qc) && cur->second == in_qv;
    if (in_er[s]) {
      /* the list removes one entry equal to the visited one */
      int removed = 0;
      for (int i = 0; i < N; i++) {
        if (!removed && e_alive[i] && pt_is(&cur->first, e_c[i]) && cur->second == e_v[i]) {
          e_alive[i] = 0;
          removed = 1;
        }
      }
      listed = listed && removed;
      KDTree_erase_advance(&tree, &it);
    } else {
      Iterator_preinc(&it);
    }
    steps++;
  }
  __CPROVER_assert(verif_exc == 0, "erase_advance does not throw");
  __CPROVER_assert(listed, "every entry erased at the iterator was a live entry of the list");
  __CPROVER_assert(!Iterator_ne(&it, &e), "iteration with erase_advance ends after at most size() steps");
  __CPROVER_assert(steps == N, "iteration with erase_advance visits as many entries as were stored");
  __CPROVER_assert(hits == before, "iteration with erase_advance visits every entry (erased or surviving) exactly as often as it was stored");
  /* post-state: invariant, and the multiset is the old one minus the entries erased while visited */
  kd_check_structure();
  kd_check_order();
  kd_check_multiset(qc, in_qv);
  VERIF_REACH();
}

void h_destroy(void) {
  KD_INPUTS;
  kd_build();
  KDTree_dtor(&tree);
  int all = 1;
  for (int i = 0; i < N; i++) {
    all = all && (kd_state[i] == KD_FREED);
  }
  __CPROVER_assert(all, "the destructor frees every node (each exactly once: double free is asserted in the pool stub)");
  VERIF_REACH();
}
