/* C09 (hex dump, the decidable part): line geometry of format_data's main loop.  The loop header, the declarations in front of it
 * that it uses, the four geometry statements at the top of its body, the width-of-address-column selection and the
 * "interior line" test of zero-line collapsing are cut from the source (snippets) and assembled into fd_line_loop by
 * props/C09.py; everything else of the body (column text, iovec cursor, colour) is not part of it.
 *
 * Statement: "its address ... columns decode back to exactly the dumped bytes at the right addresses for any start address":
 * for a range [start, start + size) whose last byte has an address <= 2^64-1,
 *   - the loop visits exactly the 16-byte lines that intersect the range, in order, once each (and terminates) [fd_line_loop],
 *   and for every such line i [fd_line, loop-free, i symbolic]:
 *   - in line i the valid columns are exactly the addresses of the range: invalid_start / invalid_end / line_bytes,
 *   - the byte with range offset g_off is placed in exactly one line, in column (start + g_off) & 15,
 *   - the lines consume exactly `size` bytes in total (so the iovec cursor neither runs out nor leaves bytes behind),
 *   - only lines other than the first and the last are candidates for zero-line collapsing,
 *   - without an OFFSET_* flag the address column is the narrowest of 2/4/8/16 digits that holds the last address. */
#ifndef C09_LINES_H
#define C09_LINES_H
#include "contracts/verif.h"

extern uint64_t g_i, g_off, g_col; extern bool g_interior; extern int g_width;

#define C09_MAX_I64(a, b) ((int64_t)(a) > (int64_t)(b) ? (int64_t)(a) : (int64_t)(b))     /* std::max<int64_t> */

#define FD_FIRST ((uint64_t)(start_address & ~(uint64_t)0x0F))
#define FD_LAST ((uint64_t)(start_address + (total_size - 1)))
#define FD_NLINES ((uint64_t)(((FD_LAST - FD_FIRST) >> 4) + 1))
#define FD_LINE_START(i) ((uint64_t)(FD_FIRST + ((uint64_t)(i) << 4)))
/* bytes of the range in front of line i */
#define FD_BEFORE(i) ((i) == 0 ? (uint64_t)0 : (i) >= FD_NLINES ? total_size : (uint64_t)(FD_LINE_START(i) - start_address))
#define FD_LO(i) ((i) == 0 ? (uint64_t)(start_address - FD_FIRST) : (uint64_t)0)            /* first valid column of line i */
#define FD_HI(i) ((i) + 1 == FD_NLINES ? (uint64_t)(FD_LAST & 0x0F) : (uint64_t)0x0F)       /* last valid column of line i */
#define FD_ANY_OFFSET_FLAG (PrintDataFlags_OFFSET_8_BITS | PrintDataFlags_OFFSET_16_BITS | PrintDataFlags_OFFSET_32_BITS | PrintDataFlags_OFFSET_64_BITS)
#define FD_MIN_WIDTH (FD_LAST < 0x100 ? 2 : FD_LAST < 0x10000 ? 4 : FD_LAST < 0x100000000ull ? 8 : 16)

/* bytes of the range in line i / spec-level consistency (telescoping): FD_BEFORE(i + 1) == FD_BEFORE(i) + FD_BYTES(i) */
#define FD_BYTES(i) ((uint64_t)(FD_HI(i) - FD_LO(i) + 1))

/* per-line obligations, placed after the geometry statements (line i = g_i, any line of the range) */
#define FD_LINE_CHECKS \
  __CPROVER_assert(line_start_address == FD_LINE_START(g_i), "line i starts at (start & ~15) + 16 i"); \
  __CPROVER_assert(line_invalid_start_bytes == FD_LO(g_i), "columns in front of the range are blank"); \
  __CPROVER_assert(line_invalid_end_bytes == 0x0F - FD_HI(g_i), "columns behind the range are blank"); \
  __CPROVER_assert(line_bytes == FD_BYTES(g_i), "the line takes exactly the bytes of the range that lie in it"); \
  __CPROVER_assert(g_interior == (g_i > 0 && g_i + 1 < FD_NLINES), "only lines other than the first and the last may be collapsed"); \
  __CPROVER_assert(FD_BEFORE(g_i + 1) == FD_BEFORE(g_i) + line_bytes, "bytes consumed up to and including line i (telescoping: the lines consume exactly size bytes)"); \
  if (FD_BEFORE(g_i) <= g_off && g_off - FD_BEFORE(g_i) < line_bytes) { \
    g_col = line_invalid_start_bytes + (g_off - FD_BEFORE(g_i)); \
    __CPROVER_assert(g_col == ((start_address + g_off) & 0x0F), "byte g_off of the range is placed in column address & 15"); \
    __CPROVER_assert((uint64_t)(line_start_address + g_col) == (uint64_t)(start_address + g_off), "... of the line that carries its address"); \
  }

/* loop skeleton: which lines are visited */
#define FD_LOOP_STEP \
  __CPROVER_assert(g_i < FD_NLINES, "only lines that intersect the range are visited"); \
  g_i++;

#define FD_RANGE_REQ \
  __CPROVER_requires(total_size >= 1 && total_size <= ((uint64_t)1 << 62)) \
  __CPROVER_requires(FD_LAST >= start_address)                      /* the last byte has an address: the range does not wrap */

#ifdef VERIF_SMALL
#define FD_SMALL_REQ __CPROVER_requires(total_size <= 64)
#else
#define FD_SMALL_REQ
#endif

/* the loop visits lines 0 .. FD_NLINES-1 in order, once each, and terminates */
void fd_line_loop(uint64_t start_address, uint64_t total_size)
FD_RANGE_REQ FD_SMALL_REQ
__CPROVER_ensures(g_i == FD_NLINES)
__CPROVER_assigns(g_i);

/* geometry of line g_i (any line of the range), the loop variable having the value the loop invariant gives it */
void fd_line(uint64_t start_address, uint64_t total_size, uint64_t flags)
FD_RANGE_REQ FD_SMALL_REQ
__CPROVER_requires(g_i < FD_NLINES && g_off < total_size)
__CPROVER_ensures((flags & FD_ANY_OFFSET_FLAG) == 0 ==> g_width == FD_MIN_WIDTH)
__CPROVER_assigns(g_col, g_interior, g_width);

#endif
