// Native replay for C20 (src/Random.cc), linked against the real Random.cc / Filesystem.cc / Strings.cc.
// exit 1 = violated on the real code (postcondition false, or undefined behaviour reported by UBSan inside the call),
// 0 = holds, 2 = usage.
//   random random_int in_low=.. in_high=..
//   random random_data | random_data_str  in_bytes=.. in_bufsize=..
#include "replay/common/args.hh"
#include "Random.hh"
using phosg::random_int;
typedef unsigned long long ull;

// UBSan calls this hook for every report (the driver is built with -fsanitize=undefined, recoverable)
static volatile int ub_reports = 0;
extern "C" void __ubsan_on_report(void) { ub_reports = ub_reports + 1; }

static const size_t PAD = 64;
static const size_t MAX_BYTES = 1 << 20;     // native runs are capped at 1 MiB per call

// put the function-local static buffer of random_data into the state "`left` bytes remaining" (the states reachable at a
// call boundary are 0..4095; the process is fresh, so the buffer starts empty)
static void prime(size_t left) {
  left %= 4096;
  if (left) phosg::random_data(4096 - left);
}

int main(int argc, char** argv) {
  Args A(argc, argv);
  const std::string& m = A.mode;
  if (m == "random_int") {
    int64_t lo = (int64_t)A.u("in_low"), hi = (int64_t)A.u("in_high");
    printf("random_int(%lld, %lld)\n", (long long)lo, (long long)hi);
    if (!(lo <= hi) || (uint64_t)hi - (uint64_t)lo > (uint64_t)INT64_MAX) { printf("precondition hi - lo < 2^63 not met\n"); return 0; }
    prime(A.u("in_bufsize"));
    for (int i = 0; i < 20000; i++) {
      int before = ub_reports;
      int64_t r = random_int(lo, hi);
      RCHECK(ub_reports == before, "undefined behaviour inside random_int(%lld, %lld) (see the UBSan report above)", (long long)lo, (long long)hi);
      RCHECK(lo <= r && r <= hi, "random_int(%lld, %lld) returned %lld, outside [lo, hi]", (long long)lo, (long long)hi, (long long)r);
    }
    printf("holds on this input (20000 draws)\n");
    return 0;
  }
  if (m == "random_data" || m == "random_data_str") {
    size_t bytes = A.u("in_bytes");
    if (bytes > MAX_BYTES) { bytes = MAX_BYTES + (bytes % 4097); }
    printf("%s(%zu bytes), %llu bytes left in the internal buffer\n", m.c_str(), bytes, (ull)(A.u("in_bufsize") % 4096));
    prime(A.u("in_bufsize"));
    const int TRIALS = 4;
    std::vector<std::vector<uint8_t>> out(TRIALS);
    for (int t = 0; t < TRIALS; t++) {
      uint8_t fill = (uint8_t)(0x11 * (t + 1));
      if (m == "random_data") {
        std::vector<uint8_t> buf(bytes + 2 * PAD, fill);
        phosg::random_data(buf.data() + PAD, bytes);
        for (size_t i = 0; i < PAD; i++) {
          RCHECK(buf[i] == fill, "byte %zu before the requested range was written", PAD - i);
          RCHECK(buf[PAD + bytes + i] == fill, "byte %zu after the requested range was written", i);
        }
        out[t].assign(buf.begin() + PAD, buf.begin() + PAD + bytes);
      } else {
        std::string s = phosg::random_data(bytes);
        RCHECK(s.size() == bytes, "random_data(%zu) returned %zu bytes", bytes, s.size());
        out[t].assign(s.begin(), s.end());
        fill = 0;
      }
      // a byte that still holds the fill value in all trials was never stored (false alarm probability 2^-32 per byte)
    }
    for (size_t i = 0; i < bytes; i++) {
      bool untouched = true;
      for (int t = 0; t < TRIALS; t++) {
        uint8_t fill = m == "random_data" ? (uint8_t)(0x11 * (t + 1)) : 0;
        untouched = untouched && out[t][i] == fill;
      }
      RCHECK(!untouched, "offset %zu of the requested range was not filled in any of %d calls", i, TRIALS);
    }
    RCHECK(ub_reports == 0, "undefined behaviour inside random_data");
    // conservation: a source byte must not be handed out twice.  16 consecutive small requests are served from the same
    // 4096-byte refill; if every request ends with the byte the previous one ended with, bytes are being reused.
    {
      int same = 0;
      uint8_t prev[8], cur[8];
      phosg::random_data(prev, 8);
      for (int i = 0; i < 16; i++) {
        phosg::random_data(cur, 8);
        same += (cur[7] == prev[7]) || (cur[0] == prev[7]) || (cur[7] == prev[0]);
        memcpy(prev, cur, 8);
      }
      RCHECK(same < 12, "consecutive requests share bytes (%d of 16): bytes taken from the source are handed out again", same);
    }
    printf("holds on this input\n");
    return 0;
  }
  fprintf(stderr, "unknown mode %s\n", m.c_str());
  return 2;
}
