// Native replay for the converted_endian members: driver <member> <type> <R> g_self_raw=.. in_v=.. in_d=..
// Evaluates the C03 postcondition on the real class template. exit 1 = violated on the real code.
#include "replay/common/args.hh"
#include "Encoding.hh"
#include <type_traits>
using namespace phosg;

template <typename T> struct UBits { using type = std::conditional_t<sizeof(T) == 2, uint16_t, std::conditional_t<sizeof(T) == 4, uint32_t, uint64_t>>; };
template <typename T> static typename UBits<T>::type bits(T v) { typename UBits<T>::type u; memcpy(&u, &v, sizeof(u)); return u; }
template <typename T> static T unbits(uint64_t u) { typename UBits<T>::type x = u; T v; memcpy(&v, &x, sizeof(v)); return v; }

// numeral of the object's bytes in the named order
template <typename W> static uint64_t named_dec(const W& w, int named) {
  const uint8_t* p = reinterpret_cast<const uint8_t*>(&w);
  uint64_t be = 0, le = 0;
  for (size_t i = 0; i < sizeof(W); i++) { be = (be << 8) | p[i]; le |= (uint64_t)p[i] << (8 * i); }
#if __BYTE_ORDER__ == __ORDER_LITTLE_ENDIAN__
  bool host_big = false;
#else
  bool host_big = true;
#endif
  bool big = named == 1 ? true : named == 2 ? false : !host_big;
  return big ? be : le;
}

template <typename W, typename E, typename R>
static int run(const Args& A, int named) {
  static_assert(sizeof(W) == sizeof(E) && alignof(W) == 1, "layout");
  const std::string& m = A.mode;
  W w;
  w.store_raw(A.u("g_self_raw"));
  E x = w.load();           // native value held (per conv/load contract, checked separately)
  // independent decode of the old value
  E oldx = unbits<E>(named_dec(w, named));
  E v = unbits<E>(A.u("in_v"));
  R d;
  if constexpr (std::is_floating_point_v<R>) d = unbits<R>(A.u("in_d")); else d = (R)A.u("in_d");
  (void)x;
#define STORED_IS(expect) RCHECK(named_dec(w, named) == (uint64_t)bits<E>(expect), "stored bytes 0x%llX, expected value bits 0x%llX", (unsigned long long)named_dec(w, named), (unsigned long long)bits<E>(expect))
#define RET_IS(r, expect) RCHECK(bits<E>(r) == bits<E>(expect), "returned bits 0x%llX, native operator gives 0x%llX", (unsigned long long)bits<E>(r), (unsigned long long)bits<E>(expect))
  if (m == "ctor") { W y(v); w = y; STORED_IS(v); }
  else if (m == "store") { w.store(v); STORED_IS(v); }
  else if (m == "assign") { auto& r = (w = v); RCHECK((void*)&r == (void*)&w, "returns *this"); STORED_IS(v); }
  else if (m == "conv") { E r = w; RET_IS(r, oldx); }
  else if (m == "load") { E r = w.load(); RET_IS(r, oldx); }
  else if (m == "roundtrip") { w.store(v); E r = w.load(); RET_IS(r, v); }
  else if (m == "store_raw" || m == "load_raw") { w.store_raw(A.u("in_v")); RCHECK((uint64_t)w.load_raw() == (A.u("in_v") & (sizeof(W) == 8 ? ~0ull : ((1ull << (8 * sizeof(W))) - 1))), "raw"); }
  else if (m == "preinc") { E n = oldx; E e = ++n; E r = ++w; RET_IS(r, e); STORED_IS(n); }
  else if (m == "predec") { E n = oldx; E e = --n; E r = --w; RET_IS(r, e); STORED_IS(n); }
  else if (m == "postinc") { E n = oldx; E e = n++; E r = w++; RET_IS(r, e); STORED_IS(n); }
  else if (m == "postdec") { E n = oldx; E e = n--; E r = w--; RET_IS(r, e); STORED_IS(n); }
#define OPA(name, OP) else if (m == name) { E n = oldx; n OP d; auto& r = (w OP d); RCHECK((void*)&r == (void*)&w, "returns *this"); STORED_IS(n); }
  OPA("add_assign", +=) OPA("sub_assign", -=) OPA("mul_assign", *=) OPA("div_assign", /=)
  else if constexpr (!std::is_floating_point_v<E>) {
    if (false) {}
    OPA("mod_assign", %=) OPA("and_assign", &=) OPA("or_assign", |=) OPA("xor_assign", ^=) OPA("shl_assign", <<=) OPA("shr_assign", >>=)
    else { fprintf(stderr, "unknown member %s\n", m.c_str()); return 2; }
  }
  else { fprintf(stderr, "unknown member %s\n", m.c_str()); return 2; }
  printf("holds on this input\n");
  return 0;
}

template <typename W, typename E>
static int pickR(const Args& A, int named) {
  std::string r = A.extra.size() > 1 ? A.extra[1] : "-";
  if constexpr (std::is_floating_point_v<E>) return run<W, E, E>(A, named);
  else { if (r == "int") return run<W, E, int>(A, named); return run<W, E, E>(A, named); }
}

// alias_names: the exposed type of every alias is the type its name says (observed on the real header through decltype(load()))
template <typename W, typename E> static int alias_is(const char* name) {
  bool ok = std::is_same_v<decltype(std::declval<const W&>().load()), E>;
  if (!ok) printf("POSTCONDITION VIOLATED on the real code: %s::load() does not return the type the alias is named after\n", name);
  return ok ? 0 : 1;
}

int main(int argc, char** argv) {
  Args A(argc, argv);
  if (A.mode == "alias_names") {
    int bad = 0;
#define AL(name, E) bad += alias_is<name, E>(#name);
    AL(be_uint16_t, uint16_t) AL(be_int16_t, int16_t) AL(be_uint32_t, uint32_t) AL(be_int32_t, int32_t) AL(be_uint64_t, uint64_t) AL(be_int64_t, int64_t) AL(be_float, float) AL(be_double, double)
    AL(le_uint16_t, uint16_t) AL(le_int16_t, int16_t) AL(le_uint32_t, uint32_t) AL(le_int32_t, int32_t) AL(le_uint64_t, uint64_t) AL(le_int64_t, int64_t) AL(le_float, float) AL(le_double, double)
    AL(re_uint16_t, uint16_t) AL(re_int16_t, int16_t) AL(re_uint32_t, uint32_t) AL(re_int32_t, int32_t) AL(re_uint64_t, uint64_t) AL(re_int64_t, int64_t) AL(re_float, float) AL(re_double, double)
    if (!bad) printf("holds on this input\n");
    return bad ? 1 : 0;
  }
  std::string t = A.extra.empty() ? "" : A.extra[0];
  printf("member=%s type=%s R=%s raw=0x%llX v=0x%llX d=0x%llX\n", A.mode.c_str(), t.c_str(), A.extra.size() > 1 ? A.extra[1].c_str() : "-",
      (unsigned long long)A.u("g_self_raw"), (unsigned long long)A.u("in_v"), (unsigned long long)A.u("in_d"));
#define T(name, E, named) if (t == #name) return pickR<name, E>(A, named);
  T(be_uint16_t, uint16_t, 1) T(be_int16_t, int16_t, 1) T(be_uint32_t, uint32_t, 1) T(be_int32_t, int32_t, 1)
  T(be_uint64_t, uint64_t, 1) T(be_int64_t, int64_t, 1) T(be_float, float, 1) T(be_double, double, 1)
  T(le_uint16_t, uint16_t, 2) T(le_int16_t, int16_t, 2) T(le_uint32_t, uint32_t, 2) T(le_int32_t, int32_t, 2)
  T(le_uint64_t, uint64_t, 2) T(le_int64_t, int64_t, 2) T(le_float, float, 2) T(le_double, double, 2)
  T(re_uint16_t, uint16_t, 3) T(re_int16_t, int16_t, 3) T(re_uint32_t, uint32_t, 3) T(re_int32_t, int32_t, 3)
  T(re_uint64_t, uint64_t, 3) T(re_int64_t, int64_t, 3) T(re_float, float, 3) T(re_double, double, 3)
  fprintf(stderr, "unknown type %s\n", t.c_str());
  return 2;
}
