/* C06 (P7 / PAM header loop): trusted abstract model of the text line the loop works on and of the stream.
 * A line is only its LENGTH (contents abstract); the stream is the ghost g_rem = bytes still to be delivered.
 * phosg::fgets(FILE*) (verified by C14) returns the next line including its terminator, or an EMPTY string at end of file. */
#ifndef C06_P7_H
#define C06_P7_H
#include "contracts/verif.h"
typedef struct { size_t len; } cline;
typedef struct { int dummy; } C6FILE;
extern size_t g_rem;
extern int verif_exc;

void c6_fgets(cline* line, C6FILE* f)
__CPROVER_requires(verif_exc == 0)
__CPROVER_ensures(__CPROVER_old(g_rem) == 0 ? (line->len == 0 && g_rem == 0)
                                            : (line->len >= 1 && line->len <= __CPROVER_old(g_rem) && g_rem == __CPROVER_old(g_rem) - line->len))
__CPROVER_assigns(line->len, g_rem);

int c6_fgetc(C6FILE* f)
__CPROVER_requires(verif_exc == 0)
__CPROVER_ensures(__CPROVER_old(g_rem) == 0 ? (__CPROVER_return_value == -1 && g_rem == 0)
                                            : (__CPROVER_return_value >= 0 && __CPROVER_return_value <= 255 && g_rem == __CPROVER_old(g_rem) - 1))
__CPROVER_assigns(g_rem);

void c6_strip_trailing_whitespace(cline* line)
__CPROVER_ensures(line->len <= __CPROVER_old(line->len))
__CPROVER_assigns(line->len);

/* starts_with(line, "<n characters>") / line == "<n characters>": can only hold for a line that is long enough */
_Bool c6_starts_with(const cline* line, size_t n)
__CPROVER_ensures(__CPROVER_return_value ==> line->len >= n)
__CPROVER_assigns();
_Bool c6_equals(const cline* line, size_t n)
__CPROVER_ensures(__CPROVER_return_value ==> line->len == n)
__CPROVER_assigns();
void c6_substr(cline* out, const cline* line, size_t pos)
__CPROVER_requires(pos <= line->len)                 /* std::string::substr throws out_of_range otherwise */
__CPROVER_ensures(out->len == line->len - pos)
__CPROVER_assigns(out->len);
/* std::stoull: some value, or invalid_argument / out_of_range (an exception is an acceptable rejection) */
unsigned long long c6_stoull(const cline* s)
__CPROVER_requires(verif_exc == 0)
__CPROVER_ensures(verif_exc == 0 || verif_exc == EXC_invalid_argument || verif_exc == EXC_out_of_range)
__CPROVER_assigns(verif_exc);
char c6_at(const cline* line, size_t i)
__CPROVER_requires(i < line->len)                    /* operator[] beyond the end is undefined */
__CPROVER_ensures(1)
__CPROVER_assigns();
#endif
