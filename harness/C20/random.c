/* C20: random_data / random_object<T> / random_int. Function text: x_random.c + x_random_object.inc (extracted each run). */
#include "contracts/C20_random.h"
int verif_exc;

/* random_object<T> for the four widths random_int uses */
#define RO_T uint64_t
#define RO_NAME random_object_uint64_t
#include "x_random_object.inc"
#undef RO_T
#undef RO_NAME
#define RO_T uint32_t
#define RO_NAME random_object_uint32_t
#include "x_random_object.inc"
#undef RO_T
#undef RO_NAME
#define RO_T uint16_t
#define RO_NAME random_object_uint16_t
#include "x_random_object.inc"
#undef RO_T
#undef RO_NAME
#define RO_T uint8_t
#define RO_NAME random_object_uint8_t
#include "x_random_object.inc"
#undef RO_T
#undef RO_NAME

#include "x_random.c"

void h_random_data(void) {
  size_t in_bytes, in_k, in_bufsize;
  g_k = in_k; buffer.size = in_bufsize; buffer.data = buffer_store;
  void* p;
  random_data(p, in_bytes);
  VERIF_REACH();
}
void h_random_data_str(void) {
  size_t in_bytes, in_k, in_bufsize;
  g_k = in_k; buffer.size = in_bufsize; buffer.data = buffer_store;
  pstr* r;
  random_data_str(r, in_bytes);
  VERIF_REACH();
}
void h_random_int(void) {
  int64_t in_low, in_high; size_t in_bufsize;
  g_k = 0; buffer.size = in_bufsize; buffer.data = buffer_store;
  random_int(in_low, in_high);
  VERIF_REACH();
}
