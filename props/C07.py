"""C07 -- canvas operations equal a per-pixel reference model (DESIGN.md section 4, C07).

C mirror (contracts/C07_image.h; member list checked against the class text on every run):
  Image { ssize_t width, height; bool has_alpha; uint8_t channel_width; uint64_t max_value; union DataPtrs data; }
"""
import re
from vf.extract import Source, Unit
from vf import lex
from vf.lex import Rule, ExtractionBreak, find_def, mask, match_close
from vf.pipeline import Group, Replay, ALL_LIB

ID = 'C07'
LEVEL = 'proof'
EXPLANATION = (
    'Two levels.  (1) Memory level, bounded in canvas dimension (the index (y*w+x)*channels is non-linear): read_pixel / write_pixel for the four channel '
    'widths and both alpha modes throw out_of_range iff (x,y) is outside, touch exactly the channels of pixel (x,y) (a second symbolic pixel keeps its bytes) and '
    'assign nothing but the pixel buffer; set_channel_width / set_has_alpha / copy (per-sample loop contracts) likewise.  (2) Ghost-pixel level, unbounded: a canvas is '
    'abstracted by the value of ONE symbolic pixel D (and the source / mask pixel that feeds it); the accessors are bound to the canonical model of their loop-level '
    'contract, whose clauses are the very macros that are the memory-level postconditions.  Against that model every loop nest (fill_rect, clear, blit, the three '
    'mask_blits, mask_blit_dst, both blend_blits, both custom_blits, invert, mirrors, set_alpha_from_mask_color, axis lines, the text glyph loops) is closed by nested '
    'loop contracts: out_of_range never escapes, D receives rule(source pixel, old D) iff it lies in the requested rectangle and its source pixel exists, else it is '
    'untouched -- for coordinates |v| < 2^61 and any canvas size below 2^61 (2^31 where the code counts with int).  clamp_blit_dimensions is proved equal to the '
    'intersection model by a chain of per-step ghost flags (one link per group).  Blend arithmetic is outlined mechanically into helper functions, each proved equal '
    'to the specification formula for all arguments (SMT), and bound in the loop proofs through function-point ghosts so that no multiplication/division occurs in a '
    'loop verification condition; lemma wrappers then state the rules with explicit arithmetic.  Identities (mirror twice, invert twice, widen-narrow) and clipping '
    'invariance are lemmas over the contracts.')
TRUSTED = [
    'contracts/C07_clauses.h, C07_image.h, C07_pixel_mem.h, C07_reshape.h: the specification macros (per-pixel model: INRECT / BLIT_HITS / AXIS_MODEL, stored form of a pixel WCH / WA, '
    'the colour rules; BL8 / BLM pin the blend arithmetic of the pinned commit)',
    'stubs/C07_pixel_model.h: canonical havoc-and-assume models of the loop-level contracts of read_pixel / write_pixel (proved to satisfy those contracts by the '
    'groups Image.model.*; they assume exactly the ensures clause macros), of the custom_blit callback (an arbitrary stateless function sampled at one argument tuple) '
    'and of the outlined arithmetic helpers (function-point form of the helper contracts proved by Image.*.arith[k]; the definitional hypothesis g_bo == formula(tuple) '
    'is a precondition DEF_REQ wherever a loop-level contract is used)',
    'the link between the memory-level obligations and the loop-level accessor contract is the shared clause macros WP_EXC / WP_PIX / RP_PIX (same text, "ghost value" '
    'instantiated by "channels decoded from the buffer"); that the decoded value IS the abstract pixel is by inspection of MEM_* in contracts/C07_pixel_mem.h',
    'stubs/C07_alloc.h (malloc returns non-null), stubs/libc.h (memcpy contract)',
    'props/C07.py: the try/catch lowering (lower_try), overload resolution by argument count (member_calls) and the mechanical outlining of arithmetic sub-expressions (Outliner)',
    'contracts/C07_types.h: union DataPtrs mirrored as its single pointer (cbmc 6.11 loses stores through pointers read out of a union); X.asN[i] -> ((uintN_t*)X.raw)[i] by must-fire rules',
]
ASSUMPTIONS = [
    'Image type invariant: channel_width in {8,16,32,64}, max_value == 2^channel_width - 1, width, height >= 0 (constructors establish it; not re-proved here)',
    'coordinates and sizes |v| < 2^61, canvas dimensions < 2^61 (no signed overflow, which is UB, in the clipping arithmetic); for the functions that count pixels with an '
    'int (mask_blit(r,g,b), mask_blit_dst, blend_blit x2, custom_blit x2) canvas dimensions <= INT_MAX: beyond that their loop counters overflow',
    'source, mask and destination canvases are distinct objects (self-blits such as img.mask_blit(img, ..) of ImageTest are order-dependent and outside the per-pixel model)',
    'custom_blit callbacks are stateless functions of their arguments and do not throw',
    'memory-level obligations: canvas width and height <= 8 (quick) / 16 (thorough) for the accessors, < 8 / 32 for the whole-buffer operations (set_has_alpha: < 4 / 16), symbolic within the bound; '
    'allocation succeeds (the code does not test the result of malloc)',
    'quick tier leaves the pointer-dereference checks out of the ghost-level loop groups (they touch no pixel memory -- checked syntactically on the extracted text -- and the '
    '~1300 checks of clause evaluations tripled solver time); the thorough tier re-runs those groups with all checks',
    'draw_text_v: the formatted text is a byte string parameter of at most 2^40 bytes (string_vprintf is libc), |x|,|y| < 2^60',
]
DROPS = ('member functions -> C functions with explicit self; references -> pointers; overloads renamed by signature (_c = uint32_t colour form, _rgb, _mask, _alpha, _rgba); '
         'default arguments made explicit; `auto ec` -> ExpandedColor; try { .. } catch (const out_of_range&) { H } -> flag test after each accessor call; '
         'std::function callback parameter -> call of the callback model; string_vprintf(fmt, va) -> byte-string parameter; member-initialiser lists -> assignments; '
         'arithmetic sub-expressions with * or / outlined into helper functions (same text); union DataPtrs -> its single pointer (see TRUSTED); malloc -> verif_malloc (non-null)')
NOT_DECIDED = [
    'draw_line (Bresenham with double-precision error accumulation; the slope expression is outlined and unconstrained): decided for any end points are "out_of_range never escapes", '
    '"a changed pixel gets exactly the colour" and the path facts that do not depend on floating point (ghost record of the pixels handed to write_pixel): the path is connected '
    '(8-adjacent, no pixel repeated), starts at one of the two end points, and for two in-canvas end points consists of exactly max(|dx|,|dy|)+1 pixels ending on the major-axis '
    'coordinate of the other end point unless the walk left the canvas; NOT decided: the minor-axis coordinate of the far end ("contains both ends" in full) and the distance from the '
    'ideal segment (floating-point path).  Observation: when the first end point (after the internal swap) lies outside the canvas the loop stops at once, e.g. draw_line(5,5,-3,5) draws nothing',
    'resize_blit (floating point bilinear filter; it also lets out_of_range escape by design of read_pixel on source coordinates): not under contract',
    'which pixels a DASHED axis line colours and which pixels a line that starts outside the canvas colours: the code stops at the first out-of-canvas pixel (a horizontal line from x1 < 0 '
    'draws nothing); decided here: no exception, nothing off the segment changes, a changed pixel gets exactly the colour, a solid line between in-canvas end points is complete',
    'text: decided per CELL (the body of the character loop cut as a function, group draw_text_v.cell): for any cursor position, any byte, a cell colours exactly its glyph pixels '
    'over its 6 x 9 background box (colour decided for an opaque background, ba == 0xFF), newline / carriage return / cursor advance as the geometry prescribes, everything else '
    'untouched -- including cells partly or wholly off the canvas.  NOT decided: the composition of the cells into the whole text as one statement (the cursor recurrence across '
    'the outer loop is checked for safety only), translucent backgrounds (overlapping rows of adjacent lines blend twice), the returned width/height (max_x_pos is updated after the '
    'cursor was reset, so the width of a multi-line text is the width of its last line -- outside this property), text clipping invariance as a single lemma (sampled natively by the replay driver)',
    'the blend arithmetic itself is regression-strength: fill_rect and blit use the constants 0xFF / 255 for every channel width (a 16-bit canvas without alpha channel reports alpha 0xFFFF, '
    'which blit treats as "blend"), Image.hh still documents blit as "doesn\'t respect alpha" and the drawing functions as "no drawing functions respect the alpha channel"; the contracts pin what '
    'the pinned commit computes, whether that is intended is not decided.  Specification-strength are: which pixels change, never out_of_range, frame, clipping, the copy/mask/key rules',
    'a negative w / h meaning "whole source width / height" is taken from the code (Image.hh is silent)',
    'sequences of operations: every operation is one obligation over an arbitrary canvas state (the symbolic pixel is universally quantified), the induction over a history is the argument, not a query',
    'copy assignment onto itself (a = a frees the buffer before copying from it) and allocation failure are outside the contracts (distinct objects / non-null malloc assumed)',
    'BitmapImage, load/save (C06), constructors from files',
]
CLAIMED = True
MANIFEST = dict(
    category='proof',
    text=('Every canvas operation of Image is put under a function contract over a one-symbolic-pixel view and closed by (nested) loop contracts for coordinates |v| < 2^61 and any canvas '
          'size: direct pixel access throws out_of_range iff outside; fill_rect, clear, blit, mask_blit (colour key, destination key, mask image), blend_blit (both), custom_blit (both), invert, '
          'reverse_horizontal/vertical, set_alpha_from_mask_color, the axis-aligned lines and the text glyph loops never let out_of_range escape and change exactly the pixels the per-pixel model '
          'prescribes (destination rectangle clipped against both canvases gets rule(source, old), everything else untouched); clamp_blit_dimensions equals the intersection model (sound and '
          'maximal); clipping invariance, mirror twice, invert twice, widen-then-narrow are lemmas over the contracts; copies are deep, moves empty the source.  The pixel accessors and the '
          'whole-buffer operations (set_channel_width, set_has_alpha, copy) are proved against memory for bounded canvas dimensions (<= 8/16 resp. < 8/32), reported as bounded.  Found and '
          'fixed: mask_blit(.., mask) let out_of_range escape when sx or sy > 0 (mask checked against w,h only).'),
    note=('Trusted: cbmc/goto-instrument/solvers, the extractor, the specification macros, the canonical accessor/helper models (stubs/C07_pixel_model.h; model |= contract is proved, the link to '
          'memory is the shared clause macros).  Blend arithmetic is pinned to the commit (regression-strength); the floating-point part of the draw_line path (its integer part -- connected, max(|dx|,|dy|)+1 pixels from an end point -- is under contract), resize_blit, dashed/out-of-canvas line pixels and the composition of text cells into a whole text are '
          'not decided (each text cell is: glyph pixels over the opaque background box, any cursor position).  Distinct source/mask/destination, stateless callbacks, successful allocation, int-counted variants up to INT_MAX-sized canvases are assumed.'),
    technique='function + nested loop contracts over a ghost pixel (goto-instrument --dfcc --apply-loop-contracts), clamp by a chain of ghost-flag lemmas, outlined arithmetic proved by SMT, '
              'bounded memory-level obligations for the index arithmetic',
)

CC = 'src/Image.cc'
HH = 'src/Image.hh'
FONT = 'src/ImageTextFont.hh'


def sig(s):
    """compact C++ signature -> regex tolerant of the line breaks of the source"""
    return r'\s+'.join(re.escape(t) for t in s.split())


class Fn(Rule):
    """a rewriting step written as a python function (applied to the whole body)"""

    def __init__(self, fn):
        self.fn = fn

    def apply(self, text, where=''):
        return self.fn(text, where)


# ---------------------------------------------------------------------------------------------------------------------
# member calls -> C calls; overloads are resolved by argument count (the only overload pairs with equal argument counts,
# mask_blit(.., uint32_t) / mask_blit(.., const Image&), are never *called* inside Image.cc)
OVERLOADS = {
    ('read_pixel', 2): ('Image_read_pixel_c', ''),
    ('read_pixel', 5): ('Image_read_pixel', ', 0'),          # default argument a = nullptr (checked against Image.hh below)
    ('read_pixel', 6): ('Image_read_pixel', ''),
    ('write_pixel', 3): ('Image_write_pixel_c', ''),
    ('write_pixel', 6): ('Image_write_pixel', ''),
    ('clear', 4): ('Image_clear', ''),
    ('fill_rect', 8): ('Image_fill_rect', ''),
    ('mask_blit', 10): ('Image_mask_blit_rgb', ''),
    ('mask_blit_dst', 10): ('Image_mask_blit_dst_rgb', ''),
    ('blit', 7): ('Image_blit', ''),
    ('blend_blit', 7): ('Image_blend_blit', ''),
    ('blend_blit', 8): ('Image_blend_blit_alpha', ''),
    ('set_alpha_from_mask_color', 3): ('Image_set_alpha_from_mask_color', ''),
    ('draw_line', 8): ('Image_draw_line', ''),
    ('draw_horizontal_line', 8): ('Image_draw_horizontal_line', ''),
    ('draw_vertical_line', 8): ('Image_draw_vertical_line', ''),
    ('get_width', 0): ('Image_get_width', ''),
    ('get_height', 0): ('Image_get_height', ''),
    ('get_data_size', 0): ('Image_get_data_size', ''),
}
OBJ = r'\b(self->|source\.|mask\.|im\.|dest\.)(\w+)\s*\('


def member_calls(body, where=''):
    while True:
        m = mask(body)
        mo = None
        for cand in re.finditer(OBJ, m):
            if cand.group(2) in {k[0] for k in OVERLOADS}:
                mo = cand
                break
        if not mo:
            return body
        p = mo.end() - 1
        pe = match_close(m, p)
        args = m[p + 1:pe]
        n, depth = (0 if not args.strip() else 1), 0
        for ch in args:
            if ch in '([{':
                depth += 1
            elif ch in ')]}':
                depth -= 1
            elif ch == ',' and depth == 0:
                n += 1
        key = (mo.group(2), n)
        if key not in OVERLOADS:
            raise ExtractionBreak('%s: call of %s with %d arguments is not in the overload table' % (where, mo.group(2), n))
        cname, tail = OVERLOADS[key]
        obj = mo.group(1).rstrip('.>-')
        inner = body[p + 1:pe].strip()
        body = body[:mo.start()] + cname + '(' + obj + (', ' + inner if inner else '') + tail + ')' + body[pe + 1:]


PIX = r'\bImage_(?:read|write)_pixel(?:_c)?\s*\('


def lower_try(body, where=''):
    """try { B } catch (const out_of_range& e) { H }   (B, H brace-free)  ->
       { B' verif_catch_k: if (verif_exc == EXC_out_of_range) { verif_exc = 0; H } else if (verif_exc) return; }
    with `if (verif_exc) goto verif_catch_k;` after every statement of B that calls a pixel accessor (the only may-throw
    callees inside the try blocks of Image.cc)."""
    k = [0]

    def one(mo):
        k[0] += 1
        b, h = mo.group(1), mo.group(2)
        if '{' in b or '{' in h:
            raise ExtractionBreak('%s: try block with nested braces' % where)
        out = []
        for st in b.split(';'):
            if not st.strip():
                continue
            out.append(st + ';')
            if re.search(PIX, st):
                out.append(' if (verif_exc) goto verif_catch_%d;' % k[0])
        return ('{' + ''.join(out) + '\n verif_catch_%d: if (verif_exc == EXC_out_of_range) { verif_exc = 0; %s } else if (verif_exc) { return; } }'
                % (k[0], h.strip()))
    new, n = re.subn(r'\btry\s*\{(.*?)\}\s*catch\s*\(\s*const\s+out_of_range&\s*\w*\s*\)\s*\{(.*?)\}', one, body, flags=re.S)
    return new


def propagate(body, where=''):
    """outside try blocks: `if (verif_exc) return;` after every simple statement that calls a may-throw callee"""
    from vf.lex import propagate_exc
    # the statements generated by lower_try are already followed by their own check
    names = ['Image_read_pixel', 'Image_write_pixel', 'Image_read_pixel_c', 'Image_write_pixel_c', 'Image_fill_rect', 'Image_clear',
             'Image_mask_blit_rgb', 'Image_mask_blit_dst_rgb', 'Image_set_alpha_from_mask_color', 'Image_draw_line',
             'Image_draw_horizontal_line', 'Image_draw_vertical_line', 'Image_blit', 'Image_blend_blit', 'Image_blend_blit_alpha', 'verif_cb32', 'verif_cb64']
    out, _ = propagate_exc(body, names, '')
    return re.sub(r' if \(verif_exc\) return;( if \(verif_exc\) goto verif_catch_\d+;)', r'\1', out)


def std_rules(ret=None, extra=()):
    rs = [Fn(member_calls), Rule(r'\bauto ec\b', 'ExpandedColor ec', regex=True), Fn(lower_try),
          # std::max<T>(a, b) / std::min<T>(a, b) (and the deduced forms) on side-effect-free operands
          Rule(r'(?<![\w.>])max<([\w ]+)>\(', r'C07_MAX_T(\1, ', regex=True), Rule(r'(?<![\w.>])min<([\w ]+)>\(', r'C07_MIN_T(\1, ', regex=True),
          Rule(r'(?<![\w.>])max\(', 'C07_MAX(', regex=True), Rule(r'(?<![\w.>])min\(', 'C07_MIN(', regex=True)]
    rs += list(extra)
    rs.append(Fn(propagate))
    if ret is not None:
        rs.append(Rule(r'if \(verif_exc\) return;', 'if (verif_exc) return %s;' % ret, regex=True))
        rs.append(Rule(r'else if \(verif_exc\) \{ return; \}', 'else if (verif_exc) { return %s; }' % ret, regex=True))
    return rs


def check_members(src):
    text = src.text(HH)
    _, body, _, _ = find_def(text, r'class Image', 'class')
    i = body.rfind('private:')
    if i < 0:
        raise ExtractionBreak('class Image: no private section')
    priv = body[i + 8:]
    _, ubody, us, ue = find_def(priv, r'union DataPtrs', 'union')
    um = [l.strip() for l in ubody.strip('{}').split('\n') if l.strip()]
    if um != ['void* raw;', 'uint8_t* as8;', 'uint16_t* as16;', 'uint32_t* as32;', 'uint64_t* as64;']:
        raise ExtractionBreak('union DataPtrs changed: %r' % um)
    rest = priv[ue:]
    mem = []
    for l in rest.split('\n'):
        l = l.strip()
        if re.match(r'^[\w:<> ]+[ *&]\w+;$', l):
            mem.append(l)
    want = ['ssize_t width;', 'ssize_t height;', 'bool has_alpha;', 'uint8_t channel_width;', 'uint64_t max_value;', 'DataPtrs data;']
    if mem != want:
        raise ExtractionBreak('class Image: data members changed: %r' % mem)
    # default arguments the overload table makes explicit
    if not re.search(r'void read_pixel\(ssize_t x, ssize_t y, uint64_t\* r, uint64_t\* g, uint64_t\* b, uint64_t\* a = nullptr\) const;', text):
        raise ExtractionBreak('read_pixel: default argument a = nullptr changed')


# ---------------------------------------------------------------------------------------------------------------------
# arithmetic sub-expressions -> helper functions (mechanical outlining; the helper body is the expression text of the source).
# The loop proofs bind the helpers by contract, so that no multiplication/division occurs in a loop verification condition;
# every helper is proved against the specification formula for all inputs in a loop-free group of its own.
ARITH = re.compile(r'[*/]')


class Outliner:
    def __init__(self, prefix, params):
        self.prefix, self.params, self.helpers = prefix, params, []      # params: [(ctype, name)]

    def _call(self, expr, exclude=(), body='', at=0):
        k = len(self.helpers) + 1
        # a local that is declared in the body only after this spot is not in scope here
        late = set()
        for ty, n in self.params:
            d = re.search(r'\buint64_t\b[^;()]*\b%s\b' % re.escape(n), body)
            if d and d.start() >= at:
                late.add(n)
        ps = [(ty, n) for ty, n in self.params if n not in exclude and n not in late]
        name = '%s%d' % (self.prefix, k)
        self.helpers.append('uint64_t %s(%s)\n{\n  return %s;\n}\n' % (name, ', '.join('%s %s' % p for p in ps), expr.strip()))
        return '%s(%s)' % (name, ', '.join(n for _, n in ps))

    def rule(self):
        def fn(body, where=''):
            # (1) assignments / initialisations whose right-hand side contains * or /
            def asg(mo):
                decl, lhs, rhs = mo.group(1) or '', mo.group(2), mo.group(3)
                if not ARITH.search(mask(rhs)) or 'Image_' in rhs:
                    return mo.group(0)
                return '%s%s = %s;' % (decl, lhs, self._call(rhs, exclude=(lhs,) if decl else (), body=src_body[0], at=mo.start()))
            src_body = [body]
            body = re.sub(r'(?m)((?:uint64_t )?)(\b\w+) = ([^;{}]*);', asg, body)
            # (2) arguments of write_pixel calls that contain * or /
            out, pos = [], 0
            while True:
                m = mask(body)
                mo = re.compile(r'\bImage_write_pixel\s*\(').search(m, pos)
                if not mo:
                    break
                p = mo.end() - 1
                pe = match_close(m, p)
                args, depth, start = [], 0, p + 1
                for i in range(p + 1, pe):
                    ch = m[i]
                    if ch in '([{':
                        depth += 1
                    elif ch in ')]}':
                        depth -= 1
                    elif ch == ',' and depth == 0:
                        args.append(body[start:i])
                        start = i + 1
                args.append(body[start:pe])
                new = [(' ' + self._call(a, body=body, at=p)) if ARITH.search(mask(a)) else a for a in args]
                rep = ','.join(new)
                body = body[:p + 1] + rep + body[pe:]
                pos = p + 1 + len(rep)
            return body
        return Fn(fn)


class DivOutliner:
    """innermost parenthesised sub-expression containing a division, e.g. `(x / dash_length)` in a condition -> helper call;
    the helper body is the expression text; in the loop proofs the helper is an unconstrained value (its result only selects a branch)"""

    def __init__(self, prefix, params):
        self.prefix, self.params, self.helpers = prefix, params, []

    def rule(self):
        def fn(body, where=''):
            def one(mo):
                k = len(self.helpers) + 1
                name = '%s%d' % (self.prefix, k)
                self.helpers.append('ssize_t %s(%s)\n{\n  return %s;\n}\n' % (name, ', '.join('%s %s' % p for p in self.params), mo.group(1).strip()))
                return '%s(%s)' % (name, ', '.join(n for _, n in self.params))
            return re.sub(r'\(([^()]*?/[^()]*?)\)', one, body)
        return Fn(fn)


def emit_with_helpers(u, o, text):
    # the loop proofs are compiled with -DC07_ARITH_MODEL: the helpers are then the contract models of stubs/C07_pixel_model.h
    u.parts.append('#ifndef C07_ARITH_MODEL\n')
    for h in o.helpers:
        u.parts.append(h)
    u.parts.append('#endif\n')
    u.parts.append(text)


# ---------------------------------------------------------------------------------------------------------------------
# loop contracts (one template for every rectangle loop nest over the ghost destination pixel)
DG = 'g_dr, g_dg, g_db, g_da'
D_IS_E0 = '(g_dr == verif_er && g_dg == verif_eg && g_db == verif_eb && g_da == verif_ea)'
D_IS_O = '(g_dr == verif_or && g_dg == verif_og && g_db == verif_ob && g_da == verif_oa)'


def rect_loops(first, yy='yy', xx='xx', x='x', y='y', w='w', h='h', neg=False, extra_assigns='', cond=None):
    """loop contracts of `for (yy = 0; yy < h; yy++) for (xx = 0; xx < w; xx++) body(x + xx, y + yy)`:
    the ghost destination pixel holds its expected new value verif_e* iff its row/column has been passed, else its entry value verif_o*."""
    inx = '(g_dx >= %s && g_dx - %s < %s)' % (x, x, w)
    rows = '(%s && g_dy >= %s && g_dy - %s < %s)' % (inx, y, y, yy)
    part = '(g_dy >= %s && g_dy - %s == %s && g_dx >= %s && g_dx - %s < %s)' % (y, y, yy, x, x, xx)
    ub = lambda v, lim: ('(%s <= %s || %s < 0)' % (v, lim, lim)) if neg else ('%s <= %s' % (v, lim))
    D_IS_E = ('(%s ==> %s)' % (cond, D_IS_E0)) if cond else D_IS_E0
    wf = '__CPROVER_loop_invariant(GHOST_WF(self, g_dr, g_dg, g_db, g_da))\n' if cond else ''
    outer = ('__CPROVER_assigns(%s, verif_exc, %s%s)\n' % (yy, DG, extra_assigns) +
             '__CPROVER_loop_invariant(0 <= %s && %s && verif_exc == 0)\n' % (yy, ub(yy, h)) + wf +
             '__CPROVER_loop_invariant(%s ? %s : %s)\n' % (rows, D_IS_E, D_IS_O) +
             '__CPROVER_decreases(%s - %s)' % (h, yy))
    inner = ('__CPROVER_assigns(%s, verif_exc, %s%s)\n' % (xx, DG, extra_assigns) +
             '__CPROVER_loop_invariant(0 <= %s && %s && verif_exc == 0)\n' % (xx, ub(xx, w)) + wf +
             '__CPROVER_loop_invariant((%s || %s) ? %s : %s)\n' % (rows, part, D_IS_E, D_IS_O) +
             '__CPROVER_decreases(%s - %s)' % (w, xx))
    return {first: outer, first + 1: inner}


SAVE_O = ' uint64_t verif_or = g_dr, verif_og = g_dg, verif_ob = g_db, verif_oa = g_da; '


def expect(rule):
    """ghost statement at function start: the expected new value of the ghost destination pixel, from the rule macro of the contract header"""
    return SAVE_O + 'uint64_t verif_er = %s_R, verif_eg = %s_G, verif_eb = %s_B, verif_ea = %s_A; ' % (rule, rule, rule, rule)


# ---------------------------------------------------------------------------------------------------------------------
def pixel_units(ctx, src):
    """x_color.c: colour packing + getters; x_pixel.c: the two 4-channel accessors; x_pixel_c.c: their uint32_t colour overloads"""
    check_members(src)
    u = Unit(ctx, 'color')
    u.raw('#include "contracts/C07_types.h"\n')
    st = u.snippet(src, CC, r'struct ExpandedColor \{[^}]*\};')
    u.raw('typedef ' + st.rstrip(';') + ' ExpandedColor;')
    u.function(src, CC, r'static ExpandedColor expand_color\(uint32_t c\)', new_header='static inline ExpandedColor expand_color(uint32_t c)',
               rules=[Rule(r'return \{', 'return (ExpandedColor){', regex=True, count=1)])
    u.function(src, CC, r'static uint32_t compress_color\(uint64_t r, uint64_t g, uint64_t b, uint64_t a\)',
               new_header='static inline uint32_t compress_color(uint64_t r, uint64_t g, uint64_t b, uint64_t a)')
    u.function(src, CC, r'static constexpr uint64_t mask_for_width\(uint8_t channel_width\)',
               new_header='static inline uint64_t mask_for_width(uint8_t channel_width)')
    for n in ('width', 'height'):
        u.function(src, HH, r'inline size_t get_%s\(\) const' % n, scope=r'class Image',
                   new_header='static inline size_t Image_get_%s(const Image* self)' % n)
    u.function(src, HH, r'inline size_t get_data_size\(\) const', scope=r'class Image',
               new_header='static inline size_t Image_get_data_size(const Image* self)')
    u.write()
    p = Unit(ctx, 'pixel')
    p.auto_helpers = True      # a bounds check factored out into a file-local helper is part of the verified text
    # cbmc 6.11 loses stores through `ptr->union_member.member[i]` (struct reached through a pointer, union of pointers written through another
    # member): `self->data.as16[i]` is read as `((uint16_t*)self->data.raw)[i]` -- every member of DataPtrs is a pointer to the same buffer
    AS = [Rule(r'\bself->data\.as(8|16|32|64)\[', r'((uint\1_t*)self->data.raw)[', regex=True, count='+')]
    p.function(src, CC, sig('void Image::read_pixel(ssize_t x, ssize_t y, uint64_t* r, uint64_t* g, uint64_t* b, uint64_t* a) const'),
               new_header='void Image_read_pixel(const Image* self, ssize_t x, ssize_t y, uint64_t* r, uint64_t* g, uint64_t* b, uint64_t* a)',
               ret_zero='', rules=AS)
    p.function(src, CC, sig('void Image::write_pixel(ssize_t x, ssize_t y, uint64_t r, uint64_t g, uint64_t b, uint64_t a)'),
               new_header='void Image_write_pixel(Image* self, ssize_t x, ssize_t y, uint64_t r, uint64_t g, uint64_t b, uint64_t a)',
               ret_zero='', rules=AS)
    p.write()
    c = Unit(ctx, 'pixel_c')
    c.function(src, CC, sig('uint32_t Image::read_pixel(ssize_t x, ssize_t y) const'),
               new_header='uint32_t Image_read_pixel_c(const Image* self, ssize_t x, ssize_t y)', rules=std_rules(ret='0'))
    c.function(src, CC, sig('void Image::write_pixel(ssize_t x, ssize_t y, uint32_t color)'),
               new_header='void Image_write_pixel_c(Image* self, ssize_t x, ssize_t y, uint32_t color)', rules=std_rules())
    c.write()
    return [u, p, c]


def reshape_unit(ctx, src):
    """whole-buffer operations, memory level"""
    u = Unit(ctx, 'reshape')
    u.raw('#include "stubs/C07_alloc.h"')
    MA = Rule(r'\bmalloc\(', 'verif_malloc(', regex=True, count=None)      # "allocation succeeds" (the code does not test the result)
    AS = [MA, Rule(r'\b(self->data|new_data|im->data)\.as(8|16|32|64)\[', r'((uint\2_t*)\1.raw)[', regex=True, count='+')]
    u.raw('#if defined(OW) && defined(NW)')
    u.function(src, CC, sig('void Image::set_channel_width(uint8_t new_width)'), new_header='void Image_set_channel_width(Image* self, uint8_t new_width)',
               ret_zero='', rules=AS, nloops=1, loops={1: SCW_LOOP})
    u.raw('#endif\n#if defined(CWA)')
    u.function(src, CC, sig('void Image::set_has_alpha(bool new_has_alpha)'), new_header='void Image_set_has_alpha(Image* self, bool new_has_alpha)',
               rules=[Fn(member_calls)] + AS, nloops=1, loops={1: SHA_LOOP})
    u.raw('#endif')
    # constructors / assignment operators: member initialiser lists -> assignments (mechanically), `im` is the other image
    def init_list(regex):
        txt = u.snippet(src, CC, regex, group=1)
        out = []
        for mo in re.finditer(r'(\w+)\(([^()]*(?:\([^()]*\))?[^()]*)\)\s*(?:,|$)', txt.strip()):
            out.append('self->%s = %s;' % (mo.group(1), mo.group(2).strip()))
        if len(out) != 5:
            raise ExtractionBreak('copy constructor: %d member initialisers, 5 expected' % len(out))
        return ' ' + ' '.join(out) + ' '
    IM = [MA, Rule(r'\bim\.', 'im->', regex=True, count='+'), Fn(member_calls), Rule('memcpy(', 'verif_memcpy(', count=None)]
    pre = init_list(r'Image::Image\(const Image& im\)\s*:\s*(.*?)\s*\{').replace('im.', 'im->')
    u.function(src, CC, r'Image::Image\(const Image& im\)\s*:[^{]*', new_header='void Image_copy_ctor(Image* self, const Image* im)',
               rules=IM, body_prefix=pre)
    u.function(src, CC, sig('const Image& Image::operator=(const Image& im)'), new_header='void Image_copy_assign(Image* self, const Image* im)',
               rules=IM + [Rule('return *this;', 'return;', count=1)])
    MV = [Rule(r'\bim\.', 'im->', regex=True, count='+')]
    u.function(src, CC, sig('Image::Image(Image&& im)'), new_header='void Image_move_ctor(Image* self, Image* im)', rules=MV)
    u.function(src, CC, sig('Image& Image::operator=(Image&& im)'), new_header='void Image_move_assign(Image* self, Image* im)',
               rules=MV + [Rule('return *this;', 'return;', count=1)])
    u.write()
    return u


SCW_LOOP = """
__CPROVER_assigns(z, __CPROVER_object_whole(new_data.raw))
__CPROVER_loop_invariant(z <= value_count)
__CPROVER_loop_invariant(g_k < value_count ==> g_v == SAMPLE(self, OW, g_k))
__CPROVER_loop_invariant(g_k < z ==> ((uint64_t)((const CT(NW)*)new_data.raw)[g_k]) == CONVW(g_v, OW, NW))
__CPROVER_decreases(value_count - z)
"""
SHA_LOOP = """
__CPROVER_assigns(z, __CPROVER_object_whole(new_data.raw))
__CPROVER_loop_invariant(0 <= z && z <= self->width * self->height)
__CPROVER_loop_invariant(g_k < PIXELS(self) ==> (g_v == SAMPLE(self, CWA, g_k * NCHAN(HA)) && g_v1 == SAMPLE(self, CWA, g_k * NCHAN(HA) + 1) && g_v2 == SAMPLE(self, CWA, g_k * NCHAN(HA) + 2)))
__CPROVER_loop_invariant(g_k < (size_t)z ==> (((const CT(CWA)*)new_data.raw)[g_k * NCHAN(!HA)] == g_v && ((const CT(CWA)*)new_data.raw)[g_k * NCHAN(!HA) + 1] == g_v1 && ((const CT(CWA)*)new_data.raw)[g_k * NCHAN(!HA) + 2] == g_v2))
__CPROVER_loop_invariant((g_k < (size_t)z && !HA) ==> ((const CT(CWA)*)new_data.raw)[g_k * 4 + 3] == MASKW(CWA))
__CPROVER_decreases(self->width * self->height - z)
"""


BLIT_ARGS = 'const Image* source, ssize_t x, ssize_t y, ssize_t w, ssize_t h, ssize_t sx, ssize_t sy'
BLIT_SIG = 'const Image& source, ssize_t x, ssize_t y, ssize_t w, ssize_t h, ssize_t sx, ssize_t sy'
CLAMP_CALL = Rule(r'clamp_blit_dimensions\(\*this, source,', 'clamp_blit_dimensions(self, source,', regex=True, count=1)


U64 = lambda *names: [('uint64_t', n) for n in names]
SELF = [('const Image*', 'self')]


def clamp_ghost(body, where=''):
    """ghost statements inside clamp_blit_dimensions (they assign ghost flags only): the axis model (contract macro CLAMP_MX / CLAMP_MY) evaluated
    on the current values at entry and after each of the eight clipping statements (top-level if statements 1..8, alternating x / y), and the
    width/height before the final "empty if negative" statement (the 9th)."""
    ifs = [mo.start() for mo in re.finditer(r'\n  if \(', body)]
    if len(ifs) != 9:
        raise ExtractionBreak('%s: clamp_blit_dimensions has %d top-level if statements, 9 expected' % (where, len(ifs)))
    m = mask(body)
    out, pos = [], 0
    for k, s in enumerate(ifs):
        b = m.index('{', s)
        e = match_close(m, b) + 1
        out.append(body[pos:s])
        if k == 0:
            out.append('\n  g_mx0 = CLAMP_MX(dest, source); g_my0 = CLAMP_MY(dest, source);')
        if k == 8:
            out.append('\n  g_cw = *w; g_ch = *h;')
        out.append(body[s:e])
        if k < 8:
            ax, n = ('x', k // 2 + 1) if k % 2 == 0 else ('y', k // 2 + 1)
            out.append('\n  g_m%s%d = CLAMP_M%s(dest, source);' % (ax, n, ax.upper()))
        pos = e
    out.append(body[pos:])
    return ''.join(out)


def canvas_unit(ctx, src):
    u = Unit(ctx, 'canvas')
    # ---- clamp_blit_dimensions (references -> pointers)
    u.function(src, CC, sig('static inline void clamp_blit_dimensions( const Image& dest, const Image& source, ssize_t* x, ssize_t* y, ssize_t* w, ssize_t* h, ssize_t* sx, ssize_t* sy)'),
               new_header='void clamp_blit_dimensions(const Image* dest, const Image* source, ssize_t* x, ssize_t* y, ssize_t* w, ssize_t* h, ssize_t* sx, ssize_t* sy)',
               rules=[Fn(member_calls), Fn(clamp_ghost)])
    # ---- fill_rect / clear
    o = Outliner('x_fill_bl', U64('a', 'r', 'g', 'b', '_r', '_g', '_b', '_a'))
    txt = u.function(src, CC, sig('void Image::fill_rect(ssize_t x, ssize_t y, ssize_t w, ssize_t h, uint64_t r, uint64_t g, uint64_t b, uint64_t a)'),
                     new_header='void Image_fill_rect(Image* self, ssize_t x, ssize_t y, ssize_t w, ssize_t h, uint64_t r, uint64_t g, uint64_t b, uint64_t a)',
                     rules=std_rules(extra=[o.rule()]), nloops=4, emit=False,
                     loops={**rect_loops(1, neg=True, cond='FILL_COND'), **rect_loops(3, neg=True, cond='FILL_COND')}, body_prefix=expect('FILL'))
    emit_with_helpers(u, o, txt)
    u.function(src, CC, sig('void Image::fill_rect(ssize_t x, ssize_t y, ssize_t w, ssize_t h, uint32_t c)'),
               new_header='void Image_fill_rect_c(Image* self, ssize_t x, ssize_t y, ssize_t w, ssize_t h, uint32_t c)', rules=std_rules())
    u.function(src, CC, sig('void Image::clear(uint64_t r, uint64_t g, uint64_t b, uint64_t a)'),
               new_header='void Image_clear(Image* self, uint64_t r, uint64_t g, uint64_t b, uint64_t a)', rules=std_rules(), nloops=2,
               loops=rect_loops(1, yy='y', xx='x', x='0', y='0', w='self->width', h='self->height'), body_prefix=expect('CLEAR'))
    u.function(src, CC, sig('void Image::clear(uint32_t c)'), new_header='void Image_clear_c(Image* self, uint32_t c)', rules=std_rules())
    # ---- blits
    def blit(name, cxx_tail, c_tail, rule, extra=(), cxx_name=None, outl=None, cond=None):
        rs = list(extra) + ([outl.rule()] if outl else [])
        txt = u.function(src, CC, sig('void Image::%s(%s%s)' % (cxx_name or name, BLIT_SIG, cxx_tail)),
                         new_header='void Image_%s(Image* self, %s%s)' % (name, BLIT_ARGS, c_tail), emit=False,
                         rules=std_rules(extra=[CLAMP_CALL] + rs), ret_zero='', nloops=2, loops=rect_loops(1, cond=cond), body_prefix=expect(rule))
        if outl:
            emit_with_helpers(u, outl, txt)
        else:
            u.parts.append(txt)
    blit('blit', '', '', 'BLIT', outl=Outliner('x_blit_bl', U64('r', 'g', 'b', 'a', 'sr', 'sg', 'sb', 'sa')), cond='BLIT_COND')
    RGB = ', uint64_t r, uint64_t g, uint64_t b'
    blit('mask_blit_rgb', RGB, RGB, 'MASKRGB', cxx_name='mask_blit')
    blit('mask_blit_dst_rgb', RGB, RGB, 'MASKDST', cxx_name='mask_blit_dst')
    blit('mask_blit_mask', ', const Image& mask', ', const Image* mask', 'MASKIMG', cxx_name='mask_blit')
    blit('blend_blit', '', '', 'BLEND', outl=Outliner('x_blend_bl', SELF + U64('sr', 'sg', 'sb', 'sa', 'dr', 'dg', 'db', 'da')), cond='BLEND_COND')
    blit('blend_blit_alpha', ', uint64_t source_alpha', ', uint64_t source_alpha', 'BLENDA', cxx_name='blend_blit',
         outl=Outliner('x_blenda_bl', SELF + U64('source_alpha', 'effective_alpha', 'sr', 'sg', 'sb', 'sa', 'dr', 'dg', 'db', 'da')), cond='g_tup_ok')
    blit('custom_blit_c', ', function<void(uint32_t&, uint32_t)> per_pixel_fn', '', 'CB32', cxx_name='custom_blit',
         extra=[Rule(r'per_pixel_fn\(dc, sc\);', 'verif_cb32(&dc, sc);', regex=True, count=1)])
    blit('custom_blit_rgba', ', function<void(uint64_t&, uint64_t&, uint64_t&, uint64_t&, uint64_t, uint64_t, uint64_t, uint64_t)> per_pixel_fn', '',
         'CB64', cxx_name='custom_blit',
         extra=[Rule(r'per_pixel_fn\(dr, dg, db, da, sr, sg, sb, sa\);', 'verif_cb64(&dr, &dg, &db, &da, sr, sg, sb, sa);', regex=True, count=1)])
    for nm in ('mask_blit', 'mask_blit_dst'):
        u.function(src, CC, sig('void Image::%s(%s, uint32_t transparent_c)' % (nm, BLIT_SIG)),
                   new_header='void Image_%s_c(Image* self, %s, uint32_t transparent_c)' % (nm, BLIT_ARGS), rules=std_rules())
    # ---- whole-image transforms over the ghost pixel
    WH = dict(yy='y', xx='x', x='0', y='0', w='w', h='h')
    u.function(src, CC, sig('void Image::invert()'), new_header='void Image_invert(Image* self)', rules=std_rules(), nloops=2,
               loops=rect_loops(1, **WH), body_prefix=expect('INVERT'))
    u.function(src, CC, sig('void Image::set_alpha_from_mask_color(uint64_t r, uint64_t g, uint64_t b)'),
               new_header='void Image_set_alpha_from_mask_color(Image* self, uint64_t r, uint64_t g, uint64_t b)', rules=std_rules(), nloops=2,
               loops=rect_loops(1, **WH), body_prefix=expect('ALPHAKEY'))
    u.function(src, CC, sig('void Image::set_alpha_from_mask_color(uint32_t c)'), new_header='void Image_set_alpha_from_mask_color_c(Image* self, uint32_t c)',
               rules=std_rules())
    SAVE2 = SAVE_O + 'uint64_t verif_pr = g_er, verif_pg = g_eg, verif_pb = g_eb, verif_pa = g_ea; '
    SWAPPED = '(g_dr == verif_pr && g_dg == verif_pg && g_db == verif_pb && g_da == verif_pa && g_er == verif_or && g_eg == verif_og && g_eb == verif_ob && g_ea == verif_oa)'
    ORIG = '(g_dr == verif_or && g_dg == verif_og && g_db == verif_ob && g_da == verif_oa && g_er == verif_pr && g_eg == verif_pg && g_eb == verif_pb && g_ea == verif_pa)'
    A2 = 'verif_exc, g_dr, g_dg, g_db, g_da, g_er, g_eg, g_eb, g_ea'

    def swap_loops(o_var, o_lim, i_var, i_lim, o_done, i_done):
        return {1: '__CPROVER_assigns(%s, %s)\n__CPROVER_loop_invariant(0 <= %s && %s <= %s && verif_exc == 0)\n__CPROVER_loop_invariant(%s ? %s : %s)\n__CPROVER_decreases(%s - %s)'
                   % (o_var, A2, o_var, o_var, o_lim, o_done, SWAPPED, ORIG, o_lim, o_var),
                2: '__CPROVER_assigns(%s, %s)\n__CPROVER_loop_invariant(0 <= %s && %s <= %s && verif_exc == 0)\n__CPROVER_loop_invariant((%s || %s) ? %s : %s)\n__CPROVER_decreases(%s - %s)'
                   % (i_var, A2, i_var, i_var, i_lim, o_done, i_done, SWAPPED, ORIG, i_lim, i_var)}
    u.raw('#ifdef C07_GHOST2')
    u.function(src, CC, sig('void Image::reverse_horizontal()'), new_header='void Image_reverse_horizontal(Image* self)', rules=std_rules(), nloops=2,
               loops=swap_loops('y', 'self->height', 'x', 'self->width / 2', '(D_IN && g_dy < y)', '(D_IN && g_dy == y && (g_dx < x || g_ex < x))'), body_prefix=SAVE2)
    u.function(src, CC, sig('void Image::reverse_vertical()'), new_header='void Image_reverse_vertical(Image* self)', rules=std_rules(), nloops=2,
               loops=swap_loops('y', 'self->height / 2', 'x', 'self->width', '(D_IN && (g_dy < y || g_ey < y))', '(D_IN && (g_dy == y || g_ey == y) && g_dx < x)'), body_prefix=SAVE2)
    u.raw('#endif')
    # ---- axis-aligned (dashed) lines: one loop; the division that selects dashes is outlined (its value only selects a branch)
    COL = '(g_dr == WCH(r, self) && g_dg == WCH(g, self) && g_db == WCH(b, self) && g_da == WA(a, self))'
    for nm, v, lo, hi, on_line, along in [('draw_horizontal_line', 'x', 'x1', 'x2', 'g_dy == y', 'g_dx'), ('draw_vertical_line', 'y', 'y1', 'y2', 'g_dx == x', 'g_dy')]:
        o = DivOutliner('x_%s_div' % nm[5], [('ssize_t', v), ('ssize_t', 'dash_length')])
        args = 'ssize_t x1, ssize_t x2, ssize_t y' if v == 'x' else 'ssize_t x, ssize_t y1, ssize_t y2'
        inv = ('__CPROVER_assigns(%s, %s)\n' % (v, DG + ', verif_exc') +
               '__CPROVER_loop_invariant(%s <= %s && (%s <= %s + 1 || %s < %s) && verif_exc == 0)\n' % (lo, v, v, hi, hi, lo) +
               '__CPROVER_loop_invariant((%s && %s >= %s && %s < %s) ? (%s || %s) : %s)\n' % (on_line, along, lo, along, v, D_IS_O, COL, D_IS_O) +
               '__CPROVER_loop_invariant((%sLINE_SOLID_INSIDE && %s && %s >= %s && %s < %s) ==> %s)\n' % (nm[5].upper(), on_line, along, lo, along, v, COL) +
               '__CPROVER_decreases(%s - %s)' % (hi, v))
        txt = u.function(src, CC, sig('void Image::%s(%s, ssize_t dash_length, uint64_t r, uint64_t g, uint64_t b, uint64_t a)' % (nm, args)),
                         new_header='void Image_%s(Image* self, %s, ssize_t dash_length, uint64_t r, uint64_t g, uint64_t b, uint64_t a)' % (nm, args),
                         rules=std_rules(extra=[o.rule()]), nloops=1, loops={1: inv}, body_prefix=SAVE_O, emit=False)
        emit_with_helpers(u, o, txt)
        u.function(src, CC, sig('void Image::%s(%s, ssize_t dash_length, uint32_t c)' % (nm, args)),
                   new_header='void Image_%s_c(Image* self, %s, ssize_t dash_length, uint32_t c)' % (nm, args), rules=std_rules())
    # ---- draw_line: frame only (the Bresenham error term is double-precision; its slope expression is outlined and unconstrained in the loop proof)
    slope = []

    def slope_rule(body, where=''):
        def one(mo):
            slope.append('double x_line_slope(ssize_t dy, ssize_t dx)\n{\n  return %s;\n}\n' % mo.group(1).strip())
            return 'double derror = x_line_slope(dy, dx);'
        return re.sub(r'double derror = ([^;]*);', one, body)
    LINE_INV = ('__CPROVER_assigns(x, y, error, verif_exc, %s, LINE_G)\n' % DG +
                '__CPROVER_loop_invariant(x0 <= x && x <= x1 + 1 && verif_exc == 0 && -2 * C07_CMAX < y && y < 2 * C07_CMAX && y - y0 <= x - x0 && y0 - y <= x - x0)\n'
                # the ghost path record (contracts/C07_image.h): one attempt per step, connected, starts at (x0, y0) of the walk
                '__CPROVER_loop_invariant(g_conn && g_ln == (size_t)(x - x0))\n'
                '__CPROVER_loop_invariant(g_ln > 0 ==> (steep ? (g_fx == y0 && g_fy == x0) : (g_fx == x0 && g_fy == y0)))\n'
                '__CPROVER_loop_invariant(g_ln > 0 ==> (steep ? (g_ly == x - 1 && C07_NEAR(g_lx, y)) : (g_lx == x - 1 && C07_NEAR(g_ly, y))))\n'
                '__CPROVER_loop_invariant(%s || %s)\n' % (D_IS_O, COL) +
                '__CPROVER_decreases(x1 - x)')
    txt = u.function(src, CC, sig('void Image::draw_line(ssize_t x0, ssize_t y0, ssize_t x1, ssize_t y1, uint64_t r, uint64_t g, uint64_t b, uint64_t a)'),
                     new_header='void Image_draw_line(Image* self, ssize_t x0, ssize_t y0, ssize_t x1, ssize_t y1, uint64_t r, uint64_t g, uint64_t b, uint64_t a)',
                     rules=[Rule(r'(?<![>.\w])(width|height)\b', r'self->\1', regex=True, count='+'), Rule(r'\babs\(', 'labs(', regex=True, count='+')] +
                     std_rules(extra=[Fn(slope_rule)]) +
                     # ghost: record every pixel handed to write_pixel (path facts of the contract)
                     [Rule(r'\bImage_write_pixel\(self, (\w+), (\w+), ', r'C07_LINE_STEP(\1, \2); Image_write_pixel(self, \1, \2, ', regex=True, count='+')],
                     nloops=1, loops={1: LINE_INV}, body_prefix=SAVE_O, emit=False)
    u.parts.append('#ifndef C07_ARITH_MODEL\n' + ''.join(slope) + '#endif\n')
    u.parts.append(txt)
    u.function(src, CC, sig('void Image::draw_line(ssize_t x0, ssize_t y0, ssize_t x1, ssize_t y1, uint32_t c)'),
               new_header='void Image_draw_line_c(Image* self, ssize_t x0, ssize_t y0, ssize_t x1, ssize_t y1, uint32_t c)', rules=std_rules())
    # ---- draw_text_v: the formatted text is a parameter (string_vprintf is libc); glyph table from ImageTextFont.hh
    font = u.snippet(src, FONT, r'static uint8_t font\[96\]\[35\] = \{.*?\n\};')
    u.raw(font)
    u.function(src, CC, sig('void Image::draw_text_v(ssize_t x, ssize_t y, ssize_t* width, ssize_t* height, uint64_t r, uint64_t g, uint64_t b, uint64_t a, uint64_t br, uint64_t bg, uint64_t bb, uint64_t ba, const char* fmt, va_list va)'),
               new_header='void Image_draw_text_v(Image* self, ssize_t x, ssize_t y, ssize_t* width, ssize_t* height, uint64_t r, uint64_t g, uint64_t b, uint64_t a, '
                          'uint64_t br, uint64_t bg, uint64_t bb, uint64_t ba, const char* buffer, size_t buffer_size)',
               rules=[Rule(r'string buffer = string_vprintf\(fmt, va\);', '', regex=True, count=1), Rule('buffer.size()', 'buffer_size', count=1)] + std_rules(),
               nloops=3, loops={
                   1: '__CPROVER_assigns(z, x_pos, y_pos, max_x_pos, verif_exc, %s)\n' % DG +
                      '__CPROVER_loop_invariant(z <= buffer_size && verif_exc == 0 && GHOST_WF(self, g_dr, g_dg, g_db, g_da))\n'
                      '__CPROVER_loop_invariant(x <= x_pos && x_pos <= x + 6 * (ssize_t)z && y <= y_pos && y_pos <= y + 8 * (ssize_t)z)\n'
                      '__CPROVER_loop_invariant(max_x_pos == 0 || (max_x_pos == x && x > 0))\n'
                      '__CPROVER_decreases(buffer_size - z)',
                   2: '__CPROVER_assigns(yy, verif_exc, %s)\n__CPROVER_loop_invariant(0 <= yy && yy <= 7 && verif_exc == 0 && GHOST_WF(self, g_dr, g_dg, g_db, g_da))\n__CPROVER_decreases(7 - yy)' % DG,
                   3: '__CPROVER_assigns(xx, verif_exc, %s)\n__CPROVER_loop_invariant(0 <= xx && xx <= 5 && verif_exc == 0 && GHOST_WF(self, g_dr, g_dg, g_db, g_da))\n__CPROVER_decreases(5 - xx)' % DG})
    # ---- one text cell = the body of the character loop, cut as a function of the cursor (per-pixel model of text, any cursor position)
    def top_continue(body, where=''):
        """`continue;` of the character loop (not inside a nested loop) leaves the cell function"""
        m = mask(body)
        spans = []
        for mo in re.finditer(r'\b(?:for|while)\s*\(', m):
            pe = lex.match_close(m, mo.end() - 1)
            bo = m.index('{', pe)
            spans.append((mo.start(), lex.match_close(m, bo)))
        out, pos, n = [], 0, 0
        for mo in re.finditer(r'\bcontinue;', m):
            if any(a <= mo.start() <= b for a, b in spans):
                continue
            out.append(body[pos:mo.start()] + 'return;')
            pos = mo.end()
            n += 1
        if n == 0 and not spans:
            raise ExtractionBreak('%s: character loop body has neither continue nor nested loop' % where)
        return ''.join(out) + body[pos:]
    u.block(src, CC, sig('void Image::draw_text_v(ssize_t x, ssize_t y, ssize_t* width, ssize_t* height, uint64_t r, uint64_t g, uint64_t b, uint64_t a, uint64_t br, uint64_t bg, uint64_t bb, uint64_t ba, const char* fmt, va_list va)'),
            r'for \(size_t z = 0; z < buffer\.size\(\); z\+\+\)',
            new_header='void Image_draw_text_cell(Image* self, ssize_t x, uint8_t ch_in, uint64_t r, uint64_t g, uint64_t b, uint64_t a, uint64_t br, uint64_t bg, uint64_t bb, uint64_t ba)',
            rules=[Rule(r'\bbuffer\[z\]', 'ch_in', regex=True, count=1), Fn(top_continue),
                   Rule(r'(for \(ssize_t yy = 0;)', r'TEXT_SNAP; \1', regex=True, count=1)] + std_rules(),
            nloops=2, loops={
                1: '__CPROVER_assigns(yy, verif_exc, %s)\n__CPROVER_loop_invariant(0 <= yy && yy <= 7 && verif_exc == 0 && GHOST_WF(self, g_dr, g_dg, g_db, g_da))\n'
                   '__CPROVER_loop_invariant(CELL_INV(yy, 0))\n__CPROVER_decreases(7 - yy)' % DG,
                2: '__CPROVER_assigns(xx, verif_exc, %s)\n__CPROVER_loop_invariant(0 <= xx && xx <= 5 && verif_exc == 0 && GHOST_WF(self, g_dr, g_dg, g_db, g_da))\n'
                   '__CPROVER_loop_invariant(CELL_INV(yy, xx))\n__CPROVER_decreases(5 - xx)' % DG})
    # the loop-level functions reach pixel memory only through the accessors
    if re.search(r'\bdata\b', mask(u.text())):
        raise ExtractionBreak('a loop-level function touches Image::data directly')
    return u


RP = lambda mode, extra=(): Replay(driver='C07/image.cc', mode=mode, sources=ALL_LIB, small_define='VERIF_SMALL', extra=list(extra))
from vf.pipeline import DEFAULT_CHECKS
NO_PTR = [c for c in DEFAULT_CHECKS if c != '--pointer-check'] + ['--no-pointer-check']
PIXC = ['Image_read_pixel', 'Image_write_pixel']
INT_DIM = 'C07_DIMMAX=0x80000000LL'      # loop counters of type int: canvas dimensions up to INT_MAX (see ASSUMPTIONS)


def plan(ctx):
    src = Source(ctx.src)
    ups = pixel_units(ctx, src)
    uc = canvas_unit(ctx, src)
    uc.write()
    ctx.functions_under_contract = sum([u.functions for u in ups], []) + uc.functions
    H = 'harness/C07/canvas.c'
    gs = []

    def G(name, entry, function, enforce, replace=(), loops=False, kind=None, defines=(), harness=H, model=True, **kw):
        g = Group(name='Image.' + name, harness=harness, entry='h_' + entry, function=function, enforce=enforce, replace=list(replace), loops=loops,
                  kind=kind or ('loop-contract' if loops else 'loop-free'), defines=list(defines) + (['C07_ARITH_MODEL=1'] if model else []),
                  replay=RP(entry), object_bits=10, **kw)
        if loops:
            g.defines.append('C07_LOOP_PROOF=1')
            # ghost-level loop proofs: the ~1300 pointer-dereference checks of the clause evaluations (self->width ...) cost more solver time than
            # the proof itself; quick tier leaves them out (the functions touch no pixel memory -- checked in canvas_unit), thorough re-runs with them
            g.checks = NO_PTR
            g.engines, g.first, g.stage1, g.timeout = ['cadical', 'minisat'], 'cadical', 120, 400
            g.fallback_unwind = 18       # only invariant/frame obligations fail: look for a concrete postcondition failure on canvases <= 16x16
        gs.append(g)
        return g
    # ---- memory level (bounded in canvas dimension): one instantiation per channel width and alpha mode
    for dimb, tier in ((8, 'quick'), (16, 'thorough')):
        for cw in (8, 16, 32, 64):
            for ha in (0, 1):
                for fn in ('write_pixel', 'read_pixel'):
                    gs.append(Group(name='Image.%s.memory[cw=%d,alpha=%d,dim<=%d]' % (fn, cw, ha, dimb), harness='harness/C07/pixel_mem.c', entry='h_mem_' + fn,
                                    function='Image::%s(x, y, r, g, b, a)' % fn, enforce='Image_' + fn, kind='bounded', tier=tier,
                                    bound='canvas width and height <= %d (symbolic within the bound); coordinates, channel values unbounded' % dimb,
                                    defines=['CW=%d' % cw, 'HA=%d' % ha, 'C07_DIMB=%d' % dimb], object_bits=10, timeout=300 if dimb == 8 else 900,
                                    engines=['minisat', 'cadical'], first='minisat', stage1=150 if dimb == 8 else 450,   # minisat: 25 s, every other back end > 150 s
                                    replay=RP('mem_' + fn)))
    G('read_pixel(uint32)', 'read_pixel_c', 'Image::read_pixel(x, y)', 'Image_read_pixel_c')
    G('write_pixel(uint32)', 'write_pixel_c', 'Image::write_pixel(x, y, color)', 'Image_write_pixel_c')
    G('model.read_pixel', 'model_read_pixel', 'ghost-pixel model of Image::read_pixel (stubs/C07_pixel_model.h) satisfies the loop-level contract', 'Image_read_pixel', kind='lemma')
    G('model.write_pixel', 'model_write_pixel', 'ghost-pixel model of Image::write_pixel (stubs/C07_pixel_model.h) satisfies the loop-level contract', 'Image_write_pixel', kind='lemma')
    CLAUSES = ['origins, offset, bounds, in-range spans, final rectangle'] + \
              ['%s axis: model invariant under clipping step %d' % (a, k) for a in 'xy' for k in (1, 2, 3, 4)]
    CLAUSES = CLAUSES[:5] + ['x axis: model after the last step == span membership'] + CLAUSES[5:] + ['y axis: model after the last step == span membership']
    CLAUSES += ['x axis: closed form of origin, source origin and span', 'y axis: closed form of origin, source origin and span']
    for k, what in enumerate(CLAUSES):
        G('clamp_blit_dimensions[%d]' % k, 'clamp', 'clamp_blit_dimensions (%s)' % what, 'clamp_blit_dimensions', defines=['CLAMP_ONLY=%d' % k],
          engines=['cadical', 'minisat'], first='cadical', stage1=100, timeout=300)
    def arith(fn, helpers):
        for k, h in enumerate(helpers, 1):
            G('%s.arith[%d]' % (fn, k), h, 'Image::%s (outlined arithmetic expression %d)' % (fn, k), h, engines=['cvc5', 'z3'], model=False,
              first='z3' if 'blend' in fn else 'cvc5', stage1=30)
    FILL_H = ['x_fill_bl%d' % k for k in range(1, 5)]
    BLIT_H = ['x_blit_bl%d' % k for k in range(1, 5)]
    BLEND_H = ['x_blend_bl%d' % k for k in range(1, 5)]
    BLENDA_H = ['x_blenda_bl%d' % k for k in range(1, 5)]
    arith('fill_rect', FILL_H)
    arith('blit', BLIT_H)
    arith('blend_blit', BLEND_H)
    arith('blend_blit(alpha)', BLENDA_H)
    G('fill_rect', 'fill_rect', 'Image::fill_rect', 'Image_fill_rect', loops=True)
    G('fill_rect(uint32)', 'fill_rect_c', 'Image::fill_rect(.., color)', 'Image_fill_rect_c', replace=['Image_fill_rect'])
    G('clear', 'clear', 'Image::clear', 'Image_clear', loops=True)
    G('clear(uint32)', 'clear_c', 'Image::clear(color)', 'Image_clear_c', replace=['Image_clear'])
    CL = ['clamp_blit_dimensions']
    G('blit', 'blit', 'Image::blit', 'Image_blit', replace=CL, loops=True)
    G('mask_blit(rgb)', 'mask_blit_rgb', 'Image::mask_blit(.., r, g, b)', 'Image_mask_blit_rgb', replace=CL, loops=True, defines=[INT_DIM])
    G('mask_blit_dst(rgb)', 'mask_blit_dst_rgb', 'Image::mask_blit_dst(.., r, g, b)', 'Image_mask_blit_dst_rgb', replace=CL, loops=True, defines=[INT_DIM])
    G('mask_blit(uint32)', 'mask_blit_c', 'Image::mask_blit(.., color)', 'Image_mask_blit_c', replace=['Image_mask_blit_rgb'], defines=[INT_DIM])
    G('mask_blit_dst(uint32)', 'mask_blit_dst_c', 'Image::mask_blit_dst(.., color)', 'Image_mask_blit_dst_c', replace=['Image_mask_blit_dst_rgb'], defines=[INT_DIM])
    G('mask_blit(mask)', 'mask_blit_mask', 'Image::mask_blit(.., mask)', 'Image_mask_blit_mask', replace=CL, loops=True)
    G('blend_blit', 'blend_blit', 'Image::blend_blit', 'Image_blend_blit', replace=CL, loops=True, defines=[INT_DIM])
    # (a sibling overload called from the body is bound to its own contract; absent replace targets are dropped by the pipeline)
    G('blend_blit(alpha)', 'blend_blit_alpha', 'Image::blend_blit(.., source_alpha)', 'Image_blend_blit_alpha', replace=CL + ['Image_blend_blit', 'Image_blit'], loops=True,
      defines=[INT_DIM])
    G('custom_blit(uint32)', 'custom_blit_c', 'Image::custom_blit(.., fn(uint32_t&, uint32_t))', 'Image_custom_blit_c',
      replace=CL, loops=True, defines=[INT_DIM])
    G('custom_blit(rgba)', 'custom_blit_rgba', 'Image::custom_blit(.., fn(uint64_t& x4, uint64_t x4))', 'Image_custom_blit_rgba',
      replace=CL, loops=True, defines=[INT_DIM])
    # ---- whole-buffer operations at memory level
    ur = reshape_unit(ctx, src)
    ctx.functions_under_contract += ur.functions
    HR = 'harness/C07/reshape.c'

    def R(name, entry, function, enforce, defines, replace=(), loops=False, kind=None, tiers=((3, 'quick'), (5, 'thorough')), **kw):
        """tiers: (RS_DIMBITS, tier) instances of a dimension-bounded group; lemmas and the loop-free moves have no bound"""
        unbounded = kind == 'lemma' or entry.startswith('h_move')
        for bits, tier in (((4, 'quick'),) if unbounded else tiers):
            g = Group(name='Image.' + name + ('' if unbounded else '[dim<%d]' % (1 << bits)), harness=HR, entry=entry, function=function, enforce=enforce,
                      replace=list(replace), loops=loops, defines=list(defines) + ['RS_DIMBITS=%d' % bits], tier=tier,
                      kind=kind or ('loop-free' if unbounded else 'bounded'), object_bits=10, replay=RP(entry[2:]), timeout=300 if tier == 'quick' else 900,
                      **({} if unbounded or 'first' in kw else dict(engines=['minisat', 'cadical'], first='minisat', stage1=150)),
                      bound='' if unbounded else 'canvas width and height < %d (symbolic within the bound); every sample value' % (1 << bits), **kw)
            gs.append(g)
    for ow in (8, 16, 32, 64):
        for nw in (8, 16, 32, 64):
            if ow == nw:
                continue
            for ha in (0, 1):
                R('set_channel_width[%d->%d,alpha=%d]' % (ow, nw, ha), 'h_set_channel_width', 'Image::set_channel_width', 'Image_set_channel_width',
                  ['OW=%d' % ow, 'NW=%d' % nw, 'HA=%d' % ha], loops=True, tiers=((3, 'quick'), (5, 'thorough')) if ha == 1 else ((4, 'thorough'),))
            if nw > ow:
                R('set_channel_width.widen_narrow[%d->%d->%d]' % (ow, nw, ow), 'l_widen_narrow', 'Image::set_channel_width (widen then narrow == identity, per sample)',
                  None, ['OW=%d' % ow, 'NW=%d' % nw, 'HA=1'], kind='lemma')
    for cw in (8, 16, 32, 64):
        for ha in (0, 1):
            # width*height is re-evaluated in the loop condition: the slowest of the bounded groups (quick tier: dimensions < 4)
            R('set_has_alpha[cw=%d,%s]' % (cw, 'drop' if ha else 'add'), 'h_set_has_alpha', 'Image::set_has_alpha', 'Image_set_has_alpha',
              ['CWA=%d' % cw, 'HA=%d' % ha], loops=True, tiers=((2, 'quick'), (4, 'thorough')) if cw == 8 else ((4, 'thorough'),), first='minisat', stage1=150)
    R('copy_constructor', 'h_copy_ctor', 'Image::Image(const Image&)', 'Image_copy_ctor', [], replace=['verif_memcpy'])
    for on in (0, 1):
        R('copy_assignment[%s]' % ('empty target' if on else 'target with a buffer'), 'h_copy_assign', 'Image::operator=(const Image&)', 'Image_copy_assign',
          ['OLD_NULL=%d' % on], replace=['verif_memcpy'])
    R('move_constructor', 'h_move_ctor', 'Image::Image(Image&&)', 'Image_move_ctor', [])
    for on in (0, 1):
        R('move_assignment[%s]' % ('empty target' if on else 'target with a buffer'), 'h_move_assign', 'Image::operator=(Image&&)', 'Image_move_assign', ['OLD_NULL=%d' % on])
    # ---- whole-image transforms, lines, text
    G('invert', 'invert', 'Image::invert', 'Image_invert', loops=True)
    G('set_alpha_from_mask_color', 'set_alpha_from_mask_color', 'Image::set_alpha_from_mask_color(r, g, b)', 'Image_set_alpha_from_mask_color', loops=True)
    G('set_alpha_from_mask_color(uint32)', 'set_alpha_from_mask_color_c', 'Image::set_alpha_from_mask_color(color)', 'Image_set_alpha_from_mask_color_c',
      replace=['Image_set_alpha_from_mask_color'])
    G2 = ['C07_GHOST2=1']
    G('reverse_horizontal', 'reverse_horizontal', 'Image::reverse_horizontal', 'Image_reverse_horizontal', loops=True, defines=G2)
    G('reverse_vertical', 'reverse_vertical', 'Image::reverse_vertical', 'Image_reverse_vertical', loops=True, defines=G2)

    def L(name, entry, function, enforce, replace, defines=()):
        gs.append(Group(name='Image.' + name, harness=H, entry='l_' + entry, function=function, enforce=enforce, replace=list(replace), kind='lemma',
                        defines=list(defines) + ['C07_ARITH_MODEL=1'], object_bits=10, replay=RP(entry)))
    L('reverse_horizontal.twice', 'reverse_horizontal_twice', 'Image::reverse_horizontal (twice == identity)', 'L_reverse_horizontal_twice', ['Image_reverse_horizontal'], G2)
    L('reverse_vertical.twice', 'reverse_vertical_twice', 'Image::reverse_vertical (twice == identity)', 'L_reverse_vertical_twice', ['Image_reverse_vertical'], G2)
    L('invert.twice', 'invert_twice', 'Image::invert (twice == identity)', 'L_invert_twice', ['Image_invert'])
    for ax in ('horizontal', 'vertical'):
        G('draw_%s_line' % ax, 'draw_%s_line' % ax, 'Image::draw_%s_line' % ax, 'Image_draw_%s_line' % ax, loops=True)
        G('draw_%s_line(uint32)' % ax, 'draw_%s_line_c' % ax, 'Image::draw_%s_line(.., color)' % ax, 'Image_draw_%s_line_c' % ax, replace=['Image_draw_%s_line' % ax])
        G('draw_%s_line.dash_selector' % ax, 'x_%s_div1' % ax[0], 'Image::draw_%s_line (outlined expression x / dash_length)' % ax, 'x_%s_div1' % ax[0], model=False)
    G('draw_line', 'draw_line', 'Image::draw_line (no exception, colour of changed pixels, connected path of max(|dx|,|dy|)+1 pixels from an end point)', 'Image_draw_line', loops=True)
    G('draw_line(uint32)', 'draw_line_c', 'Image::draw_line(.., color)', 'Image_draw_line_c', replace=['Image_draw_line'])
    G('draw_text_v', 'draw_text_v', 'Image::draw_text_v', 'Image_draw_text_v', replace=['Image_fill_rect'], loops=True)
    G('draw_text_v.cell', 'draw_text_cell', 'Image::draw_text_v (body of the character loop)', 'Image_draw_text_cell', replace=['Image_fill_rect'] + PIXC, loops=True)
    L('fill_rect.clipping_invariance', 'fill_rect_clip', 'Image::fill_rect (small canvas == crop of larger canvas)', 'L_fill_rect_clip', ['Image_fill_rect'])
    L('blit.clipping_invariance', 'blit_clip', 'Image::blit (small destination == crop of larger destination)', 'L_blit_clip', ['Image_blit'])
    # the blend rules with explicit arithmetic, as lemmas over the function-point contracts (loop-free; SMT back ends: two instances of the same
    # division on equal arguments are only recognised as equal by term substitution)
    for nm, callee, dfs in [('fill_rect', 'Image_fill_rect', []), ('blit', 'Image_blit', []), ('blend_blit', 'Image_blend_blit', [INT_DIM]),
                            ('blend_blit_alpha', 'Image_blend_blit_alpha', [INT_DIM])]:
        g = Group(name='Image.%s.rule' % nm.replace('_alpha', '(alpha)'), harness=H, entry='l_%s_rule' % nm, function='Image::%s' % nm.replace('_alpha', '(.., source_alpha)'),
                  enforce='L_%s_rule' % nm, replace=[callee], kind='lemma', defines=dfs + ['C07_ARITH_MODEL=1'], object_bits=10,
                  engines=['cvc5', 'z3'], first='cvc5', stage1=60, timeout=300, replay=RP(nm))
        gs.append(g)
    # thorough: the ghost-level loop groups once more with every standard check (pointer dereference checks included)
    import copy
    for g in list(gs):
        if g.checks is NO_PTR:
            g2 = copy.deepcopy(g)
            g2.name += '.all-checks'
            g2.checks, g2.tier, g2.timeout, g2.stage1 = None, 'thorough', 1200, 600
            gs.append(g2)
    return gs
