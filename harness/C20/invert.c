/* C20: Matrix4<double>::invert / inverse against the reference Gauss-Jordan elimination (contracts/C20_invert.h).
 * All loops have the constant bound 4: unwound completely (--unwinding-assertions), no loop contract needed. */
#include "contracts/C20_invert.h"
int verif_exc;
Matrix4 g_spec_L, g_spec_R; int g_spec_singular; size_t g_x, g_y; double g_spec_P;
#include "x_invert.c"

static void setup(Matrix4* m, const uint64_t* bits) {
  for (size_t k = 0; k < 16; k++) { union { double d; uint64_t u; } c; c.u = bits[k]; m->m[k / 4][k % 4] = c.d; }
  g_spec_L = *m; Matrix4_identity(&g_spec_R);
  g_spec_singular = spec_gauss_jordan(&g_spec_L, &g_spec_R);
  verif_exc = 0;
}
#define IN16 uint64_t in_e0, in_e1, in_e2, in_e3, in_e4, in_e5, in_e6, in_e7, in_e8, in_e9, in_e10, in_e11, in_e12, in_e13, in_e14, in_e15; \
  uint64_t bits[16] = { in_e0, in_e1, in_e2, in_e3, in_e4, in_e5, in_e6, in_e7, in_e8, in_e9, in_e10, in_e11, in_e12, in_e13, in_e14, in_e15 }
void h_invert(void) {
  IN16; size_t in_x, in_y; g_x = in_x; g_y = in_y;
  Matrix4 m; setup(&m, bits);
  Matrix4_invert(&m);
  VERIF_REACH();
}
void h_inverse(void) {
  IN16; size_t in_x, in_y; g_x = in_x; g_y = in_y;
  Matrix4 m; setup(&m, bits);
  Matrix4_inverse(&m);
  VERIF_REACH();
}

/* product: operands A (in_e*) and B (in_f*); in_alias: the right operand is the left operand itself (M * M, M *= M) */
static void fill(Matrix4* m, const uint64_t* bits) { for (size_t k = 0; k < 16; k++) { union { double d; uint64_t u; } c; c.u = bits[k]; m->m[k / 4][k % 4] = c.d; } }
#define IN16F uint64_t in_f0, in_f1, in_f2, in_f3, in_f4, in_f5, in_f6, in_f7, in_f8, in_f9, in_f10, in_f11, in_f12, in_f13, in_f14, in_f15; \
  uint64_t fbits[16] = { in_f0, in_f1, in_f2, in_f3, in_f4, in_f5, in_f6, in_f7, in_f8, in_f9, in_f10, in_f11, in_f12, in_f13, in_f14, in_f15 }
#define PRODUCT_SETUP \
  IN16; IN16F; size_t in_x, in_y; uint8_t in_alias; __CPROVER_assume(in_x < 4 && in_y < 4); g_x = in_x; g_y = in_y; \
  Matrix4 a, b; fill(&a, bits); fill(&b, fbits); Matrix4* other = in_alias ? &a : &b; \
  Matrix4 a0 = a, b0 = *other; g_spec_P = SPEC_PROD(&a0, &b0, g_x, g_y); verif_exc = 0;
void h_mulm(void) { PRODUCT_SETUP Matrix4_mulm(&a, other); VERIF_REACH(); }
void h_imulm(void) { PRODUCT_SETUP Matrix4_imulm(&a, other); VERIF_REACH(); }
