/* C07: loop-level ("ghost pixel") contracts of the Image canvas operations (src/Image.cc).
 *
 * Abstract view of a canvas = the value of ONE symbolic pixel (DESIGN.md 3.4, A.4): four channels as read_pixel reports them.
 *   D: destination canvas g_dimg, pixel (g_dx,g_dy), current value g_dr,g_dg,g_db,g_da          (changed by write_pixel)
 *   E: (only with -DC07_GHOST2) a second pixel (g_ex,g_ey) of the destination canvas, value g_er.. (changed by write_pixel)
 *   S: source canvas g_simg, pixel (g_sx,g_sy), value g_sr..                                      (never written)
 *   M: mask canvas g_mimg, pixel (g_mx,g_my), value g_mr..                                        (never written)
 * A statement proved for symbolic ghost coordinates is the universally quantified statement over all pixels.
 *
 * read_pixel / write_pixel carry here the contract every loop above them is proved against.  In the loop proofs they are bound to the
 * canonical model of that contract (stubs/C07_pixel_model.h: havoc the assigns clause, assume the ensures clauses; the groups
 * Image.model.* enforce the contract on the model).  The very same clause macros (WP_EXC, WP_PIX, RP_PIX, contracts/C07_clauses.h) are the
 * postconditions of the memory-level obligations of contracts/C07_pixel_mem.h, with "ghost value" instantiated by "the channels decoded
 * from the pixel buffer at (gx,gy)": that is the link between the two levels.
 *
 * Specification sources: the property statement (which pixels change, never out_of_range, everything else untouched);
 * the per-variant colour rules *_R/_G/_B/_A below pin the arithmetic of the pinned commit where neither the statement nor
 * Image.hh defines it (regression-strength, see props/C07.py NOT_DECIDED). */
#ifndef C07_IMAGE_H
#define C07_IMAGE_H
#include "contracts/C07_clauses.h"

#ifdef C07_GHOST2
#define G2_ENS(x) __CPROVER_ensures(x)
#define G2_ASG , g_er, g_eg, g_eb, g_ea
#else
#define G2_ENS(x)
#define G2_ASG
#endif

/* ================= pixel accessors, loop level ================= */
void Image_read_pixel(const Image* self, ssize_t x, ssize_t y, uint64_t* r, uint64_t* g, uint64_t* b, uint64_t* a)
__CPROVER_requires(verif_exc == 0) __CPROVER_requires(IMG_VALID(self))
__CPROVER_ensures(WP_EXC(self, x, y, verif_exc))
__CPROVER_ensures(self == g_dimg ==> RP_PIX(self, x, y, r, g, b, a, g_dx, g_dy, g_dr, g_dg, g_db, g_da))
__CPROVER_ensures(self == g_simg ==> RP_PIX(self, x, y, r, g, b, a, g_sx, g_sy, g_sr, g_sg, g_sb, g_sa))
__CPROVER_ensures(self == g_mimg ==> RP_PIX(self, x, y, r, g, b, a, g_mx, g_my, g_mr, g_mg, g_mb, g_ma))
G2_ENS(self == g_dimg ==> RP_PIX(self, x, y, r, g, b, a, g_ex, g_ey, g_er, g_eg, g_eb, g_ea))
__CPROVER_assigns(verif_exc; r != 0: *r; g != 0: *g; b != 0: *b; a != 0: *a);

void Image_write_pixel(Image* self, ssize_t x, ssize_t y, uint64_t r, uint64_t g, uint64_t b, uint64_t a)
__CPROVER_requires(verif_exc == 0) __CPROVER_requires(IMG_VALID(self)) __CPROVER_requires(self == g_dimg)
__CPROVER_ensures(WP_EXC(self, x, y, verif_exc))
__CPROVER_ensures(WP_PIX(self, x, y, r, g, b, a, g_dx, g_dy, __CPROVER_old(g_dr), __CPROVER_old(g_dg), __CPROVER_old(g_db), __CPROVER_old(g_da),
                         g_dr, g_dg, g_db, g_da))
G2_ENS(WP_PIX(self, x, y, r, g, b, a, g_ex, g_ey, __CPROVER_old(g_er), __CPROVER_old(g_eg), __CPROVER_old(g_eb), __CPROVER_old(g_ea),
              g_er, g_eg, g_eb, g_ea))
__CPROVER_assigns(verif_exc, g_dr, g_dg, g_db, g_da G2_ASG);

#define RPC_PIX(i, x, y, ret, gx, gy, v_r, v_g, v_b, v_a) \
  ((!OUTSIDE(i, x, y) && (x) == (gx) && (y) == (gy)) ==> (ret) == COMPRESS(v_r, v_g, v_b, v_a))
uint32_t Image_read_pixel_c(const Image* self, ssize_t x, ssize_t y)
__CPROVER_requires(verif_exc == 0) __CPROVER_requires(IMG_VALID(self))
__CPROVER_ensures(WP_EXC(self, x, y, verif_exc))
__CPROVER_ensures(self == g_dimg ==> RPC_PIX(self, x, y, __CPROVER_return_value, g_dx, g_dy, g_dr, g_dg, g_db, g_da))
__CPROVER_ensures(self == g_simg ==> RPC_PIX(self, x, y, __CPROVER_return_value, g_sx, g_sy, g_sr, g_sg, g_sb, g_sa))
__CPROVER_ensures(self == g_mimg ==> RPC_PIX(self, x, y, __CPROVER_return_value, g_mx, g_my, g_mr, g_mg, g_mb, g_ma))
__CPROVER_assigns(verif_exc);

void Image_write_pixel_c(Image* self, ssize_t x, ssize_t y, uint32_t color)
__CPROVER_requires(verif_exc == 0) __CPROVER_requires(IMG_VALID(self)) __CPROVER_requires(self == g_dimg)
__CPROVER_ensures(WP_EXC(self, x, y, verif_exc))
__CPROVER_ensures(WP_PIX(self, x, y, C_R(color), C_G(color), C_B(color), C_A(color), g_dx, g_dy,
                         __CPROVER_old(g_dr), __CPROVER_old(g_dg), __CPROVER_old(g_db), __CPROVER_old(g_da), g_dr, g_dg, g_db, g_da))
__CPROVER_assigns(verif_exc, g_dr, g_dg, g_db, g_da);

/* ================= preconditions of the canvas operations ================= */
/* destination: a valid canvas; the symbolic pixel D holds a well-formed value.  D may lie outside the canvas (then nothing may happen to it:
 * this also covers empty canvases); D_IN says it is a pixel of the canvas */
#define D_IN (!OUTSIDE(self, g_dx, g_dy))
/* (one small clause per fact: long conjunctions in a single requires clause were observed to fail spuriously when the contract replaces a call) */
#define DST_REQ(self) \
  __CPROVER_requires(__CPROVER_is_fresh(g_dimg, sizeof(Image))) \
  __CPROVER_requires(self == g_dimg) __CPROVER_requires(verif_exc == 0) __CPROVER_requires(IMG_VALID(self)) \
  __CPROVER_requires(SHAPE_IS(self, g_dw, g_dh, g_dalpha, g_dcw)) \
  __CPROVER_requires(COORD_OK(g_dx) && COORD_OK(g_dy)) __CPROVER_requires(GHOST_WF(self, g_dr, g_dg, g_db, g_da))
/* source: a valid canvas distinct from the destination; S is "the source pixel that feeds D" (it may lie outside the source) */
#define SRC_REQ(source) \
  __CPROVER_requires(__CPROVER_is_fresh(g_simg, sizeof(Image))) \
  __CPROVER_requires(source == g_simg) __CPROVER_requires(IMG_VALID(source)) __CPROVER_requires(SHAPE_IS(source, g_sw, g_sh, g_salpha, g_scw)) \
  __CPROVER_requires(OUTSIDE(source, g_sx, g_sy) || GHOST_WF(source, g_sr, g_sg, g_sb, g_sa))
#define BLIT_REQ(self, source) DST_REQ(self) SRC_REQ(source) \
  __CPROVER_requires(COORD_OK(x) && COORD_OK(y) && COORD_OK(w) && COORD_OK(h) && COORD_OK(sx) && COORD_OK(sy)) \
  __CPROVER_requires(g_sx == sx + (g_dx - x) && g_sy == sy + (g_dy - y))

#define INRECT(px, py, x, y, w, h) ((px) >= (x) && (px) - (x) < (w) && (py) >= (y) && (py) - (y) < (h))
#define D4(R, G, B, A) (g_dr == (R) && g_dg == (G) && g_db == (B) && g_da == (A))
#define OLD_DR __CPROVER_old(g_dr)
#define OLD_DG __CPROVER_old(g_dg)
#define OLD_DB __CPROVER_old(g_db)
#define OLD_DA __CPROVER_old(g_da)
#define D4_OLD D4(OLD_DR, OLD_DG, OLD_DB, OLD_DA)
#define C07_MAX_T(T, a, b) ((T)(a) > (T)(b) ? (T)(a) : (T)(b))      /* std::max<T> / std::min<T> on side-effect-free operands */
#define C07_MIN_T(T, a, b) ((T)(a) < (T)(b) ? (T)(a) : (T)(b))
#define C07_MAX(a, b) ((a) > (b) ? (a) : (b))
#define C07_MIN(a, b) ((a) < (b) ? (a) : (b))
#define D_ASSIGNS verif_exc, g_dr, g_dg, g_db, g_da
#define CLAMP_GHOSTS g_cw, g_ch, g_mx0, g_mx1, g_mx2, g_mx3, g_mx4, g_my0, g_my1, g_my2, g_my3, g_my4

/* ================= clamp_blit_dimensions: result rectangle == intersection model ================= */
/* per axis: a destination column p is copied iff it lies in the requested span, inside the destination, and its source column inside the source */
#define AXIS_MODEL(p, x, w, sx, dlim, slim) ((p) >= (x) && (p) - (x) < (w) && (p) >= 0 && (p) < (dlim) && (sx) + ((p) - (x)) >= 0 && (sx) + ((p) - (x)) < (slim))
#define AXIS_IN(p, x, w) ((p) >= (x) && (p) - (x) < (w))
/* ghost flags assigned by ghost statements inside the function (props/C07.py:clamp_ghost): g_mxK / g_myK = "the model, evaluated on the
 * current values of (x,w,sx) / (y,h,sy), copies the symbolic column g_dx / row g_dy" at entry (K=0) and after each of the four clipping
 * steps of the axis (K=1..4).  The model is invariant under every step and, after the last one, it is plain span membership: the chain
 * g_m0 == .. == g_m4 == AXIS_IN is "the result is sound and maximal".  One link per obligation group (a single 64-bit query for the
 * whole chain is out of reach of every back end; each link alone takes seconds). */
extern bool g_mx0, g_mx1, g_mx2, g_mx3, g_mx4, g_my0, g_my1, g_my2, g_my3, g_my4;
#define CLAMP_MX(dest, source) AXIS_MODEL(g_dx, *x, *w, *sx, (dest)->width, (source)->width)
#define CLAMP_MY(dest, source) AXIS_MODEL(g_dy, *y, *h, *sy, (dest)->height, (source)->height)
/* CLAMP_ONLY=k: emit only clause set k (enforcing groups); undefined: the whole contract (what callers see) */
#if !defined(CLAMP_ONLY)
#define CE(k, e) __CPROVER_ensures(e)
#else
#define CE(k, e) CE_K##k(e)
#if CLAMP_ONLY == 0
#define CE_K0(e) __CPROVER_ensures(e)
#else
#define CE_K0(e)
#endif
#if CLAMP_ONLY == 1
#define CE_K1(e) __CPROVER_ensures(e)
#else
#define CE_K1(e)
#endif
#if CLAMP_ONLY == 2
#define CE_K2(e) __CPROVER_ensures(e)
#else
#define CE_K2(e)
#endif
#if CLAMP_ONLY == 3
#define CE_K3(e) __CPROVER_ensures(e)
#else
#define CE_K3(e)
#endif
#if CLAMP_ONLY == 4
#define CE_K4(e) __CPROVER_ensures(e)
#else
#define CE_K4(e)
#endif
#if CLAMP_ONLY == 5
#define CE_K5(e) __CPROVER_ensures(e)
#else
#define CE_K5(e)
#endif
#if CLAMP_ONLY == 6
#define CE_K6(e) __CPROVER_ensures(e)
#else
#define CE_K6(e)
#endif
#if CLAMP_ONLY == 7
#define CE_K7(e) __CPROVER_ensures(e)
#else
#define CE_K7(e)
#endif
#if CLAMP_ONLY == 8
#define CE_K8(e) __CPROVER_ensures(e)
#else
#define CE_K8(e)
#endif
#if CLAMP_ONLY == 9
#define CE_K9(e) __CPROVER_ensures(e)
#else
#define CE_K9(e)
#endif
#if CLAMP_ONLY == 10
#define CE_K10(e) __CPROVER_ensures(e)
#else
#define CE_K10(e)
#endif
#if CLAMP_ONLY == 11
#define CE_K11(e) __CPROVER_ensures(e)
#else
#define CE_K11(e)
#endif
#if CLAMP_ONLY == 12
#define CE_K12(e) __CPROVER_ensures(e)
#else
#define CE_K12(e)
#endif
#endif
void clamp_blit_dimensions(const Image* dest, const Image* source, ssize_t* x, ssize_t* y, ssize_t* w, ssize_t* h, ssize_t* sx, ssize_t* sy)
__CPROVER_requires(__CPROVER_is_fresh(dest, sizeof(Image))) __CPROVER_requires(__CPROVER_is_fresh(source, sizeof(Image)))
__CPROVER_requires(IMG_VALID(dest)) __CPROVER_requires(IMG_VALID(source))
__CPROVER_requires(dest->width == g_dw && dest->height == g_dh && source->width == g_sw && source->height == g_sh)
__CPROVER_requires(__CPROVER_w_ok(x, sizeof(ssize_t)) && __CPROVER_w_ok(y, sizeof(ssize_t)) && __CPROVER_w_ok(w, sizeof(ssize_t)))
__CPROVER_requires(__CPROVER_w_ok(h, sizeof(ssize_t)) && __CPROVER_w_ok(sx, sizeof(ssize_t)) && __CPROVER_w_ok(sy, sizeof(ssize_t)))
__CPROVER_requires(COORD_OK(*x) && COORD_OK(*y)) __CPROVER_requires(COORD_OK(*sx) && COORD_OK(*sy))
__CPROVER_requires(0 <= *w && *w < C07_CMAX && 0 <= *h && *h < C07_CMAX) __CPROVER_requires(COORD_OK(g_dx) && COORD_OK(g_dy))
/* (1) origins are never negative; the destination-to-source offset is preserved */
CE(0, *x >= 0 && *sx >= 0 && *x - *sx == __CPROVER_old(*x) - __CPROVER_old(*sx))
CE(0, *y >= 0 && *sy >= 0 && *y - *sy == __CPROVER_old(*y) - __CPROVER_old(*sy))
/* (2) per axis, a non-empty span lies inside both canvases: every pixel accessor call of the blit loops is in range
 *     (subtraction form and explicit bounds: no term of these clauses can wrap) */
CE(0, *x < 2 * C07_CMAX && *sx < 2 * C07_CMAX && g_cw <= __CPROVER_old(*w) && g_cw > -4 * C07_CMAX)
CE(0, *y < 2 * C07_CMAX && *sy < 2 * C07_CMAX && g_ch <= __CPROVER_old(*h) && g_ch > -4 * C07_CMAX)
CE(0, g_cw > 0 ==> (g_cw <= dest->width - *x && g_cw <= source->width - *sx))
CE(0, g_ch > 0 ==> (g_ch <= dest->height - *y && g_ch <= source->height - *sy))
/* (3) the result is the rectangle of the two spans, or empty if either span is negative */
CE(0, (g_cw < 0 || g_ch < 0) ? (*w == 0 && *h == 0) : (*w == g_cw && *h == g_ch))
/* (4) per axis, sound and maximal: chain of model flags (see above) */
CE(0, g_mx0 == AXIS_MODEL(g_dx, __CPROVER_old(*x), __CPROVER_old(*w), __CPROVER_old(*sx), dest->width, source->width))
CE(0, g_my0 == AXIS_MODEL(g_dy, __CPROVER_old(*y), __CPROVER_old(*h), __CPROVER_old(*sy), dest->height, source->height))
/* (5) closed form of the result (makes the contract functional: a caller cannot be shown a rectangle the function would not return) */
#define VMIN(a, b) ((a) < (b) ? (a) : (b))
#define VMAX(a, b) ((a) > (b) ? (a) : (b))
#define CL_T(x0, s0) ((x0) - VMIN(s0, 0))                           /* origin after the source-side shift */
#define CL_W1(x0, w0, s0) ((w0) + VMIN(s0, 0) + VMIN(CL_T(x0, s0), 0)) /* span after both shifts */
CE(11, *x == VMAX(CL_T(__CPROVER_old(*x), __CPROVER_old(*sx)), 0) && *sx == VMAX(__CPROVER_old(*sx), 0) - VMIN(CL_T(__CPROVER_old(*x), __CPROVER_old(*sx)), 0))
CE(11, g_cw == VMIN(VMIN(CL_W1(__CPROVER_old(*x), __CPROVER_old(*w), __CPROVER_old(*sx)), source->width - *sx), dest->width - *x))
CE(12, *y == VMAX(CL_T(__CPROVER_old(*y), __CPROVER_old(*sy)), 0) && *sy == VMAX(__CPROVER_old(*sy), 0) - VMIN(CL_T(__CPROVER_old(*y), __CPROVER_old(*sy)), 0))
CE(12, g_ch == VMIN(VMIN(CL_W1(__CPROVER_old(*y), __CPROVER_old(*h), __CPROVER_old(*sy)), source->height - *sy), dest->height - *y))
CE(1, g_mx0 == g_mx1) CE(2, g_mx1 == g_mx2) CE(3, g_mx2 == g_mx3) CE(4, g_mx3 == g_mx4) CE(5, g_mx4 == AXIS_IN(g_dx, *x, g_cw))
CE(6, g_my0 == g_my1) CE(7, g_my1 == g_my2) CE(8, g_my2 == g_my3) CE(9, g_my3 == g_my4) CE(10, g_my4 == AXIS_IN(g_dy, *y, g_ch))
__CPROVER_assigns(*x, *y, *w, *h, *sx, *sy, g_cw, g_ch, g_mx0, g_mx1, g_mx2, g_mx3, g_mx4, g_my0, g_my1, g_my2, g_my3, g_my4);
/* what callers conclude from (4): INRECT(g_dx, g_dy, *x, *y, *w, *h) holds iff both axis models hold on the entry values */

/* ================= colour rules (new value of D as a function of S, the old D and the arguments) ================= */
/* the 8-bit alpha blend of fill_rect and blit, as computed by the pinned commit */
#define BL8(a, c, d) (((a) * (uint64_t)(uint32_t)(c) + (0xFF - (a)) * (uint64_t)(uint32_t)(d)) / 0xFF)
/* the max_value-relative blend of blend_blit */
#define BLM(c, al, d, mx) (((c) * (al) + (d) * ((mx) - (al))) / (mx))

/* function-point definitions: g_bo_k IS the blend of the tuple (all four channels) */
#define TUP_DEF8 (g_bo_r == BL8(g_t_al, g_t_cr, g_t_dr) && g_bo_g == BL8(g_t_al, g_t_cg, g_t_dg) && \
                  g_bo_b == BL8(g_t_al, g_t_cb, g_t_db) && g_bo_a == BL8(g_t_al, g_t_ca, g_t_da))
#define TUP_DEFM (g_bo_r == BLM(g_t_cr, g_t_al, g_t_dr, g_t_mx) && g_bo_g == BLM(g_t_cg, g_t_al, g_t_dg, g_t_mx) && \
                  g_bo_b == BLM(g_t_cb, g_t_al, g_t_db, g_t_mx) && g_bo_a == BLM(g_t_ca, g_t_al, g_t_da, g_t_mx))
#define TUP_DEFE (g_bo_e == (g_t_e1 * g_t_e2) / g_t_mx)
#define TUP_IS(al, cr, cg, cb, ca, dr, dg, db, da) \
  (g_t_al == (al) && g_t_cr == (cr) && g_t_cg == (cg) && g_t_cb == (cb) && g_t_ca == (ca) && \
   g_t_dr == (dr) && g_t_dg == (dg) && g_t_db == (db) && g_t_da == (da))

/* DEF_REQ: "the ghosts g_bo_* are the specification's blend of the tuple".  Asserted wherever a loop-level contract is *used* (wrappers, lemmas,
 * -- it is what justifies the helper models of stubs/C07_pixel_model.h from the proved helper contracts); the enforcing loop proof itself is
 * compiled with -DC07_LOOP_PROOF and does not assume it (it proves the contract for every valuation of g_bo_*, given the helper models), which
 * keeps multiplication and division out of the loop verification conditions. */
#ifdef C07_LOOP_PROOF
#define DEF_REQ(def)
#else
#define DEF_REQ(def) __CPROVER_requires(g_tup_ok ==> def)
#endif

/* fill_rect: a == 0xFF stores the colour; otherwise the 8-bit blend of colour and old pixel, i.e. (with the tuple (a; r,g,b,a; old D))
 * WCH(BL8(a, r, old_dr)) ... -- claimed for the valuations with g_tup_ok */
#define FILL_COND ((a) == 0xFF || g_tup_ok)
#define FILL_TUP(dr, dg, db, da) TUP_IS(a, r, g, b, a, dr, dg, db, da)
#define FILL_R_(dr, dg, db, da) ((a) == 0xFF ? WCH(r, self) : WCH(g_bo_r, self))
#define FILL_G_(dr, dg, db, da) ((a) == 0xFF ? WCH(g, self) : WCH(g_bo_g, self))
#define FILL_B_(dr, dg, db, da) ((a) == 0xFF ? WCH(b, self) : WCH(g_bo_b, self))
#define FILL_A_(dr, dg, db, da) ((a) == 0xFF ? WA(a, self) : WA(g_bo_a, self))

#define CLEAR_R_(dr, dg, db, da) WCH(r, self)
#define CLEAR_G_(dr, dg, db, da) WCH(g, self)
#define CLEAR_B_(dr, dg, db, da) WCH(b, self)
#define CLEAR_A_(dr, dg, db, da) WA(a, self)

/* blit: source alpha 0 keeps the pixel, 0xFF copies the source pixel, otherwise the 8-bit blend with the tuple (sa; S; old D) */
#define BLIT_COND (g_sa == 0 || g_sa == 0xFF || g_tup_ok)
#define BLIT_TUP(dr, dg, db, da) TUP_IS(g_sa, g_sr, g_sg, g_sb, g_sa, dr, dg, db, da)
#define BLIT_R_(dr, dg, db, da) (g_sa == 0 ? (dr) : g_sa == 0xFF ? WCH(g_sr, self) : WCH(g_bo_r, self))
#define BLIT_G_(dr, dg, db, da) (g_sa == 0 ? (dg) : g_sa == 0xFF ? WCH(g_sg, self) : WCH(g_bo_g, self))
#define BLIT_B_(dr, dg, db, da) (g_sa == 0 ? (db) : g_sa == 0xFF ? WCH(g_sb, self) : WCH(g_bo_b, self))
#define BLIT_A_(dr, dg, db, da) (g_sa == 0 ? (da) : g_sa == 0xFF ? WA(g_sa, self) : WA(g_bo_a, self))

#define S_OPAQUE (g_sr != r || g_sg != g || g_sb != b)          /* the source pixel is not the transparent colour */
#define MASKRGB_R_(dr, dg, db, da) (S_OPAQUE ? WCH(g_sr, self) : (dr))
#define MASKRGB_G_(dr, dg, db, da) (S_OPAQUE ? WCH(g_sg, self) : (dg))
#define MASKRGB_B_(dr, dg, db, da) (S_OPAQUE ? WCH(g_sb, self) : (db))
#define MASKRGB_A_(dr, dg, db, da) (S_OPAQUE ? WA(g_sa, self) : (da))

#define D_KEYED(dr, dg, db) ((dr) == r && (dg) == g && (db) == b)  /* the destination pixel has the key colour */
#define MASKDST_R_(dr, dg, db, da) (D_KEYED(dr, dg, db) ? WCH(g_sr, self) : (dr))
#define MASKDST_G_(dr, dg, db, da) (D_KEYED(dr, dg, db) ? WCH(g_sg, self) : (dg))
#define MASKDST_B_(dr, dg, db, da) (D_KEYED(dr, dg, db) ? WCH(g_sb, self) : (db))
#define MASKDST_A_(dr, dg, db, da) (D_KEYED(dr, dg, db) ? WA(g_sa, self) : (da))

#define M_WHITE (g_mr == 0xFF && g_mg == 0xFF && g_mb == 0xFF)     /* white mask pixel = do not copy */
#define MASKIMG_R_(dr, dg, db, da) (M_WHITE ? (dr) : WCH(g_sr, self))
#define MASKIMG_G_(dr, dg, db, da) (M_WHITE ? (dg) : WCH(g_sg, self))
#define MASKIMG_B_(dr, dg, db, da) (M_WHITE ? (db) : WCH(g_sb, self))
#define MASKIMG_A_(dr, dg, db, da) (M_WHITE ? (da) : WA(g_sa, self))

#define MX (self->max_value)
/* blend_blit: source alpha == max copies, 0 keeps, otherwise the max_value-relative blend with the tuple (sa; S; old D; max) */
#define BLEND_COND (g_sa == MX || g_sa == 0 || g_tup_ok)
#define BLEND_TUP(dr, dg, db, da) (TUP_IS(g_sa, g_sr, g_sg, g_sb, g_sa, dr, dg, db, da) && g_t_mx == MX)
#define BLEND_R_(dr, dg, db, da) (g_sa == MX ? WCH(g_sr, self) : g_sa != 0 ? WCH(g_bo_r, self) : (dr))
#define BLEND_G_(dr, dg, db, da) (g_sa == MX ? WCH(g_sg, self) : g_sa != 0 ? WCH(g_bo_g, self) : (dg))
#define BLEND_B_(dr, dg, db, da) (g_sa == MX ? WCH(g_sb, self) : g_sa != 0 ? WCH(g_bo_b, self) : (db))
#define BLEND_A_(dr, dg, db, da) (g_sa == MX ? WA(g_sa, self) : g_sa != 0 ? WA(g_bo_a, self) : (da))

/* blend_blit with source_alpha: effective alpha g_bo_e = (source_alpha * sa) / max; == max copies the colour channels and stores g_bo_e
 * as alpha, 0 keeps, otherwise colour channels are blended with g_bo_e (tuple (g_bo_e; S; old D; max)) and alpha is kept */
#define BLENDA_TUP(dr, dg, db, da) (TUP_IS(g_bo_e, g_sr, g_sg, g_sb, g_sa, dr, dg, db, da) && g_t_mx == MX && g_t_e1 == source_alpha && g_t_e2 == g_sa)
#define BLENDA_R_(dr, dg, db, da) (g_bo_e == MX ? WCH(g_sr, self) : g_bo_e != 0 ? WCH(g_bo_r, self) : (dr))
#define BLENDA_G_(dr, dg, db, da) (g_bo_e == MX ? WCH(g_sg, self) : g_bo_e != 0 ? WCH(g_bo_g, self) : (dg))
#define BLENDA_B_(dr, dg, db, da) (g_bo_e == MX ? WCH(g_sb, self) : g_bo_e != 0 ? WCH(g_bo_b, self) : (db))
#define BLENDA_A_(dr, dg, db, da) (g_bo_e == MX ? WA(g_bo_e, self) : g_bo_e != 0 ? WA(da, self) : (da))

#define CB32_R_(dr, dg, db, da) WCH(C_R(g_cb_out), self)
#define CB32_G_(dr, dg, db, da) WCH(C_G(g_cb_out), self)
#define CB32_B_(dr, dg, db, da) WCH(C_B(g_cb_out), self)
#define CB32_A_(dr, dg, db, da) WA(C_A(g_cb_out), self)
#define CB64_R_(dr, dg, db, da) WCH(g_co_r, self)
#define CB64_G_(dr, dg, db, da) WCH(g_co_g, self)
#define CB64_B_(dr, dg, db, da) WCH(g_co_b, self)
#define CB64_A_(dr, dg, db, da) WA(g_co_a, self)

/* rule applied to the *current* ghost value (ghost statement at function start: expected value of D) */
#define RULE_NOW(n) \
  n##_R_(g_dr, g_dg, g_db, g_da), n##_G_(g_dr, g_dg, g_db, g_da), n##_B_(g_dr, g_dg, g_db, g_da), n##_A_(g_dr, g_dg, g_db, g_da)
#define FILL_R FILL_R_(g_dr, g_dg, g_db, g_da)
#define FILL_G FILL_G_(g_dr, g_dg, g_db, g_da)
#define FILL_B FILL_B_(g_dr, g_dg, g_db, g_da)
#define FILL_A FILL_A_(g_dr, g_dg, g_db, g_da)
#define CLEAR_R CLEAR_R_(g_dr, g_dg, g_db, g_da)
#define CLEAR_G CLEAR_G_(g_dr, g_dg, g_db, g_da)
#define CLEAR_B CLEAR_B_(g_dr, g_dg, g_db, g_da)
#define CLEAR_A CLEAR_A_(g_dr, g_dg, g_db, g_da)
#define BLIT_R BLIT_R_(g_dr, g_dg, g_db, g_da)
#define BLIT_G BLIT_G_(g_dr, g_dg, g_db, g_da)
#define BLIT_B BLIT_B_(g_dr, g_dg, g_db, g_da)
#define BLIT_A BLIT_A_(g_dr, g_dg, g_db, g_da)
#define MASKRGB_R MASKRGB_R_(g_dr, g_dg, g_db, g_da)
#define MASKRGB_G MASKRGB_G_(g_dr, g_dg, g_db, g_da)
#define MASKRGB_B MASKRGB_B_(g_dr, g_dg, g_db, g_da)
#define MASKRGB_A MASKRGB_A_(g_dr, g_dg, g_db, g_da)
#define MASKDST_R MASKDST_R_(g_dr, g_dg, g_db, g_da)
#define MASKDST_G MASKDST_G_(g_dr, g_dg, g_db, g_da)
#define MASKDST_B MASKDST_B_(g_dr, g_dg, g_db, g_da)
#define MASKDST_A MASKDST_A_(g_dr, g_dg, g_db, g_da)
#define MASKIMG_R MASKIMG_R_(g_dr, g_dg, g_db, g_da)
#define MASKIMG_G MASKIMG_G_(g_dr, g_dg, g_db, g_da)
#define MASKIMG_B MASKIMG_B_(g_dr, g_dg, g_db, g_da)
#define MASKIMG_A MASKIMG_A_(g_dr, g_dg, g_db, g_da)
#define BLEND_R BLEND_R_(g_dr, g_dg, g_db, g_da)
#define BLEND_G BLEND_G_(g_dr, g_dg, g_db, g_da)
#define BLEND_B BLEND_B_(g_dr, g_dg, g_db, g_da)
#define BLEND_A BLEND_A_(g_dr, g_dg, g_db, g_da)
#define BLENDA_R BLENDA_R_(g_dr, g_dg, g_db, g_da)
#define BLENDA_G BLENDA_G_(g_dr, g_dg, g_db, g_da)
#define BLENDA_B BLENDA_B_(g_dr, g_dg, g_db, g_da)
#define BLENDA_A BLENDA_A_(g_dr, g_dg, g_db, g_da)
#define CB32_R CB32_R_(g_dr, g_dg, g_db, g_da)
#define CB32_G CB32_G_(g_dr, g_dg, g_db, g_da)
#define CB32_B CB32_B_(g_dr, g_dg, g_db, g_da)
#define CB32_A CB32_A_(g_dr, g_dg, g_db, g_da)
#define CB64_R CB64_R_(g_dr, g_dg, g_db, g_da)
#define CB64_G CB64_G_(g_dr, g_dg, g_db, g_da)
#define CB64_B CB64_B_(g_dr, g_dg, g_db, g_da)
#define CB64_A CB64_A_(g_dr, g_dg, g_db, g_da)
/* rule applied to the entry value of D, for postconditions */
#define D4_RULE(n) D4(n##_R_(OLD_DR, OLD_DG, OLD_DB, OLD_DA), n##_G_(OLD_DR, OLD_DG, OLD_DB, OLD_DA), \
                      n##_B_(OLD_DR, OLD_DG, OLD_DB, OLD_DA), n##_A_(OLD_DR, OLD_DG, OLD_DB, OLD_DA))

/* ================= fill_rect / clear ================= */
/* per-pixel model: pixel (px,py) of the canvas is filled iff x <= px < x+w and y <= py < y+h */
/* the outlined blend expressions of fill_rect / blit (8-bit form) and blend_blit (max_value form), function-point contracts;
 * proved on the extracted expression text for all arguments (groups Image.<fn>.arith[k]) */
#define P8 uint64_t p1, uint64_t p2, uint64_t p3, uint64_t p4, uint64_t p5, uint64_t p6, uint64_t p7, uint64_t p8
#define BLH8(name, AL, C, D, gc, gd, gbo) uint64_t name(P8) \
  __CPROVER_ensures((g_tup_ok && (AL) == g_t_al && (C) == gc && (D) == gd && gbo == BL8(g_t_al, gc, gd)) ==> __CPROVER_return_value == gbo) \
  __CPROVER_assigns();
/* fill_rect helpers: (a, r, g, b, _r, _g, _b, _a) */
BLH8(x_fill_bl1, p1, p2, p5, g_t_cr, g_t_dr, g_bo_r)
BLH8(x_fill_bl2, p1, p3, p6, g_t_cg, g_t_dg, g_bo_g)
BLH8(x_fill_bl3, p1, p4, p7, g_t_cb, g_t_db, g_bo_b)
BLH8(x_fill_bl4, p1, p1, p8, g_t_ca, g_t_da, g_bo_a)
/* blit helpers: (r, g, b, a, sr, sg, sb, sa) = (source pixel, destination pixel) */
BLH8(x_blit_bl1, p4, p1, p5, g_t_cr, g_t_dr, g_bo_r)
BLH8(x_blit_bl2, p4, p2, p6, g_t_cg, g_t_dg, g_bo_g)
BLH8(x_blit_bl3, p4, p3, p7, g_t_cb, g_t_db, g_bo_b)
BLH8(x_blit_bl4, p4, p4, p8, g_t_ca, g_t_da, g_bo_a)
/* blend_blit helpers: (self, sr, sg, sb, sa, dr, dg, db, da) */
#define BLHM(name, C, D, gc, gd, gbo) uint64_t name(const Image* self, P8) \
  __CPROVER_requires(self->max_value != 0) \
  __CPROVER_ensures((g_tup_ok && p4 == g_t_al && (C) == gc && (D) == gd && self->max_value == g_t_mx && gbo == BLM(gc, g_t_al, gd, g_t_mx)) ==> __CPROVER_return_value == gbo) \
  __CPROVER_assigns();
BLHM(x_blend_bl1, p1, p5, g_t_cr, g_t_dr, g_bo_r)
BLHM(x_blend_bl2, p2, p6, g_t_cg, g_t_dg, g_bo_g)
BLHM(x_blend_bl3, p3, p7, g_t_cb, g_t_db, g_bo_b)
BLHM(x_blend_bl4, p4, p8, g_t_ca, g_t_da, g_bo_a)
/* blend_blit(.., source_alpha) helpers: effective alpha (self, source_alpha, sr, sg, sb, sa); channels (self, source_alpha, effective_alpha, S, D) */
uint64_t x_blenda_bl1(const Image* self, uint64_t source_alpha, uint64_t sr, uint64_t sg, uint64_t sb, uint64_t sa)
__CPROVER_requires(self->max_value != 0)
__CPROVER_ensures((g_tup_ok && source_alpha == g_t_e1 && sa == g_t_e2 && self->max_value == g_t_mx && TUP_DEFE) ==> __CPROVER_return_value == g_bo_e)
__CPROVER_assigns();
#define BLHA(name, C, D, gc, gd, gbo) uint64_t name(const Image* self, uint64_t source_alpha, uint64_t effective_alpha, P8) \
  __CPROVER_requires(self->max_value != 0) \
  __CPROVER_ensures((g_tup_ok && effective_alpha == g_t_al && (C) == gc && (D) == gd && self->max_value == g_t_mx && gbo == BLM(gc, g_t_al, gd, g_t_mx)) ==> __CPROVER_return_value == gbo) \
  __CPROVER_assigns();
BLHA(x_blenda_bl2, p1, p5, g_t_cr, g_t_dr, g_bo_r)
BLHA(x_blenda_bl3, p2, p6, g_t_cg, g_t_dg, g_bo_g)
BLHA(x_blenda_bl4, p3, p7, g_t_cb, g_t_db, g_bo_b)

void Image_fill_rect(Image* self, ssize_t x, ssize_t y, ssize_t w, ssize_t h, uint64_t r, uint64_t g, uint64_t b, uint64_t a)
DST_REQ(self)
__CPROVER_requires(COORD_OK(x) && COORD_OK(y) && COORD_OK(w) && COORD_OK(h))
__CPROVER_requires(g_tup_ok ==> FILL_TUP(g_dr, g_dg, g_db, g_da))
DEF_REQ(TUP_DEF8)
__CPROVER_ensures(verif_exc == 0)
__CPROVER_ensures((D_IN && INRECT(g_dx, g_dy, x, y, w, h)) ? (FILL_COND ==> D4_RULE(FILL)) : D4_OLD)
__CPROVER_ensures(GHOST_WF(self, g_dr, g_dg, g_db, g_da))
__CPROVER_assigns(D_ASSIGNS);

#define r C_R(c)
#define g C_G(c)
#define b C_B(c)
#define a C_A(c)
void Image_fill_rect_c(Image* self, ssize_t x, ssize_t y, ssize_t w, ssize_t h, uint32_t c)
DST_REQ(self)
__CPROVER_requires(COORD_OK(x) && COORD_OK(y) && COORD_OK(w) && COORD_OK(h))
__CPROVER_requires(g_tup_ok ==> FILL_TUP(g_dr, g_dg, g_db, g_da))
DEF_REQ(TUP_DEF8)
__CPROVER_ensures(verif_exc == 0)
__CPROVER_ensures((D_IN && INRECT(g_dx, g_dy, x, y, w, h)) ? (FILL_COND ==> D4_RULE(FILL)) : D4_OLD)
__CPROVER_ensures(GHOST_WF(self, g_dr, g_dg, g_db, g_da))
__CPROVER_assigns(D_ASSIGNS);
void Image_clear_c(Image* self, uint32_t c)
DST_REQ(self)
__CPROVER_ensures(verif_exc == 0)
__CPROVER_ensures(D_IN ? D4_RULE(CLEAR) : D4_OLD)
__CPROVER_assigns(D_ASSIGNS);
#undef r
#undef g
#undef b
#undef a

void Image_clear(Image* self, uint64_t r, uint64_t g, uint64_t b, uint64_t a)
DST_REQ(self)
__CPROVER_ensures(verif_exc == 0)
__CPROVER_ensures(D_IN ? D4_RULE(CLEAR) : D4_OLD)
__CPROVER_assigns(D_ASSIGNS);

/* ================= blits ================= */
/* per-pixel model: a negative w / h stands for the whole source width / height; destination pixel (px,py) is hit iff it lies in
 * the requested rectangle (and, as DST_REQ says for D, inside the destination) and its source pixel (sx+px-x, sy+py-y) inside the source */
#define BW(w, source) ((w) < 0 ? (source)->width : (w))
#define BH(h, source) ((h) < 0 ? (source)->height : (h))
#define BLIT_HITS (D_IN && INRECT(g_dx, g_dy, x, y, BW(w, source), BH(h, source)) && !OUTSIDE(source, g_sx, g_sy))
#define BLIT_ENS(n) \
  __CPROVER_ensures(verif_exc == 0) \
  __CPROVER_ensures(BLIT_HITS ? D4_RULE(n) : D4_OLD) \
  __CPROVER_assigns(D_ASSIGNS, CLAMP_GHOSTS)
/* variants with blend arithmetic: the blended case is claimed for the valuations where the tuple ghosts name the blend (g_tup_ok) */
#define BLIT_ENS_ARITH(n, def) \
  __CPROVER_requires(g_tup_ok ==> n##_TUP(g_dr, g_dg, g_db, g_da)) \
  DEF_REQ(def) \
  __CPROVER_ensures(verif_exc == 0) \
  __CPROVER_ensures(BLIT_HITS ? (n##_COND ==> D4_RULE(n)) : D4_OLD) \
  __CPROVER_assigns(D_ASSIGNS, CLAMP_GHOSTS)
#define BLIT_PARAMS Image* self, const Image* source, ssize_t x, ssize_t y, ssize_t w, ssize_t h, ssize_t sx, ssize_t sy

void Image_blit(BLIT_PARAMS)
BLIT_REQ(self, source) BLIT_ENS_ARITH(BLIT, TUP_DEF8);

void Image_mask_blit_rgb(BLIT_PARAMS, uint64_t r, uint64_t g, uint64_t b)
BLIT_REQ(self, source) BLIT_ENS(MASKRGB);

void Image_mask_blit_dst_rgb(BLIT_PARAMS, uint64_t r, uint64_t g, uint64_t b)
BLIT_REQ(self, source) BLIT_ENS(MASKDST);

#define r C_R(transparent_c)
#define g C_G(transparent_c)
#define b C_B(transparent_c)
void Image_mask_blit_c(BLIT_PARAMS, uint32_t transparent_c)
BLIT_REQ(self, source) BLIT_ENS(MASKRGB);
void Image_mask_blit_dst_c(BLIT_PARAMS, uint32_t transparent_c)
BLIT_REQ(self, source) BLIT_ENS(MASKDST);
#undef r
#undef g
#undef b

/* mask variant: M is the mask pixel at the *source* coordinates of S.  A mask that does not cover the copied area is refused with
 * runtime_error (Image.cc comment: "The mask image must cover the entire area to be blitted"); out_of_range must never escape,
 * and a refused call leaves the canvas untouched. */
void Image_mask_blit_mask(BLIT_PARAMS, const Image* mask)
BLIT_REQ(self, source)
__CPROVER_requires(__CPROVER_is_fresh(g_mimg, sizeof(Image)))
__CPROVER_requires(mask == g_mimg) __CPROVER_requires(IMG_VALID(mask)) __CPROVER_requires(SHAPE_IS(mask, g_mw, g_mh, g_malpha, g_mcw))
__CPROVER_requires(g_mx == g_sx && g_my == g_sy) __CPROVER_requires(OUTSIDE(mask, g_mx, g_my) || GHOST_WF(mask, g_mr, g_mg, g_mb, g_ma))
__CPROVER_ensures(verif_exc == 0 || verif_exc == EXC_runtime_error)
__CPROVER_ensures(verif_exc == 0 ==> (BLIT_HITS ? D4_RULE(MASKIMG) : D4_OLD))
__CPROVER_ensures(verif_exc != 0 ==> D4_OLD)
__CPROVER_assigns(D_ASSIGNS, CLAMP_GHOSTS);

void Image_blend_blit(BLIT_PARAMS)
BLIT_REQ(self, source) BLIT_ENS_ARITH(BLEND, TUP_DEFM);

#define BLENDA_COND g_tup_ok
void Image_blend_blit_alpha(BLIT_PARAMS, uint64_t source_alpha)
BLIT_REQ(self, source) BLIT_ENS_ARITH(BLENDA, (TUP_DEFM && TUP_DEFE));

/* custom_blit: the callback is an arbitrary (stateless) function; the stub below samples it at one symbolic argument tuple */
void verif_cb32(uint32_t* dc, uint32_t sc)
__CPROVER_ensures((__CPROVER_old(*dc) == g_cb_d && sc == g_cb_s) ==> *dc == g_cb_out)
__CPROVER_assigns(*dc);
void verif_cb64(uint64_t* dr, uint64_t* dg, uint64_t* db, uint64_t* da, uint64_t sr, uint64_t sg, uint64_t sb, uint64_t sa)
__CPROVER_ensures((__CPROVER_old(*dr) == g_ci_dr && __CPROVER_old(*dg) == g_ci_dg && __CPROVER_old(*db) == g_ci_db && __CPROVER_old(*da) == g_ci_da &&
                   sr == g_ci_sr && sg == g_ci_sg && sb == g_ci_sb && sa == g_ci_sa)
                  ==> (*dr == g_co_r && *dg == g_co_g && *db == g_co_b && *da == g_co_a))
__CPROVER_assigns(*dr, *dg, *db, *da);

void Image_custom_blit_c(BLIT_PARAMS)
BLIT_REQ(self, source)
__CPROVER_requires(g_cb_d == COMPRESS(g_dr, g_dg, g_db, g_da) && g_cb_s == COMPRESS(g_sr, g_sg, g_sb, g_sa))
BLIT_ENS(CB32);

void Image_custom_blit_rgba(BLIT_PARAMS)
BLIT_REQ(self, source)
__CPROVER_requires(g_ci_dr == g_dr && g_ci_dg == g_dg && g_ci_db == g_db && g_ci_da == g_da && g_ci_sr == g_sr && g_ci_sg == g_sg && g_ci_sb == g_sb && g_ci_sa == g_sa)
BLIT_ENS(CB64);


/* ================= whole-image transforms ================= */
/* invert: every stored channel c becomes max_value - c (alpha included; a canvas without alpha channel keeps reporting alpha == max_value) */
#define INVERT_R_(dr, dg, db, da) WCH(MX - (dr), self)
#define INVERT_G_(dr, dg, db, da) WCH(MX - (dg), self)
#define INVERT_B_(dr, dg, db, da) WCH(MX - (db), self)
#define INVERT_A_(dr, dg, db, da) WA(MX - (da), self)
#define INVERT_R INVERT_R_(g_dr, g_dg, g_db, g_da)
#define INVERT_G INVERT_G_(g_dr, g_dg, g_db, g_da)
#define INVERT_B INVERT_B_(g_dr, g_dg, g_db, g_da)
#define INVERT_A INVERT_A_(g_dr, g_dg, g_db, g_da)
void Image_invert(Image* self)
DST_REQ(self)
__CPROVER_ensures(verif_exc == 0)
__CPROVER_ensures(D_IN ? D4_RULE(INVERT) : D4_OLD)
__CPROVER_assigns(D_ASSIGNS);

/* set_alpha_from_mask_color: colour channels kept; alpha := 0 where the pixel has the key colour, max_value elsewhere */
#define ALPHAKEY_R_(dr, dg, db, da) WCH(dr, self)
#define ALPHAKEY_G_(dr, dg, db, da) WCH(dg, self)
#define ALPHAKEY_B_(dr, dg, db, da) WCH(db, self)
#define ALPHAKEY_A_(dr, dg, db, da) WA(((dr) == r && (dg) == g && (db) == b) ? 0 : MX, self)
#define ALPHAKEY_R ALPHAKEY_R_(g_dr, g_dg, g_db, g_da)
#define ALPHAKEY_G ALPHAKEY_G_(g_dr, g_dg, g_db, g_da)
#define ALPHAKEY_B ALPHAKEY_B_(g_dr, g_dg, g_db, g_da)
#define ALPHAKEY_A ALPHAKEY_A_(g_dr, g_dg, g_db, g_da)
void Image_set_alpha_from_mask_color(Image* self, uint64_t r, uint64_t g, uint64_t b)
DST_REQ(self)
__CPROVER_ensures(verif_exc == 0)
__CPROVER_ensures(D_IN ? D4_RULE(ALPHAKEY) : D4_OLD)
__CPROVER_assigns(D_ASSIGNS);
#define r C_R(c)
#define g C_G(c)
#define b C_B(c)
void Image_set_alpha_from_mask_color_c(Image* self, uint32_t c)
DST_REQ(self)
__CPROVER_ensures(verif_exc == 0)
__CPROVER_ensures(D_IN ? D4_RULE(ALPHAKEY) : D4_OLD)
__CPROVER_assigns(D_ASSIGNS);
#undef r
#undef g
#undef b

#ifdef C07_GHOST2
/* mirrors: E is the mirror image of D; view'(x,y) == view(w-1-x, y) reads "D gets the old E and E the old D" */
#define E4(R, G, B, A) (g_er == (R) && g_eg == (G) && g_eb == (B) && g_ea == (A))
#define PAIR_REQ(self, ex, ey) DST_REQ(self) \
  __CPROVER_requires(g_ex == (ex) && g_ey == (ey)) __CPROVER_requires(GHOST_WF(self, g_er, g_eg, g_eb, g_ea)) \
  __CPROVER_requires((g_ex == g_dx && g_ey == g_dy) ==> E4(g_dr, g_dg, g_db, g_da))
#define SWAP_ENS __CPROVER_ensures(verif_exc == 0) \
  __CPROVER_ensures(D_IN ? D4(__CPROVER_old(g_er), __CPROVER_old(g_eg), __CPROVER_old(g_eb), __CPROVER_old(g_ea)) : D4_OLD) \
  __CPROVER_ensures(D_IN ? E4(OLD_DR, OLD_DG, OLD_DB, OLD_DA) : E4(__CPROVER_old(g_er), __CPROVER_old(g_eg), __CPROVER_old(g_eb), __CPROVER_old(g_ea))) \
  __CPROVER_assigns(D_ASSIGNS, g_er, g_eg, g_eb, g_ea)
void Image_reverse_horizontal(Image* self)
PAIR_REQ(self, self->width - 1 - g_dx, g_dy) SWAP_ENS;
void Image_reverse_vertical(Image* self)
PAIR_REQ(self, g_dx, self->height - 1 - g_dy) SWAP_ENS;
/* lemmas: mirroring twice is the identity */
#define ID2_ENS __CPROVER_ensures(verif_exc == 0) __CPROVER_ensures(D4_OLD) \
  __CPROVER_ensures(E4(__CPROVER_old(g_er), __CPROVER_old(g_eg), __CPROVER_old(g_eb), __CPROVER_old(g_ea))) __CPROVER_assigns(D_ASSIGNS, g_er, g_eg, g_eb, g_ea)
void L_reverse_horizontal_twice(Image* self)
PAIR_REQ(self, self->width - 1 - g_dx, g_dy) ID2_ENS;
void L_reverse_vertical_twice(Image* self)
PAIR_REQ(self, g_dx, self->height - 1 - g_dy) ID2_ENS;
#endif
/* lemma: inverting twice is the identity */
void L_invert_twice(Image* self)
DST_REQ(self)
__CPROVER_ensures(verif_exc == 0)
__CPROVER_ensures(D4_OLD)
__CPROVER_assigns(D_ASSIGNS);

/* ================= axis-aligned (dashed) lines ================= */
/* for ANY arguments: out_of_range never escapes; no pixel off the segment [lo,hi] x {line} changes; a pixel that changes gets exactly the
 * colour; a solid line (dash_length == 0) whose end points lie inside the canvas colours every pixel of the segment.
 * (Which pixels a DASHED line or a line that starts outside the canvas colours is not decided here: the code stops at the first
 * out-of-canvas pixel, see props/C07.py NOT_DECIDED.) */
#define COLOURED D4(WCH(r, self), WCH(g, self), WCH(b, self), WA(a, self))
#define HLINE_SOLID_INSIDE (dash_length == 0 && x1 >= 0 && x2 < self->width && y >= 0 && y < self->height)
#define VLINE_SOLID_INSIDE (dash_length == 0 && y1 >= 0 && y2 < self->height && x >= 0 && x < self->width)
#define HLINE_ENS \
  __CPROVER_ensures(verif_exc == 0) \
  __CPROVER_ensures((g_dy != y || g_dx < x1 || g_dx > x2) ==> D4_OLD) \
  __CPROVER_ensures(D4_OLD || COLOURED) \
  __CPROVER_ensures((HLINE_SOLID_INSIDE && g_dy == y && x1 <= g_dx && g_dx <= x2) ==> COLOURED) \
  __CPROVER_assigns(D_ASSIGNS)
#define VLINE_ENS \
  __CPROVER_ensures(verif_exc == 0) \
  __CPROVER_ensures((g_dx != x || g_dy < y1 || g_dy > y2) ==> D4_OLD) \
  __CPROVER_ensures(D4_OLD || COLOURED) \
  __CPROVER_ensures((VLINE_SOLID_INSIDE && g_dx == x && y1 <= g_dy && g_dy <= y2) ==> COLOURED) \
  __CPROVER_assigns(D_ASSIGNS)
void Image_draw_horizontal_line(Image* self, ssize_t x1, ssize_t x2, ssize_t y, ssize_t dash_length, uint64_t r, uint64_t g, uint64_t b, uint64_t a)
DST_REQ(self)
__CPROVER_requires(COORD_OK(x1) && COORD_OK(x2) && COORD_OK(y) && COORD_OK(dash_length))
HLINE_ENS;
void Image_draw_vertical_line(Image* self, ssize_t x, ssize_t y1, ssize_t y2, ssize_t dash_length, uint64_t r, uint64_t g, uint64_t b, uint64_t a)
DST_REQ(self)
__CPROVER_requires(COORD_OK(x) && COORD_OK(y1) && COORD_OK(y2) && COORD_OK(dash_length))
VLINE_ENS;
#define r C_R(c)
#define g C_G(c)
#define b C_B(c)
#define a C_A(c)
void Image_draw_horizontal_line_c(Image* self, ssize_t x1, ssize_t x2, ssize_t y, ssize_t dash_length, uint32_t c)
DST_REQ(self)
__CPROVER_requires(COORD_OK(x1) && COORD_OK(x2) && COORD_OK(y) && COORD_OK(dash_length))
HLINE_ENS;
void Image_draw_vertical_line_c(Image* self, ssize_t x, ssize_t y1, ssize_t y2, ssize_t dash_length, uint32_t c)
DST_REQ(self)
__CPROVER_requires(COORD_OK(x) && COORD_OK(y1) && COORD_OK(y2) && COORD_OK(dash_length))
VLINE_ENS;
#undef r
#undef g
#undef b
#undef a
/* draw_line (Bresenham with a double-precision error term).  Decided for ANY end points: out_of_range never escapes, a pixel that changes
 * gets exactly the colour (frame).  The PATH is decided as far as it does not depend on floating point -- through a ghost record of the
 * pixels handed to write_pixel (C07_LINE_STEP, injected before each call): g_ln attempts so far, first pixel (g_fx,g_fy), last pixel
 * (g_lx,g_ly), g_conn = "every attempted pixel is 8-adjacent to, and different from, its predecessor":
 *   - the path is connected (g_conn);
 *   - it starts at one of the two end points;
 *   - for two in-canvas end points: unless the walk left the canvas (last attempted pixel outside; that can only come from the
 *     floating-point minor coordinate), exactly max(|dx|,|dy|)+1 pixels are written and the last one has the major-axis coordinate
 *     of the other end point.
 * Not decided (floating point): the minor coordinate of the far end ("contains both ends" in full) and the distance from the ideal segment. */
extern size_t g_ln; extern bool g_conn; extern ssize_t g_fx, g_fy, g_lx, g_ly;
#define C07_ABSD(p, q) ((p) > (q) ? (p) - (q) : (q) - (p))
#define C07_NEAR(p, q) ((p) == (q) || (p) == (q) + 1 || (p) == (q) - 1)   /* overflow-free for a bounded q */
#define C07_ADJ(px, py, qx, qy) (C07_NEAR(qx, px) && C07_NEAR(qy, py) && !((px) == (qx) && (py) == (qy)))
#define C07_LINE_STEP(px, py) { if (g_ln == 0) { g_fx = (px); g_fy = (py); } else { g_conn = g_conn && C07_ADJ((px), (py), g_lx, g_ly); } \
                                g_lx = (px); g_ly = (py); g_ln++; }
#define LINE_G g_ln, g_conn, g_fx, g_fy, g_lx, g_ly
#define LINE_STEEP (C07_ABSD(y1, y0) > C07_ABSD(x1, x0))
#define LINE_MAXD (LINE_STEEP ? C07_ABSD(y1, y0) : C07_ABSD(x1, x0))
#define LINE_FIRST_IS_0 (g_fx == x0 && g_fy == y0)
#define LINE_LAST_MAJOR (LINE_STEEP ? g_ly == (LINE_FIRST_IS_0 ? y1 : y0) : g_lx == (LINE_FIRST_IS_0 ? x1 : x0))
#define LINE_PATH \
__CPROVER_requires(g_ln == 0 && g_conn) \
__CPROVER_ensures(g_conn) \
__CPROVER_ensures(g_ln >= 1 ==> ((g_fx == x0 && g_fy == y0) || (g_fx == x1 && g_fy == y1))) \
__CPROVER_ensures((!OUTSIDE(self, x0, y0) && !OUTSIDE(self, x1, y1)) ==> g_ln >= 1) \
__CPROVER_ensures((!OUTSIDE(self, x0, y0) && !OUTSIDE(self, x1, y1) && !OUTSIDE(self, g_lx, g_ly)) ==> (g_ln == (size_t)LINE_MAXD + 1 && LINE_LAST_MAJOR))
void Image_draw_line(Image* self, ssize_t x0, ssize_t y0, ssize_t x1, ssize_t y1, uint64_t r, uint64_t g, uint64_t b, uint64_t a)
DST_REQ(self)
__CPROVER_requires(COORD_OK(x0) && COORD_OK(y0) && COORD_OK(x1) && COORD_OK(y1))
LINE_PATH
__CPROVER_ensures(verif_exc == 0)
__CPROVER_ensures(D4_OLD || COLOURED)
__CPROVER_assigns(D_ASSIGNS, LINE_G);
#define r C_R(c)
#define g C_G(c)
#define b C_B(c)
#define a C_A(c)
void Image_draw_line_c(Image* self, ssize_t x0, ssize_t y0, ssize_t x1, ssize_t y1, uint32_t c)
DST_REQ(self)
__CPROVER_requires(COORD_OK(x0) && COORD_OK(y0) && COORD_OK(x1) && COORD_OK(y1))
LINE_PATH
__CPROVER_ensures(verif_exc == 0)
__CPROVER_ensures(D4_OLD || COLOURED)
__CPROVER_assigns(D_ASSIGNS, LINE_G);
#undef r
#undef g
#undef b
#undef a
/* its outlined slope expression (double)dy / (double)dx: an unconstrained double in the loop proof (it only steers the path) */
double x_line_slope(ssize_t dy, ssize_t dx);

/* the outlined dash selector x / dash_length: only its freedom from undefined behaviour matters (it selects a branch) */
ssize_t x_h_div1(ssize_t x, ssize_t dash_length)
__CPROVER_requires(dash_length != 0 && COORD_OK(x) && COORD_OK(dash_length))
__CPROVER_ensures(1)
__CPROVER_assigns();
ssize_t x_v_div1(ssize_t y, ssize_t dash_length)
__CPROVER_requires(dash_length != 0 && COORD_OK(y) && COORD_OK(dash_length))
__CPROVER_ensures(1)
__CPROVER_assigns();

/* ================= draw_text_v (the formatted text is the parameter buffer) ================= */
/* for any byte string and any position: out_of_range never escapes, every glyph index font[ch][yy * 5 + xx] is inside the 96 x 35 table
 * (array bounds check on the table extracted from ImageTextFont.hh), no signed overflow in the cursor arithmetic.
 * Which pixels a text colours is not decided (NOT_DECIDED); the drawing goes through fill_rect and write_pixel only. */
#define TEXT_MAX ((size_t)1 << 40)
void Image_draw_text_v(Image* self, ssize_t x, ssize_t y, ssize_t* width, ssize_t* height, uint64_t r, uint64_t g, uint64_t b, uint64_t a,
                       uint64_t br, uint64_t bg, uint64_t bb, uint64_t ba, const char* buffer, size_t buffer_size)
DST_REQ(self)
__CPROVER_requires(!g_tup_ok)
__CPROVER_requires(-(C07_CMAX / 2) < x && x < C07_CMAX / 2 && -(C07_CMAX / 2) < y && y < C07_CMAX / 2 && buffer_size <= TEXT_MAX)
__CPROVER_requires(__CPROVER_is_fresh(buffer, buffer_size))
__CPROVER_requires((width == 0 || __CPROVER_w_ok(width, sizeof(ssize_t))) && (height == 0 || __CPROVER_w_ok(height, sizeof(ssize_t))))
__CPROVER_ensures(verif_exc == 0)
__CPROVER_assigns(D_ASSIGNS; width != 0: *width; height != 0: *height);

/* ================= one text cell: the body of draw_text_v's character loop, cut as a function ================= */
/* The per-pixel model of text (geometry of src/Image.cc's 5x7 font): a character whose cell origin is (x_pos, y_pos) colours the pixels
 * (x_pos + cx, y_pos + cy), 0 <= cx < 5, 0 <= cy < 7, whose bit is set in font[ch'][cy * 5 + cx] (ch' = ch - 0x20, bytes outside
 * 0x20..0x7F drawn as 0x7F), on top of a 6 x 9 background box at (x_pos - 1, y_pos - 1) when ba != 0; the cursor advances by 6.  '\n'
 * draws a 1 x 9 background strip at (x_pos - 1, y_pos - 1), moves the cursor to (x, y_pos + 8); '\r' does nothing.  Everything else is
 * untouched -- for ANY cursor position, in particular cells partly or wholly outside the canvas (only their in-canvas pixels exist).
 * The background colour is decided for an opaque background (ba == 0xFF; blending is fill_rect's contract with g_tup_ok, not used here).
 * x_pos / y_pos / max_x_pos are the loop-carried locals of draw_text_v, file-scope here; g_tr.. = ghost snapshot after the background. */
ssize_t x_pos, y_pos, max_x_pos;
uint64_t g_tr, g_tg, g_tb, g_ta;
extern uint8_t font[96][35];
#define TEXT_SNAP (g_tr = g_dr, g_tg = g_dg, g_tb = g_db, g_ta = g_da)
#define TEXT_POS_OK(v) (-(C07_CMAX / 2) < (v) && (v) < C07_CMAX / 2)
#define CELL_CH(c) ((uint8_t)((((c) < 0x20 || (c) > 0x7F) ? 0x7F : (c)) - 0x20))
#define GLYPH_RAW(c, cx, cy) ((cx) >= 0 && (cx) < 5 && (cy) >= 0 && (cy) < 7 && font[c][(cy) * 5 + (cx)] != 0)
#define CELL_DONE(Y, X) (GLYPH_RAW(ch, g_dx - x_pos, g_dy - y_pos) && ((g_dy - y_pos) < (Y) || ((g_dy - y_pos) == (Y) && (g_dx - x_pos) < (X))))
#define CELL_INV(Y, X) ((D_IN && CELL_DONE(Y, X)) ? COLOURED : D4(g_tr, g_tg, g_tb, g_ta))
#define BG_COLOURED D4(WCH(br, self), WCH(bg, self), WCH(bb, self), WA(ba, self))
#define OLD_XP __CPROVER_old(x_pos)
#define OLD_YP __CPROVER_old(y_pos)
#define CELL_BG(W) (D_IN && ba != 0 && INRECT(g_dx, g_dy, OLD_XP - 1, OLD_YP - 1, W, 9))
#define CELL_PLAIN (ch_in != '\r' && ch_in != '\n')
void Image_draw_text_cell(Image* self, ssize_t x, uint8_t ch_in, uint64_t r, uint64_t g, uint64_t b, uint64_t a, uint64_t br, uint64_t bg, uint64_t bb, uint64_t ba)
DST_REQ(self)
__CPROVER_requires(!g_tup_ok)
__CPROVER_requires(TEXT_POS_OK(x) && TEXT_POS_OK(x_pos) && TEXT_POS_OK(y_pos))
__CPROVER_ensures(verif_exc == 0)
__CPROVER_ensures(ch_in == '\r' ==> (D4_OLD && x_pos == OLD_XP && y_pos == OLD_YP && max_x_pos == __CPROVER_old(max_x_pos)))
__CPROVER_ensures(ch_in == '\n' ==> (x_pos == x && y_pos == OLD_YP + 8))
__CPROVER_ensures(ch_in == '\n' ==> (CELL_BG(1) ? (ba == 0xFF ==> BG_COLOURED) : D4_OLD))
__CPROVER_ensures(CELL_PLAIN ==> (x_pos == OLD_XP + 6 && y_pos == OLD_YP && max_x_pos == __CPROVER_old(max_x_pos)))
__CPROVER_ensures(CELL_PLAIN ==> ((D_IN && GLYPH_RAW(CELL_CH(ch_in), g_dx - OLD_XP, g_dy - OLD_YP)) ? COLOURED : CELL_BG(6) ? (ba == 0xFF ==> BG_COLOURED) : D4_OLD))
__CPROVER_ensures(GHOST_WF(self, g_dr, g_dg, g_db, g_da))
__CPROVER_assigns(D_ASSIGNS, x_pos, y_pos, max_x_pos, g_tr, g_tg, g_tb, g_ta);

/* ================= clipping invariance (lemmas over the contracts) ================= */
/* drawing on a small canvas equals drawing on a larger one (same pixel format) and cropping: for every pixel of the small canvas, starting
 * from the same value, the same call leaves the same value on both canvases.  g_c1* = the result on the small canvas. */
extern uint64_t g_c1r, g_c1g, g_c1b, g_c1a;
#define CLIP_REQ(small, big) \
  __CPROVER_requires(__CPROVER_is_fresh(small, sizeof(Image))) __CPROVER_requires(__CPROVER_is_fresh(big, sizeof(Image))) \
  __CPROVER_requires(verif_exc == 0) __CPROVER_requires(IMG_VALID(small)) __CPROVER_requires(IMG_VALID(big)) \
  __CPROVER_requires(small->width <= big->width && small->height <= big->height && small->has_alpha == big->has_alpha && small->channel_width == big->channel_width) \
  __CPROVER_requires(!OUTSIDE(small, g_dx, g_dy)) __CPROVER_requires(GHOST_WF(small, g_dr, g_dg, g_db, g_da))
#define CLIP_GHOSTS g_dimg, g_dw, g_dh, g_dalpha, g_dcw, g_c1r, g_c1g, g_c1b, g_c1a
void L_fill_rect_clip(Image* small, Image* big, ssize_t x, ssize_t y, ssize_t w, ssize_t h, uint64_t r, uint64_t g, uint64_t b, uint64_t a)
CLIP_REQ(small, big)
__CPROVER_requires(COORD_OK(x) && COORD_OK(y) && COORD_OK(w) && COORD_OK(h))
__CPROVER_requires(g_tup_ok ==> TUP_IS(a, r, g, b, a, g_dr, g_dg, g_db, g_da))
__CPROVER_requires(g_tup_ok ==> TUP_DEF8)
__CPROVER_ensures(verif_exc == 0)
__CPROVER_ensures(FILL_COND ==> D4(g_c1r, g_c1g, g_c1b, g_c1a))
__CPROVER_assigns(D_ASSIGNS, CLIP_GHOSTS);
void L_blit_clip(Image* small, Image* big, const Image* source, ssize_t x, ssize_t y, ssize_t w, ssize_t h, ssize_t sx, ssize_t sy)
CLIP_REQ(small, big) SRC_REQ(source)
__CPROVER_requires(COORD_OK(x) && COORD_OK(y) && COORD_OK(w) && COORD_OK(h) && COORD_OK(sx) && COORD_OK(sy))
__CPROVER_requires(g_sx == sx + (g_dx - x) && g_sy == sy + (g_dy - y))
__CPROVER_requires(g_tup_ok ==> TUP_IS(g_sa, g_sr, g_sg, g_sb, g_sa, g_dr, g_dg, g_db, g_da))
__CPROVER_requires(g_tup_ok ==> TUP_DEF8)
__CPROVER_ensures(verif_exc == 0)
__CPROVER_ensures(BLIT_COND ==> D4(g_c1r, g_c1g, g_c1b, g_c1a))
__CPROVER_assigns(D_ASSIGNS, CLAMP_GHOSTS, CLIP_GHOSTS);

/* ================= the colour rules with their arithmetic written out (statement of record for the blending variants) =================
 * Lemma wrappers (harness/C07/canvas.c: L_*_rule) carry these postconditions; each wrapper chooses the function point (tuple := the actual
 * arguments and the entry value of D, g_bo := the specification's blend of the tuple) and calls the real function, bound by its contract. */
#define XFILL_R_(dr, dg, db, da) ((a) == 0xFF ? WCH(r, self) : WCH(BL8(a, r, dr), self))
#define XFILL_G_(dr, dg, db, da) ((a) == 0xFF ? WCH(g, self) : WCH(BL8(a, g, dg), self))
#define XFILL_B_(dr, dg, db, da) ((a) == 0xFF ? WCH(b, self) : WCH(BL8(a, b, db), self))
#define XFILL_A_(dr, dg, db, da) ((a) == 0xFF ? WA(a, self) : WA(BL8(a, a, da), self))
#define XBLIT_R_(dr, dg, db, da) (g_sa == 0 ? (dr) : g_sa == 0xFF ? WCH(g_sr, self) : WCH(BL8(g_sa, g_sr, dr), self))
#define XBLIT_G_(dr, dg, db, da) (g_sa == 0 ? (dg) : g_sa == 0xFF ? WCH(g_sg, self) : WCH(BL8(g_sa, g_sg, dg), self))
#define XBLIT_B_(dr, dg, db, da) (g_sa == 0 ? (db) : g_sa == 0xFF ? WCH(g_sb, self) : WCH(BL8(g_sa, g_sb, db), self))
#define XBLIT_A_(dr, dg, db, da) (g_sa == 0 ? (da) : g_sa == 0xFF ? WA(g_sa, self) : WA(BL8(g_sa, g_sa, da), self))
#define XBLEND_R_(dr, dg, db, da) (g_sa == MX ? WCH(g_sr, self) : g_sa != 0 ? WCH(BLM(g_sr, g_sa, dr, MX), self) : (dr))
#define XBLEND_G_(dr, dg, db, da) (g_sa == MX ? WCH(g_sg, self) : g_sa != 0 ? WCH(BLM(g_sg, g_sa, dg, MX), self) : (dg))
#define XBLEND_B_(dr, dg, db, da) (g_sa == MX ? WCH(g_sb, self) : g_sa != 0 ? WCH(BLM(g_sb, g_sa, db, MX), self) : (db))
#define XBLEND_A_(dr, dg, db, da) (g_sa == MX ? WA(g_sa, self) : g_sa != 0 ? WA(BLM(g_sa, g_sa, da, MX), self) : (da))
#define EFFA ((source_alpha * g_sa) / MX)
#define XBLENDA_R_(dr, dg, db, da) (EFFA == MX ? WCH(g_sr, self) : EFFA != 0 ? WCH(BLM(g_sr, EFFA, dr, MX), self) : (dr))
#define XBLENDA_G_(dr, dg, db, da) (EFFA == MX ? WCH(g_sg, self) : EFFA != 0 ? WCH(BLM(g_sg, EFFA, dg, MX), self) : (dg))
#define XBLENDA_B_(dr, dg, db, da) (EFFA == MX ? WCH(g_sb, self) : EFFA != 0 ? WCH(BLM(g_sb, EFFA, db, MX), self) : (db))
#define XBLENDA_A_(dr, dg, db, da) (EFFA == MX ? WA(EFFA, self) : EFFA != 0 ? WA(da, self) : (da))
#define TUP_GHOSTS g_tup_ok, g_t_al, g_t_cr, g_t_cg, g_t_cb, g_t_ca, g_t_dr, g_t_dg, g_t_db, g_t_da, g_t_mx, g_t_e1, g_t_e2, g_bo_r, g_bo_g, g_bo_b, g_bo_a, g_bo_e

void L_fill_rect_rule(Image* self, ssize_t x, ssize_t y, ssize_t w, ssize_t h, uint64_t r, uint64_t g, uint64_t b, uint64_t a)
DST_REQ(self)
__CPROVER_requires(COORD_OK(x) && COORD_OK(y) && COORD_OK(w) && COORD_OK(h))
__CPROVER_ensures(verif_exc == 0)
__CPROVER_ensures((D_IN && INRECT(g_dx, g_dy, x, y, w, h)) ? D4_RULE(XFILL) : D4_OLD)
__CPROVER_assigns(D_ASSIGNS, TUP_GHOSTS);
#define L_BLIT_RULE(name, n, extra) void name(BLIT_PARAMS extra) BLIT_REQ(self, source) \
  __CPROVER_ensures(verif_exc == 0) __CPROVER_ensures(BLIT_HITS ? D4_RULE(n) : D4_OLD) __CPROVER_assigns(D_ASSIGNS, CLAMP_GHOSTS, TUP_GHOSTS);
L_BLIT_RULE(L_blit_rule, XBLIT, )
L_BLIT_RULE(L_blend_blit_rule, XBLEND, )
#define COMMA_ALPHA , uint64_t source_alpha
L_BLIT_RULE(L_blend_blit_alpha_rule, XBLENDA, COMMA_ALPHA)
#endif
