/* C03: the twelve explicit specialisations bswap<A,R> */
#include "contracts/C03_leaf.h"
#include "x_Encoding_leaf.c"
#include "contracts/C03_spec.h"
#include "x_bswap_spec.c"
#define HS(A, R) void h_bswap__##A##__##R(void) { A in_a; bswap__##A##__##R(in_a); VERIF_REACH(); }
HS(uint8_t, uint8_t) HS(int8_t, int8_t) HS(uint16_t, uint16_t) HS(int16_t, int16_t) HS(uint32_t, uint32_t) HS(int32_t, int32_t)
HS(uint64_t, uint64_t) HS(int64_t, int64_t) HS(float, uint32_t) HS(uint32_t, float) HS(double, uint64_t) HS(uint64_t, double)
