/* C12: model of std::unordered_map<K, Item> as used by LRUSet / LRUMap (trusted; DESIGN.md 3.2, section 4 C12).
 *
 * Included from the extracted type header (build/C12/x_LRU{Set,Map}_types.h) after K and struct Item are known.  That
 * header defines  PFX, UMAP_EMPLACE_ARGS (the constructor arguments of Item that emplace forwards) and
 * UMAP_ITEM_CTOR(it) (call of the *extracted* Item constructor with those arguments).
 *
 * What the standard promises and this model keeps ([unord.req], [container.requirements]):
 *   - a node is {const K first; Item second}; its address never changes while it is in the map (insert/erase of other
 *     elements, rehash and swap keep pointers to elements valid; after swap they refer to the same elements, which now
 *     belong to the other container);
 *   - find(k): iterator to the element with key k or end();  at(k): reference or std::out_of_range;
 *   - emplace(piecewise_construct, (k), (args...)): {iterator to new element, true} or {iterator to existing, false};
 *   - erase(iterator) requires a dereferenceable iterator, destroys exactly that node; erase(key) -> number erased;
 *   - clear() destroys every node; size(), empty().
 * Member names first/second are chosen so that `it->second`, `emplace_ret.first->first` of the C++ text are valid C.
 *
 * Two modes:
 *   concrete (default)  : a pool of C12_NSLOT nodes {first, second, used}; used by the bounded shape harness.
 *   -DC12_ABSTRACT      : contracts only, driven by ghost variables; used (by --replace-call-with-contract) in the
 *                         unbounded local proofs:  g_key  = the key the operation under proof is called with,
 *                                                  g_node = the node the map holds for g_key (0: absent),
 *                                                  g_new  = the node the next successful emplace creates,
 *                                                  g_count = size();  g_n* / g_erased record the mutating calls made.
 *                         erase havocs the freed node, so a read after the erase cannot satisfy any postcondition.
 */
#ifndef C12_UMAP_H
#define C12_UMAP_H

typedef struct umap_node { K first; Item second; bool used; } umap_node;
typedef umap_node* umap_iter;
typedef struct { umap_iter first; bool second; } umap_emplace_ret;
typedef struct umap { umap_node* nodes; } umap;

#define umap_end(m) ((umap_iter)0)
/* std::piecewise_construct, std::forward_as_tuple(args...), std::make_tuple(args...), std::move(x): argument plumbing */
#define piecewise_construct 0
#define forward_as_tuple(...) __VA_ARGS__
#define make_tuple(...) __VA_ARGS__
#define move(x) (x)
#define umap_emplace(m, pc, ktuple, ...) umap_emplace_fn(m, ktuple, __VA_ARGS__)

/* what the Item constructor establishes (LRUSet.hh / LRUMap.hh: "Item(size)": unlinked, no key yet) */
#ifdef C12_MAP
#define UMAP_ITEM_FRESH(it) ((it)->prev == 0 && (it)->next == 0 && (it)->key == 0 && (it)->size == size && (it)->value == value)
#else
#define UMAP_ITEM_FRESH(it) ((it)->prev == 0 && (it)->next == 0 && (it)->key == 0 && (it)->size == size)
#endif

#ifdef C12_ABSTRACT
/* ------------------------------------------------------------------------------------------------ abstract mode */
extern K g_key;
extern umap_node* g_node;
extern umap_node* g_new;
extern size_t g_count;
extern unsigned g_nerase, g_nclear, g_nswap, g_nemplace, g_nctor;
extern umap_node* g_erased;
extern umap* g_swap_a;
extern umap* g_swap_b;

void umap_ctor(umap* m)
__CPROVER_ensures(g_nctor == __CPROVER_old(g_nctor) + 1)
__CPROVER_assigns(g_nctor);

umap_iter umap_find(const umap* m, K k)
__CPROVER_requires(k == g_key)
__CPROVER_ensures(__CPROVER_return_value == g_node)
__CPROVER_assigns();

Item* umap_at(const umap* m, K k)
__CPROVER_requires(k == g_key && verif_exc == 0)
__CPROVER_ensures(g_node == 0 ? (verif_exc == EXC_out_of_range && __CPROVER_return_value == 0)
                              : (verif_exc == 0 && __CPROVER_return_value == &g_node->second))
__CPROVER_assigns(verif_exc);

umap_emplace_ret umap_emplace_fn(umap* m, K k, UMAP_EMPLACE_ARGS)
__CPROVER_requires(k == g_key)
__CPROVER_ensures(g_node != 0 ==> (__CPROVER_return_value.first == g_node && !__CPROVER_return_value.second))
__CPROVER_ensures(g_node == 0 ==> (__CPROVER_return_value.first == g_new && __CPROVER_return_value.second))
__CPROVER_ensures(g_node == 0 ==> (g_new->first == k && UMAP_ITEM_FRESH(&g_new->second)))
__CPROVER_ensures(g_nemplace == __CPROVER_old(g_nemplace) + (g_node == 0 ? 1 : 0))
__CPROVER_assigns(g_nemplace)
__CPROVER_assigns(g_node == 0: __CPROVER_object_whole(g_new));

/* (returns the iterator following the erased element: another element or end() -- which one depends on the hash table's order) */
umap_iter umap_erase_it(umap* m, umap_iter it)
__CPROVER_requires(it != 0 && it == g_node)            /* dereferenceable iterator into *this */
__CPROVER_ensures(g_nerase == __CPROVER_old(g_nerase) + 1 && g_erased == it)
__CPROVER_assigns(g_nerase, g_erased, __CPROVER_object_whole(it));

size_t umap_erase_key(umap* m, K k)
__CPROVER_requires(k == g_key)
__CPROVER_ensures(g_nerase == __CPROVER_old(g_nerase) + (g_node != 0 ? 1 : 0))
__CPROVER_ensures(g_node != 0 ==> g_erased == g_node)
__CPROVER_ensures(__CPROVER_return_value == (g_node != 0 ? 1 : 0))
__CPROVER_assigns(g_nerase, g_erased)
__CPROVER_assigns(g_node != 0: __CPROVER_object_whole(g_node));

void umap_clear(umap* m)
__CPROVER_ensures(g_nclear == __CPROVER_old(g_nclear) + 1)
__CPROVER_assigns(g_nclear);

void umap_swap(umap* a, umap* b)
__CPROVER_ensures(g_nswap == __CPROVER_old(g_nswap) + 1 && g_swap_a == a && g_swap_b == b)
__CPROVER_assigns(g_nswap, g_swap_a, g_swap_b);

size_t umap_size(const umap* m)
__CPROVER_ensures(__CPROVER_return_value == g_count)
__CPROVER_assigns();

bool umap_empty(const umap* m)
__CPROVER_ensures(__CPROVER_return_value == (g_count == 0))
__CPROVER_assigns();

#else
/* ------------------------------------------------------------------------------------------------ concrete mode */
#ifndef C12_NSLOT
#define C12_NSLOT 4
#endif

static inline void umap_ctor(umap* m)
{
  for (int j = 0; j < C12_NSLOT; j++)
    m->nodes[j].used = 0;
}

/* Lookup hint (bounded shape harness only): the harness may say where k is (g_hint >= 0: in node g_hint; -1: nowhere; -2: no
 * hint, plain scan).  A hint is *asserted* before it is relied on -- under the assertion the assumption that follows excludes
 * nothing, and keys are unique, so a hinted find returns exactly what the scan returns.  Purpose: symbolic execution sees a
 * constant node address (or 0) instead of a case split over all nodes. */
extern int g_hint;
static inline umap_iter umap_find(const umap* m, K k)
{
  if (g_hint >= 0) {
    bool there = m->nodes[g_hint].used && m->nodes[g_hint].first == k;
    __CPROVER_assert(there, "lookup hint of the harness: the key is stored in the node it names");
    __CPROVER_assume(there);
    return &m->nodes[g_hint];
  }
  if (g_hint == -1) {
    bool none = 1;
    for (int j = 0; j < C12_NSLOT; j++)
      if (m->nodes[j].used && m->nodes[j].first == k)
        none = 0;
    /* checked before it is used: under the assertion the assumption excludes nothing */
    __CPROVER_assert(none, "lookup hint of the harness: a key it calls absent is not stored");
    __CPROVER_assume(none);
    return 0;
  }
  for (int j = 0; j < C12_NSLOT; j++)
    if (m->nodes[j].used && m->nodes[j].first == k)
      return &m->nodes[j];
  return 0;
}

static inline Item* umap_at(const umap* m, K k)
{
  umap_iter it = umap_find(m, k);
  if (!it) {
    verif_exc = EXC_out_of_range;
    return 0;
  }
  return &it->second;
}

static inline umap_emplace_ret umap_emplace_fn(umap* m, K k, UMAP_EMPLACE_ARGS)
{
  umap_emplace_ret r;
  r.first = umap_find(m, k);
  r.second = 0;
  if (r.first)
    return r;
  for (int j = 0; j < C12_NSLOT; j++)
    if (!m->nodes[j].used) {
      umap_iter n = &m->nodes[j];
      n->used = 1;
      n->first = k;
      UMAP_ITEM_CTOR(&n->second);
      r.first = n;
      r.second = 1;
      return r;
    }
  __CPROVER_assert(0, "umap stub: the pool has a spare node for every insertion (harness bound)");
  return r;
}

/* the node is destroyed: its memory content is indeterminate from here on */
static inline void umap_destroy_node(umap_iter it)
{
  umap_node junk;
  *it = junk;
  it->used = 0;
}

_Bool nondet_umap_next_is_end(void);
static inline umap_iter umap_erase_it(umap* m, umap_iter it)
{
  __CPROVER_assert(it != 0 && it >= m->nodes && it < m->nodes + C12_NSLOT && it->used,
                   "unordered_map::erase(iterator): the iterator refers to a live element of this map (no double free)");
  umap_destroy_node(it);
  return nondet_umap_next_is_end() ? umap_end(m) : m->nodes;     /* the following element or end(): depends on the table order */
}

static inline size_t umap_erase_key(umap* m, K k)
{
  umap_iter it = umap_find(m, k);
  if (!it)
    return 0;
  umap_destroy_node(it);
  return 1;
}

static inline void umap_clear(umap* m)
{
  for (int j = 0; j < C12_NSLOT; j++)
    if (m->nodes[j].used)
      umap_destroy_node(&m->nodes[j]);
}

static inline void umap_swap(umap* a, umap* b)
{
  umap_node* t = a->nodes;
  a->nodes = b->nodes;
  b->nodes = t;
}

static inline size_t umap_size(const umap* m)
{
  size_t n = 0;
  for (int j = 0; j < C12_NSLOT; j++)
    if (m->nodes[j].used)
      n++;
  return n;
}

static inline bool umap_empty(const umap* m)
{
  return umap_size(m) == 0;
}
#endif
#endif
