/* C08: str_replace_all (non-empty target). */
#include "harness/C08/common.h"
#include "contracts/C08_replace.h"
size_t g_it, g_rstart, g_rfind, g_rout, g_nout, g_rwit, g_tlen, g_rlen, g_rend, g_rnext, g_rnout; const char *g_tptr, *g_rptr;
#include "x_replace.c"
void h_str_replace_all(void) {
  vout* ret; const vstr* s; const char* target; const char* replacement; IN_GHOSTS;
  size_t in_it, in_rstart, in_rfind, in_rout, in_nout, in_rwit, in_tlen, in_rlen, in_rend, in_rnext, in_rnout; const char *in_tptr, *in_rptr;
  g_it = in_it; g_rstart = in_rstart; g_rfind = in_rfind; g_rout = in_rout; g_nout = in_nout; g_rwit = in_rwit; g_tlen = in_tlen; g_rlen = in_rlen; g_tptr = in_tptr; g_rptr = in_rptr; g_rend = in_rend; g_rnext = in_rnext; g_rnout = in_rnout;
  str_replace_all(ret, s, target, replacement); VERIF_REACH(); }
