/* C08 side-car contract: strip_multiline_comments<std::string> (src/Strings.hh), in LOCK-STEP with the reference automaton
 *   state: in_comment;  reading c at z (c2 = next character if any):
 *     outside a comment, "/" "*"  -> the comment opens (two characters consumed, nothing written);
 *     inside a comment,  "*" "/"  -> the comment closes (two characters consumed, nothing written);
 *     otherwise one character is consumed; it is written if outside a comment, or if it is a newline inside a comment.
 *   result = the written characters in order; an open comment at the end is a runtime_error unless allow_unterminated.
 * The function works in place (write position <= read position).  Proved per iteration (c8_cmt_check is called from the loop's
 * increment position): the step taken is the reference step, the written byte lands at the next output index, output bytes already
 * written (ghost index g_ok) are never changed, and the unread tail (ghost index g_sk >= z) still holds the original text g_sval. */
#ifndef C08_COMMENTS_H
#define C08_COMMENTS_H
#include "contracts/C08_split.h"
extern size_t g_z0, g_wo0, g_wo; extern char g_c, g_c2, g_oprev, g_sval; extern bool g_havenext, g_in0, g_in;

#define CMT_OPEN(c, c2, have, in) (!(in) && (c) == '/' && (have) && (c2) == '*')
#define CMT_CLOSE(c, c2, have, in) ((in) && (c) == '*' && (have) && (c2) == '/')
#define CMT_PAIR(c, c2, have, in) (CMT_OPEN(c, c2, have, in) || CMT_CLOSE(c, c2, have, in))
#define CMT_EMIT(c, c2, have, in) (!CMT_PAIR(c, c2, have, in) && (!(in) || (c) == '\n'))
#define CMT_IN_NEXT(c, c2, have, in) (CMT_OPEN(c, c2, have, in) ? 1 : CMT_CLOSE(c, c2, have, in) ? 0 : ((in) ? 1 : 0))

#define CMT_SNAPSHOT(s, z, wo, in) \
  g_z0 = (z); g_wo0 = (wo); g_in0 = (in) ? 1 : 0; g_c = (s)->data[z]; g_havenext = (z) + 1 < (s)->size; g_c2 = g_havenext ? (s)->data[(z) + 1] : 0; \
  if (g_ok < (s)->size) g_oprev = (s)->data[g_ok];
static inline void c8_cmt_check(const vstr* s, size_t z, size_t wo, bool in)
{
  bool verif_emit = CMT_EMIT(g_c, g_c2, g_havenext, g_in0);
  __CPROVER_assert(z == g_z0 + (CMT_PAIR(g_c, g_c2, g_havenext, g_in0) ? 2 : 1), "lock-step: two characters consumed for a comment delimiter, else one");
  __CPROVER_assert((in ? 1 : 0) == CMT_IN_NEXT(g_c, g_c2, g_havenext, g_in0), "lock-step: in-comment state");
  __CPROVER_assert(wo == g_wo0 + (verif_emit ? 1 : 0), "lock-step: exactly the characters outside comments and the newlines inside them are written");
  __CPROVER_assert(verif_emit ==> s->data[g_wo0] == g_c, "lock-step: the written character is the character read, at the next output index");
  __CPROVER_assert(g_ok < g_wo0 ==> s->data[g_ok] == g_oprev, "output bytes already written are not changed");
  g_in = in ? 1 : 0; g_wo = wo;
}

void strip_multiline_comments(vstr* s, bool allow_unterminated)
SRC_REQ(s)
__CPROVER_requires(verif_exc == 0 && (g_sk < s->size ==> g_sval == s->data[g_sk]))
__CPROVER_ensures(s->size == g_wo && g_wo <= __CPROVER_old(s->size))
__CPROVER_ensures(verif_exc == ((!allow_unterminated && g_in) ? EXC_runtime_error : 0))
__CPROVER_assigns(verif_exc, s->size, __CPROVER_object_whole(s->data), g_z0, g_wo0, g_wo, g_c, g_c2, g_oprev, g_havenext, g_in0, g_in);
#endif
