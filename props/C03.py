"""C03 -- endian-explicit scalars, bswap helpers, sign extension (DESIGN.md section 4, C03)."""
from vf.extract import Source, Unit
from vf.lex import Rule
from vf.pipeline import Group, Replay

ID = 'C03'
LEVEL = 'proof'
EXPLANATION = ('Every function is loop-free; each contract is enforced with goto-instrument --dfcc and bit-blasted over the '
               'whole input domain (2^16 .. 2^128 input combinations per obligation). Involution / round-trip facts are '
               'lemmas proved over the contracts (callee replaced by contract).')
TRUSTED = ['contracts/C03_leaf.h, contracts/C03_ce.h: the specification macros (definition of big/little-endian numerals)']
ASSUMPTIONS = [
    'float/double are IEEE-754 binary32/64 bit patterns (cbmc float model); x87 NaN quieting on return is not modelled',
    'preconditions exclude exactly the inputs on which the native C operator is undefined (signed overflow, shift >= width, '
    'shift of negative values, division by zero, INT_MIN / -1)',
]
DROPS = ('static inline kept; overloads bswap32f/bswap64f renamed by signature (_u2f/_f2u, _u2d/_d2u); template '
         'specialisations bswap<A,R> renamed bswap__A__R; class converted_endian flattened to C functions with explicit self; '
         'implicit conversions at OnStoreSt::fn/OnLoadSt::fn call boundaries preserved by typed C functions')
NOT_DECIDED = []

ENC = 'src/Encoding.hh'
RP = dict(driver='C03/encoding.cc', sources=[])


def leaf_unit(ctx, src):
    u = Unit(ctx, 'Encoding_leaf')
    u.raw('#include <stdint.h>\n#include <stddef.h>\n')
    for name, ret, arg in [('ext24', 'int32_t', 'uint32_t'), ('ext48', 'int64_t', 'uint64_t'),
                           ('bswap8', 'uint8_t', 'uint8_t'), ('bswap16', 'uint16_t', 'uint16_t'),
                           ('bswap24', 'uint32_t', 'uint32_t'), ('bswap24s', 'int32_t', 'int32_t'),
                           ('bswap32', 'uint32_t', 'uint32_t'), ('bswap48', 'uint64_t', 'uint64_t'),
                           ('bswap48s', 'int64_t', 'int64_t'), ('bswap64', 'uint64_t', 'uint64_t')]:
        u.function(src, ENC, r'static inline %s %s\(%s a\)' % (ret, name, arg))
    for name, new, ret, arg in [('bswap32f', 'bswap32f_u2f', 'float', 'uint32_t'), ('bswap64f', 'bswap64f_u2d', 'double', 'uint64_t'),
                                ('bswap32f', 'bswap32f_f2u', 'uint32_t', 'float'), ('bswap64f', 'bswap64f_d2u', 'uint64_t', 'double')]:
        u.function(src, ENC, r'static inline %s %s\(%s a\)' % (ret, name, arg),
                   new_header='static inline %s %s(%s a)' % (ret, new, arg))
    return u


def plan(ctx):
    src = Source(ctx.src)
    groups = []
    u = leaf_unit(ctx, src)
    u.write()
    ctx.functions_under_contract = list(u.functions)
    H = 'harness/C03/leaf.c'
    for fn in ['ext24', 'ext48', 'bswap8', 'bswap16', 'bswap24', 'bswap24s', 'bswap32', 'bswap48', 'bswap48s', 'bswap64',
               'bswap32f_u2f', 'bswap32f_f2u', 'bswap64f_u2d', 'bswap64f_d2u']:
        groups.append(Group(name='Encoding.' + fn, harness=H, entry='h_' + fn, function=fn, enforce=fn,
                            clause_note='contracts/C03_leaf.h: byte k of the result is byte n-1-k of the argument; high bits zero / sign copies',
                            replay=Replay(mode=fn, **RP)))
    for fn in ['bswap8', 'bswap16', 'bswap24', 'bswap32', 'bswap48', 'bswap64', 'bswap24s', 'bswap48s']:
        groups.append(Group(name='Encoding.%s.involution' % fn, harness=H, entry='l_%s_involution' % fn, function=fn,
                            replace=[fn], kind='lemma', replay=Replay(mode=fn + '_involution', **RP)))
    groups.append(Group(name='Encoding.bswap32f.roundtrip', harness=H, entry='l_bswap32f_roundtrip', function='bswap32f',
                        replace=['bswap32f_u2f', 'bswap32f_f2u'], kind='lemma', replay=Replay(mode='bswap32f_roundtrip', **RP)))
    groups.append(Group(name='Encoding.bswap64f.roundtrip', harness=H, entry='l_bswap64f_roundtrip', function='bswap64f',
                        replace=['bswap64f_u2d', 'bswap64f_d2u'], kind='lemma', replay=Replay(mode='bswap64f_roundtrip', **RP)))
    if ctx.tier == 'thorough':
        be = []
        for g in groups:
            import copy
            g2 = copy.deepcopy(g)
            g2.big_endian = True
            be.append(g2)
        groups += be
    return groups
