// Native replay for C17: runs the real phosg::Arguments (headers + library of the working tree, compiled by g++ with
// ASan/UBSan) on the verifier's counterexample and evaluates the property statement natively.
// exit 1 = statement violated on the real code, 0 = holds, 2 = usage.
//   driver parse_int <RetT>    in_format= in_neg= in_mag= in_ovf= in_endoff= in_size= in_stopch=
//   driver parse_float <RetT>  in_endoff= in_size= in_stopch= in_fbits=
//   driver token               g_tok=<bytes,...> in_size=
//   driver unused              in_npos= in_nnamed= in_usedmask=
//   driver getter <which>      ...
// The abstract numeral of the proof (sign, magnitude, overflow flag, "something follows the numeral", "what follows is a
// NUL") is turned back into a concrete text in the requested base; the expected outcome is computed from the text's
// mathematical value with 128-bit arithmetic, independently of strtoull.
#include "replay/common/args.hh"
#include "Arguments.hh"
#include <cmath>
#include <stdexcept>
#include <string>
#include <vector>
using namespace phosg;
typedef unsigned __int128 u128;
typedef __int128 s128;

static std::string show(const std::string& s) {
  std::string r = "\"";
  for (unsigned char c : s) {
    char b[8];
    if (c < 0x20 || c >= 0x7F) { snprintf(b, sizeof b, "\\x%02X", c); r += b; } else r += (char)c;
  }
  return r + "\"";
}

static std::string digits(u128 v, unsigned base) {
  if (v == 0) return "0";
  std::string r;
  while (v) { r.insert(r.begin(), "0123456789ABCDEF"[(unsigned)(v % base)]); v /= base; }
  return r;
}

// fmt: 0 DEFAULT, 1 HEX, 2 DECIMAL, 3 OCTAL (checked against the real enum below)
static std::string numeral(unsigned fmt, bool neg, uint64_t mag, bool ovf, uint64_t variant) {
  u128 m = ovf ? (((u128)1 << 64) + mag) : (u128)mag;     // any magnitude >= 2^64 is "not representable"
  std::string s = neg ? "-" : "";
  switch (fmt) {
    case 1: return s + digits(m, 16);
    case 2: return s + digits(m, 10);
    case 3: return s + digits(m, 8);
    default:
      switch (variant % 3) {                               // DEFAULT = C literal syntax: decimal | 0x hex | 0 octal
        case 1: return s + "0x" + digits(m, 16);
        case 2: return s + "0" + digits(m, 8);
        default: return s + digits(m, 10);
      }
  }
}

enum Outcome { RETURNED, INVALID_ARGUMENT, OUT_OF_RANGE, OTHER };
static const char* oname(Outcome o) { return o == RETURNED ? "returned" : o == INVALID_ARGUMENT ? "threw invalid_argument" : o == OUT_OF_RANGE ? "threw out_of_range" : "threw something else"; }

template <typename T> static int parse_int_mode(const Args& A) {
  unsigned fmt = (unsigned)A.u("in_format");
  bool neg = A.u("in_neg") != 0, ovf = A.u("in_ovf") != 0;   // a nondet bool of the model is true for any non-zero byte
  uint64_t mag = A.u("in_mag"), endoff = A.u("in_endoff"), size = A.u("in_size");
  unsigned char stopch = (unsigned char)A.u("in_stopch");
  if (fmt > 3) { fprintf(stderr, "format outside the enum\n"); return 2; }
  static_assert((int)Arguments::IntFormat::DEFAULT == 0 && (int)Arguments::IntFormat::HEX == 1 &&
                (int)Arguments::IntFormat::DECIMAL == 2 && (int)Arguments::IntFormat::OCTAL == 3, "IntFormat numbering");
  bool any = endoff != 0, all = endoff == size;
  std::string text;
  if (!any) {
    text = (size == 0) ? "" : (stopch == 0 ? std::string("\0zz", 3) : std::string("zz"));
  } else {
    text = numeral(fmt, neg, mag, ovf, size);
    if (!all) text += (stopch == 0) ? std::string("\0x", 2) : std::string("zz");
  }
  // the statement, from the mathematical value
  s128 m = ovf ? (s128)(((u128)1 << 64) + mag) : (s128)mag;
  if (neg) m = -m;
  const bool is64 = sizeof(T) == 8;
  s128 lo = std::is_signed_v<T> ? -((s128)1 << (8 * sizeof(T) - 1)) : 0;
  s128 hi = std::is_signed_v<T> ? (((s128)1 << (8 * sizeof(T) - 1)) - 1) : (((s128)1 << (8 * sizeof(T))) - 1);
  bool complete = any && all;
  bool decided = !is64 || (!ovf && mag < 0x8000000000000000ull);
  bool fits = is64 ? true : (m >= lo && m <= hi);
  Outcome got = OTHER; T val = 0; std::string what;
  try {
    Arguments a(std::vector<std::string>{std::string("--x=") + text});
    val = a.get<T>("x", static_cast<Arguments::IntFormat>(fmt));
    got = RETURNED;
  } catch (const std::invalid_argument& e) { got = INVALID_ARGUMENT; what = e.what();
  } catch (const std::out_of_range& e) { got = OUT_OF_RANGE; what = e.what();
  } catch (...) { got = OTHER; }
  printf("get<%s>(\"x\", format %u) on --x=%s %s", sizeof(T) == 1 ? (std::is_signed_v<T> ? "int8_t" : "uint8_t") : sizeof(T) == 2 ? (std::is_signed_v<T> ? "int16_t" : "uint16_t") : sizeof(T) == 4 ? (std::is_signed_v<T> ? "int32_t" : "uint32_t") : (std::is_signed_v<T> ? "int64_t" : "uint64_t"),
         fmt, show(text).c_str(), oname(got));
  if (got == RETURNED) printf(" %lld", (long long)val);
  if (!what.empty()) printf(" (%s)", what.c_str());
  printf("\n");
  RCHECK(got == RETURNED || got == INVALID_ARGUMENT, "a present argument must be returned or rejected with invalid_argument");
  if (!complete) RCHECK(got == INVALID_ARGUMENT, "the text is not one complete numeral (numeral present: %d, followed by something: %d) but the getter %s", any, !all, oname(got));
  if (complete && decided) {
    RCHECK((got == RETURNED) == fits, "the numeral %s the type but the getter %s", fits ? "fits" : "does not fit", oname(got));
    if (got == RETURNED) RCHECK(val == (T)(uint64_t)(u128)m, "returned %lld, the numeral's value is %lld", (long long)val, (long long)(T)(uint64_t)(u128)m);
  }
  printf("holds on this input\n");
  return 0;
}

template <typename T> static int parse_float_mode(const Args& A, const char* tname) {
  uint64_t endoff = A.u("in_endoff"), size = A.u("in_size"), bits = A.u("in_fval");
  unsigned char stopch = (unsigned char)A.u("in_stopch");
  double d; memcpy(&d, &bits, 8);
  bool any = endoff != 0, all = endoff == size;
  std::string text;
  if (!any) {
    text = (size == 0) ? "" : (stopch == 0 ? std::string("\0zz", 3) : std::string("zz"));
  } else {
    char b[64];
    if (std::isnan(d)) snprintf(b, sizeof b, "%snan", std::signbit(d) ? "-" : "");
    else if (std::isinf(d)) snprintf(b, sizeof b, "%sinf", d < 0 ? "-" : "");
    else snprintf(b, sizeof b, "%.17g", d);          // 17 significant digits identify a double
    text = b;
    if (!all) text += (stopch == 0) ? std::string("\0x", 2) : std::string("zz");
  }
  Outcome got = OTHER; T val = 0; std::string what;
  try {
    Arguments a(std::vector<std::string>{std::string("--x=") + text});
    val = a.get<T>("x");
    got = RETURNED;
  } catch (const std::invalid_argument& e) { got = INVALID_ARGUMENT; what = e.what();
  } catch (const std::out_of_range& e) { got = OUT_OF_RANGE; what = e.what();
  } catch (...) { got = OTHER; }
  printf("get<%s>(\"x\") on --x=%s %s", tname, show(text).c_str(), oname(got));
  if (got == RETURNED) printf(" %.17g", (double)val);
  if (!what.empty()) printf(" (%s)", what.c_str());
  printf("\n");
  bool complete = any && all;
  RCHECK((got == RETURNED) == complete, "the text %s one complete floating-point literal but the getter %s", complete ? "is" : "is not", oname(got));
  RCHECK(got == RETURNED || got == INVALID_ARGUMENT, "a present argument must be returned or rejected with invalid_argument");
  if (got == RETURNED) {
    T want = (T)d;
    RCHECK(val == want || (std::isnan(val) && std::isnan(want)), "returned %.17g, the literal denotes %.17g", (double)val, (double)want);
  }
  printf("holds on this input\n");
  return 0;
}

int main(int argc, char** argv) {
  Args A(argc, argv);
  const std::string& m = A.mode;
  if (m == "parse_int" && A.extra.size() == 1) {
    const std::string& t = A.extra[0];
    if (t == "uint8_t") return parse_int_mode<uint8_t>(A);
    if (t == "int8_t") return parse_int_mode<int8_t>(A);
    if (t == "uint16_t") return parse_int_mode<uint16_t>(A);
    if (t == "int16_t") return parse_int_mode<int16_t>(A);
    if (t == "uint32_t") return parse_int_mode<uint32_t>(A);
    if (t == "int32_t") return parse_int_mode<int32_t>(A);
    if (t == "uint64_t") return parse_int_mode<uint64_t>(A);
    if (t == "int64_t") return parse_int_mode<int64_t>(A);
  }
  if (m == "parse_float" && A.extra.size() == 1) {
    if (A.extra[0] == "float") return parse_float_mode<float>(A, "float");
    if (A.extra[0] == "double") return parse_float_mode<double>(A, "double");
  }
  fprintf(stderr, "unknown mode %s\n", m.c_str());
  return 2;
}
