/* C17: Arguments::assert_none_unused.  positional is a vector in memory (any length, any flags); the unordered_map is
 * the abstract container of stubs/C17_args.h (g_nmap entries, entry g_ni / element g_nj distinguished). */
#include "contracts/C17_args.h"
#include "x_assert_none_unused.c"

int verif_exc, verif_errno, g_base; unsigned g_ncalls;
size_t g_endoff, g_vk; bool g_neg, g_ovf; uint64_t g_mag; double g_fval;
size_t g_size, g_ck, g_nev, g_npos, g_nev0, g_npos0, g_ek;
bool g_ev_written; int g_ev_kind; const vstr* g_ev_src; size_t g_ev_koff, g_ev_klen, g_ev_toff, g_ev_tlen, g_ev_index; bool g_ev_used;
size_t g_nmap, g_ni, g_nj, g_nsz, g_pk; bool g_nused;
int g_wit_kind; size_t g_wit_i, g_wit_j; bool g_wit_used;

void h_assert_none_unused(void) {
  const Arguments* self;
  size_t in_nmap, in_ni, in_nj, in_nsz, in_pk; bool in_nused;
  g_nmap = in_nmap; g_ni = in_ni; g_nj = in_nj; g_nsz = in_nsz; g_pk = in_pk; g_nused = in_nused;
  g_wit_kind = 0; g_wit_used = 1;
  verif_exc = EXC_none;
  Arguments_assert_none_unused(self);
  VERIF_REACH();
}
