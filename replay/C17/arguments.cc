// Native replay for C17: runs the real phosg::Arguments (headers + library of the working tree, compiled by g++ with
// ASan/UBSan) on the verifier's counterexample and evaluates the property statement natively.
// exit 1 = statement violated on the real code, 0 = holds, 2 = usage.
//   driver parse_int <RetT>    in_format= in_neg= in_mag= in_ovf= in_endoff= in_size= in_stopch=
//   driver parse_float <RetT>  in_endoff= in_size= in_stopch= in_fbits=
//   driver token               g_tok=<bytes,...> in_size=
//   driver unused              in_npos= in_nnamed= in_usedmask=
//   driver split               g_t0..g_t8= in_size=
//   driver getter <which>      ...
// The abstract numeral of the proof (sign, magnitude, overflow flag, "something follows the numeral", "what follows is a
// NUL") is turned back into a concrete text in the requested base; the expected outcome is computed from the text's
// mathematical value with 128-bit arithmetic, independently of strtoull.
#include "replay/common/args.hh"
#include "Arguments.hh"
#include <cerrno>
#include <cmath>
#include <stdexcept>
#include <string>
#include <vector>
using namespace phosg;
typedef unsigned __int128 u128;
typedef __int128 s128;

static std::string show(const std::string& s) {
  std::string r = "\"";
  for (unsigned char c : s) {
    char b[8];
    if (c < 0x20 || c >= 0x7F) { snprintf(b, sizeof b, "\\x%02X", c); r += b; } else r += (char)c;
  }
  return r + "\"";
}

static std::string digits(u128 v, unsigned base) {
  if (v == 0) return "0";
  std::string r;
  while (v) { r.insert(r.begin(), "0123456789ABCDEF"[(unsigned)(v % base)]); v /= base; }
  return r;
}

// fmt: 0 DEFAULT, 1 HEX, 2 DECIMAL, 3 OCTAL (checked against the real enum below)
static std::string numeral(unsigned fmt, bool neg, uint64_t mag, bool ovf, uint64_t variant) {
  u128 m = ovf ? (((u128)1 << 64) + mag) : (u128)mag;     // any magnitude >= 2^64 is "not representable"
  std::string s = neg ? "-" : "";
  switch (fmt) {
    case 1: return s + digits(m, 16);
    case 2: return s + digits(m, 10);
    case 3: return s + digits(m, 8);
    default:
      switch (variant % 3) {                               // DEFAULT = C literal syntax: decimal | 0x hex | 0 octal
        case 1: return s + "0x" + digits(m, 16);
        case 2: return s + "0" + digits(m, 8);
        default: return s + digits(m, 10);
      }
  }
}

enum Outcome { RETURNED, INVALID_ARGUMENT, OUT_OF_RANGE, OTHER };
static const char* oname(Outcome o) { return o == RETURNED ? "returned" : o == INVALID_ARGUMENT ? "threw invalid_argument" : o == OUT_OF_RANGE ? "threw out_of_range" : "threw something else"; }

template <typename T> static const char* tname() {
  return sizeof(T) == 1 ? (std::is_signed_v<T> ? "int8_t" : "uint8_t") : sizeof(T) == 2 ? (std::is_signed_v<T> ? "int16_t" : "uint16_t")
       : sizeof(T) == 4 ? (std::is_signed_v<T> ? "int32_t" : "uint32_t") : (std::is_signed_v<T> ? "int64_t" : "uint64_t");
}

// the text the abstract scanner state stands for
static std::string int_text(const Args& A, bool& any, bool& all) {
  unsigned fmt = (unsigned)A.u("in_format");
  bool neg = A.u("in_neg") != 0, ovf = A.u("in_ovf") != 0;   // a nondet bool of the model is true for any non-zero byte
  uint64_t mag = A.u("in_mag"), endoff = A.u("in_endoff"), size = A.u("in_size");
  unsigned char stopch = (unsigned char)A.u("in_stopch");
  any = endoff != 0; all = endoff == size;
  if (!any) return (size == 0) ? std::string() : (stopch == 0 ? std::string("\0zz", 3) : std::string("zz"));
  std::string text = numeral(fmt, neg, mag, ovf, size);
  if (!all) text += (stopch == 0) ? std::string("\0x", 2) : std::string("zz");
  return text;
}

// how: 0 = get<T>("x", format) on --x=text, 1 = get<T>("x", default, format), 2 = get<T>(0, format) on the positional token,
//      3 = get<T>(0, default, format); absent: the argument is not supplied at all
template <typename T> static int int_getter_mode(const Args& A, int how, bool absent) {
  unsigned fmt = (unsigned)A.u("in_format");
  if (fmt > 3) { fprintf(stderr, "format outside the enum\n"); return 2; }
  static_assert((int)Arguments::IntFormat::DEFAULT == 0 && (int)Arguments::IntFormat::HEX == 1 &&
                (int)Arguments::IntFormat::DECIMAL == 2 && (int)Arguments::IntFormat::OCTAL == 3, "IntFormat numbering");
  bool neg = A.u("in_neg") != 0, ovf = A.u("in_ovf") != 0; uint64_t mag = A.u("in_mag");
  bool any, all;
  std::string text = int_text(A, any, all);
  bool positional = how >= 2, with_default = how & 1;
  T dflt = (T)A.u("in_default");
  if (positional && !absent && !text.empty() && text[0] == '-') { printf("a token starting with '-' is never positional: not deliverable, nothing to check\n"); return 0; }
  // the statement, from the mathematical value
  s128 m = ovf ? (s128)(((u128)1 << 64) + mag) : (s128)mag;
  if (neg) m = -m;
  const bool is64 = sizeof(T) == 8;
  s128 lo = std::is_signed_v<T> ? -((s128)1 << (8 * sizeof(T) - 1)) : 0;
  s128 hi = std::is_signed_v<T> ? (((s128)1 << (8 * sizeof(T) - 1)) - 1) : (((s128)1 << (8 * sizeof(T))) - 1);
  bool complete = any && all;
  bool decided = !is64 || (!ovf && mag < 0x8000000000000000ull);
  bool fits = is64 ? true : (m >= lo && m <= hi);
  std::vector<std::string> tokens;
  if (!absent) tokens.push_back(positional ? text : std::string("--x=") + text);
  Arguments a(tokens);
  auto F = static_cast<Arguments::IntFormat>(fmt);
  Outcome got = OTHER; T val = 0; std::string what;
  errno = (int)A.u("in_errno");                  // whatever an earlier library call left behind
  try {
    switch (how) {
      case 0: val = a.get<T>("x", F); break;
      case 1: val = a.get<T>("x", dflt, F); break;
      case 2: val = a.get<T>((size_t)0, F); break;
      default: val = a.get<T>((size_t)0, dflt, F); break;
    }
    got = RETURNED;
  } catch (const std::invalid_argument& e) { got = INVALID_ARGUMENT; what = e.what();
  } catch (const std::out_of_range& e) { got = OUT_OF_RANGE; what = e.what();
  } catch (...) { got = OTHER; }
  printf("get<%s>(%s%s, format %u) on {%s} %s", tname<T>(), positional ? "0" : "\"x\"", with_default ? ", default" : "", fmt,
         absent ? "" : show(tokens[0]).c_str(), oname(got));
  if (got == RETURNED) printf(" %lld", (long long)val);
  if (!what.empty()) printf(" (%s)", what.c_str());
  printf("\n");
  if (absent) {
    if (with_default) RCHECK(got == RETURNED && val == dflt, "the argument is absent: the supplied default %lld must be returned", (long long)dflt);
    else RCHECK(got == OUT_OF_RANGE, "the argument is absent: out_of_range expected, the getter %s", oname(got));
    printf("holds on this input\n");
    return 0;
  }
  RCHECK(got == RETURNED || got == INVALID_ARGUMENT, "a present argument must be returned or rejected with invalid_argument");
  if (!complete) RCHECK(got == INVALID_ARGUMENT, "the text is not one complete numeral (numeral present: %d, followed by something: %d) but the getter %s", any, !all, oname(got));
  if (complete && decided) {
    RCHECK((got == RETURNED) == fits, "the numeral %s the type but the getter %s", fits ? "fits" : "does not fit", oname(got));
    if (got == RETURNED) RCHECK(val == (T)(uint64_t)(u128)m, "returned %lld, the numeral's value is %lld", (long long)val, (long long)(T)(uint64_t)(u128)m);
  }
  // a delivered argument counts as read: nothing is left unused
  bool unused_throws = false;
  try { a.assert_none_unused(); } catch (const std::invalid_argument&) { unused_throws = true; }
  if (got == RETURNED) RCHECK(!unused_throws, "the only argument was delivered by the getter but assert_none_unused still throws");
  printf("holds on this input\n");
  return 0;
}
// a few texts whose value depends on the base the format names (the counterexample's numeral may read the same in two bases)
template <typename T> static int base_probe(unsigned fmt) {
  struct P { const char* text; long long val[4]; };      // value under DEFAULT, HEX, DECIMAL, OCTAL; -1 = not a numeral of that base
  static const P probes[] = {{"10", {10, 16, 10, 8}}, {"0x10", {16, 16, -1, -1}}, {"010", {8, 16, 10, 8}}, {"1f", {-1, 31, -1, -1}}, {"9", {9, 9, 9, -1}}};
  for (const P& p : probes) {
    Outcome got = OTHER; T val = 0;
    try { Arguments a(std::vector<std::string>{std::string("--x=") + p.text}); val = a.get<T>("x", static_cast<Arguments::IntFormat>(fmt)); got = RETURNED; }
    catch (const std::invalid_argument&) { got = INVALID_ARGUMENT; } catch (...) { got = OTHER; }
    long long want = p.val[fmt];
    if (want < 0) RCHECK(got == INVALID_ARGUMENT, "\"%s\" is not a numeral of the base of format %u but the getter %s", p.text, fmt, oname(got));
    else RCHECK(got == RETURNED && (long long)val == want, "\"%s\" under format %u must be %lld, the getter %s %lld", p.text, fmt, want, oname(got), (long long)val);
  }
  return 0;
}
template <typename T> static int parse_int_mode(const Args& A) {
  int r = int_getter_mode<T>(A, 0, false);
  return r ? r : base_probe<T>((unsigned)A.u("in_format"));
}

// positional: the token itself is the argument; absent: nothing supplied; in_default (has_value, value bits) for the optional
template <typename T> static int float_getter_mode(const Args& A, const char* tname, bool positional, bool absent) {
  uint64_t endoff = A.u("in_endoff"), size = A.u("in_size"), bits = A.u("in_fval");
  unsigned char stopch = (unsigned char)A.u("in_stopch");
  double d; memcpy(&d, &bits, 8);
  bool any = endoff != 0, all = endoff == size;
  std::string text;
  if (!any) {
    text = (size == 0) ? "" : (stopch == 0 ? std::string("\0zz", 3) : std::string("zz"));
  } else {
    char b[64];
    if (std::isnan(d)) snprintf(b, sizeof b, "%snan", std::signbit(d) ? "-" : "");
    else if (std::isinf(d)) snprintf(b, sizeof b, "%sinf", d < 0 ? "-" : "");
    else snprintf(b, sizeof b, "%.17g", d);          // 17 significant digits identify a double
    text = b;
    if (!all) text += (stopch == 0) ? std::string("\0x", 2) : std::string("zz");
  }
  if (positional && !absent && !text.empty() && text[0] == '-') { printf("a token starting with '-' is never positional: not deliverable, nothing to check\n"); return 0; }
  bool has_default = A.u("in_has_default") != 0;
  T dflt = (T)1.5;
  std::vector<std::string> tokens;
  if (!absent) tokens.push_back(positional ? text : std::string("--x=") + text);
  Arguments a(tokens);
  Outcome got = OTHER; T val = 0; std::string what;
  try {
    std::optional<T> od = has_default ? std::optional<T>(dflt) : std::nullopt;
    val = positional ? a.get<T>((size_t)0, od) : a.get<T>("x", od);
    got = RETURNED;
  } catch (const std::invalid_argument& e) { got = INVALID_ARGUMENT; what = e.what();
  } catch (const std::out_of_range& e) { got = OUT_OF_RANGE; what = e.what();
  } catch (...) { got = OTHER; }
  printf("get<%s>(%s%s) on {%s} %s", tname, positional ? "0" : "\"x\"", has_default ? ", 1.5" : "", absent ? "" : show(tokens[0]).c_str(), oname(got));
  if (got == RETURNED) printf(" %.17g", (double)val);
  if (!what.empty()) printf(" (%s)", what.c_str());
  printf("\n");
  if (absent) {
    if (has_default) RCHECK(got == RETURNED && val == dflt, "the argument is absent: the supplied default must be returned");
    else RCHECK(got == OUT_OF_RANGE, "the argument is absent and no default is supplied: out_of_range expected, the getter %s", oname(got));
    printf("holds on this input\n");
    return 0;
  }
  bool complete = any && all;
  RCHECK((got == RETURNED) == complete, "the text %s one complete floating-point literal but the getter %s", complete ? "is" : "is not", oname(got));
  RCHECK(got == RETURNED || got == INVALID_ARGUMENT, "a present argument must be returned or rejected with invalid_argument");
  if (got == RETURNED) {
    T want = (T)d;
    RCHECK(val == want || (std::isnan(val) && std::isnan(want)), "returned %.17g, the literal denotes %.17g", (double)val, (double)want);
  }
  bool unused_throws = false;
  try { a.assert_none_unused(); } catch (const std::invalid_argument&) { unused_throws = true; }
  if (got == RETURNED) RCHECK(!unused_throws, "the only argument was delivered by the getter but assert_none_unused still throws");
  printf("holds on this input\n");
  return 0;
}

// ---- one token through Arguments::parse ------------------------------------------------------------------------------
// The token (<= 8 bytes, g_t0..g_t8, length in_size) is parsed between two positional markers; what was recorded is observed
// through the public getters: expected reads succeed with the expected texts, in order, and nothing is left unread.
static int token_mode(const Args& A) {
  if (!A.has("g_t0")) { fprintf(stderr, "no concrete token in the counterexample (only the small re-ask carries one)\n"); return 2; }
  size_t n = A.u("in_size");
  if (n > 8) { fprintf(stderr, "token longer than the replay bound\n"); return 2; }
  std::string s;
  for (size_t i = 0; i < n; i++) { char k[8]; snprintf(k, sizeof k, "g_t%zu", i); s.push_back((char)A.u(k)); }
  printf("token %s\n", show(s).c_str());
  bool optn = n >= 3 && s[0] == '-' && s[1] == '-';
  bool flags = n >= 2 && s[0] == '-' && s[1] != '-';
  bool threw = false; std::string what;
  try {
    Arguments a(std::vector<std::string>{"first", s, "last"});
    size_t p = 0;
    bool fresh_unused = false;
    try { a.assert_none_unused(); } catch (const std::invalid_argument&) { fresh_unused = true; }
    RCHECK(fresh_unused, "nothing was read yet but assert_none_unused does not throw (arguments are born used)");
    RCHECK(a.get<std::string>(p++) == "first", "the token before is not positional 0");
    if (optn) {
      size_t eq = s.find('=', 2);
      std::string name = s.substr(2, eq == std::string::npos ? std::string::npos : eq - 2);
      std::string value = eq == std::string::npos ? "" : s.substr(eq + 1);
      auto v = a.get_multi<std::string>(name);
      RCHECK(v.size() == 1 && v[0] == value, "option %s: %zu values recorded, expected exactly the value %s", show(name).c_str(), v.size(), show(value).c_str());
    } else if (flags) {
      std::string letters = s.substr(1, s.find('\0', 1) == std::string::npos ? std::string::npos : s.find('\0', 1) - 1);
      for (size_t i = 0; i < letters.size(); i++) {
        if (letters.find(letters[i]) != i) continue;
        size_t cnt = 0; for (char c : letters) cnt += c == letters[i];
        auto v = a.get_multi<std::string>(std::string(1, letters[i]));
        RCHECK(v.size() == cnt, "flag %s recorded %zu times, it occurs %zu times in the group", show(std::string(1, letters[i])).c_str(), v.size(), cnt);
        for (auto& x : v) RCHECK(x.empty(), "a flag carries the value %s", show(x).c_str());
      }
    } else {
      RCHECK(a.get<std::string>(p++) == s, "the token is positional but positional %zu is %s", p - 1, show(a.get<std::string>(p - 1, false)).c_str());
    }
    RCHECK(a.get<std::string>(p++, false) == "last", "the token after is not the next positional argument (order / count of positional arguments is off)");
    RCHECK(a.get<std::string>(p, false).empty(), "more positional arguments than tokens");
    bool unused = false;
    try { a.assert_none_unused(); } catch (const std::invalid_argument& e) { unused = true; what = e.what(); }
    RCHECK(!unused, "after reading exactly what the token's shape yields something is still unread: %s", what.c_str());
  } catch (const std::exception& e) { threw = true; what = e.what(); }
  RCHECK(!threw, "parsing or reading the expected arguments threw: %s", what.c_str());
  printf("holds on this input\n");
  return 0;
}

// ---- assert_none_unused: bounded native search (the proof's vectors are not visible in the counterexample) -----------
// every command line of up to 2 positional tokens and the options --a (once or twice) / --b, every subset of reads
static int unused_mode() {
  const char* pos[] = {"p0", "p1"};
  for (int npos = 0; npos <= 2; npos++) for (int na = 0; na <= 2; na++) for (int nb = 0; nb <= 1; nb++) {
    std::vector<std::string> tokens;
    for (int i = 0; i < npos; i++) tokens.push_back(pos[i]);
    for (int i = 0; i < na; i++) tokens.push_back("--a=v");
    for (int i = 0; i < nb; i++) tokens.push_back("--b");
    int items = npos + (na ? 1 : 0) + nb;                 // readable units: each positional, option a (all values), option b
    for (int mask = 0; mask < (1 << items); mask++) {
      Arguments a(tokens);
      int bit = 0; bool all_read = true;
      for (int i = 0; i < npos; i++, bit++) { if (mask >> bit & 1) a.get<std::string>((size_t)i); else all_read = false; }
      if (na) { if (mask >> bit & 1) a.get_multi<std::string>("a"); else all_read = false; bit++; }
      if (nb) { if (mask >> bit & 1) a.get<bool>("b"); else all_read = false; bit++; }
      bool threw = false, other = false;
      try { a.assert_none_unused(); } catch (const std::invalid_argument&) { threw = true; } catch (...) { other = true; }
      if (other || threw == all_read) {
        printf("%d positional, --a x%d, --b x%d, read mask %#x: ", npos, na, nb, mask);
        RCHECK(!other && threw != all_read, "every argument read: %d, assert_none_unused threw invalid_argument: %d", all_read, threw);
      }
    }
  }
  printf("assert_none_unused throws iff something is unread on all %s\nholds\n", "command lines of the search");
  return 0;
}

// ---- get<std::string> / get<bool> / get_multi<std::string> on small command lines -------------------------------------
static int string_getter_mode(const Args& A, const std::string& fn) {
  bool present = A.u("in_present") != 0, tim = A.u("in_throw_if_missing") != 0;
  if (fn == "get_string_named" || fn == "get_bool" || fn == "get_values_multi") {
    for (int extra = 0; extra <= 1; extra++) {            // with / without an unrelated positional and option around it
      std::vector<std::string> tokens;
      if (extra) tokens.push_back("p0");
      if (present) tokens.push_back("--x=val");
      if (extra) tokens.push_back("--other=1");
      Arguments a(tokens);
      Outcome got = OTHER; std::string val; bool b = false; size_t cnt = 0;
      try {
        if (fn == "get_string_named") val = a.get<std::string>("x", tim);
        else if (fn == "get_bool") b = a.get<bool>("x");
        else { auto v = a.get_multi<std::string>("x"); cnt = v.size(); if (cnt) val = v[0]; }
        got = RETURNED;
      } catch (const std::out_of_range&) { got = OUT_OF_RANGE; } catch (const std::invalid_argument&) { got = INVALID_ARGUMENT; } catch (...) { got = OTHER; }
      printf("%s(\"x\"%s) with --x %s: %s\n", fn.c_str(), fn == "get_string_named" ? (tim ? ", true" : ", false") : "", present ? "given" : "absent", oname(got));
      if (fn == "get_string_named") {
        if (present) RCHECK(got == RETURNED && val == "val", "the option is given once: its text must be returned");
        else if (tim) RCHECK(got == OUT_OF_RANGE, "absent and throw_if_missing: out_of_range expected");
        else RCHECK(got == RETURNED && val.empty(), "absent: the empty string expected");
      } else if (fn == "get_bool") {
        RCHECK(got == RETURNED && b == present, "get<bool> must be true iff the option is given, without throwing");
      } else {
        RCHECK(got == RETURNED && cnt == (present ? 1u : 0u) && (!present || val == "val"), "get_multi must deliver exactly the given values");
      }
      // marks exactly what it read
      if (extra) { a.get<std::string>((size_t)0); a.get<std::string>("other"); }
      bool unused = false;
      try { a.assert_none_unused(); } catch (const std::invalid_argument&) { unused = true; }
      RCHECK(!unused, "everything was read but assert_none_unused throws");
      if (extra) {
        Arguments c(tokens);
        try { if (fn == "get_string_named") c.get<std::string>("x", tim); else if (fn == "get_bool") c.get<bool>("x"); else c.get_multi<std::string>("x"); } catch (...) {}
        bool u2 = false;
        try { c.assert_none_unused(); } catch (const std::invalid_argument&) { u2 = true; }
        RCHECK(u2, "only --x was read, the other arguments must still count as unread");
      }
    }
    printf("holds on this input\n");
    return 0;
  }
  if (fn == "get_string_pos") {
    size_t position = A.u("in_position") > 3 ? 3 : A.u("in_position");
    for (size_t n = 0; n <= 3; n++) {
      std::vector<std::string> tokens;
      for (size_t i = 0; i < n; i++) tokens.push_back("p" + std::to_string(i));
      Arguments a(tokens);
      Outcome got = OTHER; std::string val;
      try { val = a.get<std::string>(position, tim); got = RETURNED; }
      catch (const std::out_of_range&) { got = OUT_OF_RANGE; } catch (...) { got = OTHER; }
      printf("get<string>(%zu, %d) with %zu positional arguments: %s %s\n", position, tim, n, oname(got), show(val).c_str());
      if (position < n) RCHECK(got == RETURNED && val == "p" + std::to_string(position), "the positional argument must be returned");
      else if (tim) RCHECK(got == OUT_OF_RANGE, "absent and throw_if_missing: out_of_range expected");
      else RCHECK(got == RETURNED && val.empty(), "absent: the empty string expected");
      for (size_t i = 0; i < n; i++) if (i != position) {
        bool u = false;
        try { a.assert_none_unused(); } catch (const std::invalid_argument&) { u = true; }
        RCHECK(u, "positional %zu was not read yet but assert_none_unused does not throw", i);
        a.get<std::string>(i);
      }
      bool u = false;
      try { a.assert_none_unused(); } catch (const std::invalid_argument&) { u = true; }
      RCHECK(!u, "every positional argument was read but assert_none_unused throws");
    }
    printf("holds on this input\n");
    return 0;
  }
  return 2;
}

// ---- get_multi: bounded native search over small value lists ---------------------------------------------------------
template <typename T> static bool gm_case(const std::vector<std::string>& vals, const char* tn) {
  std::vector<std::string> tokens{"p0"};
  for (auto& v : vals) tokens.push_back("--x=" + v);
  Arguments a(tokens);
  a.get<std::string>((size_t)0);
  std::vector<T> got; Outcome o = OTHER;
  try { got = a.template get_multi<T>("x"); o = RETURNED; }
  catch (const std::invalid_argument&) { o = INVALID_ARGUMENT; } catch (const std::out_of_range&) { o = OUT_OF_RANGE; } catch (...) { o = OTHER; }
  // reference: each text on its own through the single-value getter
  std::vector<T> want; bool bad = false;
  for (auto& v : vals) {
    try { Arguments s(std::vector<std::string>{"--x=" + v}); want.push_back(s.template get<T>("x")); } catch (const std::invalid_argument&) { bad = true; break; }
  }
  printf("get_multi<%s>(\"x\") on %zu values: %s, %zu results\n", tn, vals.size(), oname(o), got.size());
  if (bad) { if (o != INVALID_ARGUMENT) { printf("POSTCONDITION VIOLATED on the real code: an invalid value must stop get_multi with invalid_argument\n"); return false; } return true; }
  if (o != RETURNED || got.size() != want.size()) { printf("POSTCONDITION VIOLATED on the real code: one result per value expected\n"); return false; }
  for (size_t i = 0; i < want.size(); i++) if (!(got[i] == want[i])) { printf("POSTCONDITION VIOLATED on the real code: result %zu differs from the value in position %zu\n", i, i); return false; }
  bool unused = false;
  try { a.assert_none_unused(); } catch (const std::invalid_argument&) { unused = true; }
  if (unused) { printf("POSTCONDITION VIOLATED on the real code: every value was delivered but assert_none_unused throws\n"); return false; }
  return true;
}
template <typename T> static int get_multi_mode(const char* tn, bool numeric) {
  std::vector<std::vector<std::string>> cases = {{}, {"1"}, {"1", "2"}, {"3", "2", "1"}, {"7", "7"}};
  if (numeric) { cases.push_back({"1", "zz", "3"}); cases.push_back({"zz"}); cases.push_back({"1", "2", "3x"}); }
  else { cases.push_back({"", "a b", "="}); }
  for (auto& c : cases) if (!gm_case<T>(c, tn)) return 1;
  printf("holds on the search set\n");
  return 0;
}

// ---- split_args on a short command line (g_t0..g_t8, length in_size) --------------------------------------------------
static int split_mode(const Args& A) {
  if (!A.has("g_t0")) { fprintf(stderr, "no concrete command line in the counterexample (only the small re-ask carries one)\n"); return 2; }
  size_t n = A.u("in_size");
  if (n > 8) return 2;
  std::string s;
  for (size_t i = 0; i < n; i++) { char k[8]; snprintf(k, sizeof k, "g_t%zu", i); s.push_back((char)A.u(k)); }
  bool plain = true;
  for (char c : s) plain = plain && c != '"' && c != '\'' && c != '\\' && c != 0;
  std::vector<std::string> got; Outcome o = OTHER;
  try { got = split_args(s); o = RETURNED; } catch (const std::runtime_error&) { o = INVALID_ARGUMENT; } catch (...) { o = OTHER; }
  printf("split_args(%s): %s, %zu tokens\n", show(s).c_str(), o == RETURNED ? "returned" : o == INVALID_ARGUMENT ? "threw runtime_error" : "threw something else", got.size());
  RCHECK(o != OTHER, "split_args may only throw runtime_error");
  if (plain) {
    std::vector<std::string> want;
    for (size_t i = 0; i < s.size(); i++) {
      bool blank = s[i] == ' ' || s[i] == '\t';
      if (blank) continue;
      if (i == 0 || s[i - 1] == ' ' || s[i - 1] == '\t') want.emplace_back();
      want.back().push_back(s[i]);
    }
    RCHECK(o == RETURNED, "a command line without quotes and backslashes must not throw");
    RCHECK(got == want, "the tokens are not the maximal non-blank runs (%zu tokens, %zu words)", got.size(), want.size());
  }
  printf("holds on this input\n");
  return 0;
}

template <typename T> static int typed_int(const Args& A, const std::string& fn, bool positional, bool absent) {
  return int_getter_mode<T>(A, (positional ? 2 : 0) + (fn == "get_int_default" ? 1 : 0), absent);
}

int main(int argc, char** argv) {
  Args A(argc, argv);
  const std::string& m = A.mode;
  if (m == "parse_int" && A.extra.size() == 1) {
    const std::string& t = A.extra[0];
    if (t == "uint8_t") return parse_int_mode<uint8_t>(A);
    if (t == "int8_t") return parse_int_mode<int8_t>(A);
    if (t == "uint16_t") return parse_int_mode<uint16_t>(A);
    if (t == "int16_t") return parse_int_mode<int16_t>(A);
    if (t == "uint32_t") return parse_int_mode<uint32_t>(A);
    if (t == "int32_t") return parse_int_mode<int32_t>(A);
    if (t == "uint64_t") return parse_int_mode<uint64_t>(A);
    if (t == "int64_t") return parse_int_mode<int64_t>(A);
  }
  if (m == "parse_float" && A.extra.size() == 1) {
    if (A.extra[0] == "float") return float_getter_mode<float>(A, "float", false, false);
    if (A.extra[0] == "double") return float_getter_mode<double>(A, "double", false, false);
  }
  if (m == "token") return token_mode(A);
  if (m == "unused") return unused_mode();
  if (m == "split") return split_mode(A);
  if (m == "getter" && A.extra.size() == 1) return string_getter_mode(A, A.extra[0]);
  if (m == "getter" && A.extra.size() == 2 && A.extra[0] == "get_multi") {
    if (A.extra[1] == "std::string") return get_multi_mode<std::string>("std::string", false);
    if (A.extra[1] == "int32_t") return get_multi_mode<int32_t>("int32_t", true);
    if (A.extra[1] == "uint8_t") return get_multi_mode<uint8_t>("uint8_t", true);
    if (A.extra[1] == "double") return get_multi_mode<double>("double", true);
  }
  if (m == "getter" && A.extra.size() == 4) {
    const std::string &fn = A.extra[0], &t = A.extra[1];
    bool positional = A.extra[2] == "position", absent = A.extra[3] == "absent";
    if (fn == "get_float") {
      if (t == "float") return float_getter_mode<float>(A, "float", positional, absent);
      if (t == "double") return float_getter_mode<double>(A, "double", positional, absent);
    } else {
      if (t == "uint8_t") return typed_int<uint8_t>(A, fn, positional, absent);
      if (t == "int8_t") return typed_int<int8_t>(A, fn, positional, absent);
      if (t == "uint16_t") return typed_int<uint16_t>(A, fn, positional, absent);
      if (t == "int16_t") return typed_int<int16_t>(A, fn, positional, absent);
      if (t == "uint32_t") return typed_int<uint32_t>(A, fn, positional, absent);
      if (t == "int32_t") return typed_int<int32_t>(A, fn, positional, absent);
      if (t == "uint64_t") return typed_int<uint64_t>(A, fn, positional, absent);
      if (t == "int64_t") return typed_int<int64_t>(A, fn, positional, absent);
    }
  }
  fprintf(stderr, "unknown mode %s\n", m.c_str());
  return 2;
}
