/* C08: strip_* templates (StrT = std::string), starts_with, ends_with. */
#include "harness/C08/common.h"
#include "contracts/C08_strip.h"
#include "x_strip.c"
#define HSTRIP(name) void h_##name(void) { vstr* s; IN_GHOSTS; name(s); VERIF_REACH(); }
HSTRIP(strip_trailing_zeroes) HSTRIP(strip_trailing_whitespace) HSTRIP(strip_leading_whitespace) HSTRIP(strip_whitespace)
void h_starts_with(void) { const vstr* s; const vstr* t; IN_GHOSTS; starts_with(s, t); VERIF_REACH(); }
void h_ends_with(void) { const vstr* s; const vstr* t; IN_GHOSTS; ends_with(s, t); VERIF_REACH(); }
