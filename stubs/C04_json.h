/* C04: trusted C model of the JSON value and of the std::string / <cctype> operations that JSON::serialize, JSON::escape_string
 * and the scalar branches of JSON::parse use (DESIGN.md 3.2).  TRUSTED BASE.
 *
 * JSON::value is std::variant<nullptr_t, bool, int64_t, double, string, list_type, dict_type>; the order of the alternatives is
 * read from src/JSON.hh on every run (props/C04.py:value_model) and must be the one of the JK_* constants below.  A value is
 * modelled as its alternative index plus one payload field per scalar alternative; holds_alternative<T>(v) is `kind == JK_T`,
 * get<T>(v) the field.  Lists / dicts are abstracted further (element count, opaque children) where they occur. */
#ifndef STUBS_C04_JSON_H
#define STUBS_C04_JSON_H
#include "stubs/vstr.h"

enum { JK_nullptr_t = 0, JK_bool = 1, JK_int64_t = 2, JK_double = 3, JK_string = 4, JK_list_type = 5, JK_dict_type = 6 };
typedef struct { int kind; bool b; int64_t i; double f; vstr s; size_t n; } JSONV;

#define JSONV_HOLDS(self, T) ((self)->kind == JK_##T)
#define JSONV_GET_bool(self) ((self)->b)
#define JSONV_GET_int64_t(self) ((self)->i)
#define JSONV_GET_double(self) ((self)->f)
#define JSONV_GET_string(self) (&(self)->s)

/* `ret = x;` in JSON::parse: converting constructor JSON(T) followed by move assignment */
static inline void JSONV_set_null(JSONV* r) { r->kind = JK_nullptr_t; }
static inline void JSONV_set_bool(JSONV* r, bool x) { r->kind = JK_bool; r->b = x; }
static inline void JSONV_set_int(JSONV* r, int64_t x) { r->kind = JK_int64_t; r->i = x; }     /* JSON(int64_t) / JSON(T integral) : static_cast<int64_t> */
static inline void JSONV_set_float(JSONV* r, double x) { r->kind = JK_double; r->f = x; }
static inline void JSONV_set_string(JSONV* r, const vstr* x) { r->kind = JK_string; r->s = *x; }   /* JSON(string&&): same characters */

/* `ret = JSON::list();` / `ret.emplace_back(v)` / `ret = JSON::dict();` / `ret.emplace(key, v)`: containers are abstracted to their
 * element count.  unordered_map::emplace inserts iff the key is not present yet; the harnesses only feed pairwise distinct keys
 * (the keys of the serialised dictionary), so every emplace inserts. */
static inline void JSONV_set_list(JSONV* r) { r->kind = JK_list_type; r->n = 0; }
static inline void JSONV_list_emplace_back(JSONV* r, const JSONV* v) { (void)v; r->n++; }
static inline void JSONV_set_dict(JSONV* r) { r->kind = JK_dict_type; r->n = 0; }
static inline void JSONV_dict_emplace(JSONV* r, const vstr* key, const JSONV* v) { (void)key; (void)v; r->n++; }
#define JSONV_GET_list_type(self) ((self)->n)
#define JSONV_GET_dict_type(self) ((self)->n)

/* ---- std::string ------------------------------------------------------------------------------------------------- */
#define VSTR_NPOS ((size_t)-1)
/* s += "literal" / s = "literal" / return "literal": appends the characters of a NUL-terminated literal of at most 8 characters
 * (loop-free so that it can be used under loop contracts) */
static inline void C04_append_lit(vstr* s, const char* lit)
{
  if (!lit[0]) return; vstr_push_back(s, lit[0]);
  if (!lit[1]) return; vstr_push_back(s, lit[1]);
  if (!lit[2]) return; vstr_push_back(s, lit[2]);
  if (!lit[3]) return; vstr_push_back(s, lit[3]);
  if (!lit[4]) return; vstr_push_back(s, lit[4]);
  if (!lit[5]) return; vstr_push_back(s, lit[5]);
  if (!lit[6]) return; vstr_push_back(s, lit[6]);
  if (!lit[7]) return; vstr_push_back(s, lit[7]);
  __CPROVER_assert(!lit[8], "C04_append_lit: literal longer than the model supports");
}
static inline void C04_assign_lit(vstr* s, const char* lit) { s->size = 0; C04_append_lit(s, lit); }
/* s.find(c): position of the first c, npos when there is none (loop: only used in bounded groups) */
static inline size_t C04_find_c(const vstr* s, char c)
{
  for (size_t i = 0; i < s->size; i++) {
    if (s->data[i] == c) return i;
  }
  return VSTR_NPOS;
}

/* ---- <cctype>, "C" locale (ISO C 7.4.1.5, 7.4.1.12) ---------------------------------------------------------------- */
static inline int C04_isdigit(int c) { return c >= '0' && c <= '9'; }
static inline int C04_isxdigit(int c) { return (c >= '0' && c <= '9') || (c >= 'A' && c <= 'F') || (c >= 'a' && c <= 'f'); }

#endif
