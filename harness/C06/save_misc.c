/* C06: PNG scan-line block, COLOR_PPM saver, PPM save -> load lemma (-DC06_DIM -DC06_ALPHA [-DC06_CW] [-DC06_LEMMA]). */
#include "contracts/C06_save.h"
#ifdef C06_LEMMA
#include "contracts/C06_ppm.h"
#include "x_ppm_load.c"
#endif
#include "x_save_misc.c"

int verif_exc;

size_t g_zb_arg, g_zb_ret, g_z_len, g_z_out, g_chunk_size; const void* g_z_src; const void* g_chunk_data; int g_z_ret, g_chunk_calls;
void h_png_idat(void) {
  const Image* self; void* image_data; size_t in_image_size;
  g_chunk_calls = 0; g_zb_arg = 0; g_zb_ret = 0; verif_exc = 0;
  Image_save_png_idat(self, image_data, in_image_size);
  VERIF_REACH();
}

void h_png_scanlines(void) {
  uint8_t in_x, in_y, in_c, in_w, in_h; /* narrow, see ppm_load.c */
  uint8_t in_v;
  g_x = in_x; g_y = in_y; g_c = in_c; g_w = in_w; g_h = in_h; g_pv = in_v;
  g_mk = g_x * C06_PS(C06_ALPHA) + g_c;
  const Image* self;
  void** out_image_data;
  size_t* out_image_size;
  Image_save_png_scanlines(self, out_image_data, out_image_size);
  VERIF_REACH();
}

#ifdef C06_CW
void h_ppm_save(void) {
  size_t in_k, in_wk;
  uint8_t in_w, in_h;
  uint8_t in_v;
  g_k = in_k; g_wk = in_wk; g_w = in_w; g_h = in_h; g_pv = in_v;
  const Image* self;
  Image_save_ppm(self);
  VERIF_REACH();
}
#endif

#ifdef C06_LEMMA
/* save as colour PPM, then load the sample array that was saved (both calls replaced by their contracts). The text header is
 * NOT modelled: the loader is started with the width / height / maxval / tuple type of the saved image. */
void l_ppm_roundtrip(void) {
  size_t in_k, in_wk;
  uint8_t in_w, in_h;
  verif_exc = 0;
  g_wpos = 0; g_wcalls = 0; g_wseen = 0; g_fpos = 0; g_reads = 0; g_alloc = 0; g_freed = 0;
  size_t B = C06_CW / 8, C = C06_PS(C06_ALPHA);
  if (!(1 <= in_w && in_w <= C06_DIM && 1 <= in_h && in_h <= C06_DIM && in_k < (size_t)in_w * in_h * C * B)) return;
  Image* a = malloc(sizeof(Image));
  Image* b = malloc(sizeof(Image));
  if (!a || !b) return;
  a->width = in_w; a->height = in_h; a->has_alpha = C06_ALPHA; a->channel_width = C06_CW;
  a->data.raw = malloc((size_t)in_w * in_h * C * B);
  if (!a->data.raw) return;
  g_w = in_w; g_h = in_h; g_k = in_k;
  g_pv = ((const uint8_t*)a->data.raw)[g_k];
  g_wk = in_wk;
  Image_save_ppm(a);
  if (in_wk != g_first_size + in_k) return; /* case selection: the symbolic output position is byte k of the sample array */
  __CPROVER_assert(g_wseen && g_wv == g_pv, "byte k was emitted after the header");
  /* loader ghosts: sample k / B, i.e. channel (k / B) % C of pixel (k / B) / C; file byte k holds what was emitted */
  g_P = (in_k / B) / C;
  g_c = (in_k / B) % C;
  g_bk = in_k;
  g_bv = g_wv;
  Image_load_ppm_tail(b, (FILE*)0, Format_COLOR_PPM, in_w, in_h, C06_ALPHA, C06_CW, a->max_value);
  __CPROVER_assert(verif_exc == 0 || verif_exc == EXC_io_error || verif_exc == EXC_runtime_error || verif_exc == EXC_bad_alloc, "only a short file or a failed allocation reject it");
  if (verif_exc == 0) {
    __CPROVER_assert(b->width == a->width && b->height == a->height && b->has_alpha == a->has_alpha && b->channel_width == a->channel_width &&
                     b->max_value == a->max_value, "dimensions, alpha flag, channel width reproduced");
    __CPROVER_assert(g_first_size + g_fpos == g_wpos, "the loader consumes exactly the emitted sample array");
    __CPROVER_assert(((const uint8_t*)b->data.raw)[in_k] == g_pv, "byte k of the buffer reproduced");
  }
  VERIF_REACH();
}
#endif
