/* C03 side-car contracts for the explicit specialisations bswap<ArgT, ResultT> (renamed bswap__ArgT__ResultT). */
#ifndef C03_SPEC_H
#define C03_SPEC_H
static inline uint8_t bswap__uint8_t__uint8_t(uint8_t v) __CPROVER_ensures(__CPROVER_return_value == v) __CPROVER_assigns();
static inline int8_t bswap__int8_t__int8_t(int8_t v) __CPROVER_ensures(__CPROVER_return_value == v) __CPROVER_assigns();
static inline uint16_t bswap__uint16_t__uint16_t(uint16_t v) __CPROVER_ensures(__CPROVER_return_value == REV16(v)) __CPROVER_assigns();
static inline int16_t bswap__int16_t__int16_t(int16_t v) __CPROVER_ensures((uint16_t)__CPROVER_return_value == REV16((uint16_t)v)) __CPROVER_assigns();
static inline uint32_t bswap__uint32_t__uint32_t(uint32_t v) __CPROVER_ensures(__CPROVER_return_value == REV32(v)) __CPROVER_assigns();
static inline int32_t bswap__int32_t__int32_t(int32_t v) __CPROVER_ensures((uint32_t)__CPROVER_return_value == REV32((uint32_t)v)) __CPROVER_assigns();
static inline uint64_t bswap__uint64_t__uint64_t(uint64_t v) __CPROVER_ensures(__CPROVER_return_value == REV64(v)) __CPROVER_assigns();
static inline int64_t bswap__int64_t__int64_t(int64_t v) __CPROVER_ensures((uint64_t)__CPROVER_return_value == REV64((uint64_t)v)) __CPROVER_assigns();
static inline uint32_t bswap__float__uint32_t(float v) __CPROVER_ensures(__CPROVER_return_value == REV32(F2U(v))) __CPROVER_assigns();
static inline float bswap__uint32_t__float(uint32_t v) __CPROVER_ensures(F2U(__CPROVER_return_value) == REV32(v)) __CPROVER_assigns();
static inline uint64_t bswap__double__uint64_t(double v) __CPROVER_ensures(__CPROVER_return_value == REV64(D2U(v))) __CPROVER_assigns();
static inline double bswap__uint64_t__double(uint64_t v) __CPROVER_ensures(D2U(__CPROVER_return_value) == REV64(v)) __CPROVER_assigns();
#endif
