/* C14 side-car contracts: basename / dirname.  Specification source: the property statement,
 * "dirname(p) + '/' + basename(p) = p for any path containing a slash" -- proved as a lemma over these two contracts
 * (harness/C14/path.c).  Path description: see stubs/C14_str.h (g_ls = position of the last '/', or C14_NPOS). */
#ifndef C14_PATH_CONTRACTS_H
#define C14_PATH_CONTRACTS_H
#include "stubs/C14_str.h"
#define PATH_REQ \
  __CPROVER_requires(verif_exc == 0) \
  __CPROVER_requires(__CPROVER_is_fresh(filename, sizeof(vstr))) \
  __CPROVER_requires(filename->size <= filename->cap && filename->cap <= 0x10000000000ull && filename->size == g_plen) \
  __CPROVER_requires(__CPROVER_is_fresh(filename->data, filename->cap)) \
  __CPROVER_requires(g_ls == C14_NPOS || (g_ls < filename->size && filename->data[g_ls] == '/')) \
  __CPROVER_requires((g_pk < filename->size && (g_ls == C14_NPOS || g_pk > g_ls)) ==> filename->data[g_pk] != '/') \
  __CPROVER_requires(__CPROVER_is_fresh(ret, sizeof(vstr))) \
  __CPROVER_requires(ret->size == 0 && ret->cap <= VSTR_MAXCAP && ret->cap >= filename->size) \
  __CPROVER_requires(__CPROVER_is_fresh(ret->data, ret->cap))

/* everything after the last '/', the whole path if there is none */
void phosg_basename(vstr* ret, const vstr* filename)
PATH_REQ
__CPROVER_ensures(verif_exc == 0)
__CPROVER_ensures(ret->size == (g_ls == C14_NPOS ? filename->size : filename->size - g_ls - 1))
__CPROVER_ensures(g_vk < ret->size ==> ret->data[g_vk] == filename->data[filename->size - ret->size + g_vk])
__CPROVER_assigns(verif_exc, ret->size, __CPROVER_object_whole(ret->data));

/* everything before the last '/', empty if there is none */
void phosg_dirname(vstr* ret, const vstr* filename)
PATH_REQ
__CPROVER_ensures(verif_exc == 0)
__CPROVER_ensures(ret->size == (g_ls == C14_NPOS ? 0 : g_ls))
__CPROVER_ensures(g_vk < ret->size ==> ret->data[g_vk] == filename->data[g_vk])
__CPROVER_assigns(verif_exc, ret->size, __CPROVER_object_whole(ret->data));
#endif
