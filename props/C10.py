"""C10 -- hashes equal their definitions and chain (DESIGN.md section 4, C10)."""
import re

from vf import lex
from vf.extract import Source, Unit
from vf.lex import Rule, ExtractionBreak
from vf.pipeline import Group, Replay

ID = 'C10'
LEVEL = 'proof'

HCC = 'src/Hash.cc'
HHH = 'src/Hash.hh'
ENC = 'src/Encoding.hh'
RP = dict(driver='C10/hash.cc', sources=['src/Hash.cc', 'src/Strings.cc'])

# ------------------------------------------------------------------------------------------------------------------
# CRC-32, FNV-1a
# ------------------------------------------------------------------------------------------------------------------
def fold_unit(ctx, src):
    u = Unit(ctx, 'Hash_fold')
    u.raw('#include <stdint.h>\n#include <stddef.h>\n')
    u.table_generator = None
    try:
        table = u.snippet(src, HCC, r'static const uint32_t crc32_table\[0x100\] = \{[^{}]*\};')
        u.raw(table + '\n#define C10_TABLE_INIT()')
        u.functions.append({'file': HCC, 'cxx_header': 'static const uint32_t crc32_table[0x100]', 'c_header': 'static const uint32_t crc32_table[0x100]', 'line': 18})
    except ExtractionBreak:
        # the table may also be computed: `static const(expr) array<uint32_t, 0x100> crc32_table = GENERATOR();` -- the generator function is
        # extracted and run at the start of every harness that uses the table (its constant-bound loops are unwound completely)
        gen = u.snippet(src, HCC, r'static (?:constexpr|const) array<uint32_t, 0x100> crc32_table = (\w+)\(\);', group=1)
        u.raw('static uint32_t crc32_table[0x100];')
        u.function(src, HCC, r'static (?:constexpr |const )?array<uint32_t, 0x100> %s\(\)' % gen, new_header='static void %s(void)' % gen, must_loops=False,
                   rules=[Rule(r'\barray<uint32_t, 0x100> (\w+)(?:\{\})?;', r'uint32_t \1[0x100] = {0};', count=1, regex=True),
                          Rule(r'\breturn (\w+);', r'{ __CPROVER_array_copy(crc32_table, \1); return; }', count=1, regex=True)])
        u.raw('#define C10_TABLE_INIT() %s()' % gen)
        u.table_generator = gen
    # default arguments (the one-argument forms of the property): crc32(.., cs = 0), fnv1a32(.., hash = FNV1A32_START)
    u.raw('#define X_CRC32_DEFAULT_SEED (%s)' % u.snippet(src, HHH, r'uint32_t crc32\(const void\* vdata, size_t size, uint32_t cs = ([^,;()]+)\);', group=1))
    u.raw('#define X_FNV1A32_START (%s)' % u.snippet(src, HHH, r'constexpr uint32_t FNV1A32_START = ([^;]+);', group=1))
    u.raw('#define X_FNV1A64_START (%s)' % u.snippet(src, HHH, r'constexpr uint64_t FNV1A64_START = ([^;]+);', group=1))
    u.raw('#define FNV1A32_START X_FNV1A32_START\n#define FNV1A64_START X_FNV1A64_START    /* the header constants, for function bodies that name them */')
    for w in ('32', '64'):
        # the default seed of both overloads of each width, as written in the header (the lemma groups decide that it is the offset basis)
        d1 = u.snippet(src, HHH, r'uint%s_t fnv1a%s\(const void\* data, size_t size, uint%s_t hash = ([^,;()]+)\);' % (w, w, w), group=1).strip()
        d2 = u.snippet(src, HHH, r'uint%s_t fnv1a%s\(const std::string& data, uint%s_t hash = ([^,;()]+)\);' % (w, w, w), group=1).strip()
        c = lambda e: 'X_FNV1A%s_START' % w if e == 'FNV1A%s_START' % w else e
        u.raw('#define X_FNV1A%s_DEFAULT (%s)\n#define X_FNV1A%s_DEFAULT_STR (%s)' % (w, c(d1), w, c(d2)))
    u.function(src, HCC, r'uint32_t crc32\(const void\* vdata, size_t size, uint32_t cs\)',
               body_prefix=' g_i = 0; ',
               rules=[LoopGhost(1,
                      'C10_CRC32_TABLE_ENTRY(g_t, C10_CRC32_INDEX(g_crc, ((const uint8_t*)vdata)[g_i])); '
                      'g_crc = C10_CRC32_UPDATE(g_crc, g_t); g_i++; g_n++;')],
               loops={1: '__CPROVER_assigns(offset, cs, g_crc, g_t, g_i, g_n)\n'
                         '__CPROVER_loop_invariant(offset <= size && g_i == offset && g_n == __CPROVER_loop_entry(g_n) + offset)\n'
                         '__CPROVER_loop_invariant(cs == g_crc)\n'
                         '__CPROVER_decreases(size - offset)'}, nloops=1)
    for w in ('32', '64'):
        u.function(src, HCC, r'uint%s_t fnv1a%s\(const void\* data, size_t size, uint%s_t hash\)' % (w, w, w),
                   body_prefix=' g_i = 0; ',
                   rules=[LoopGhost(1,
                          'g_h%s = C10_FNV1A%s_STEP(g_h%s, ((const uint8_t*)data)[g_i]); g_i++; g_n++;' % (w, w, w))],
                   loops={1: '__CPROVER_assigns(data_ptr, hash, g_h%s, g_i, g_n)\n'
                             '__CPROVER_loop_invariant(g_i <= size && data_ptr == ((const uint8_t*)data) + g_i && g_n == __CPROVER_loop_entry(g_n) + g_i)\n'
                             '__CPROVER_loop_invariant(hash == g_h%s)\n'
                             '__CPROVER_decreases(size - g_i)' % (w, w)}, nloops=1)
    # std::string overloads: forward data() / size() (the string is modelled by the two values the code reads)
    u.function(src, HCC, r'uint32_t fnv1a32\(const std::string& data, uint32_t hash\)',
               new_header='uint32_t fnv1a32_str(const C10_str* data, uint32_t hash)',
               rules=[Rule('data.data()', 'data->data', count=1), Rule('data.size()', 'data->size', count=1)])
    u.function(src, HCC, r'uint64_t fnv1a64\(const string& data, uint64_t hash\)',
               new_header='uint64_t fnv1a64_str(const C10_str* data, uint64_t hash)',
               rules=[Rule('data.data()', 'data->data', count=1), Rule('data.size()', 'data->size', count=1)])
    return u


def fold_groups(ctx, gen=None):
    H = 'harness/C10/fold.c'
    gs = []

    def G(name, entry, function, **kw):
        kw.setdefault('replay', Replay(mode=function, **RP))
        if gen and 'crc32' in name:
            # a computed table: the generator's loops have constant bounds (256 entries x 8 bit steps) and are unwound completely
            kw['cbmc_flags'] = list(kw.get('cbmc_flags', [])) + ['--unwindset', '%s.0:258,%s.1:258' % (gen, gen), '--unwinding-assertions']
        g = Group(name=name, harness=H, entry=entry, function=function, **kw)
        gs.append(g)
        return g
    G('Hash.crc32_table.bit-serial-division', 'l_crc32_table', 'crc32', kind='lemma',
      clause_note='crc32_table[i] == RFC 1952 make_crc_table entry i (8 bit-serial steps with 0xedb88320), symbolic i in 0..255')
    G('Hash.crc32', 'h_crc32', 'crc32', enforce='crc32', loops=True, kind='loop-contract', min_post=2,
      clause_note='contracts/C10_fold.h: result == RFC 1952 update_crc(seed, buf, size), spec run advanced in lock-step')
    G('Hash.crc32.default-seed', 'l_crc32_default', 'crc32', replace=['crc32'], kind='lemma')
    G('Hash.crc32.chain', 'l_crc32_chain', 'crc32', replace=['crc32'], kind='lemma', min_post=3,
      clause_note='crc32(b, seed = crc32(a, s)) continues the specification run of a over b: result of a||b')
    for w in ('32', '64'):
        f = 'fnv1a' + w
        g = G('Hash.%s' % f, 'h_' + f, f, enforce=f, loops=True, kind='loop-contract', min_post=2,
              clause_note='contracts/C10_fold.h: result == FNV-1a recurrence hash = (hash ^ octet) * FNV_Prime over the buffer')
        g.first, g.stage1, g.engines = 'cadical', 90, ['cadical', 'cvc5']   # one 32/64-bit multiplier pair: cadical 8-20 s, minisat > 80 s
        G('Hash.%s.default-seed' % f, 'l_%s_default' % f, f, replace=[f], kind='lemma')
        G('Hash.%s.chain' % f, 'l_%s_chain' % f, f, replace=[f], kind='lemma', min_post=3)
        G('Hash.%s[std::string]' % f, 'h_%s_str' % f, f + '(const std::string&, seed)', enforce=f + '_str', replace=[f], min_post=2,
          replay=Replay(mode=f, **RP))
    return gs


class LoopGhost:
    """Rule-like object: ghost statements at the body start of loop number `ordinal` (textual order of for/while in the
    text being rewritten).  Independent of the wording of the loop header, so a change of the header is seen by the
    verifier instead of breaking the extraction.  Must fire exactly once (else ExtractionBreak)."""

    def __init__(self, ordinal, ghost):
        self.ordinal, self.ghost = ordinal, ghost
        if re.search(r'\b(for|while|do)\b', ghost):
            raise ValueError('ghost text must not contain loops')

    def apply(self, text, where=''):
        loops = lex.find_loops(text)
        if not (1 <= self.ordinal <= len(loops)):
            raise ExtractionBreak('%s: ghost for loop %d but only %d loops found' % (where, self.ordinal, len(loops)))
        kind, pos = loops[self.ordinal - 1]
        m = lex.mask(text)
        j = pos
        while j < len(m) and m[j] in ' \t\r\n':
            j += 1
        if kind == 'do' or j >= len(m) or m[j] != '{':
            raise ExtractionBreak('%s: loop %d has no brace body' % (where, self.ordinal))
        return text[:j + 1] + ' ' + self.ghost + ' ' + text[j + 1:]


def at_start(ghost):
    return Rule(r'\A\{', lambda m: '{ ' + ghost + ' ', count=1, regex=True)


def at_end(ghost):
    return Rule(r'\}\s*\Z', lambda m: ' ' + ghost + ' }', count=1, regex=True)


def conj(fmt, n, sep=' && '):
    return sep.join(fmt.format(i=i) for i in range(n))


# ghost statements shared by the three block functions: record the byte of the padded message at ghost position g_k,
# count the block, start the standard's working variables from the chaining value
def block_prefix(blk, nw, sched):
    s = ('g_seen = ((g_k >> 6) == g_nblk) ? ((const uint8_t*)%s)[g_k & 63] : g_seen; g_nblk++; g_r = 0; g_r2 = 0; ' % blk)
    if sched:
        s += 'g_Mj = C10_BE32_AT(%s, g_j); ' % blk
    s += ' '.join('g_v[%d] = g_H[%d];' % (i, i) for i in range(nw))
    return s


ALGS = {
    'MD5': dict(alg=1, nw=4, ctor=r'MD5::MD5\(const void\* data, size_t size\)',
                intro=r'auto process_block = \[this\]\(const void\* block\) -> void', blk='block',
                bin=r'string MD5::bin\(\) const', hex=r'string MD5::hex\(\) const',
                struct=r'struct MD5 \{\s*uint32_t a0, b0, c0, d0;\s*MD5\(',
                deleg=r'MD5::MD5\(const std::string& data\)\s*:\s*MD5\(data\.data\(\), data\.size\(\)\)\s*\{\s*\}'),
    'SHA1': dict(alg=2, nw=5, ctor=r'SHA1::SHA1\(const void\* data, size_t size\)',
                 intro=r'auto process_block = \[this\]\(const void\* block\) -> void', blk='block',
                 bin=r'std::string SHA1::bin\(\) const', hex=r'std::string SHA1::hex\(\) const',
                 struct=r'struct SHA1 \{\s*uint32_t h\[5\];\s*SHA1\(',
                 deleg=r'SHA1::SHA1\(const std::string& data\)\s*:\s*SHA1\(data\.data\(\), data\.size\(\)\)\s*\{\s*\}'),
    'SHA256': dict(alg=3, nw=8, ctor=r'SHA256::SHA256\(const void\* data, size_t size\)',
                   intro=r'auto process_block = \[this\]\(const void\* data\)', blk='data',
                   bin=r'std::string SHA256::bin\(\) const', hex=r'std::string SHA256::hex\(\) const',
                   struct=r'struct SHA256 \{\s*uint32_t h\[8\];\s*SHA256\(',
                   deleg=r'SHA256::SHA256\(const string& data\)\s*:\s*SHA256\(data\.data\(\), data\.size\(\)\)\s*\{\s*\}'),
}

GH_ASSIGNS = ('__CPROVER_object_whole(g_H), __CPROVER_object_whole(g_v), g_nblk, g_seen, g_T1, g_T2, g_xk, g_s, g_ti, g_Mj, '
              'g_r, g_r2, g_load_ok, g_sched_ok, g_w0, g_wa, g_wb, g_wc, g_wd')


def block_rules(name):
    """(rules, loops, nloops) for the lifted process_block lambda of `name`."""
    if name == 'MD5':
        rules = [
            Rule(r'static const uint32_t shifts\[64\] = \{[^{}]*\};', '', count=1, regex=True),       # hoisted to file scope
            Rule(r'static const uint32_t sine_table\[64\] = \{[^{}]*\};', '', count=1, regex=True),   # (dfcc havocs local statics)
            Rule('fields[g]', 'le_uint32_t_conv(&fields[g])', count=1),     # implicit conversion operator of le_uint32_t
            # value-initialised local arrays / alignof: C spellings
            Rule(r'(\b[\w ]+\b\s+\w+(?:\[[^\]]*\])+\s*=\s*)\{\s*\};', r'\1{0};', count=None, regex=True),
            Rule(r'\balignof\(', '_Alignof(', count=None, regex=True),
            at_start(block_prefix('block', 4, False)),
            # RFC 1321 operation number g_r on the registers A,B,C,D = g_v[0..3]
            LoopGhost(1, 'g_xk = C10_LE32_AT(block, C10_MD5_K[g_r]); g_s = C10_MD5_S[g_r]; g_ti = C10_MD5_T[g_r]; '
                         'C10_MD5_STEP(g_r, g_v[0], g_v[1], g_v[2], g_v[3], g_xk, g_s, g_ti); g_r++;'),
            # A = A + AA ... D = D + DD
            at_end(' '.join('g_H[%d] = g_v[%d] + g_H[%d];' % (i, i, i) for i in range(4))),
        ]
        loops = {1: '__CPROVER_assigns(x, a, b, c, d, __CPROVER_object_whole(g_v), g_xk, g_s, g_ti, g_r)\n'
                    '__CPROVER_loop_invariant(x <= 64 && g_r == x)\n'
                    '__CPROVER_loop_invariant((x & 3) == 0 ==> (a == g_v[0] && b == g_v[1] && c == g_v[2] && d == g_v[3]))\n'
                    '__CPROVER_loop_invariant((x & 3) == 1 ==> (a == g_v[3] && b == g_v[0] && c == g_v[1] && d == g_v[2]))\n'
                    '__CPROVER_loop_invariant((x & 3) == 2 ==> (a == g_v[2] && b == g_v[3] && c == g_v[0] && d == g_v[1]))\n'
                    '__CPROVER_loop_invariant((x & 3) == 3 ==> (a == g_v[1] && b == g_v[2] && c == g_v[3] && d == g_v[0]))\n'
                    '__CPROVER_decreases(64 - x)'}
        return rules, loops, 1
    if name == 'SHA1':
        W = 'extended_fields'
        rules = [
            at_start(block_prefix('block', 5, True)),
            # schedule word g_t: operands captured when the loop reaches x == g_t (read through the same index expressions as
            # the code, so that the solver sees shared operands), value per FIPS 180-4 6.1.2 step 1
            LoopGhost(2, 'if (x == g_t) { g_wa = %s[x - 3]; g_wb = %s[x - 8]; g_wc = %s[x - 14]; g_wd = %s[x - 16]; '
                         'g_w0 = C10_SHA1_WV(g_wa, g_wb, g_wc, g_wd); }' % (W, W, W, W)),
            # FIPS 180-4 6.1.2 step 3 for t = g_r
            LoopGhost(3, 'g_T1 = C10_SHA1_T(g_r, g_v[0], g_v[1], g_v[2], g_v[3], g_v[4], %s[x]); g_v[4] = g_v[3]; g_v[3] = g_v[2]; '
                         'g_v[2] = C10_SHA_ROTL(g_v[1], 30); g_v[1] = g_v[0]; g_v[0] = g_T1; g_r++;' % W),
            # step 4, and the schedule facts at the ghost indices
            at_end(' '.join('g_H[%d] = g_v[%d] + g_H[%d];' % (i, i, i) for i in range(5)) +
                   ' g_load_ok = (%s[g_j] == g_Mj); g_sched_ok = (%s[g_t] == C10_SHA1_W(%s, g_t));' % (W, W, W)),
        ]
        loops = {
            1: '__CPROVER_assigns(x, __CPROVER_object_whole(%s))\n'
               '__CPROVER_loop_invariant(x <= 16)\n'
               '__CPROVER_loop_invariant(g_j < x ==> %s[g_j] == g_Mj)\n'
               '__CPROVER_loop_invariant(g_j >= x ==> %s[g_j] == C10_LE32_AT(block, g_j))\n'
               '__CPROVER_decreases(16 - x)' % (W, W, W),
            2: '__CPROVER_assigns(x, __CPROVER_object_whole(%s), g_w0, g_wa, g_wb, g_wc, g_wd)\n'
               '__CPROVER_loop_invariant(16 <= x && x <= 80)\n'
               '__CPROVER_loop_invariant(%s[g_j] == g_Mj)\n'
               '__CPROVER_loop_invariant(g_t < x ==> (%s[g_t] == g_w0 && %s[g_t - 3] == g_wa && %s[g_t - 8] == g_wb && %s[g_t - 14] == g_wc && %s[g_t - 16] == g_wd))\n'
               '__CPROVER_loop_invariant(g_t < x ==> g_w0 == C10_SHA1_WV(g_wa, g_wb, g_wc, g_wd))\n'
               '__CPROVER_decreases(80 - x)' % (W, W, W, W, W, W, W),
            3: '__CPROVER_assigns(x, a, b, c, d, e, __CPROVER_object_whole(g_v), g_T1, g_r)\n'
               '__CPROVER_loop_invariant(x <= 80 && g_r == x)\n'
               '__CPROVER_loop_invariant(a == g_v[0] && b == g_v[1] && c == g_v[2] && d == g_v[3] && e == g_v[4])\n'
               '__CPROVER_decreases(80 - x)',
        }
        return rules, loops, 3
    W = 'w'
    rules = [
        at_start(block_prefix('data', 8, True)),
        # schedule word g_t (see SHA1), FIPS 180-4 6.2.2 step 1
        LoopGhost(2, 'if (x == g_t) { g_wa = w[x - 2]; g_wb = w[x - 7]; g_wc = w[x - 15]; g_wd = w[x - 16]; '
                     'g_w0 = C10_SHA256_WV(g_wa, g_wb, g_wc, g_wd); }'),
        # FIPS 180-4 6.2.2 step 3 for t = g_r
        LoopGhost(4, 'g_T1 = C10_SHA256_T1(g_v[4], g_v[5], g_v[6], g_v[7], C10_SHA256_K[g_r], w[x]); '
                     'g_T2 = C10_SHA256_T2(g_v[0], g_v[1], g_v[2]); g_v[7] = g_v[6]; g_v[6] = g_v[5]; g_v[5] = g_v[4]; '
                     'g_v[4] = g_v[3] + g_T1; g_v[3] = g_v[2]; g_v[2] = g_v[1]; g_v[1] = g_v[0]; g_v[0] = g_T1 + g_T2; g_r++;'),
        # step 4 for word g_r2
        LoopGhost(5, 'g_H[g_r2] = g_v[g_r2] + g_H[g_r2]; g_r2++;'),
        at_end('g_load_ok = (w[g_j] == g_Mj); g_sched_ok = (w[g_t] == C10_SHA256_W(w, g_t));'),
    ]
    loops = {
        1: '__CPROVER_assigns(x, __CPROVER_object_whole(w))\n'
           '__CPROVER_loop_invariant(x <= 16)\n'
           '__CPROVER_loop_invariant(g_j < x ==> w[g_j] == g_Mj)\n'
           '__CPROVER_loop_invariant(g_j >= x ==> w[g_j] == C10_LE32_AT(data, g_j))\n'
           '__CPROVER_decreases(16 - x)',
        2: '__CPROVER_assigns(x, __CPROVER_object_whole(w), g_w0, g_wa, g_wb, g_wc, g_wd)\n'
           '__CPROVER_loop_invariant(16 <= x && x <= 64)\n'
           '__CPROVER_loop_invariant(w[g_j] == g_Mj)\n'
           '__CPROVER_loop_invariant(g_t < x ==> (w[g_t] == g_w0 && w[g_t - 2] == g_wa && w[g_t - 7] == g_wb && w[g_t - 15] == g_wc && w[g_t - 16] == g_wd))\n'
           '__CPROVER_loop_invariant(g_t < x ==> g_w0 == C10_SHA256_WV(g_wa, g_wb, g_wc, g_wd))\n'
           '__CPROVER_decreases(64 - x)',
        3: '__CPROVER_assigns(x, __CPROVER_object_whole(z))\n'
           '__CPROVER_loop_invariant(x <= 8)\n'
           '__CPROVER_loop_invariant(%s)\n'
           '__CPROVER_decreases(8 - x)' % conj('({i} < x ==> z[{i}] == g_v[{i}])', 8),
        4: '__CPROVER_assigns(x, __CPROVER_object_whole(z), __CPROVER_object_whole(g_v), g_T1, g_T2, g_r)\n'
           '__CPROVER_loop_invariant(x <= 64 && g_r == x)\n'
           '__CPROVER_loop_invariant(%s)\n'
           '__CPROVER_decreases(64 - x)' % conj('z[{i}] == g_v[{i}]', 8),
        5: '__CPROVER_assigns(x, __CPROVER_object_whole(self), __CPROVER_object_whole(g_H), g_r2)\n'
           '__CPROVER_loop_invariant(x <= 8 && g_r2 == x)\n'
           '__CPROVER_loop_invariant(C10_STATE_EQ(self))\n'
           '__CPROVER_decreases(8 - x)',
    }
    return rules, loops, 5


def generic_text(raw):
    """what Unit._post makes of a piece of source text before the table rules run"""
    for r in lex.GENERIC:
        raw = r.apply(raw)
    return lex.rewrite_casts(raw)


def md_unit(ctx, src, name):
    A = ALGS[name]
    u = Unit(ctx, 'Hash_' + name.lower())
    u.raw('#include <stdint.h>\n#include <stddef.h>\n#include <string.h>\n#include <inttypes.h>\n')
    # object layout (the typedef in contracts/C10_md.h) and the delegating std::string constructor: textual checks
    u.snippet(src, HHH, A['struct'])
    u.snippet(src, HCC, A['deleg'])
    # host byte order selection of Platform.hh, verbatim; bswap32 of Encoding.hh, verbatim
    u.raw(u.snippet(src, 'src/Platform.hh', r'#if defined\(__BYTE_ORDER__\) && \(__BYTE_ORDER__ == __ORDER_LITTLE_ENDIAN__\).*?\n#endif'))
    u.function(src, ENC, r'static inline uint32_t bswap32\(uint32_t a\)')
    ctor_hdr, ctor_body, _, _ = lex.find_def(src.text(HCC), A['ctor'], 'constructor')
    # function-local static tables -> file scope (dfcc treats local statics as assignable and havocs them)
    if name == 'MD5':
        u.raw(u.snippet(src, HCC, r'static const uint32_t shifts\[64\] = \{[^{}]*\};'))
        u.raw(u.snippet(src, HCC, r'static const uint32_t sine_table\[64\] = \{[^{}]*\};'))
    if name == 'SHA256':
        u.raw(u.snippet(src, HCC, r'static const uint32_t k\[64\] = \{[^{}]*\};'))
        u.function(src, HCC, r'static inline uint32_t rotate_right\(uint32_t x, uint8_t bits\)')
    rules, loops, nloops = block_rules(name)
    u.block(src, HCC, A['ctor'], A['intro'], new_header='void %s_process_block(%s* self, const void* %s)' % (name, name, A['blk']),
            rules=rules, loops=loops, nloops=nloops)
    # --- constructor: block loop + padding tail; the lambda definition is cut out (it is the function above)
    lex.find_block(ctor_body, A['intro'], 'lambda')       # (must exist)

    class CutLambda(Rule):
        """the lambda definition (intro .. closing brace ;) is removed by position in the text as it is when the rule runs"""
        def __init__(self):
            self.pat, self.count = 'lambda definition cut out', 1

        def apply(self, text, where=''):
            lh2, lb2, s2, e2 = lex.find_block(text, A['intro'], 'lambda')
            rest = text[e2:]
            if not rest.lstrip().startswith(';'):
                raise ExtractionBreak('%s: lambda definition not followed by `;`' % where)
            return text[:s2] + '/* process_block: lifted */' + rest.lstrip()[1:]
    crules = [CutLambda()]
    if name == 'SHA256':
        crules.append(Rule(r'static const uint32_t k\[64\] = \{[^{}]*\};', '', count=1, regex=True))
    crules += [
        Rule('process_block(', '%s_process_block(self, ' % name, count=2),
        Rule('StringWriter w;', 'C10_writer w; C10_writer_init(&w);', count=1),
        Rule('w.str().data()', 'C10_writer_data(&w)', count=1),
        Rule(r'\bw\.size\(\)', 'C10_writer_size(&w)', count='+', regex=True),
        # either byte order of the length store is accepted here: which one the code uses is for the verifier to judge
        Rule(r'\bw\.(write|put_u8|put_u32l|put_u32b|extend_to|pput_u64l|pput_u64b|pput_u32l|pput_u32b|pput_u16l|pput_u16b|pput_u8)\(', r'C10_writer_\1(&w, ', count='+', regex=True),
        # the state handed to the first block
        Rule('size_t processed_offset;', 'g_iv_ok = C10_STATE_IS_IV(self); size_t processed_offset;', count=1),
    ]
    cloops = {
        1: '__CPROVER_assigns(processed_offset, __CPROVER_object_whole(self), %s)\n'
           '__CPROVER_loop_invariant(processed_offset <= size && (processed_offset & 63) == 0 && g_nblk == (processed_offset >> 6))\n'
           '__CPROVER_loop_invariant(C10_STATE_EQ(self))\n'
           '__CPROVER_loop_invariant(g_k < processed_offset ==> g_seen == ((const uint8_t*)data)[g_k])\n'
           '__CPROVER_decreases(size - processed_offset)' % GH_ASSIGNS,
        2: '__CPROVER_assigns(z, __CPROVER_object_whole(self), %s)\n'
           '__CPROVER_loop_invariant(z <= w.size && (z & 63) == 0 && g_nblk == ((processed_offset + z) >> 6))\n'
           '__CPROVER_loop_invariant(C10_STATE_EQ(self))\n'
           '__CPROVER_loop_invariant(g_k < processed_offset ==> g_seen == ((const uint8_t*)data)[g_k])\n'
           '__CPROVER_loop_invariant((g_k >= processed_offset && g_k < processed_offset + z) ==> g_seen == C10_WAT(&w))\n'
           '__CPROVER_decreases(w.size - z)' % GH_ASSIGNS,
    }
    ctext = u.function(src, HCC, A['ctor'], new_header='void %s_ctor(%s* self, const void* data, size_t size)' % (name, name),
                       rules=crules, loops=cloops, nloops=2)
    # --- bin(): out-parameter instead of the returned string
    brules = [Rule('StringWriter w;', 'C10_writer_init(w);', count=1),
              Rule(r'\bw\.(put_u32l|put_u32b)\(', r'C10_writer_\1(w, ', count=A['nw'], regex=True),
              Rule('return move(w.str());', 'return;', count=1)]
    if name == 'MD5':
        brules.insert(0, Rule(r'\((a0|b0|c0|d0)\)', r'(self->\1)', count=4, regex=True))     # implicit this
    btext = u.function(src, HCC, A['bin'], new_header='void %s_bin(const %s* self, C10_writer* w)' % (name, name), rules=brules)
    # the stub members each function really calls (a contract can only replace a function that occurs in the goto model)
    called = lambda text: sorted(set('C10_writer_' + m for m in re.findall(r'\bC10_writer_(init|write|put_u8|put_u32l|put_u32b|extend_to|pput_u64l|pput_u64b|pput_u32l|pput_u32b|pput_u16l|pput_u16b|pput_u8)\(', text)))
    u.ctor_stubs, u.bin_stubs = called(ctext), called(btext)
    # hex(): either one string_printf with N conversions (contract-only stub per arity), or a string assembled piecewise from
    # single-conversion string_printf results (executable single-conversion model, stubs/C10_writer.h); a constant-bound loop
    # in it is unwound completely by the group's cbmc flags
    u.function(src, HCC, A['hex'], new_header='void %s_hex(const %s* self, C10_hexstr* ret)' % (name, name),
               rules=[Rule('return string_printf(', 'C10_string_printf_%d(ret, ' % A['nw'], count=None),
                      Rule(r'\bstring ret;', 'ret->size = 0;', count=None, regex=True),
                      Rule(r'\bret (?:\+=|\.append\()\s*string_printf\(([^;]*?)\)\)?;', r'{ C10_hexstr verif_piece; C10_string_printf_1(&verif_piece, \1); C10_hexstr_append(ret, &verif_piece); }',
                           count=None, regex=True),
                      Rule(r'\breturn ret;', 'return;', count=None, regex=True)], must_loops=False)
    return u


def md_groups(ctx, name, u):
    A = ALGS[name]
    H = 'harness/C10/md.c'
    low = name.lower()
    D = ['C10_ALG=%d' % A['alg'], 'C10_UNIT="x_Hash_%s.c"' % low]
    gs = []
    gs.append(Group(name='Hash.%s.process_block' % name, harness=H, entry='h_block', function='%s::%s (process_block lambda)' % (name, name),
                    enforce='%s_process_block' % name, loops=True, kind='loop-contract', defines=D, min_post=3, timeout=300,
                    object_bits=12,
                    clause_note='contracts/C10_md.h: state after == chaining value advanced by the standard\'s steps in lock-step; '
                                'message schedule satisfies the standard\'s equations at the ghost indices',
                    replay=Replay(mode=low, **RP)))
    gs.append(Group(name='Hash.%s.process_block[unaligned block]' % name, harness=H, entry='h_block_unaligned', function='%s::%s (process_block lambda)' % (name, name),
                    enforce='%s_process_block' % name, loops=True, kind='loop-contract', defines=D + ['C10_PB_UNALIGNED=1'], min_post=3, timeout=300,
                    object_bits=12,
                    clause_note='the same contract for a block that starts 1..3 bytes into its object (a message hashed from an unaligned address)',
                    replay=Replay(mode=low, extra=['unaligned'], **RP)))
    gs.append(Group(name='Hash.%s.constructor' % name, harness=H, entry='h_ctor', function='%s::%s(const void*, size_t)' % (name, name),
                    enforce='%s_ctor' % name, replace=['%s_process_block' % name] + u.ctor_stubs, loops=True, kind='loop-contract',
                    defines=D + ['C10_PB_REPLACED=1'], min_post=6, timeout=300, object_bits=12,
                    clause_note='contracts/C10_md.h: Merkle-Damgard driver and padding tail, size symbolic',
                    replay=Replay(mode=low, **RP)))
    # measured (unloaded machine): MD5 block cadical 37 s, SHA1 block minisat/cvc5 18-30 s, SHA256 block cadical 60-75 s,
    # constructors minisat 22-28 s; z3 never answers first.  One engine alone for the first stage keeps the CPU cost down.
    gs[0].engines = gs[1].engines = ['minisat', 'cadical', 'cvc5']
    gs[0].first, gs[0].stage1 = ('minisat' if name == 'SHA1' else 'cadical'), 60
    gs[1].first, gs[1].stage1 = 'minisat', 60
    gs.append(Group(name='Hash.%s.bin' % name, harness=H, entry='h_bin', function='%s::bin' % name, enforce='%s_bin' % name,
                    replace=u.bin_stubs, defines=D, min_post=2,
                    replay=Replay(mode=low + '_bin', **RP)))
    gs.append(Group(name='Hash.%s.hex' % name, harness=H, entry='h_hex', function='%s::hex' % name, enforce='%s_hex' % name,
                    replace=['C10_string_printf_%d' % A['nw']], defines=D, min_post=2, cbmc_flags=['--unwind', '12', '--unwinding-assertions'],
                    replay=Replay(mode=low + '_hex', **RP)))
    if name == 'SHA256':
        gs.append(Group(name='Hash.rotate_right', harness=H, entry='h_rotate_right', function='rotate_right', enforce='rotate_right',
                        defines=D, clause_note='rotate_right(x, n) == FIPS 180-4 ROTR^n(x) for 0 < n < 32',
                        replay=Replay(mode='sha256', **RP)))
    return gs


def plan(ctx):
    src = Source(ctx.src)
    groups = []
    u = fold_unit(ctx, src)
    u.write()
    ctx.functions_under_contract = list(u.functions)
    groups += fold_groups(ctx, u.table_generator)
    for name in ('MD5', 'SHA1', 'SHA256'):
        um = md_unit(ctx, src, name)
        um.write()
        ctx.functions_under_contract += um.functions
        groups += md_groups(ctx, name, um)
    if ctx.tier == 'thorough':
        # the block functions are the only C10 code that depends on the host byte order (word loads): repeat them under the
        # big-endian host model (#ifdef PHOSG_LITTLE_ENDIAN byte-swap loop compiled out, le_uint32_t conversion swaps)
        import copy
        for g in [g for g in groups if g.name.endswith('.process_block')]:
            g2 = copy.deepcopy(g)
            g2.big_endian = True
            g2.tier = 'thorough'
            groups.append(g2)
    return groups


EXPLANATION = (
    'Lock-step ghost specification under loop contracts (DESIGN.md 3.4, A.3): a ghost accumulator is advanced by the step of the '
    'standard (expression macros in spec/C10_*.h written from RFC 1952, the FNV definition, RFC 1321, FIPS 180-4) by ghost statements '
    'injected at loop-body start; the loop invariant is real state == ghost state, so every iteration is one small loop-free query and '
    'the proofs hold for buffers of every length. Pieces: crc32_table[i] == bit-serial division for symbolic i; crc32 / fnv1a32 / fnv1a64 '
    'loops (contracts in running form: the call continues the specification run the seed denotes); default seeds; chaining lemmas over '
    'the contracts (the seeded second call resumes the same specification run: ~~x == x for CRC); the three process_block lambdas '
    '(word loads, message schedule satisfying the standard\'s defining equation at every index via ghost indices, 64/80 rounds in the '
    'standard\'s operand order -- MD5 in the RFC\'s [ABCD k s i] register-pattern form --, add-back, and the number of specification steps performed is part of the postcondition); rotate_right == ROTR; the three constructors (Merkle-Damgard '
    'driver with the block function and the StringWriter members replaced by contract: initial value, state threaded from block to block, '
    'block i of message||0x80||0*||bitlength64 given exactly once in order for symbolic size and symbolic ghost position, minimal padded '
    'length, length field byte order); bin() and hex() renderings at a ghost position. The composition "digest == standard" is the '
    'definition of the iterated construction over these machine-checked pieces.')
TRUSTED = [
    'spec/C10_crc32.h, C10_fnv.h, C10_md5.h, C10_sha1.h, C10_sha256.h, C10_md_padding.h: the specification macros (transcriptions of the '
    'standards; cross-checked natively against Python hashlib/zlib on lengths 0..300 and their constant tables against the defining '
    'formulas by tools/C10_validate_spec.sh -- a validation of the spec, not part of the proof)',
    'stubs/C10_writer.h: assumed contracts of StringWriter::write/put_u8/put_u32l/put_u32b/extend_to/pput_u64l/pput_u64b (the real class is '
    'property C01), of the le_uint32_t conversion operator (proved by C03: little-endian numeral of the stored bytes) and of '
    'string_printf for the format "%08X" x 4/5/8 (ISO C X conversion, flag 0, width 8; PRIX32 == "X")',
    'the ghost statements and loop invariants listed in props/C10.py (ghost statements assign only g_* variables)',
    'memcpy of 64 bytes: cbmc built-in model',
]
ASSUMPTIONS = [
    'buffers are objects of the cbmc memory model: size < 2^(64 - object_bits) bytes (so size * 8 does not exceed 64 bits; for larger '
    'sizes RFC 1321 keeps the low-order 64 bits and FIPS 180-4 is undefined)',
    'allocation inside StringWriter / std::string succeeds (bad_alloc / length_error not modelled); the writer model holds at most 256 bytes '
    '(Hash.cc never holds more than 128), exceeding it is a precondition violation, never accepted silently',
    'quick tier: little-endian host model; thorough repeats the three block functions (the only host-order dependent code) under the '
    'big-endian host model',
    'lemma harnesses (default seed, chaining) take buffers from malloc under "allocation succeeded and the size is an object size"',
]
DROPS = ('process_block lambdas ([this] capture) lifted to C functions <ALG>_process_block(self, block) and cut out of the constructor text; '
         'function-local static const tables (MD5 shifts / sine_table, SHA256 k) hoisted to file scope (dfcc havocs local statics); '
         'StringWriter object -> stub object, its member calls -> stub calls; std::string return of bin()/hex() -> out-parameter; implicit '
         'le_uint32_t -> uint32_t conversion -> explicit conversion call; implicit this in MD5::bin; string_printf -> per-arity stub; std::string '
         'overloads of fnv1a32/64 -> (data, size) pair; delegating constructors MD5/SHA1/SHA256(const std::string&) and the struct member '
         'lists are checked textually only (ExtractionBreak when they change)')
NOT_DECIDED = [
    'The last composition steps are definitional and not machine-checked: (i) an array that satisfies W_t = M_t (t < 16) and the schedule '
    'recurrence at every index IS the standard\'s message schedule (induction on t); (ii) H(N) obtained by threading the chaining value '
    'through blocks 0..N-1 of the padded message IS the standard\'s digest; (iii) crc32/fnv1a chaining: the lemma shows that the second, '
    'seeded call resumes the specification run of the first (register equality), equality with the one-shot call on a||b then uses that '
    'the specification run is a function of seed and octets.',
    'MD5/SHA1/SHA256 have no incremental interface in phosg (constructors only): the chaining part of C10 applies to crc32, fnv1a32, fnv1a64.',
    'Real StringWriter / string_printf / std::string behaviour (assumed by stub contracts, see TRUSTED); exception safety.',
]
CLAIMED = True
MANIFEST = dict(
    category='proof',
    text=('crc32 (table = bit-serial division by 0xEDB88320 for all 256 entries, RFC 1952 update loop, seed inversions, default seed), fnv1a32/64 '
          '(recurrence, offset bases, std::string overloads), the MD5 / SHA-1 / SHA-256 block functions (word loads, message schedule, all rounds, '
          'add-back) and constructors (initial value, block driver, padding tail for symbolic size), bin() and hex() are proved for inputs of '
          'every length by loop contracts whose invariant ties the real state to a ghost accumulator advanced by the standard\'s own step '
          '(lock-step specification); chaining of crc32/fnv1a is a lemma over the contracts. Thorough adds the big-endian host model for the '
          'block functions.'),
    note=('Trusted: cbmc/goto-instrument --dfcc and the answering solver, the extractor, the specification macros (validated natively against '
          'hashlib/zlib, not part of the proof), the stub contracts for StringWriter (C01), the le_uint32_t conversion (C03) and "%08X" '
          'formatting. Sizes are object sizes of the cbmc memory model (< 2^52 bytes). The final composition of the per-block and driver facts into '
          '"digest of the whole message" is the definition of the Merkle-Damgard iteration / of a fold and is not itself machine-checked.'),
    technique=('function + loop contracts enforced with goto-instrument --dfcc --apply-loop-contracts, lock-step ghost specification, ghost indices, '
               'callees replaced by contract, discharged by cbmc (SAT/SMT portfolio)'),
)
