/* C08: split / join and the join(split(s, d), d) == s lemma. */
#include "harness/C08/common.h"
#include "x_split.c"
#include "x_join.c"

void h_split(void) { vvec* ret; const vstr* s; char in_delim; size_t in_max_splits; IN_GHOSTS; split(ret, s, in_delim, in_max_splits); VERIF_REACH(); }
void h_join_delim(void) { vout* ret; const vsvec* items; char in_delim; IN_GHOSTS; join_delim(ret, items, in_delim); VERIF_REACH(); }
void h_join_plain(void) { vout* ret; const vsvec* items; IN_GHOSTS; join_plain(ret, items); VERIF_REACH(); }

#define SPLITFN split
#define LEMMA_NAME l_join_split
#include "harness/C08/lemma.h"
