/* C18: contract of format_duration, written from the property statement:
 *   "format_duration never throws and, for every microsecond count and every subsecond precision, its [d:][h:][m:]s[.f] text has
 *    zero-padded inner fields and evaluates back to the input duration rounded at the printed precision."
 * The text is a c18_text (stubs/C18_text.h): the printf conversions that produced it.  The recogniser of the grammar
 * [d:][h:][m:]s[.f] (d_* members) gives the integer fields left to right and the one %f token of the seconds.
 *
 * "evaluates back": days/hours/minutes are the LAST three integer fields (whatever their number), W = their value in
 * microseconds (W1 + W2 + W3); the seconds token prints the double  (usecs - W) / 10^6  (numerator and denominator of that division are the
 * ghosts of c18_ratio), at the requested precision.  How printf rounds that double to P decimals is libc (not decided here). */
#ifndef CONTRACTS_C18_DURATION_H
#define CONTRACTS_C18_DURATION_H
#include "stubs/C18_text.h"
#include "spec/C18_arith.h"

extern uint64_t g_dur_lo, g_dur_hi;
extern c18_text g_c18_out;

/* days / hours / minutes = the LAST three integer fields (whatever their number) */
#define DUR_MIN(t)  ((t)->d_min)
#define DUR_HR(t)   ((t)->d_hr)
#define DUR_DAY(t)  ((t)->d_day)

void format_duration(c18_text* ret, uint64_t usecs, int8_t subsecond_precision)
__CPROVER_requires(ret == &g_c18_out)         /* the returned std::string: a typed global, not a byte-array heap object (keeps the text model field-sensitive) */
__CPROVER_requires(verif_exc == 0 && g_ratio_calls == 0)
__CPROVER_requires(g_dur_lo <= usecs && usecs <= g_dur_hi)          /* case split over the magnitude (one obligation group per range; the ranges cover 0 .. 2^64-1) */
__CPROVER_assigns(verif_exc, g_c18_out, g_ratio_calls, g_ratio_num, g_ratio_den, g_ratio_val)
/* Clause sets can be selected with -DDUR_PART=1|2|3 (the widest magnitude range is checked in three obligation groups, one per
 * set, to keep each solver run short); without DUR_PART all clauses are active. */
#if !defined(DUR_PART) || DUR_PART == 1
/* 1. never throws */
__CPROVER_ensures(verif_exc == 0)
/* 2. the text is in the grammar [d:][h:][m:]s[.f]: at most three integer fields each followed by ':', then the seconds */
__CPROVER_ensures(verif_exc == 0 ==> (!ret->d_bad && ret->d_sec && !ret->d_pend && ret->d_lead == 0 && ret->d_nf <= 3))
/* 3. inner fields are zero-padded: every field but the first is exactly two characters (integer part, for the seconds) */
__CPROVER_ensures(verif_exc == 0 ==> ((ret->d_nf >= 2 ==> ret->d_two1) && (ret->d_nf >= 3 ==> ret->d_two2)))
__CPROVER_ensures(verif_exc == 0 ==> (ret->d_nf >= 1 ==> ret->d_sec_lead + ret->dbl_digits == 2))
__CPROVER_ensures(verif_exc == 0 ==> (ret->d_nf == 0 ==> ret->d_sec_lead == 0))
#endif
#if !defined(DUR_PART) || DUR_PART == 2
/* 4. evaluates back to the input: the seconds token prints the double (numerator / 10^6) computed by the one division, and
 *    days*86400e6 + hours*3600e6 + minutes*60e6 + numerator == usecs exactly (d_total / d_exact: stubs/C18_text.h) */
__CPROVER_ensures(verif_exc == 0 ==> (g_ratio_calls == 1 && ret->ndbl == 1 && ret->dbl_is_ratio && ret->dbl_den == 1000000))
__CPROVER_ensures(verif_exc == 0 ==> ret->d_exact)
__CPROVER_ensures(verif_exc == 0 ==> ret->d_total == usecs)
#endif
#if !defined(DUR_PART) || DUR_PART == 3
/* 5. mixed-radix canonical form: h < 24 and m < 60 wherever the field is present (an absent field counts as 0), s < 60,
 *    no leading zero field */
__CPROVER_ensures(verif_exc == 0 ==> (DUR_MIN(ret) < 60 && DUR_HR(ret) < 24))
__CPROVER_ensures(verif_exc == 0 ==> (ret->dbl_num < 60000000 && (ret->d_nf >= 1 ==> ret->d_f0 != 0)))
/* 6. printed precision: the requested one; a negative request selects a default in 0..6 */
__CPROVER_ensures(verif_exc == 0 ==> (subsecond_precision >= 0 ? ret->dbl_prec == subsecond_precision
                                                               : (ret->dbl_prec >= 0 && ret->dbl_prec <= 6)))
#endif
;
#endif
