// Native replay for C11 (text encodings): driver <mode> name=0xHEX ...
// Calls the REAL phosg functions on the input described by the counterexample and compares with an independent
// reference written here from RFC 4648 / the property statement.
// exit 1 = postcondition violated on the real code; 0 = holds on this input; 2 = usage / not replayable.
#include "replay/common/args.hh"
#include "Encoding.hh"
#include "Strings.hh"
#include "Network.hh"
#include <stdexcept>
#include <string>
using namespace std;

static const char* STD = "ABCDEFGHIJKLMNOPQRSTUVWXYZabcdefghijklmnopqrstuvwxyz0123456789+/";   // RFC 4648 table 1
static const char* URL = "ABCDEFGHIJKLMNOPQRSTUVWXYZabcdefghijklmnopqrstuvwxyz0123456789-_";   // RFC 4648 table 2

static string show(const string& s) {
  string r = "\"";
  char b[8];
  for (unsigned char c : s) { if (c >= 0x20 && c < 0x7F && c != '"' && c != '\\') r += (char)c; else { snprintf(b, sizeof b, "\\x%02X", c); r += b; } }
  return r + "\"";
}

// ---- reference base64 (RFC 4648 section 4) ----
static string ref_encode(const string& x, const char* tab) {
  string r;
  size_t i = 0;
  for (; i + 3 <= x.size(); i += 3) {
    uint32_t v = ((uint8_t)x[i] << 16) | ((uint8_t)x[i + 1] << 8) | (uint8_t)x[i + 2];
    r += tab[(v >> 18) & 63]; r += tab[(v >> 12) & 63]; r += tab[(v >> 6) & 63]; r += tab[v & 63];
  }
  if (x.size() - i == 1) { uint32_t v = (uint8_t)x[i] << 16; r += tab[(v >> 18) & 63]; r += tab[(v >> 12) & 63]; r += "=="; }
  if (x.size() - i == 2) { uint32_t v = ((uint8_t)x[i] << 16) | ((uint8_t)x[i + 1] << 8); r += tab[(v >> 18) & 63]; r += tab[(v >> 12) & 63]; r += tab[(v >> 6) & 63]; r += '='; }
  return r;
}
static int val(char c, const char* tab) { if (c == 0) return -1; const char* p = strchr(tab, c); return p ? (int)(p - tab) : -1; }
// strict decoder: false = must be rejected (length not a multiple of four, a character outside the alphabet, padding
// anywhere but the last one or two positions)
static bool ref_decode(const string& t, const char* tab, string& out) {
  out.clear();
  if (t.size() % 4) return false;
  for (size_t i = 0; i < t.size(); i += 4) {
    bool last = i + 4 == t.size();
    int v0 = val(t[i], tab), v1 = val(t[i + 1], tab), v2 = val(t[i + 2], tab), v3 = val(t[i + 3], tab);
    if (v0 < 0 || v1 < 0) return false;
    if (last && t[i + 2] == '=' && t[i + 3] == '=') { out += (char)((v0 << 2) | (v1 >> 4)); continue; }
    if (v2 < 0) return false;
    if (last && t[i + 3] == '=') { out += (char)((v0 << 2) | (v1 >> 4)); out += (char)(((v1 & 15) << 4) | (v2 >> 2)); continue; }
    if (v3 < 0) return false;
    out += (char)((v0 << 2) | (v1 >> 4)); out += (char)(((v1 & 15) << 4) | (v2 >> 2)); out += (char)(((v2 & 3) << 6) | v3);
  }
  return true;
}

enum Exc { NONE, INVARG, OTHER };
static int check_decode(const string& text, const char* alpha_arg, const char* tab) {
  string got, want;
  Exc e = NONE;
  try { got = phosg::base64_decode(text.data(), text.size(), alpha_arg); } catch (const invalid_argument&) { e = INVARG; } catch (...) { e = OTHER; }
  bool ok = ref_decode(text, tab, want);
  printf("base64_decode(%s): real code %s, strict RFC 4648 decoder %s\n", show(text).c_str(),
         e == NONE ? ("returned " + show(got)).c_str() : e == INVARG ? "threw invalid_argument" : "threw another exception",
         ok ? ("accepts: " + show(want)).c_str() : "rejects");
  RCHECK(e != OTHER, "only invalid_argument may be thrown");
  RCHECK((e == NONE) == ok, "strictness: the input %s but the call %s", ok ? "is well formed" : "is malformed", e == NONE ? "returned normally" : "threw");
  if (e == NONE) RCHECK(got == want, "decoded octets differ from RFC 4648");
  return 0;
}

static string rot13_ref(const string& s) {
  string r = s;
  for (char& c : r) { if (c >= 'a' && c <= 'z') c = 'a' + (c - 'a' + 13) % 26; else if (c >= 'A' && c <= 'Z') c = 'A' + (c - 'A' + 13) % 26; }
  return r;
}

// ---- reference unescapers (independent of src/Strings.cc) ----
static int hexv(char c) { if (c >= '0' && c <= '9') return c - '0'; if (c >= 'A' && c <= 'F') return c - 'A' + 10; if (c >= 'a' && c <= 'f') return c - 'a' + 10; return -1; }
static bool unescape_c(const string& s, string& out) {   // \" \' \\ \t \r \n \f \b \a \v \xHH, everything else literal
  out.clear();
  for (size_t i = 0; i < s.size();) {
    if (s[i] != '\\') { out += s[i++]; continue; }
    if (i + 1 >= s.size()) return false;
    char c = s[i + 1];
    if (c == 'x') { if (i + 3 >= s.size() || hexv(s[i + 2]) < 0 || hexv(s[i + 3]) < 0) return false; out += (char)(hexv(s[i + 2]) * 16 + hexv(s[i + 3])); i += 4; continue; }
    const char* from = "\"'\\trnfbav"; const char* to = "\"'\\\t\r\n\f\b\a\v";
    const char* p = strchr(from, c);
    if (!p) return false;
    out += to[p - from]; i += 2;
  }
  return true;
}
static bool unescape_url(const string& s, string& out) {
  out.clear();
  for (size_t i = 0; i < s.size();) {
    if (s[i] != '%') { out += s[i++]; continue; }
    if (i + 2 >= s.size() || hexv(s[i + 1]) < 0 || hexv(s[i + 2]) < 0) return false;
    out += (char)(hexv(s[i + 1]) * 16 + hexv(s[i + 2])); i += 3;
  }
  return true;
}
static bool printable(unsigned char c) { return c >= 0x20 && c <= 0x7E; }

int main(int argc, char** argv) {
  Args A(argc, argv);
  const string& m = A.mode;
  unsigned alpha = (unsigned)A.u("in_alpha");
  const char* alpha_arg = alpha == 0 ? nullptr : alpha == 1 ? phosg::DEFAULT_ALPHABET : phosg::URLSAFE_ALPHABET;
  const char* tab = alpha >= 2 ? URL : STD;

  if (m == "base64_encode" || m == "base64_encode_block" || m == "base64_encode_tail2" || m == "base64_encode_tail1") {
    string x;
    if (m == "base64_encode") {
      size_t n = A.u("in_size"), k = A.u("in_blk");
      if (n > (1u << 20)) { printf("input too large to replay\n"); return 2; }
      for (size_t i = 0; i < n; i++) x += (char)(i * 37 + 11);
      for (int j = 0; j < 3; j++) { char nm[8]; snprintf(nm, sizeof nm, "in_b%d", j); if (k <= n && 3 * k + j < n) x[3 * k + j] = (char)A.u(nm); }
    } else {
      int cnt = m == "base64_encode_block" ? 3 : m == "base64_encode_tail2" ? 2 : 1;
      for (int j = 0; j < cnt; j++) { char nm[8]; snprintf(nm, sizeof nm, "in_s%d", j); x += (char)A.u(nm); }
    }
    string got = phosg::base64_encode(x.data(), x.size(), alpha_arg), want = ref_encode(x, tab);
    printf("base64_encode(%s) = %s, RFC 4648: %s\n", show(x).c_str(), show(got).c_str(), show(want).c_str());
    RCHECK(got == want, "encoding differs from RFC 4648");
    string back; bool thrown = false;
    try { back = phosg::base64_decode(got.data(), got.size(), alpha_arg); } catch (...) { thrown = true; }
    RCHECK(!thrown && back == x, "base64_decode(base64_encode(x)) != x");
  }
  else if (m == "base64_decode") {
    size_t n = A.u("in_size"), k = A.u("in_blk");
    if (n > (1u << 20)) { printf("input too large to replay\n"); return 2; }
    string t(n, 'A');
    if (n >= 2) { t[n - 2] = (char)A.u("in_l2"); t[n - 1] = (char)A.u("in_l3"); }
    for (int j = 0; j < 4; j++) { char nm[8]; snprintf(nm, sizeof nm, "in_c%d", j); if (k <= n && 4 * k + j < n) t[4 * k + j] = (char)A.u(nm); }
    return check_decode(t, alpha_arg, tab);
  }
  else if (m == "base64_decode_block") {
    string t;
    for (int j = 0; j < 4; j++) { char nm[8]; snprintf(nm, sizeof nm, "in_s%d", j); t += (char)A.u(nm); }
    bool last = A.u("in_off") + 4 == A.u("in_end");
    if (!last) t += "AAAA";
    return check_decode(t, alpha_arg, tab);
  }
  else if (m == "rot13") {
    size_t n = A.u("in_size"), k = A.u("in_k");
    if (n > (1u << 20)) { printf("input too large to replay\n"); return 2; }
    string x;
    for (size_t i = 0; i < n; i++) x += (char)(i * 29 + 60);
    if (k < n) x[k] = (char)A.u("in_ch");
    string got = phosg::rot13(x.data(), x.size()), want = rot13_ref(x);
    printf("rot13(%s) = %s\n", show(x).c_str(), show(got).c_str());
    RCHECK(got == want, "rot13 differs from the reference");
    RCHECK(phosg::rot13(got.data(), got.size()) == x, "rot13 is not an involution on this input");
  }
  else if (m == "escape_quotes" || m == "escape_controls" || m == "escape_url") {
    // the input: in_ch (the character of the step) surrounded by a few fixed characters; or in_size/in_k/in_ch for the loops
    bool flag = A.u("in_flag") != 0;
    string x;
    if (A.has("in_size")) {
      size_t n = A.u("in_size"), k = A.u("in_k");
      if (n > (1u << 16)) { printf("input too large to replay\n"); return 2; }
      for (size_t i = 0; i < n; i++) x += (char)(i * 53 + 7);
      if (k < n) x[k] = (char)A.u("in_ch");
    } else {
      x = string("a\"") + (char)A.u("in_ch") + "\\z";
    }
    // the counterexample first, then every byte value in the middle of a short string with both flag values (the verifier's character is
    // over an abstract "%02hhX" model and need not be one on which the real formatting differs)
    std::vector<std::pair<string, bool>> cases = {{x, flag}};
    for (int f2 = 0; f2 < 2; f2++) for (int c = 0; c < 256; c++) cases.push_back({string("a/") + (char)c + "z", f2 != 0});
    for (auto& cs : cases) {
    const string& x = cs.first; bool flag = cs.second;
    string got = m == "escape_quotes" ? phosg::escape_quotes(x) : m == "escape_controls" ? phosg::escape_controls(x, flag) : phosg::escape_url(x, flag);
    if (&cs == &cases[0]) printf("%s(%s%s) = %s\n", m.c_str(), show(x).c_str(), m == "escape_quotes" ? "" : flag ? ", true" : ", false", show(got).c_str());
    for (size_t i = 0; i < got.size(); i++) {
      unsigned char c = got[i];
      if (m == "escape_quotes") {
        RCHECK(printable(c), "non-printable byte 0x%02X in the output", c);
        RCHECK(c != '"' || (i > 0 && got[i - 1] == '\\'), "raw quote at output position %zu", i);
      } else if (m == "escape_controls") {
        RCHECK(printable(c) || (!flag && c >= 0x80), "byte 0x%02X outside the permitted set in the output", c);
      } else {
        bool ok = isalnum(c) || strchr("-_.~=&%", c) || (!flag && c == '/');
        RCHECK(c < 0x80 && c != 0 && ok, "byte 0x%02X outside the permitted set in the output", c);
      }
    }
    if (m != "escape_quotes") {
      string back;
      bool ok = m == "escape_controls" ? unescape_c(got, back) : unescape_url(got, back);
      RCHECK(ok && back == x, "the reference unescaper does not recover the input %s from %s (%s)", show(x).c_str(), show(got).c_str(), ok ? show(back).c_str() : "malformed escape");
    }
    }
  }
  else if (m == "netloc") {
    size_t hl = A.u("in_hlen", 3); unsigned port = (unsigned)A.u("in_port", 80);
    if (hl == 0 || hl > 64 || port == 0 || port > 65535) { printf("outside the stated domain\n"); return 2; }
    string host;
    for (size_t i = 0; i < hl; i++) { char c = (char)(A.arr("in_host").size() > i ? A.arr("in_host")[i] : 'a' + i % 26); if (c == ':' || c == 0) c = 'h'; host += c; }
    string nl = phosg::render_netloc(host, (int)port);
    pair<string, uint16_t> back;
    bool thrown = false;
    try { back = phosg::parse_netloc(nl, 0); } catch (const exception& e) { thrown = true; printf("parse_netloc(%s) threw: %s\n", show(nl).c_str(), e.what()); }
    RCHECK(!thrown, "parse_netloc raised an exception on a rendered netloc");
    printf("render_netloc(%s, %u) = %s -> parse_netloc = (%s, %u)\n", show(host).c_str(), port, show(nl).c_str(), show(back.first).c_str(), back.second);
    RCHECK(back.first == host && back.second == port, "netloc round trip");
  }
  else if (m == "netloc_noport") {
    // port 0: rendered as the bare host, parsed back as (host, default port) -- for every non-empty colon-free host, also an all-digit one
    vector<string> hosts = {"7", "8080", "2130706433", "a", "h7", "7h", "example.org"};
    if (A.arr("in_host").size()) { string h; size_t hl = A.u("in_hlen", 3); for (size_t i = 0; i < hl && i < A.arr("in_host").size(); i++) { char c = (char)A.arr("in_host")[i]; if (c == ':' || c == 0) c = '9'; h += c; } if (!h.empty()) hosts.insert(hosts.begin(), h); }
    for (const string& host : hosts) {
      for (int dflt : {0, 443}) {
        string nl = phosg::render_netloc(host, 0);
        pair<string, uint16_t> back;
        bool thrown = false;
        try { back = phosg::parse_netloc(nl, dflt); } catch (const exception& e) { thrown = true; printf("parse_netloc(%s) threw: %s\n", show(nl).c_str(), e.what()); }
        RCHECK(!thrown, "parse_netloc raised an exception on a rendered netloc");
        printf("render_netloc(%s, 0) = %s -> parse_netloc(.., %d) = (%s, %u)\n", show(host).c_str(), show(nl).c_str(), dflt, show(back.first).c_str(), back.second);
        RCHECK(back.first == host && back.second == (uint16_t)dflt, "netloc without a port does not come back as (host, default port)");
      }
    }
  }
  else { fprintf(stderr, "unknown mode %s\n", m.c_str()); return 2; }
  printf("holds on this input\n");
  return 0;
}
