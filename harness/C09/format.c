/* C09 O-3: format_data_string as a whole under its contract (three loop contracts injected by the extractor). */
#include "x_c09_prelude.c"
#include "contracts/C09_format.h"
int verif_exc; size_t g_vk, g_k, g_w; bool g_quoted, g_returned;
const char* g_end; unsigned g_st_calls; const char* g_st_arg; const char* g_st_end; int g_st_base; int g_st_kind;
unsigned long long g_num; double g_dbl; float g_flt; unsigned g_load_calls;
#include "x_fds_full.c"

void h_format(void)
{
  OUT_STR* ret; const void* d; const void* m; size_t in_size; uint64_t in_flags; size_t in_k;
  g_k = in_k;
  format_data_string(ret, d, in_size, m, in_flags);
  VERIF_REACH();
}
