// C12 native replay: one (shape, operation, arguments) step on the REAL phosg::LRUSet<int> / phosg::LRUMap<int,int>
// (header-only templates) against a std::list reference recency list.  exit 1 = the real code differs from the
// reference (or ASan/UBSan stops it), 0 = it behaves like the reference, 2 = usage.
//
//   driver <op> <LRUSet|LRUMap> <nslot> <shapeA|-> <shapeB|-> in_key=.. in_size=.. in_val=.. in_k=.. in_v=.. in_sz=.. in_nsz=..
//          in_touch=.. in_hit=.. [in_key_b=.. in_size_b=.. in_val_b=..]
//   shape = comma separated pool node indices in recency order, most recently used first ("-" = empty).
//   in_hit >= 0: the key argument is the key of the entry at that recency position; -1: in_k (an absent key).
//   The harness' in_total (symbolic running total) has no native counterpart: the real container's total is the sum.
//
//   driver local_insert_existing <LRUSet|LRUMap> in_size=<new size> g_sz0=<stored size>   (unbounded local groups: size arithmetic)
#include <list>
#include <stdexcept>
#include <utility>

#include "LRUMap.hh"
#include "LRUSet.hh"
#include "replay/common/args.hh"

using namespace phosg;

// UBSan: stop at the first report (signed overflow ...) with a failing exit status instead of carrying on
extern "C" const char* __ubsan_default_options() { return "halt_on_error=1:print_stacktrace=0"; }
extern "C" const char* __asan_default_options() { return "detect_leaks=1:exitcode=1"; }

struct Entry {
  int key;
  size_t size;
  int val;
};
typedef std::list<Entry> Ref;  // most recently used first

static std::vector<int> parse_shape(const std::string& s) {
  std::vector<int> v;
  if (s == "-" || s.empty()) return v;
  size_t p = 0;
  while (p <= s.size()) {
    size_t c = s.find(',', p);
    if (c == std::string::npos) c = s.size();
    v.push_back(atoi(s.substr(p, c - p).c_str()));
    p = c + 1;
  }
  return v;
}

static size_t ref_total(const Ref& r) {
  size_t t = 0;
  for (auto& e : r) t += e.size;
  return t;
}
static Ref::iterator ref_find(Ref& r, int k) {
  for (auto it = r.begin(); it != r.end(); ++it)
    if (it->key == k) return it;
  return r.end();
}
static void ref_front(Ref& r, Ref::iterator it) { r.splice(r.begin(), r, it); }

struct SetC {
  LRUSet<int> c;
  void put(const Entry& e) { c.insert(e.key, e.size); }
  bool drain_one(Entry& out) {
    auto p = c.evict_object();
    out.key = p.first;
    out.size = p.second;
    out.val = 0;
    return true;
  }
  static constexpr bool has_val = false;
};
struct MapC {
  LRUMap<int, int> c;
  void put(const Entry& e) { c.insert(int(e.key), int(e.val), e.size); }
  bool drain_one(Entry& out) {
    auto p = c.evict_object();
    out.key = p.key;
    out.size = p.size;
    out.val = p.value;
    return true;
  }
  static constexpr bool has_val = true;
};

template <typename C>
static void build(C& c, Ref& ref, const std::vector<int>& shape, const std::vector<uint64_t>& keys, const std::vector<uint64_t>& sizes,
                  const std::vector<uint64_t>& vals) {
  auto at = [](const std::vector<uint64_t>& v, size_t i) -> uint64_t { return i < v.size() ? v[i] : 0; };
  for (int s : shape) ref.push_back(Entry{(int)(uint32_t)at(keys, s), (size_t)at(sizes, s), (int)(uint32_t)at(vals, s)});
  for (auto it = ref.rbegin(); it != ref.rend(); ++it) c.put(*it);  // least recently used first
}

// observable state == reference: size(), count(), then drain by evict_object (the recency order, oldest first)
template <typename C>
static int compare(C& c, Ref ref, const char* what) {
  RCHECK(c.c.size() == ref_total(ref), "%s: size() = %zu, sum of the reference entries' sizes = %zu", what, c.c.size(), ref_total(ref));
  RCHECK(c.c.count() == ref.size(), "%s: count() = %zu, reference has %zu keys", what, c.c.count(), ref.size());
  if constexpr (C::has_val) RCHECK(c.c.empty() == ref.empty(), "%s: empty() = %d, reference has %zu keys", what, (int)c.c.empty(), ref.size());
  // one more entry goes in at the front (exercises head, which a drain from the tail alone never reads)
  int fresh = 0x5EED;
  while (ref_find(ref, fresh) != ref.end()) fresh++;
  Entry sentinel{fresh, 3, 4};
  c.put(sentinel);
  ref.push_front(sentinel);
  RCHECK(c.c.size() == ref_total(ref) && c.c.count() == ref.size(), "%s: size()/count() after inserting one more key", what);
  while (!ref.empty()) {
    Entry e;
    try {
      c.drain_one(e);
    } catch (const std::out_of_range&) {
      RCHECK(false, "%s: evict_object threw although the reference still holds %zu entries", what, ref.size());
    }
    const Entry& r = ref.back();
    RCHECK(e.key == r.key && e.size == r.size && (!C::has_val || e.val == r.val),
           "%s: evicted (key %d, size %zu, value %d), the least recently used reference entry is (key %d, size %zu, value %d)", what, e.key,
           e.size, e.val, r.key, r.size, r.val);
    ref.pop_back();
    RCHECK(c.c.size() == ref_total(ref) && c.c.count() == ref.size(), "%s: size()/count() after evicting key %d", what, e.key);
  }
  bool threw = false;
  try {
    Entry e;
    c.drain_one(e);
  } catch (const std::out_of_range&) {
    threw = true;
  }
  RCHECK(threw, "%s: evict_object on the drained container did not throw out_of_range (an entry too many)", what);
  return 0;
}

template <typename C>
static int run(const Args& a, const std::string& op) {
  if (a.extra.size() < 4) return 2;
  std::vector<int> sa = parse_shape(a.extra[2]), sb = parse_shape(a.extra[3]);
  C c, d;
  Ref ref, refd;
  build(c, ref, sa, a.arr("in_key"), a.arr("in_size"), a.arr("in_val"));
  for (auto i = ref.begin(); i != ref.end(); ++i)
    for (auto j = std::next(i); j != ref.end(); ++j)
      if (i->key == j->key) { printf("counterexample has duplicate keys\n"); return 2; }
  int hit = (int)(int32_t)a.u("in_hit", (uint64_t)-1);
  int k = (int)(uint32_t)a.u("in_k");
  if (op == "evict_object" || op == "peek") hit = -1;
  if (hit >= 0 && hit < (int)ref.size()) k = std::next(ref.begin(), hit)->key;
  int v = (int)(uint32_t)a.u("in_v");
  size_t sz = a.u("in_sz");
  ssize_t nsz = (ssize_t)a.u("in_nsz");
  bool touch = a.u("in_touch") != 0;
  auto it = ref_find(ref, k);
  bool present = it != ref.end();

  if (op == "ctor") {
    C fresh;
    return compare(fresh, Ref(), "new container");
  } else if (op == "insert" || op == "insert_const" || (op == "emplace" && !C::has_val)) {
    bool r;
    if constexpr (C::has_val) {
#ifdef C12_CONST_OVERLOADS
      if (op == "insert_const") {
        const int ck = k, cv = v;
        r = c.c.insert(ck, cv, sz);
      } else
#endif
        r = c.c.insert(int(k), int(v), sz);
    } else {
      r = (op == "insert") ? c.c.insert(k, sz) : c.c.emplace(int(k), sz);
    }
    if (present) {
      it->size = sz;
      it->val = v;
      ref_front(ref, it);
    } else
      ref.push_front(Entry{k, sz, v});
    RCHECK(r == !present, "%s(%d) returned %d, key was %s", op.c_str(), k, (int)r, present ? "present" : "absent");
  } else if (op == "emplace") {
    bool r;
    if constexpr (C::has_val) r = c.c.emplace(int(k), int(v), sz); else r = false;
    if (!present) ref.push_front(Entry{k, sz, v});
    RCHECK(r == !present, "emplace(%d) returned %d, key was %s", k, (int)r, present ? "present" : "absent");
  } else if (op == "erase") {
    bool r = c.c.erase(k);
    if (present) ref.erase(it);
    RCHECK(r == present, "erase(%d) returned %d, key was %s", k, (int)r, present ? "present" : "absent");
  } else if (op == "clear") {
    c.c.clear();
    ref.clear();
  } else if (op == "change_size") {
    bool r;
    if constexpr (C::has_val) r = c.c.change_size(k, sz, touch); else r = c.c.change_size(k, sz);
    if (present) {
      it->size = sz;
      if (C::has_val && touch) ref_front(ref, it);
    }
    RCHECK(r == present, "change_size(%d) returned %d, key was %s", k, (int)r, present ? "present" : "absent");
  } else if (op == "touch") {
    bool r = c.c.touch(k, nsz);
    if (present) {
      if (nsz >= 0) it->size = (size_t)nsz;
      ref_front(ref, it);
    }
    RCHECK(r == present, "touch(%d) returned %d, key was %s", k, (int)r, present ? "present" : "absent");
  } else if (op == "evict_object") {
    bool threw = false;
    Entry e{0, 0, 0};
    try {
      c.drain_one(e);
    } catch (const std::out_of_range&) {
      threw = true;
    }
    RCHECK(threw == ref.empty(), "evict_object %s on a container with %zu entries", threw ? "threw" : "did not throw", ref.size());
    if (!ref.empty()) {
      const Entry& r = ref.back();
      RCHECK(e.key == r.key && e.size == r.size && (!C::has_val || e.val == r.val), "evict_object returned key %d size %zu, least recently used is key %d size %zu",
             e.key, e.size, r.key, r.size);
      ref.pop_back();
    }
  } else if (op == "peek") {
    if constexpr (!C::has_val) {
      bool threw = false;
      std::pair<int, size_t> p{0, 0};
      try {
        p = c.c.peek();
      } catch (const std::out_of_range&) {
        threw = true;
      }
      RCHECK(threw == ref.empty(), "peek %s on a container with %zu entries", threw ? "threw" : "did not throw", ref.size());
      if (!ref.empty())
        RCHECK(p.first == ref.back().key && p.second == ref.back().size, "peek returned key %d size %zu, least recently used is key %d size %zu",
               p.first, p.second, ref.back().key, ref.back().size);
    }
  } else if (op == "swap") {
    build(d, refd, sb, a.arr("in_key_b"), a.arr("in_size_b"), a.arr("in_val_b"));
    c.c.swap(d.c);
    if (compare(c, refd, "this after swap")) return 1;
    return compare(d, ref, "other after swap");
  } else if (op == "swap_self") {
    c.c.swap(c.c);
  } else if (op == "observe") {
  } else if (op == "at" || op == "at_const") {
    if constexpr (C::has_val) {
      bool threw = false;
      int got = 0;
      try {
#ifdef C12_CONST_OVERLOADS
        if (op == "at_const") {
          const LRUMap<int, int>& cc = c.c;
          got = cc.at(k);
        } else
#endif
          got = c.c.at(k);
      } catch (const std::out_of_range&) {
        threw = true;
      }
      RCHECK(threw == !present, "at(%d) %s, key was %s", k, threw ? "threw" : "did not throw", present ? "present" : "absent");
      if (present) {
        RCHECK(got == it->val, "at(%d) returned %d, last stored value is %d", k, got, it->val);
        ref_front(ref, it);
      }
    }
  } else if (op == "item_size") {
    if constexpr (C::has_val) {
      bool threw = false;
      size_t got = 0;
      try {
        got = c.c.item_size(k);
      } catch (const std::out_of_range&) {
        threw = true;
      }
      RCHECK(threw == !present, "item_size(%d) %s, key was %s", k, threw ? "threw" : "did not throw", present ? "present" : "absent");
      if (present) RCHECK(got == it->size, "item_size(%d) returned %zu, stored size is %zu", k, got, it->size);
    }
  } else {
    fprintf(stderr, "unknown operation %s\n", op.c_str());
    return 2;
  }
  return compare(c, ref, op.c_str());
}

template <typename C>
static int local_insert_existing(const Args& a) {
  // the unbounded local groups have no heap to replay; the size arithmetic of "insert on an existing key" has:
  // stored size g_sz0, new size in_size
  C c;
  Ref ref;
  ref.push_back(Entry{7, (size_t)a.u("g_sz0"), 1});
  c.put(ref.front());
  Entry e{7, (size_t)a.u("in_size"), 2};
  c.put(e);
  ref.front() = e;
  return compare(c, ref, "insert on an existing key");
}

// the operations called with their default arguments
static int defaults() {
  LRUSet<int> s;
  s.insert(1);
  s.emplace(2);
  RCHECK(s.size() == 0 && s.count() == 2, "LRUSet::insert(k)/emplace(k) count size 0: size() = %zu", s.size());
  s.insert(1, 10);
  s.insert(2, 20);
  s.touch(1);
  RCHECK(s.size() == 30, "LRUSet::touch(k) changed the size: size() = %zu, expected 30", s.size());
  RCHECK(s.peek().first == 2, "LRUSet::touch(k) did not refresh recency");
  LRUMap<int, int> m;
  m.insert(1, 100);
  m.emplace(2, 200);
  RCHECK(m.size() == 2 && m.count() == 2, "LRUMap::insert(k, v)/emplace(k, v) count size 1 each: size() = %zu", m.size());
  m.touch(1);
  RCHECK(m.size() == 2, "LRUMap::touch(k) changed the size: size() = %zu", m.size());
  m.change_size(2, 5);
  RCHECK(m.size() == 6, "size() = %zu after change_size(2, 5), expected 6", m.size());
  auto e = m.evict_object();
  RCHECK(e.key == 1, "LRUMap::change_size(k, s) did not refresh recency: evicted key %d, expected 1", e.key);
  return 0;
}

// local_sweep <cont> <op>: the counterexample of a local (one-neighbourhood) contract has no heap to replay; the operation is run on the
// real container from every recency order of up to three entries, on every entry and on an absent key, with the size / touch
// parameters 0, positive, negative, and compared with the reference recency list (a search for a failing input, reported as such)
template <typename C>
static int local_sweep(const std::string& cont, const std::string& op) {
  const char* shapes[] = {"-", "0", "0,1", "1,0", "0,1,2", "2,0,1", "1,2,0"};
  for (const char* sh : shapes) {
    int n = (std::string(sh) == "-") ? 0 : (int)parse_shape(sh).size();
    for (int hit = -1; hit < n; hit++) for (long long nsz : {-1LL, 0LL, 7LL}) for (int sz : {0, 5}) for (int touch = 0; touch < 2; touch++) {
      std::vector<std::string> sv = {"driver", op, cont, std::to_string(n), sh, "-", "in_key=11,22,33", "in_size=1,2,3", "in_val=10,20,30",
          "in_hit=" + std::to_string((unsigned)(hit < 0 ? 0xFFFFFFFFu : (unsigned)hit)), "in_k=77", "in_v=5", "in_sz=" + std::to_string(sz),
          "in_nsz=" + std::to_string((unsigned long long)nsz), "in_touch=" + std::to_string(touch)};
      std::vector<char*> av;
      for (auto& x : sv) av.push_back(x.data());
      Args a((int)av.size(), av.data());
      printf("sweep: %s.%s on recency order {%s}, %s, sz=%d nsz=%lld touch=%d\n", cont.c_str(), op.c_str(), sh, hit < 0 ? "absent key" : ("entry #" + std::to_string(hit)).c_str(), sz, nsz, touch);
      int rc = run<C>(a, op);
      if (rc == 1) return 1;
    }
  }
  return 0;
}

int main(int argc, char** argv) {
  Args a(argc, argv);
  if (a.mode == "defaults") return defaults();
  if (a.mode == "local_sweep" && a.extra.size() >= 2) {
    int rc = a.extra[0] == "LRUMap" ? local_sweep<MapC>(a.extra[0], a.extra[1]) : local_sweep<SetC>(a.extra[0], a.extra[1]);
    if (rc == 0) printf("real code behaves like the reference recency list on the swept inputs\n");
    return rc;
  }
  if (a.extra.empty()) return 2;
  bool map = a.extra[0] == "LRUMap";
  if (a.mode == "local_insert_existing") return map ? local_insert_existing<MapC>(a) : local_insert_existing<SetC>(a);
  int rc = map ? run<MapC>(a, a.mode) : run<SetC>(a, a.mode);
  if (rc == 0) printf("real code behaves like the reference recency list\n");
  return rc;
}
