/* C09 O-1: parse_data_string as a whole under its totality contract.  The loop body is the step function pds_step, bound by its
 * contract (contracts/C09_step.h, proved by the parse_data_string.step groups on the same extracted text); the loop carries
 * the loop contract injected by the extractor. */
#include "contracts/C03_leaf.h"
#include "x_Encoding_leaf.c"
#include "x_c09_prelude.c"
#include "contracts/C09_step.h"
#include "contracts/C09_parse.h"
int verif_exc; size_t g_vk, g_k, g_w, g_j, g_n; bool g_quoted, g_returned; 
const char* g_end; char g_c0, g_c1, g_c2, g_c3;
unsigned g_st_calls; const char* g_st_arg; const char* g_st_end; int g_st_base; int g_st_kind;
unsigned long long g_num; double g_dbl; float g_flt; unsigned g_load_calls;
/* the parser state (locals of parse_data_string that live across iterations) */
const char* in; uint8_t chr;
bool reading_string, reading_unicode_string, reading_comment, reading_multiline_comment, reading_high_nybble, reading_filename;
bool big_endian, mask_enabled, allow_files;
OUT_STR* data; OUT_STR* mask; vstr filename;
#include "x_pds_step.c"
#include "x_pds_skeleton.c"

void h_parse(void)
{
  OUT_STR* d; const char* s; OUT_STR* m; size_t in_size; uint64_t in_flags; size_t in_vk;
  g_vk = in_vk;
  parse_data_string(d, s, in_size, m, in_flags);
  VERIF_REACH();
}
