/* C20 side-car contract for Matrix4<double>::invert() / inverse() (src/Vector-inl.hh).
 *
 * What is decided: invert() IS Gauss-Jordan elimination without pivoting on the augmented matrix [M | I]
 *     for z = 0..3:  d = L[z][z]; singular-pivot error if d == 0; row z of [L | R] divided by d (all 8 entries);
 *                    for every other row y: f = -L[z][y]; if f != 0: row y += f * row z (all 8 entries)
 *     result R (storage convention m[column][row]),
 * i.e. the result equals the reference elimination spec_gauss_jordan below, entry by entry, bit by bit, and the
 * "not invertible" error is raised exactly when the reference meets a zero pivot -- for EVERY interpretation of the
 * three arithmetic operations: / , * and + on entries are the uninterpreted function symbols UF_DIV, UF_MUL, UF_ADD
 * (cbmc: __CPROVER_uninterpreted_*, functional consistency only), in the code by extraction rule and in the reference.
 * IEEE-754 double arithmetic is one such interpretation, so the equality holds for the compiled code.
 * The comparisons with zero and the negation of the elimination factor are the native double operations.
 *
 * What is NOT decided: the numerical statement M * inverse(M) = I within a tolerance for diagonally dominant M
 * (floating-point error analysis; no back end decides double multiplication/division chains of this depth), and the
 * algebraic fact that the reference elimination computes the inverse in exact arithmetic (textbook).
 */
#ifndef C20_INVERT_H
#define C20_INVERT_H
#include "contracts/verif.h"

typedef struct { double m[4][4]; } Matrix4;

double __CPROVER_uninterpreted_fdiv(double, double);
double __CPROVER_uninterpreted_fmul(double, double);
double __CPROVER_uninterpreted_fadd(double, double);
#define UF_DIV(a, b) __CPROVER_uninterpreted_fdiv(a, b)
#define UF_MUL(a, b) __CPROVER_uninterpreted_fmul(a, b)
#define UF_ADD(a, b) __CPROVER_uninterpreted_fadd(a, b)
/* fabs / abs on an entry (e.g. a tolerance test on the pivot): uninterpreted as well -- the specification compares the pivot with zero exactly */
double __CPROVER_uninterpreted_fabs(double);
#define UF_FABS(a) __CPROVER_uninterpreted_fabs(a)

/* Matrix4<T>::Matrix4(): the identity (decided by group Vector.Matrix4<int64_t>.ctor on the same text) */
static inline void Matrix4_identity(Matrix4* p)
{
  for (size_t x = 0; x < 4; x++)
    for (size_t y = 0; y < 4; y++)
      p->m[x][y] = (x == y) ? 1.0 : 0.0;
}

/* the reference: textbook Gauss-Jordan on [L | R]; returns 1 when a pivot is zero */
static inline int spec_gauss_jordan(Matrix4* L, Matrix4* R)
{
  for (size_t p = 0; p < 4; p++) {
    double d = L->m[p][p];
    if (d == 0.0) return 1;
    for (size_t c = 0; c < 4; c++) { L->m[c][p] = UF_DIV(L->m[c][p], d); R->m[c][p] = UF_DIV(R->m[c][p], d); }
    for (size_t row = 0; row < 4; row++) {
      if (row == p) continue;
      double f = -L->m[p][row];
      if (f == 0) continue;
      for (size_t c = 0; c < 4; c++) {
        L->m[c][row] = UF_ADD(L->m[c][row], UF_MUL(L->m[c][p], f));
        R->m[c][row] = UF_ADD(R->m[c][row], UF_MUL(R->m[c][p], f));
      }
    }
  }
  return 0;
}

extern Matrix4 g_spec_L, g_spec_R;
extern int g_spec_singular;
extern size_t g_x, g_y;        /* ghost entry (column, row) */
static inline _Bool biteq(double a, double b) { union { double d; uint64_t u; } x, y; x.d = a; y.d = b; return x.u == y.u; }

Matrix4* Matrix4_invert(Matrix4* self)
__CPROVER_requires(verif_exc == 0 && g_x < 4 && g_y < 4)
__CPROVER_ensures((verif_exc == 0) == (g_spec_singular == 0))
__CPROVER_ensures(verif_exc == 0 || verif_exc == EXC_runtime_error)
__CPROVER_ensures(verif_exc == 0 ==> (__CPROVER_return_value == self && biteq(self->m[g_x][g_y], g_spec_R.m[g_x][g_y])))
__CPROVER_assigns(verif_exc, __CPROVER_object_whole(self));

Matrix4 Matrix4_inverse(const Matrix4* self)
__CPROVER_requires(verif_exc == 0 && g_x < 4 && g_y < 4)
__CPROVER_ensures((verif_exc == 0) == (g_spec_singular == 0))
__CPROVER_ensures(verif_exc == 0 ==> biteq(__CPROVER_return_value.m[g_x][g_y], g_spec_R.m[g_x][g_y]))
__CPROVER_assigns(verif_exc);

/* ---- Matrix4<double>::operator*(Matrix4) and operator*=(Matrix4): the textbook product over uninterpreted arithmetic ----
 * entry (column x, row y) of A * B is  sum_z A.m[z][y] * B.m[x][z], accumulated from 0 in the order z = 0, 1, 2, 3 (the order is part of
 * the reference because + is uninterpreted: every interpretation, IEEE double among them).  A *= B stores that product in A and returns
 * it -- also when B is A itself (the product is formed from the values the operands had at the call). */
#define SPEC_PROD_TERM(acc, A, B, x, y, z) UF_ADD(acc, UF_MUL((A)->m[z][y], (B)->m[x][z]))
#define SPEC_PROD(A, B, x, y) SPEC_PROD_TERM(SPEC_PROD_TERM(SPEC_PROD_TERM(SPEC_PROD_TERM(0.0, A, B, x, y, 0), A, B, x, y, 1), A, B, x, y, 2), A, B, x, y, 3)
extern double g_spec_P;          /* ghost: SPEC_PROD of the operand values at the call, at the ghost entry (set by the caller) */

Matrix4 Matrix4_mulm(const Matrix4* self, const Matrix4* other)
__CPROVER_requires(g_x < 4 && g_y < 4 && biteq(g_spec_P, SPEC_PROD(self, other, g_x, g_y)))
__CPROVER_ensures(biteq(__CPROVER_return_value.m[g_x][g_y], g_spec_P))
__CPROVER_assigns();

Matrix4 Matrix4_imulm(Matrix4* self, const Matrix4* other)
__CPROVER_requires(g_x < 4 && g_y < 4 && biteq(g_spec_P, SPEC_PROD(self, other, g_x, g_y)))
__CPROVER_ensures(biteq(self->m[g_x][g_y], g_spec_P) && biteq(__CPROVER_return_value.m[g_x][g_y], g_spec_P))
__CPROVER_assigns(__CPROVER_object_whole(self));
#endif
