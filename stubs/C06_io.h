/* C06 TRUSTED stubs (assumed models of the I/O dependencies of src/Image.cc; DESIGN.md 3.2, section 4 C06).
 *
 *  C06_freadx(f, data, size)   phosg::freadx (src/Filesystem.cc: fread + "throw io_error unless exactly size bytes arrived"):
 *        stores at most `size` bytes at `data` (never more -- the memory-safety obligation of every call site is the assertion
 *        that the target holds `size` bytes), then either throws io_error (short file: the TRUNCATION case, chosen
 *        nondeterministically at every call) or has delivered exactly the next `size` bytes of the stream.
 *        Ghost stream: g_fpos = number of bytes consumed so far; "the byte at stream position g_bk has the value g_bv"
 *        (ghost value idiom: g_bk symbolic and fixed by the harness, so this speaks about every byte of the file).
 *  C06_fseek_cur(f, n)         fseek(f, n, SEEK_CUR) on a read stream: the next n bytes are skipped (ISO C 7.21.9.2).
 *  C06_fseek_set(f, pos)       fseek(f, pos, SEEK_SET): only the requested position is recorded (g_seek_to).
 *  C06_writer(data, size)      the `writer` callback of Image::save_helper (fwritex / std::string::append in the two callers):
 *        consumes exactly `size` bytes starting at `data` (memory-safety obligation: they are readable).
 *        Ghost stream: g_wpos = bytes emitted so far, g_wcalls = number of calls, g_first_size = size of the first call,
 *        "the emitted byte at position g_wk is g_wv" for the symbolic position g_wk, and -- the view of an independent
 *        decoder -- the header fields of a Windows bitmap decoded from the first 14+40(+16) emitted bytes at the offsets
 *        the BMP format defines (little-endian numerals), when C06_DECODE_BMP_HEADER is defined.
 *  C06_snprintf / C06_strlen    the header text of the PPM saver: some NUL-terminated string shorter than the buffer (content not modelled).
 *  C06_MAP_AT(table, key)     std::unordered_map::at on a map built from a braced list of 4 pairs (the BI_BITFIELDS mask table).
 *  C06_malloc_unique(size)     phosg::malloc_unique (src/Strings.cc) = malloc, ASSUMED to succeed; the unique_ptr deleter is dropped (no leak reasoning).
 */
#ifndef C06_IO_H
#define C06_IO_H
#include "contracts/verif.h"
#include <stdio.h>
#include <stdlib.h>

_Bool nondet_bool(void);

/* ---- input stream ---- */
size_t g_fpos;   /* bytes consumed from the stream (relative to the point where the verified block starts) */
size_t g_bk;     /* ghost stream position ... */
uint8_t g_bv;    /* ... and the value the file has there */
size_t g_reads;  /* number of completed freadx calls */

static inline void C06_freadx(FILE* f, void* data, size_t size) {
  (void)f;
  __CPROVER_assert(__CPROVER_w_ok(data, size), "freadx target holds size bytes");
  if (size != 0) {
    __CPROVER_havoc_slice(data, size);
  }
  if (nondet_bool()) { /* fewer than size bytes left in the file */
    verif_exc = EXC_io_error;
    return;
  }
  if (g_bk >= g_fpos && g_bk - g_fpos < size) {
    ((uint8_t*)data)[g_bk - g_fpos] = g_bv;
  }
  g_fpos += size;
  g_reads++;
}

size_t g_seek_to;
static inline int C06_fseek_set(FILE* f, size_t pos) {
  (void)f;
  g_seek_to = pos;
  return 0;
}

static inline int C06_fseek_cur(FILE* f, size_t n) {
  (void)f;
  g_fpos += n;
  return 0;
}

static inline void* C06_malloc_unique(size_t size) {
  void* p = malloc(size);
  __CPROVER_assume(p != 0); /* allocation succeeds (phosg::malloc_unique does not check; out-of-memory behaviour is not decided here) */
  return p;
}

/* std::unordered_map<uint32_t, size_t> built from a braced list of 4 pairs, and its .at(): the mapped value of the first
 * entry with that key, std::out_of_range if there is none (keys of the list are distinct in the source) */
typedef struct { uint32_t k; size_t v; } C06_kv;
#define C06_MAP_AT(m, key) C06_map_at4(m, sizeof(m) / sizeof(m[0]), key)
static inline size_t C06_map_at4(const C06_kv* m, size_t n, uint32_t key) {
  __CPROVER_assert(n == 4, "mask table has 4 entries");
  if (m[0].k == key) return m[0].v;
  if (m[1].k == key) return m[1].v;
  if (m[2].k == key) return m[2].v;
  if (m[3].k == key) return m[3].v;
  verif_exc = EXC_out_of_range;
  return 0;
}

/* ---- output stream ---- */
size_t g_wpos;       /* bytes emitted so far */
size_t g_wcalls;     /* number of writer calls */
size_t g_first_size; /* size of the first write (the header block of a BMP) */
size_t g_wk;         /* ghost output position ... */
uint8_t g_wv;        /* ... and the byte emitted there */
_Bool g_wseen;       /* position g_wk has been emitted */

#ifdef C06_DECODE_BMP_HEADER
/* what an independent BMP decoder reads from the first bytes of the file (BITMAPFILEHEADER + BITMAPINFOHEADER/V4/V5) */
uint32_t g_h_magic, g_h_file_size, g_h_data_offset, g_h_info_size, g_h_planes, g_h_depth, g_h_comp, g_h_image_size;
int32_t g_h_width, g_h_height;
uint32_t g_h_mask_r, g_h_mask_g, g_h_mask_b, g_h_mask_a;
#endif

static inline void C06_writer(const void* data, size_t size) {
  __CPROVER_assert(__CPROVER_r_ok(data, size), "writer source holds size bytes");
  if (g_wcalls == 0) {
    g_first_size = size;
#ifdef C06_DECODE_BMP_HEADER
    if (size >= 54) {
      const uint8_t* p = (const uint8_t*)data;
      g_h_magic = (uint32_t)DEC_LE16(p);
      g_h_file_size = (uint32_t)DEC_LE32(p + 2);
      g_h_data_offset = (uint32_t)DEC_LE32(p + 10);
      g_h_info_size = (uint32_t)DEC_LE32(p + 14);
      g_h_width = (int32_t)(uint32_t)DEC_LE32(p + 18);
      g_h_height = (int32_t)(uint32_t)DEC_LE32(p + 22);
      g_h_planes = (uint32_t)DEC_LE16(p + 26);
      g_h_depth = (uint32_t)DEC_LE16(p + 28);
      g_h_comp = (uint32_t)DEC_LE32(p + 30);
      g_h_image_size = (uint32_t)DEC_LE32(p + 34);
      if (size >= 70) {
        g_h_mask_r = (uint32_t)DEC_LE32(p + 54);
        g_h_mask_g = (uint32_t)DEC_LE32(p + 58);
        g_h_mask_b = (uint32_t)DEC_LE32(p + 62);
        g_h_mask_a = (uint32_t)DEC_LE32(p + 66);
      }
    }
#endif
  }
  if (g_wk >= g_wpos && g_wk - g_wpos < size) {
    g_wv = ((const uint8_t*)data)[g_wk - g_wpos];
    g_wseen = 1;
  }
  g_wpos += size;
  g_wcalls++;
}

/* ---- text header of the PPM / PAM saver ---- */
size_t g_hdr_len; /* length of the header text produced by the last snprintf */
size_t nondet_size_t(void);
/* snprintf(buf, n, fmt, ...) with n > 0: stores a NUL-terminated string of fewer than n characters (ISO C 7.21.6.5); WHICH
 * characters is not modelled (the PPM header text is not decided by this check) */
#define C06_snprintf(buf, n, ...) C06_snprintf_any(buf, n) /* format and arguments are not evaluated by the model */
static inline int C06_snprintf_any(char* buf, size_t n) {
  __CPROVER_assert(n > 0 && __CPROVER_w_ok(buf, n), "snprintf target holds n bytes");
  __CPROVER_havoc_slice(buf, n);
  size_t len = nondet_size_t();
  __CPROVER_assume(len < n);
  buf[len] = 0;
  g_hdr_len = len;
  return (int)len;
}
/* strlen of the string the last C06_snprintf produced */
static inline size_t C06_strlen(const char* s) {
  __CPROVER_assert(__CPROVER_r_ok(s, g_hdr_len + 1) && s[g_hdr_len] == 0, "strlen argument is the header text");
  return g_hdr_len;
}

#endif
