/* C18: format_size (unit ladder) and parse_size (digit fold, unit letter -> scale).  Written from the property statement
 * ("format_size and parse_size agree to the printed precision for every size and unit") and the documented text forms
 *    "<n> bytes"   |   "<x.xx> <U>B"   |   "<n> bytes (<x.xx> <U>B)"     U in K M G T P E (powers of 1024).
 * Decided here: WHICH unit is chosen (the largest one that is <= size), WHICH quotient is printed (size / unit, as numerator and
 * denominator of the float division), the exact byte count and the fixed text around them.  The decimal rendering of the
 * quotient (float division + printf %.02f) is not decided by this technique. */
#ifndef CONTRACTS_C18_SIZE_H
#define CONTRACTS_C18_SIZE_H
#include "stubs/C18_text.h"

extern c18_text g_c18_out;

/* the largest unit <= size (units: 2^10 .. 2^60), its letter */
#define SZ_UNIT(s) ((s) >= (1ull << 60) ? (1ull << 60) : (s) >= (1ull << 50) ? (1ull << 50) : (s) >= (1ull << 40) ? (1ull << 40) : \
                    (s) >= (1ull << 30) ? (1ull << 30) : (s) >= (1ull << 20) ? (1ull << 20) : (1ull << 10))
#define SZ_LETTER(s) ((s) >= (1ull << 60) ? 'E' : (s) >= (1ull << 50) ? 'P' : (s) >= (1ull << 40) ? 'T' : \
                      (s) >= (1ull << 30) ? 'G' : (s) >= (1ull << 20) ? 'M' : 'K')
#define PK(c, i) (((uint64_t)(uint8_t)(c)) << (8 * (i)))
#define SZ_LIT_BYTES      (PK(' ',0) | PK('b',1) | PK('y',2) | PK('t',3) | PK('e',4) | PK('s',5))                        /* " bytes"   */
#define SZ_LIT_BYTES_OPEN (SZ_LIT_BYTES | PK(' ',6) | PK('(',7))                                                         /* " bytes (" */
#define SZ_LIT_UNIT(s)       (PK(' ',0) | PK(SZ_LETTER(s),1) | PK('B',2))                                                /* " KB"      */
#define SZ_LIT_UNIT_CLOSE(s) (SZ_LIT_UNIT(s) | PK(')',3))                                                                /* " KB)"     */
/* token kinds, one octal digit each (stubs/C18_text.h): %zu = 2, literal run = 1, %.02f = 4 */
#define SZ_SHAPE_BYTES 021
#define SZ_SHAPE_UNIT  041
#define SZ_SHAPE_BOTH  02141
/* the printed quotient is the float division of size by the chosen unit, printed with two decimals */
#define SZ_QUOTIENT_OK(t, s) ((t)->ndbl == 1 && (t)->dbl_prec == 2 && (t)->dbl_is_ratio && (t)->dbl_num == (s) && (t)->dbl_den == SZ_UNIT(s))

void format_size(c18_text* ret, size_t size, bool include_bytes)
__CPROVER_requires(ret == &g_c18_out && verif_exc == 0 && g_ratio_calls == 0)
__CPROVER_assigns(verif_exc, g_c18_out, g_ratio_calls, g_ratio_num, g_ratio_den, g_ratio_val)
__CPROVER_ensures(verif_exc == 0)
/* below one KB: "<size> bytes" whatever include_bytes says */
__CPROVER_ensures(size < 1024 ==> (ret->shape == SZ_SHAPE_BYTES && ret->nu64 == 1 && ret->u64_val == size && ret->u64_width == 0 &&
                                   ret->lit0 == SZ_LIT_BYTES && ret->lit0n == 6 && g_ratio_calls == 0))
/* "<size / unit> <U>B" with the largest unit <= size */
__CPROVER_ensures((size >= 1024 && !include_bytes) ==> (ret->shape == SZ_SHAPE_UNIT && g_ratio_calls == 1 && SZ_QUOTIENT_OK(ret, size) &&
                                                       ret->lit0 == SZ_LIT_UNIT(size) && ret->lit0n == 3))
/* "<size> bytes (<size / unit> <U>B)" */
__CPROVER_ensures((size >= 1024 && include_bytes) ==> (ret->shape == SZ_SHAPE_BOTH && g_ratio_calls == 1 && ret->nu64 == 1 && ret->u64_val == size &&
                                                      ret->u64_width == 0 && ret->lit0 == SZ_LIT_BYTES_OPEN && ret->lit0n == 8 &&
                                                      SZ_QUOTIENT_OK(ret, size) && ret->lit1 == SZ_LIT_UNIT_CLOSE(size) && ret->lit1n == 4))
;

/* ---------------------------------------------------------------------------------------------------------------------------
 * parse_size(str): "[0-9]*(\.[0-9]*)? *[KkMmGgTtPpEe]?..." scanned left to right.
 * The input is any NUL-terminated buffer of g_ps_n bytes (terminator at the last byte; earlier NULs allowed).  Ghosts, all set by
 * ghost statements placed in the extracted text (props/C18.py): g_ps_ndig = characters consumed by the integer loop, g_ps_int = the
 * numeral value of those characters folded in lock-step by the DEFINITION value(s d) = value(s) * 10 + digit(d) (mod 2^64),
 * g_ps_sp0 / g_ps_nsp = where the blank loop starts / how many blanks it consumes.  g_ps_k, g_ps_k2: ghost indices (for-all).
 * Decided: the scan never leaves the buffer; the integer loop consumes exactly the maximal digit prefix; the blank loop exactly
 * the maximal run of ' '; the unit letter that follows selects the scale; without a fractional part the result is
 * value * scale.  Not decided: the contribution of a fractional part (double arithmetic in a loop). */
extern const char* g_ps_base;
extern size_t g_ps_n, g_ps_ndig, g_ps_k, g_ps_k2, g_ps_sp0, g_ps_nsp;
extern uint64_t g_ps_int;
#define C18_ISDIGIT(c) ((c) >= '0' && (c) <= '9')
#define C18_DIGIT(c) ((uint64_t)((c) - '0'))
#define PS_SCALE(c) (((c) == 'K' || (c) == 'k') ? (1ull << 10) : ((c) == 'M' || (c) == 'm') ? (1ull << 20) : ((c) == 'G' || (c) == 'g') ? (1ull << 30) : \
                     ((c) == 'T' || (c) == 't') ? (1ull << 40) : ((c) == 'P' || (c) == 'p') ? (1ull << 50) : ((c) == 'E' || (c) == 'e') ? (1ull << 60) : 1ull)
#ifdef VERIF_SMALL
extern char g_ps_buf[8];      /* small fixed buffer: its content is visible in a counterexample and can be replayed natively */
#define PS_BUFFER(str) ((str) == g_ps_buf && g_ps_n <= 8)
#else
#define PS_BUFFER(str) (__CPROVER_is_fresh(str, g_ps_n))
#endif

size_t parse_size(const char* str)
__CPROVER_requires(g_ps_n >= 1 && g_ps_n <= (1u << 20))
__CPROVER_requires(PS_BUFFER(str))
__CPROVER_requires(str[g_ps_n - 1] == 0)
__CPROVER_assigns(g_ps_base, g_ps_ndig, g_ps_int, g_ps_sp0, g_ps_nsp)
/* the integer loop consumed the maximal digit prefix */
__CPROVER_ensures(g_ps_ndig < g_ps_n && !C18_ISDIGIT(str[g_ps_ndig]))
__CPROVER_ensures(g_ps_k < g_ps_ndig ==> C18_ISDIGIT(str[g_ps_k]))
/* the blank loop starts right after the number and consumed the maximal run of blanks */
__CPROVER_ensures(g_ps_sp0 >= g_ps_ndig && g_ps_sp0 < g_ps_n && g_ps_nsp < g_ps_n && g_ps_sp0 + g_ps_nsp < g_ps_n && str[g_ps_sp0 + g_ps_nsp] != ' ')
__CPROVER_ensures(str[g_ps_ndig] != '.' ==> g_ps_sp0 == g_ps_ndig)
__CPROVER_ensures(g_ps_k2 < g_ps_nsp ==> str[g_ps_sp0 + g_ps_k2] == ' ')
/* integer input: value of the digits times the scale the unit letter names (powers of 1024; no letter: 1) */
__CPROVER_ensures(str[g_ps_ndig] != '.' ==> __CPROVER_return_value == g_ps_int * PS_SCALE(str[g_ps_sp0 + g_ps_nsp]))
;
#endif
