"""Contract-strength audit (DESIGN.md 3.10): python3 -m vf.audit <ID> [name-regex]
Applies each small source mutation of /verif/mutants/<ID>.json to a scratch copy of /repo/src (outside /repo and
/verif), runs the check against it and expects a VIOLATION (or, where stated, exit 2). Development aid only."""
import json, os, re, shutil, subprocess, sys, tempfile
from concurrent.futures import ThreadPoolExecutor
VERIF = os.path.dirname(os.path.dirname(os.path.abspath(__file__)))


def one(pid, m, idx, tier):
    d = tempfile.mkdtemp(prefix='verif-audit-')
    try:
        shutil.copytree('/repo/src', os.path.join(d, 'src'))
        p = os.path.join(d, m['file'])
        t = open(p).read()
        if t.count(m['old']) != m.get('count', 1):
            return m['name'], 'MUTANT-STALE (old text occurs %d times)' % t.count(m['old']), ''
        open(p, 'w').write(t.replace(m['old'], m['new']))
        cmd = [os.path.join(VERIF, 'check'), pid, '--src', d, '--tag', 'audit%d' % idx, '--no-evidence', '--tier', tier, '--jobs', '6']
        if m.get('only'):
            cmd += ['--only', m['only']]
        r = subprocess.run(cmd, capture_output=True, text=True)
        vio = [l for l in r.stdout.split('\n') if l.startswith('VIOLATION')]
        und = [l for l in r.stdout.split('\n') if l.startswith('UNDECIDED') or l.startswith('EXTRACTION')]
        want = m.get('expect', 'violation')
        ok = (want == 'violation' and r.returncode == 1 and vio) or (want == 'undecided' and r.returncode == 2)
        detail = (vio[0] if vio else (und[0][:300] if und else r.stdout[-300:]))
        return m['name'], ('CAUGHT' if ok else 'SURVIVED') + ' rc=%d' % r.returncode, detail
    finally:
        shutil.rmtree(d, ignore_errors=True)
        shutil.rmtree(os.path.join(VERIF, 'build', '%s-audit%d' % (pid, idx)), ignore_errors=True)


def main():
    pid = sys.argv[1]
    rx = sys.argv[2] if len(sys.argv) > 2 else None
    ms = json.load(open(os.path.join(VERIF, 'mutants', pid + '.json')))
    ms = [m for m in ms if not rx or re.search(rx, m['name'])]
    tier = os.environ.get('VERIF_TIER', 'quick')
    with ThreadPoolExecutor(max_workers=int(os.environ.get('AUDIT_JOBS', '3'))) as ex:
        res = list(ex.map(lambda im: one(pid, im[1], im[0], tier), enumerate(ms)))
    bad = 0
    for name, st, detail in res:
        print('%-40s %s  %s' % (name, st, detail))
        bad += not st.startswith('CAUGHT')
    print('%d mutants, %d not caught' % (len(res), bad))
    return 1 if bad else 0


if __name__ == '__main__':
    sys.exit(main())
