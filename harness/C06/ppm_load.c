/* C06: PPM / PGM / PAM loader from the allocation on (-DC06_DIM -DC06_CW -DC06_GRAY). The function text is x_ppm_load.c. */
#include "contracts/C06_ppm.h"
#include "x_ppm_load.c"

int verif_exc;

void h_ppm_tail(void) {
  size_t in_w, in_h, in_P, in_c;
  bool in_alpha = C06_ALPHA; /* constant per group: the strides become constants (the symbolic-stride query is 10x larger) */
  uint64_t in_maxv;
  g_P = in_P;
  g_c = in_c;
  Image* self;
  FILE* f;
  Image_load_ppm_tail(self, f, C06_FORMAT, in_w, in_h, in_alpha, C06_CW, in_maxv);
  VERIF_REACH();
}
