/* C04: comparison operators of JSON (contracts/C04_compare.h). */
#include "contracts/C04_compare.h"
int verif_exc; int g_cmp_full, g_cmp_cstr, g_cmp_list, g_cmp_dict; bool g_arg_has_nul;
#include "x_json_compare.c"
#define IN_CMP int in_cmp_full, in_cmp_cstr, in_cmp_list, in_cmp_dict; bool in_arg_has_nul; g_cmp_full = in_cmp_full; g_cmp_cstr = in_cmp_cstr; \
  g_cmp_list = in_cmp_list; g_cmp_dict = in_cmp_dict; g_arg_has_nul = in_arg_has_nul; verif_exc = 0
void h_po_string(void) { int in_res; partial_ordering_for_string_compare_result(in_res); VERIF_REACH(); }
void h_cmp_null(void) { IN_CMP; const JSONV* self; JSON_cmp_null(self); VERIF_REACH(); }
void h_cmp_bool(void) { IN_CMP; const JSONV* self; bool in_v; JSON_cmp_bool(self, in_v); VERIF_REACH(); }
void h_cmp_str(void) { IN_CMP; const JSONV* self; const vstr* v; JSON_cmp_str(self, v); VERIF_REACH(); }
void h_cmp_cstr(void) { IN_CMP; const JSONV* self; const char* v; JSON_cmp_cstr(self, v); VERIF_REACH(); }
void h_cmp_int(void) { IN_CMP; const JSONV* self; int64_t in_v; JSON_cmp_int(self, in_v); VERIF_REACH(); }
void h_cmp_double(void) { IN_CMP; const JSONV* self; double in_v; JSON_cmp_double(self, in_v); VERIF_REACH(); }
void h_cmp(void) { IN_CMP; const JSONV* self; const JSONV* other; JSON_cmp(self, other); VERIF_REACH(); }
void h_eq(void) { IN_CMP; const JSONV* self; const JSONV* other; JSON_eq(self, other); VERIF_REACH(); }

/* lemma over the contract of operator==: a scalar value compares equal to a value of the same alternative with the same payload
 * (a copy, or the result of a faithful round trip) -- unless it is a NaN, which is not equal to itself by IEEE 754 */
void l_eq_reflexive(void) {
  IN_CMP; JSONV a, b; int in_kind; bool in_b; int64_t in_i; double in_f;
  __CPROVER_assume(in_kind >= 0 && in_kind <= 4 && CMP_FACTS);
  a.kind = b.kind = in_kind; a.b = b.b = in_b; a.i = b.i = in_i; a.f = b.f = in_f;
  __CPROVER_assume(g_cmp_full == 0);       /* the same string on both sides */
  bool r = JSON_eq(&a, &b);
  __CPROVER_assert(r == !(in_kind == JK_double && in_f != in_f), "a scalar JSON value is == a value with the same alternative and payload (NaN excepted)");
  /* and values whose payload differs are not equal */
  JSONV c = a; int64_t in_j; c.i = in_j;
  if (in_kind == JK_int64_t && in_j != in_i) { bool r2 = JSON_eq(&a, &c); __CPROVER_assert(!r2, "integers with different values are not =="); }
  VERIF_REACH();
}
