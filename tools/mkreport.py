#!/usr/bin/env python3
"""Regenerates the tables of DESIGN.md section 8.5 (defects repaired) and 8.6 (seeded changes) from known_findings.json and seeded/*/meta.json."""
import glob, json, os, re
V = os.path.dirname(os.path.dirname(os.path.abspath(__file__)))
k = json.load(open(os.path.join(V, 'known_findings.json')))['findings']
rows = ['| property | status | commit | what failed (witness) | obligation group(s) |', '|---|---|---|---|---|']
for f in k:
    line = f.get('line') or f.get('what', '')
    what = re.sub(r'^fixed: property=\S+ \S+ ', '', line)
    rows.append('| %s | %s | %s | %s | `%s` |' % (f['property'], f['status'], f.get('commit', ''), what.replace('|', '\\|'), f.get('group', '').replace('|', '\\|')))
defects = '\n'.join(rows)
rows = ['| seeded change | needs (to manifest) | confirmed by me | check result | first reported obligation |', '|---|---|---|---|---|']
for d in sorted(glob.glob(os.path.join(V, 'seeded', '*', 'meta.json'))):
    m = json.load(open(d))
    c = m.get('check', {})
    v = (c.get('violations') or [''])[0]
    mo = re.search(r'replays/\w+/(.*?)\.json(.*)$', v)
    first = (mo.group(1) + (' (no-failing-input-found)' if 'no-failing' in mo.group(2) else ' (replayed on the real code)')) if mo else (c.get('undecided') or ['-'])[0][:80]
    res = 'VIOLATION' if m.get('detected') else ('exit %s: not detected' % c.get('rc'))
    rows.append('| %s-%s | %s | %s | %s | `%s` |' % (m['property'], m['name'], m.get('needs', '').replace('|', '\\|'), 'yes' if m.get('confirmed') else 'NO', res, first.replace('|', '\\|')))
seeded = '\n'.join(rows)
p = os.path.join(V, 'DESIGN.md')
t = open(p).read()
for tag, body in (('defects', defects), ('seeded', seeded)):
    a, b = '<!-- AUTOGEN:%s -->' % tag, '<!-- /AUTOGEN:%s -->' % tag
    if a in t:
        t = t[:t.index(a) + len(a)] + '\n' + body + '\n' + t[t.index(b):]
open(p, 'w').write(t)
print('defects:', len(k), 'seeded:', len(glob.glob(os.path.join(V, 'seeded', '*', 'meta.json'))))
