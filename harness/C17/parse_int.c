/* C17: Arguments::parse_int<RetT>, one textual instantiation per group
 * (-DRetT=int8_t -DC17_W=8 -DC17_SIGNED=1 -DPI_NAME=parse_int__int8_t -DC17_FLOAT=0); the format is symbolic, so each
 * group covers the four IntFormat values.  strtoull is the abstract scanner of stubs/C17_strto.h: the numeral of the
 * text is (in_neg, in_mag, in_ovf), in_endoff characters long. */
#include "contracts/C17_parse.h"
#include "x_mask_for_type.h"
#define C17_IS_UNSIGNED(T) (((T)-1) > 0)          /* std::is_unsigned_v<T> for the integer types */
#include "x_parse_int.inc"

int verif_exc, verif_errno, g_base; unsigned g_ncalls;
size_t g_endoff, g_size, g_vk; bool g_neg, g_ovf; uint64_t g_mag; char g_stopch; double g_fval;

void h_parse_int(void) {
  const vstr* text; const void* id;
  size_t in_endoff, in_size; bool in_neg, in_ovf; uint64_t in_mag; char in_stopch; int in_format, in_errno;
  g_endoff = in_endoff; g_size = in_size; g_neg = in_neg; g_ovf = in_ovf; g_mag = in_mag; g_stopch = in_stopch;
  verif_exc = EXC_none; verif_errno = in_errno; g_ncalls = 0; g_base = -1;
  PI_NAME(id, text, in_format);
  VERIF_REACH();
}
