"""C05 -- JSON parser is total and standard-conformant; strict mode = no extensions (DESIGN.md section 4, C05).

Modular proof (whole-parser unrolling is infeasible, DESIGN.md section 2).  JSON::parse(StringReader&, bool) is cut
mechanically into five C functions -- the four big branches (dictionary, list, number, string) and the dispatcher (the
whole function text with each of those brace blocks replaced by a call) -- plus skip_whitespace_and_comments,
value_for_hex_char and the two string entry points.  Every reader call is replaced by its C01/C02 contract; the JSON value
is the abstract stub stubs/C05_jval.h.
"""
import re

from vf import lex
from vf.extract import Source, Unit
from vf.lex import Rule, ExtractionBreak
from vf.pipeline import Group, Replay, ALL_LIB, DEFAULT_CHECKS
from props import rw_common

ID = 'C05'
LEVEL = 'proof'
EXPLANATION = (
    'Modular deductive proof of the recursive-descent parser (a whole-parser unrolling was measured infeasible). '
    'JSON::parse(StringReader&, bool) is cut mechanically, on every run, into five C functions: the dictionary, list, number and string '
    'branches (brace blocks located by their introducing token sequence) and the dispatcher (the whole function text with each of those '
    'blocks replaced by a call); plus skip_whitespace_and_comments, value_for_hex_char and the two string entry points. Every access to the '
    'input goes through a StringReader member function (static scan of JSON.cc); the bounds-checked accessors get_s8 / pget_s8 / skip_if are replaced '
    'by their C01/C02 contracts (eof / where / size / go, which touch only the cursor, are inlined with their extracted bodies), so '
    '"never reads outside the input" is inherited from C02. The JSON value is an abstract stub (kind, int, element count, is_string, string '
    'length + byte at a ghost index). O-1: every piece is enforced against "verif_exc in {0, parse_error, out_of_range}, cursor inside the '
    'input and monotone, success => >= 1 byte consumed"; the recursive calls inside the container loops are replaced by the parser\'s own '
    'contract (induction on the remaining length: each recursive call happens at a strictly larger offset, asserted). O-2: number, string, '
    'whitespace/comment scanners run in lock-step with ghost automata written from RFC 8259 (one transition per consumed byte, injected into the '
    'reader-call macro), unbounded in length by loop contracts: extent = longest match, integer <=> no fraction and no exponent, integer value = '
    'Horner fold, each escape accepted iff RFC allows it and decoded to the spec byte, \\u above U+00FF rejected, hex only with extensions, '
    'constants spelled out (n/t/f only with extensions). O-3: the container loops run in lock-step with a ghost DFA over the abstract token stream '
    '(structural byte | end of input | value, the value being decided by the child contract), unbounded in the number of elements: code accepts '
    '<=> DFA accepts, malformed => parse_error, unterminated => out_of_range, member count, cursor right behind the closing bracket.')
TRUSTED = [
    'stubs/C05_jval.h: abstract JSON value (kind / int / double / bool / member count / is_string / string length and one ghost-indexed byte), '
    'the local std::string of the string branch as a vstr with capacity = input length, isdigit/isxdigit in the "C" locale',
    'contracts/C05_json.h: the specification -- RFC 8259 grammar as ghost automata (number, string, whitespace, container DFA) and the four '
    'documented extensions of src/JSON.hh; `catch (const out_of_range&)` catches exactly EXC_out_of_range',
    'props/C05.py: the mechanical lowering steps specific to this property -- block cutting, hoisting of may-throw calls out of if/while conditions '
    '(short-circuit order kept), splitting of nested may-throw calls (argument first), try/catch lowering (as props/C19.py LowerTry), '
    'exception propagation after every may-throw statement; both evaluation orders of emplace(key.as_string(), parse(..)) are modelled',
    'contracts/RW_reader.h, RW_typed.h (StringReader contracts, proved by C01/C02), stubs/vstr.h',
    'replay/C05/json.cc: independent RFC 8259 reference parser used as the native oracle for counterexamples',
]
ASSUMPTIONS = [
    'the reader cursor is inside the data on entry (offset <= length; C02 cursor invariant) and the input is shorter than 2^47 bytes',
    'recursion depth (stack exhaustion) is not modelled: the statement bounds nesting by 500',
    'allocation succeeds (std::string growth, JSON containers): bad_alloc is not modelled',
    'group JSON.parse.number: signed overflow of the int64_t / int accumulators wraps (two\'s complement) -- the ghost flag novf marks decimal numerals whose '
    'magnitude leaves the int64 range of their sign (> INT64_MAX, or > 2^63 after a minus sign) and the value clause is stated for the others; group JSON.parse.number.no-overflow re-proves the branch with '
    '--signed-overflow-check on for numerals of at most 18 integer digits / 15 hex digits; the exponent accumulator `int e` (wraps for exponents '
    '>= 2^31, i.e. ten or more digits) is exempted from the overflow check in both groups',
    'isdigit/isxdigit are called with a possibly negative plain char (bytes >= 0x80): glibc tolerates this; modelled as "not a digit"',
]
DROPS = ('JSON value -> abstract stub; std::string -> vstr; StringReader& -> pointer, r.m(..) -> StringReader_m(r, ..) with the default argument '
         'advance = true made explicit; text of exception messages (incl. the r.where() calls inside them); throw -> flag + return; try/catch -> '
         'goto + if; `while (C)` with a may-throw call in C -> `while (1) { c = C; check; if (!c) break; ..}`; std::move; as_string() -> its type check')
NOT_DECIDED = [
    'floating-point VALUE of numbers with fraction/exponent (only kind and extent are decided; the native replay oracle compares values to 1e-6)',
    'completeness of the constants: that the exact text null/true/false is always ACCEPTED needs "memcmp == 0 when the bytes are equal", which the '
    'C01/C02 contract of skip_if does not state; decided: a constant is produced only for its spelled-out literal (or n/t/f with extensions), the '
    'right value, the right extent',
    'conformance is per grammar rule with children abstracted by the induction hypothesis (the deductive argument for recursive descent); there is '
    'no end-to-end run; duplicate dictionary keys and the stored member values are not modelled (count only)',
    'decimal integer numerals outside the int64 range: decided is that they become floats (kind clause; the wrap-around to a wrong int64 was a genuine '
    'defect, fix C05-4) -- which float is the floating-point VALUE again; hexadecimal numerals (extension) of 16 or more digits still wrap; exponents of ten or '
    'more digits overflow the `int e` accumulator (UB)',
    'the decimal exponent is decided as an INTEGER (the counter the scaling loops run on carries every exponent up to 400 exactly and may only saturate above '
    'that; seeded change C04-R5A clamped it at 307); the scaling arithmetic itself is floating point',
    'the floating-point value of the fraction digits however they are accumulated (a seeded change that collects them in a wrapping uint64_t is NOT detected: '
    'C05-R3B, DESIGN.md 8.6)',
    'OBSERVATIONS outside the statement, not counted as violations: the parser accepts in BOTH modes `\\xHH` escapes (not listed in JSON.hh), raw control '
    'characters in strings, leading zeros (01), `1.` / `1e` / `-` / `0x` without digits; a lone `+` is parsed as the integer 0 and consumes nothing; '
    'with extensions enabled a `/` that is the last byte of the input throws out_of_range from the comment look-ahead; an input ending inside a '
    '\\u / \\x escape throws parse_error instead of out_of_range',
]

JS = 'src/JSON.cc'
ST = 'src/Strings.cc'
PARSE_SIG = r'JSON JSON::parse\(StringReader& r, bool disable_extensions\)'
CSTR_SIG = r'JSON JSON::parse\(const char\* s, size_t size, bool disable_extensions\)'
STR_SIG = r'JSON JSON::parse\(const string& s, bool disable_extensions\)'
SKIP_SIG = r'static void skip_whitespace_and_comments\(StringReader& r, bool disable_extensions\)'

# introducing token sequences of the four blocks, written against the *masked* text (literal contents are '_'), plus the
# literal the un-masked header must contain
BLOCKS = {
    'dict': (r"(?<!else )if \(root_type_ch == '_'\)(?=\s*\{\s*ret = JSON::dict\(\);)", "'{'"),
    'list': (r"else if \(root_type_ch == '_'\)(?=\s*\{\s*ret = JSON::list\(\);)", "'['"),
    'number': (r"else if \(root_type_ch == '_' \|\| root_type_ch == '_' \|\| isdigit\(root_type_ch\)\)", "'-'"),
    'string': (r"else if \(root_type_ch == '__'\)", "'\\\"'"),
}

READER_METHODS = {'get_s8': 1, 'pget_s8': 1, 'where': 0, 'size': 0, 'eof': 0, 'go': 1, 'skip_if': 2}
# C names of callees that may leave with verif_exc != 0 (every contract that replaces one of them requires verif_exc == 0,
# so a missed propagation check is a failed callee precondition, never unsoundness)
MAYTHROW = ['StringReader_get_s8', 'StringReader_pget_s8', 'value_for_hex_char', 'JSON_parse', 'C05_SKIP',
            'JSON_parse_dict', 'JSON_parse_list', 'JSON_parse_number', 'JSON_parse_string', 'JSON_parse_cstr']
MT = re.compile(r'\b(' + '|'.join(MAYTHROW) + r')\s*\(')


class Fn(Rule):
    """A structural rewrite given as a function text -> text (same interface as Rule)."""

    def __init__(self, fn, name):
        self.fn, self.pat = fn, name

    def apply(self, text, where=''):
        return self.fn(text, where)


def _ws(m, i):
    while i < len(m) and m[i] in ' \t\r\n':
        i += 1
    return i


def _stmt_bounds(m, pos):
    """[s, e): the simple statement around pos; s follows the last `;`, `{` or `}` at parenthesis depth 0 before pos, e is
    the index of the terminating `;` (parenthesis depth 0).  None if the statement ends in a brace (compound/control)."""
    depth = 0
    s = 0
    for k in range(pos):
        ch = m[k]
        if ch in '([':
            depth += 1
        elif ch in ')]':
            depth -= 1
        elif ch in ';{}' and depth == 0:
            s = k + 1
    depth = 0
    e = s
    while e < len(m):
        ch = m[e]
        if ch in '([':
            depth += 1
        elif ch in ')]':
            depth -= 1
        elif ch == ';' and depth == 0:
            return s, e
        elif ch in '{}' and depth == 0:
            return None
        e += 1
    return None


def split_nested(text, where):
    """`X value_for_hex_char(r.get_s8()) Y;`  ->  `{ int8_t verif_hN = r.get_s8(); X value_for_hex_char(verif_hN) Y; }`
    (two may-throw calls in one full expression: the argument is evaluated first, C++ [expr.call]; if it throws the outer
    call does not happen)."""
    n = 0
    while True:
        m = lex.mask(text)
        mo = re.search(r'\bvalue_for_hex_char\(\s*(r\.get_s8\(\))\s*\)', m)
        if not mo:
            return text
        b = _stmt_bounds(m, mo.start())
        if b is None:
            raise ExtractionBreak('%s: nested may-throw call outside a simple statement' % where)
        s, e = b
        n += 1
        t = 'verif_h%d' % n
        stmt = text[s:mo.start(1)] + t + text[mo.end(1):e + 1]
        lead = re.match(r'\s*', stmt).group(0)
        text = text[:s] + lead + '{ int8_t %s = r.get_s8(); %s }' % (t, stmt.strip()) + text[e + 1:]


def reader_calls(text, where):
    """r.m(args) -> RD(StringReader_m(r, args)); the default argument of get_s8 is made explicit (advance = true, checked
    against the declaration in plan())."""
    while True:
        m = lex.mask(text)
        mo = re.search(r'\br\.(\w+)\(', m)
        if not mo:
            break
        name = mo.group(1)
        if name not in READER_METHODS:
            raise ExtractionBreak('%s: reader method %s is not in the C05 table' % (where, name))
        pe = lex.match_close(m, mo.end() - 1)
        args = text[mo.end():pe].strip()
        if name == 'get_s8' and args == '':
            args = 'true'
        nargs = 0 if args == '' else 1 + sum(1 for i, ch in enumerate(lex.mask(args)) if ch == ',' and _depth0(lex.mask(args), i))
        if nargs != READER_METHODS[name]:
            raise ExtractionBreak('%s: r.%s called with %d arguments' % (where, name, nargs))
        wrap = 'RDC' if (name == 'get_s8' and args == 'true') else 'RDG' if name == 'go' else 'RD'      # RDC/RDG: calls that move the cursor
        text = text[:mo.start()] + '%s(StringReader_%s(r%s))' % (wrap, name, (', ' + args) if args else '') + text[pe + 1:]
    if re.search(r'\br\s*(\.|->)', lex.mask(text)):
        raise ExtractionBreak('%s: direct member access on the reader' % where)
    return text


def _depth0(m, i):
    d = 0
    for ch in m[:i]:
        if ch in '([{':
            d += 1
        elif ch in ')]}':
            d -= 1
    return d == 0


def propagate(text, action, where=''):
    """after every simple statement that contains a may-throw call: `if (verif_exc) <action>` (unless one follows already)."""
    pos = 0
    while True:
        m = lex.mask(text)
        mo = MT.search(m, pos)
        if not mo:
            return text
        b = _stmt_bounds(m, mo.start())
        if b is None:
            raise ExtractionBreak('%s: may-throw call %s inside a statement header' % (where, mo.group(1)))
        s, e = b
        head = m[s:mo.start()].strip()
        if re.match(r'(if|while|for|switch)\b', head):
            raise ExtractionBreak('%s: may-throw call %s inside a control header' % (where, mo.group(1)))
        nxt = _ws(m, e + 1)
        if re.match(r'return\b', head) or m.startswith('if (verif_exc)', nxt):
            pos = e + 1
            continue
        ins = ' if (verif_exc) %s' % action
        text = text[:e + 1] + ins + text[e + 1:]
        pos = e + 1 + len(ins)


def hoist_conditions(text, where):
    """Calls that may throw inside if/while headers:
         if (C) S           ->  bool verif_cN = (C); if (verif_cN) S          (the propagation pass adds the check after the declaration)
         while (C) { B }    ->  while (1) { bool verif_cN = (C); if (!verif_cN) break; B }
    C's short-circuit evaluation is kept as it is."""
    n = 0
    while True:
        m = lex.mask(text)
        hit = None
        for mo in re.finditer(r'\b(if|while)\s*\(', m):
            pe = lex.match_close(m, mo.end() - 1)
            if MT.search(m[mo.end():pe]):
                hit = (mo, pe)
                break
        if hit is None:
            return text
        mo, pe = hit
        n += 1
        v = 'verif_c%d' % n
        cond = text[mo.end():pe]
        if mo.group(1) == 'if':
            k = mo.start() - 1
            while k >= 0 and m[k] in ' \t\r\n':
                k -= 1
            if m[max(0, k - 3):k + 1] == 'else':
                raise ExtractionBreak('%s: may-throw call in the condition of an else-if' % where)
            if k >= 0 and m[k] not in '{};':
                raise ExtractionBreak('%s: if with a may-throw condition is not at statement start' % where)
            text = text[:mo.start()] + 'bool %s = (%s); if (%s)' % (v, cond, v) + text[pe + 1:]
        else:
            b = _ws(m, pe + 1)
            if m[b] != '{':
                raise ExtractionBreak('%s: while with a may-throw condition has no brace body' % where)
            text = text[:mo.start()] + 'while (1) { bool %s = (%s); if (!%s) break;' % (v, cond, v) + text[b + 1:]


def lower_try(text, where):
    """try { B } catch (const out_of_range&) { H }
       ->  { B' } verif_catch_N: if (C05_CATCHES_out_of_range(verif_exc)) { verif_exc = 0; H } else if (verif_exc) return;
    B': after every statement of B that calls a may-throw function `if (verif_exc) goto verif_catch_N;` (same lowering as
    props/C19.py LowerTry, for several try statements per function and a single handler)."""
    n = 0
    while True:
        m = lex.mask(text)
        mo = re.search(r'\btry\b', m)
        if not mo:
            return text
        n += 1
        b = _ws(m, mo.end())
        if m[b] != '{':
            raise ExtractionBreak('%s: try without block' % where)
        be = lex.match_close(m, b)
        c = _ws(m, be + 1)
        if not re.match(r'catch\b', m[c:]):
            raise ExtractionBreak('%s: try without handler' % where)
        p = _ws(m, c + 5)
        pe = lex.match_close(m, p)
        decl = ' '.join(text[p + 1:pe].split())
        if decl != 'const out_of_range&':
            raise ExtractionBreak('%s: handler declaration %r is not in the C05 lowering table' % (where, decl))
        h = _ws(m, pe + 1)
        if m[h] != '{':
            raise ExtractionBreak('%s: catch without block' % where)
        he = lex.match_close(m, h)
        k = _ws(m, he + 1)
        if re.match(r'catch\b', m[k:]):
            raise ExtractionBreak('%s: more than one handler' % where)
        body = text[b + 1:be]
        if not MT.search(lex.mask(body)):
            raise ExtractionBreak('%s: protected block without may-throw call' % where)
        if re.search(r'\b(try|return|break|continue|goto)\b', lex.mask(body)):
            raise ExtractionBreak('%s: control transfer inside a protected block' % where)
        body = propagate(body, 'goto verif_catch_%d;' % n, where)
        handler = text[h + 1:he]
        if MT.search(lex.mask(handler)):
            raise ExtractionBreak('%s: may-throw call inside a handler' % where)
        text = (text[:mo.start()] + '{ /* protected block */' + body + '}\n verif_catch_%d:\n' % n +
                ' if (C05_CATCHES_out_of_range(verif_exc)) { verif_exc = 0;' + handler + '}\n else if (verif_exc) return;' + text[he + 1:])


def replace_block(kind, call):
    """dispatcher: the brace block introduced by BLOCKS[kind] is replaced by `call`."""
    def fn(text, where):
        intro, lit = BLOCKS[kind]
        header, body, s, e = lex.find_block(text, intro, 'block ' + kind)
        if lit not in header:
            raise ExtractionBreak('%s: block %s is not introduced by %s' % (where, kind, lit))
        b = text.index(body, s)
        return text[:b] + '{ ' + call + ' }' + text[e:]
    return Fn(fn, 'replace block ' + kind)


def ENTRY(macro):
    return Rule(r'\A\{', '{ %s; ' % macro, count=1, regex=True)


COMMON_TAIL = [Fn(reader_calls, 'reader calls'), Fn(lower_try, 'try lowering'), Fn(hoist_conditions, 'condition hoisting'),
               Fn(lambda t, w: propagate(t, 'return;', w), 'exception propagation')]
SKIP_RULE = Rule(r'\bskip_whitespace_and_comments\(r, disable_extensions\);', 'C05_SKIP(r, disable_extensions);', count='+', regex=True)
CTYPE = [Rule(r'\bisdigit\(', 'verif_isdigit(', regex=True), Rule(r'\bisxdigit\(', 'verif_isxdigit(', regex=True)]


def static_scan(src):
    """Every input access of JSON.cc's parser goes through a StringReader member function: inside the three parse
    overloads and skip_whitespace_and_comments the reader `r` is only used as `r.<method>(`, passed on as `r`, or declared."""
    text = src.text(JS)
    findings = []
    for sig in (SKIP_SIG, PARSE_SIG, CSTR_SIG, STR_SIG):
        header, body, _, _ = lex.find_def(text, sig, 'function')
        m = lex.mask(body)
        for mo in re.finditer(r'\br\b', m):
            after = m[mo.end():mo.end() + 40]
            before = m[max(0, mo.start() - 40):mo.start()]
            ok = (re.match(r'\.(%s)\(' % '|'.join(READER_METHODS), after) or
                  (re.match(r'(, [^();]*)?\)', after) and re.search(r'(JSON::parse|skip_whitespace_and_comments)\($', before)) or
                  (re.match(r'\(s, size\);', after) and re.search(r'StringReader $', before)))
            if not ok:
                findings.append('the reader is used other than through its bounds-checked member functions: ...%s...' % ' '.join((before + 'r' + after).split()))
        mo = re.search(r'reinterpret_cast|\bpeek\b|\bp?getv\b|->|\bmemcpy\b|\*\s*\(', m)
        if mo:
            findings.append('raw pointer / member access (%s) inside %s' % (mo.group(0), ' '.join(header.split())[:60]))
    return findings


def json_unit(ctx, src, loops):
    text = src.text(JS)
    _, pbody, _, _ = lex.find_def(text, PARSE_SIG, 'function')
    for kind, (intro, lit) in BLOCKS.items():
        header, _, _, _ = lex.find_block(pbody, intro, 'block ' + kind)
        if lit not in header:
            raise ExtractionBreak('%s: block %s is not introduced by %s' % (JS, kind, lit))
    units = []

    def new_unit(name, rdc='RD(call)', rdg='RD(call)'):
        u = Unit(ctx, 'json_' + name)
        # (the C standard headers a translation unit may name constants from: float.h / limits.h are header-only constants)
        u.raw('#include <float.h>\n#include <limits.h>\n#undef RDC\n#undef RDG\n#define RDC(call) %s\n#define RDG(call) %s' % (rdc, rdg))
        units.append(u)
        return u
    # the four trivial accessors (no bounds check, cannot throw) are used with their real bodies (inlined); the bounds-checked
    # accessors get_s8 / pget_s8 / skip_if are replaced by their C01/C02 contracts
    u = new_unit('rd')
    for nm, sig, hdr in [('eof', r'bool StringReader::eof\(\) const', 'bool StringReader_eof(const StringReader* self)'),
                         ('where', r'size_t StringReader::where\(\) const', 'size_t StringReader_where(const StringReader* self)'),
                         ('size', r'size_t StringReader::size\(\) const', 'size_t StringReader_size(const StringReader* self)'),
                         ('go', r'void StringReader::go\(size_t offset\)', 'void StringReader_go(StringReader* self, size_t offset)')]:
        u.function(src, ST, sig, new_header='static inline ' + hdr)
    u = new_unit('hex')
    u.function(src, ST, r'uint8_t value_for_hex_char\(char x\)', ret_zero='0')
    u = new_unit('skip')
    u.function(src, JS, SKIP_SIG, new_header='void skip_whitespace_and_comments(StringReader* r, bool disable_extensions)', ret_zero='',
               rules=[Rule(r'(\bwhile \(!r\.eof\(\)\) \{)', r'\1 C05_SKIP_STEP;', count=1, regex=True),
                      Rule(r'\breturn;', '{ C05_SKIP_EXIT; return; }', count='+', regex=True),
                      Rule(r'\}\s*\Z', ' C05_SKIP_EXIT; }', count=1, regex=True)] + COMMON_TAIL,
               nloops=1, loops={1: loops['skip']}, body_prefix=' C05_SKIP_ENTRY; ')
    u = new_unit('dict')
    # default argument of the reader entry point, read from the declaration
    dflt = Unit(ctx, 'c05_tmp').snippet(src, 'src/JSON.hh', r'static JSON parse\(StringReader& r, bool disable_extensions = (\w+)\);', group=1)
    MODE_OK = '__CPROVER_assert((%s) == disable_extensions, "a nested value is parsed in the mode of its container (strict mode stays strict)");'

    def child(var, step, mode='disable_extensions'):
        # (mode obligation) (call, ghost step) ; propagation
        return (MODE_OK % mode) + ' (JSON_parse(r, %s, &%s), %s); if (verif_exc) return;' % (mode, var, step)
    CHILD = '%s'  # kept for the two format sites below

    # (a) dictionary
    key_check = '{ verif_exc = EXC_type_error; return; }'
    u.block(src, JS, PARSE_SIG, BLOCKS['dict'][0], ret_zero='',
            new_header='void JSON_parse_dict(StringReader* r, bool disable_extensions, JVal* ret)',
            rules=[ENTRY('C05_DICT_ENTRY'), Rule('ret = JSON::dict();', 'jv_set_dict(ret);', count=1),
                   Rule(r"(\bwhile \(separator != '\}'\) \{)", r'\1 C05_C_ITER;', count=1, regex=True),
                   Rule(r'char separator = r\.get_s8\(\);', 'C05_DICT_OPEN; char separator = r.get_s8();', count=1, regex=True),
                   Rule(r'(?<!char )separator = r\.get_s8\(\);', 'C05_DICT_PEEK_C; separator = r.get_s8();', count=1, regex=True),
                   Rule(r'(\bif \([^;]*?r\.get_s8\(false\) == \'\}\'[^;]*?\) \{)', r'C05_DICT_PEEK_A; \1', count=1, regex=True),
                   Rule(r'JSON key = JSON::parse\(r, disable_extensions\);',
                        'JVal key; ' + child('key', 'C05_DICT_KEY_DONE'), count=None, regex=True),
                   # the same statement with the mode argument omitted or different: made explicit and checked (MODE_OK)
                   Rule(r'JSON key = JSON::parse\(r(?:, ([^();]*))?\);', lambda mo: 'JVal key; ' + child('key', 'C05_DICT_KEY_DONE', mo.group(1) or dflt), count=None, regex=True),
                   # value parsed into a named temporary first, then moved into the dictionary
                   Rule(r'JSON (\w+) = JSON::parse\(r(?:, ([^();]*))?\);', lambda mo: 'JVal %s; C05_DICT_PEEK_V; ' % mo.group(1) + child(mo.group(1), 'C05_DICT_VAL_DONE_IN(%s)' % mo.group(1), mo.group(2) or dflt), count=None, regex=True),
                   Rule(r'ret\.emplace\((?:std::)?move\(key\.as_string\(\)\), (?:std::)?move\((\w+)\)\);', '{ if (!jv_is_string(&key)) ' + key_check + ' jv_dict_emplace(ret); }', count=None, regex=True),
                   Rule(r"(\bif \(r\.get_s8\(\) [!=]= '.'\) \{)", r'C05_DICT_PEEK_D; \1', count=1, regex=True),
                   # key.as_string() throws type_error when the key is not a string (JSON::as_string, checked below); the two
                   # arguments of emplace are indeterminately sequenced: both orders are modelled (nondet choice)
                   Rule(r'ret\.emplace\((?:std::)?move\(key\.as_string\(\)\), JSON::parse\(r, disable_extensions\)\);',
                        '{ bool verif_key_first = nondet_bool(); JVal verif_v; C05_DICT_PEEK_V;'
                        ' if (verif_key_first && !jv_is_string(&key)) ' + key_check +
                        ' ' + child('verif_v', 'C05_DICT_VAL_DONE') +
                        ' if (!verif_key_first && !jv_is_string(&key)) ' + key_check +
                        ' jv_dict_emplace(ret); }', count=None, regex=True),
                   # (the proposed fix checks key.is_string() right after the key has been parsed)
                   Rule(r'\bkey\.is_string\(\)', 'jv_is_string(&key)', regex=True),
                   SKIP_RULE] + COMMON_TAIL,
            nloops=1, loops={1: loops['dict']})
    # as_string must be what the lowering says: type_error iff !is_string
    u.snippet(src, JS, r'string& JSON::as_string\(\) \{\s*if \(!this->is_string\(\)\) \{\s*throw type_error\([^;]*\);\s*\}\s*return ::get<string>\(this->value\);\s*\}')
    # (b) list
    u = new_unit('list')
    u.block(src, JS, PARSE_SIG, BLOCKS['list'][0], ret_zero='',
            new_header='void JSON_parse_list(StringReader* r, bool disable_extensions, JVal* ret)',
            rules=[ENTRY('C05_LIST_ENTRY'), Rule('ret = JSON::list();', 'jv_set_list(ret);', count=1),
                   Rule(r"(\bwhile \(separator != '\]'\) \{)", r'\1 C05_C_ITER;', count=1, regex=True),
                   Rule(r'char separator = r\.get_s8\(\);', 'C05_LIST_OPEN; char separator = r.get_s8();', count=1, regex=True),
                   Rule(r'(?<!char )separator = r\.get_s8\(\);', 'C05_LIST_PEEK_C; separator = r.get_s8();', count=1, regex=True),
                   Rule(r'(\bif \([^;]*?r\.get_s8\(false\) == \'\]\'[^;]*?\) \{)', r'C05_LIST_PEEK_A; \1', count=1, regex=True),
                   Rule(r'ret\.emplace_back\(JSON::parse\(r, disable_extensions\)\);',
                        '{ JVal verif_v; C05_LIST_PEEK_V; ' + child('verif_v', 'C05_LIST_CHILD_DONE') + ' jv_list_append(ret); }', count=None, regex=True),
                   Rule(r'ret\.emplace_back\(JSON::parse\(r(?:, ([^();]*))?\)\);', lambda mo: '{ JVal verif_v; C05_LIST_PEEK_V; ' + child('verif_v', 'C05_LIST_CHILD_DONE', mo.group(1) or dflt) + ' jv_list_append(ret); }', count=None, regex=True),
                   SKIP_RULE] + COMMON_TAIL,
            nloops=1, loops={1: loops['list']})
    # (c) number
    u = new_unit('number', '(C05_NUM_STEP, RD(call))', '(C05_NUM_GO_STEP, RD(call))')
    # the two exponent scaling loops: their assigns clause lists the accumulators the loop body mentions (int_data only before fix C05-2)
    _, nbody, _, _ = lex.find_block(pbody, BLOCKS['number'][0], 'block number')
    scal = re.findall(r'for \(; e > 0; e--\) \{([^{}]*)\}', lex.mask(nbody))
    if len(scal) != 2:
        raise ExtractionBreak('%s: expected the two exponent scaling loops `for (; e > 0; e--)`' % JS)
    loops = dict(loops)
    # a flag of the code that records "the decimal integer digits left the int64 range" (`bool <name>overflow<name> = false;` in the
    # number block) is tied to the ghost flag g_j.novf by a loop invariant of the integer-digit loop; without such a flag the invariant
    # is absent and the kind clause of the contract decides on its own
    ovf = re.findall(r'\bbool (\w*overflow\w*) = false;', lex.mask(nbody))
    if len(ovf) > 1:
        raise ExtractionBreak('%s: more than one overflow flag in the number block: %r' % (JS, ovf))
    loops['num2'] = loops['num2'].replace('C05_NUM_INV_OVF', '__CPROVER_loop_invariant(g_j.nq != NQ_DEAD ==> ((%s != 0) == (g_j.novf != 0)))' % ovf[0] if ovf else '')
    for k, body in zip((5, 6), scal):
        tgt = ['e'] + [v for v in ('int_data', 'float_data') if re.search(r'\b%s\b' % v, body)]
        loops['num%d' % k] = '__CPROVER_assigns(%s)\n__CPROVER_loop_invariant(1 == 1)\n__CPROVER_decreases(e)' % ', '.join(tgt)
    u.block(src, JS, PARSE_SIG, BLOCKS['number'][0], ret_zero='',
            new_header='void JSON_parse_number(StringReader* r, bool disable_extensions, char root_type_ch, JVal* ret)',
            rules=[ENTRY('C05_NUM_ENTRY'), Rule(r'\bret = ([^;]*\bint_data\b[^;]*);', r'jv_set_int(ret, \1);', count=1, regex=True),
                   Rule(r'\bret = float_data;', 'jv_set_float(ret, float_data);', count=1, regex=True),
                   # the exponent accumulator `int e` wraps (UB) for exponents of ten or more digits: the check is switched off for
                   # this one statement and the wrap is tracked by the ghost flag g_eovf instead (ASSUMPTIONS)
                   Rule(r'(\bif \(e_negative\) \{)', r'C05_NUM_EXP_DONE; \1', count=1, regex=True),
                   Rule(r'(\be = [^;]*\be \* 10 \+ [^;]*;)',
                        r'C05_NUM_EXP_DIGIT;' + '\n#pragma CPROVER check push\n#pragma CPROVER check disable "signed-overflow"\n' + r'\1' + '\n#pragma CPROVER check pop\n',
                        count=1, regex=True),
                   Rule(r'(\bif \(is_int\) \{)', r'C05_NUM_EXIT; \1', count=1, regex=True)] + CTYPE +
            [Fn(split_nested, 'nested may-throw calls')] + COMMON_TAIL,
            nloops=6, loops={k: loops['num%d' % k] for k in range(1, 7)})
    # (d) string
    u = new_unit('string', '(C05_STR_STEP, RD(call))')
    u.block(src, JS, PARSE_SIG, BLOCKS['string'][0], ret_zero='',
            new_header='void JSON_parse_string(StringReader* r, JVal* ret)',
            rules=[ENTRY('C05_STR_ENTRY'), Rule(r'\bstring data;', 'vstr verif_data; vstr* data = &verif_data; vstr_local_init(data, C05_STR_CAP(r));', count=1, regex=True),
                   Rule(r'\bdata\.push_back\(', 'C05_STR_PUSH(data, ', count='+', regex=True),
                   Rule(r'\bret = move\(data\);', 'C05_STR_EXIT; jv_set_string(ret, data);', count=1, regex=True),
                   Fn(split_nested, 'nested may-throw calls')] + COMMON_TAIL,
            nloops=1, loops={1: loops['string']})
    # (e) dispatcher: the whole function, each of the four blocks replaced by a call of its function
    u = new_unit('dispatch')
    u.function(src, JS, PARSE_SIG, ret_zero='', body_prefix=' C05_PARSE_ENTRY; ',
               new_header='void JSON_parse(StringReader* r, bool disable_extensions, JVal* ret)',
               rules=[replace_block('dict', '(JSON_parse_dict(r, disable_extensions, ret), C05_PARSE_SYNC);'),
                      replace_block('list', '(JSON_parse_list(r, disable_extensions, ret), C05_PARSE_SYNC);'),
                      replace_block('number', '(JSON_parse_number(r, disable_extensions, root_type_ch, ret), C05_PARSE_SYNC);'),
                      replace_block('string', '(JSON_parse_string(r, ret), C05_PARSE_SYNC);'),
                      Rule(r'\bJSON ret;', 'jv_init(ret);', count=1, regex=True),
                      Rule(r'\bchar root_type_ch = r\.get_s8\(false\);', 'char root_type_ch = r.get_s8(false); C05_PARSE_ROOT;', count=1, regex=True),
                      Rule(r'\bret = 0;', 'jv_set_null(ret);', count=1, regex=True),
                      Rule(r'\bret = (true|false);', r'jv_set_bool(ret, \1);', count=2, regex=True),
                      Rule(r'\breturn ret;', 'return;', count=1, regex=True),
                      SKIP_RULE] + CTYPE + COMMON_TAIL)
    # (h) string entry points
    u = new_unit('entry')
    u.snippet(src, 'src/Strings.hh', r'\bStringReader\(const void\* data, size_t size, size_t offset = 0\);')
    # the two typed accessors whose C01/C02 contracts replace the calls: the one-liners over get<int8_t> / pget<int8_t>
    u.snippet(src, 'src/Strings.hh', r'inline int8_t get_s8\(bool advance = true\) \{ return this->get<int8_t>\(advance\); \}')
    u.snippet(src, 'src/Strings.hh', r'inline int8_t pget_s8\(size_t offset\) const \{ return this->pget<int8_t>\(offset\); \}')
    u.function(src, JS, CSTR_SIG, ret_zero='',
               new_header='void JSON_parse_cstr(const char* s, size_t size, bool disable_extensions, JVal* ret)',
               rules=[Rule(r'\bStringReader r\(s, size\);', 'StringReader verif_r; StringReader* r = &verif_r; StringReader_ctor(r, s, size, 0); C05_CSTR_ENTRY;', count=1, regex=True),
                      Rule(r'\bauto ret = JSON::parse\(r, disable_extensions\);', '(JSON_parse(r, disable_extensions, ret), C05_CSTR_PARSED);', count=1, regex=True),
                      Rule(r'\breturn ret;', 'return;', count=1, regex=True),
                      # the ghost records the cursor at the "anything left?" test, wherever the trailing whitespace was skipped
                      Rule(r'\bskip_whitespace_and_comments\(r, disable_extensions\);', 'C05_SKIP(r, disable_extensions);', count=None, regex=True),
                      Rule(r'\bif \(!r\.eof\(\)\)', 'C05_CSTR_SKIPPED; if (!r.eof())', count=1, regex=True)] + COMMON_TAIL)
    u.function(src, JS, STR_SIG, ret_zero='',
               new_header='void JSON_parse_str(const vstr* s, bool disable_extensions, JVal* ret)',
               rules=[Rule(r'\breturn JSON::parse\(s\.data\(\), s\.size\(\), disable_extensions\);',
                           'JSON_parse_cstr(s->data, vstr_size(s), disable_extensions, ret); return;', count=1, regex=True)])
    return units


RDG_ = 'g_len, g_off, g_mk'          # ghosts written by every reader call (macro RD)
NUMG = 'g_j.nq, g_j.nc, g_j.nc2, g_j.nacc, g_j.novf, g_j.nneg, g_j.nalpha, g_j.nexp, g_j.neovf'       # ghosts written by C05_NUM_STEP


def num_common(locals_):
    return ('\n__CPROVER_assigns(verif_exc, r->offset, %s, %s, %s)\n' % (locals_, RDG_, NUMG) +
            '__CPROVER_loop_invariant(verif_exc == 0 && r->offset <= r->length && r->offset >= g_j.nstart && g_j.nalpha && (!g_j.nneg) == (!negative))')


LOOPS = {
    'skip': """
__CPROVER_assigns(verif_exc, r->offset, reading_comment, %s, g_w.cm, g_w.k_ok, g_w.sc)
__CPROVER_loop_invariant(verif_exc == 0 && r->offset <= r->length && r->offset >= g_w.off0)
__CPROVER_loop_invariant((!reading_comment) == (!g_w.cm) && (disable_extensions ==> !g_w.cm))
__CPROVER_loop_invariant((g_w.off0 <= g_wk && g_wk < r->offset) ==> g_w.k_ok)
__CPROVER_loop_invariant((disable_extensions && g_w.off0 <= g_wk && g_wk < r->offset) ==> C05_ISWS(r->data[g_wk]))
__CPROVER_decreases(r->length - r->offset)
""" % RDG_,
    'list': "C05_CONTAINER_INV('[', ']', JV_LIST)",
    'dict': "C05_CONTAINER_INV('{', '}', JV_DICT)",
    'string': """
__CPROVER_assigns(verif_exc, r->offset, verif_data.size, __CPROVER_object_whole(verif_data.data), %s,
                  g_j.sq, g_j.sc, g_j.su, g_j.sout, g_j.shas, g_j.sobs, g_j.sbyte, g_j.sn)
__CPROVER_loop_invariant(verif_exc == 0 && r->offset <= r->length && r->offset > g_j.sstart && g_j.sq == SQ_BODY)
__CPROVER_loop_invariant(verif_data.size == g_j.sn && verif_data.size <= r->offset - g_j.sstart - 1)
__CPROVER_loop_invariant(g_sk < verif_data.size ==> (uint8_t)verif_data.data[g_sk] == g_j.sbyte)
__CPROVER_decreases(r->length - r->offset)
""" % RDG_,
    # number branch: 1 hex digits, 2 integer digits, 3 fraction digits, 4 exponent digits, 5/6 scaling by the exponent
    'num1': num_common('@LOCALS@') + """
__CPROVER_loop_invariant(g_j.nexp == 0 && !g_j.neovf)
__CPROVER_loop_invariant(g_j.nhex && !disable_extensions && r->offset > g_j.nstart && (g_j.nq == NQ_HEXP || g_j.nq == NQ_HEX || g_j.nq == NQ_DEAD))
__CPROVER_loop_invariant((g_j.nq != NQ_DEAD && !g_j.novf) ==> ((uint64_t)int_data == g_j.nacc && g_j.nacc <= 0x7FFFFFFFFFFFFFFFull))
__CPROVER_loop_invariant(g_j.nq == NQ_HEXP ==> C05_ISHEX(C05_PEEK(r)))
__CPROVER_loop_invariant(g_j.nq == NQ_DEAD ==> !C05_ISHEX(C05_PEEK(r)))
C05_NUM_INV_HEX
__CPROVER_decreases(r->length - r->offset)
""",
    'num2': num_common('@LOCALS@') + """
__CPROVER_loop_invariant(g_j.nexp == 0 && !g_j.neovf)
__CPROVER_loop_invariant(!g_j.nhex && (g_j.nq == NQ_START || g_j.nq == NQ_MINUS || g_j.nq == NQ_ZERO || g_j.nq == NQ_INT || g_j.nq == NQ_DEAD))
__CPROVER_loop_invariant((g_j.nq != NQ_DEAD && !g_j.novf) ==> ((uint64_t)int_data == g_j.nacc && g_j.nacc <= C05_INT_LIMIT(g_j.nneg)))
C05_NUM_INV_OVF
__CPROVER_loop_invariant(g_j.nq == NQ_ZERO ==> (r->offset == g_j.nstart + (negative ? 2 : 1) && r->data[r->offset - 1] == '0'))
__CPROVER_loop_invariant((g_j.nq == NQ_START || g_j.nq == NQ_MINUS) ==> r->offset == g_j.nstart + (negative ? 1 : 0))
__CPROVER_loop_invariant((g_j.nq == NQ_INT || g_j.nq == NQ_DEAD) ==> r->offset > g_j.nstart + (negative ? 1 : 0))
C05_NUM_INV_DEC
__CPROVER_decreases(r->length - r->offset)
""",
    'num3': num_common('@LOCALS@') + """
__CPROVER_loop_invariant(g_j.nexp == 0 && !g_j.neovf)
__CPROVER_loop_invariant(!g_j.nhex && r->offset > g_j.nstart && (g_j.nq == NQ_DOT || g_j.nq == NQ_FRAC || g_j.nq == NQ_DEAD))
__CPROVER_decreases(r->length - r->offset)
""",
    'num4': num_common('@LOCALS@') + """
__CPROVER_loop_invariant(!g_j.nhex && r->offset > g_j.nstart && (g_j.nq == NQ_E || g_j.nq == NQ_ESIGN || g_j.nq == NQ_EXP || g_j.nq == NQ_DEAD))
__CPROVER_loop_invariant(g_j.nq == NQ_E ==> (C05_PEEK(r) != '+' && C05_PEEK(r) != '-'))
__CPROVER_loop_invariant((g_j.nq != NQ_DEAD && !g_j.neovf) ==> (e >= 0 && C05_EXP_CARRIED(e, g_j.nexp)))
__CPROVER_decreases(r->length - r->offset)
""",
    'num5': '__CPROVER_assigns(e, int_data, float_data)\n__CPROVER_loop_invariant(1 == 1)\n__CPROVER_decreases(e)',
    'num6': '__CPROVER_assigns(e, int_data, float_data)\n__CPROVER_loop_invariant(1 == 1)\n__CPROVER_decreases(e)',
}

READER_FNS = ['StringReader_get_s8', 'StringReader_pget_s8', 'StringReader_skip_if']
HD = 'harness/C05/%s.c'


def plan(ctx):
    src = Source(ctx.src)
    core = rw_common.reader_core(ctx, src)
    core.write()
    # supporting static fact, reported like an obligation: the parser touches its input only through bounds-checked reader members
    findings = static_scan(src)
    us = Unit(ctx, 'json_scan')
    us.raw('#define C05_READER_ONLY_THROUGH_MEMBERS %d\n#define C05_SCAN_FINDING "%s"' % (0 if findings else 1, '; '.join(findings).replace('\\', '/').replace('"', "'")[:400]))
    us.write(suffix='.h', scan=False)
    scan_group = Group(name='JSON.parse.reader-access[static]', harness='harness/C05/scan.c', entry='h_scan', kind='loop-free', min_post=1,
                       function='JSON::parse (three overloads), skip_whitespace_and_comments: static scan of the source text',
                       clause_note='no raw pointer into the input, no peek / getv / memcpy on the reader: every access is a call of a StringReader member that is under the C02 contracts')
    try:
        units = json_unit(ctx, src, LOOPS)
    except ExtractionBreak:
        if findings:
            return [scan_group]       # the rest of the unit cannot be lowered around a raw access; the scan finding itself is the verdict
        raise
    ctx.functions_under_contract = []
    for u in units:
        u.write()
        ctx.functions_under_contract += u.functions
    RP = lambda mode: Replay(driver='C05/json.cc', mode=mode, sources=ALL_LIB, small_define='VERIF_SMALL')
    groups = [scan_group]
    U = {u.name[5:]: u for u in units}
    CALLEES = READER_FNS + ['value_for_hex_char', 'skip_whitespace_and_comments', 'JSON_parse_dict', 'JSON_parse_list', 'JSON_parse_number',
                            'JSON_parse_string', 'JSON_parse_cstr', 'JSON_parse']

    def G(name, unit, entry, enforce, function, **kw):
        """every function the unit calls that has a contract of its own is replaced by that contract"""
        kw.setdefault('object_bits', 9)      # dfcc's object-id-indexed sets cost 2^object_bits each: as small as the object count allows
        kw.setdefault('timeout', 900 if ctx.tier == 'thorough' else 420)
        if enforce not in ('skip_whitespace_and_comments', 'JSON_parse'):
            kw.setdefault('defines', ['C05_LIGHT=1'])       # callers use the subset of the clauses they need
        text = lex.mask(U[unit].text()).replace('C05_SKIP(', 'skip_whitespace_and_comments(')
        replace = [c for c in CALLEES if c != enforce and re.search(r'\b%s\s*\(' % c, text.replace('void %s(' % c, ''))]
        if 'replace' in kw:
            replace = kw.pop('replace')
        if kw.get('loops'):
            kw.setdefault('engines', ['cadical', 'minisat'])     # SAT only: the SMT back ends never answered first on these and cost cores
            kw.setdefault('cbmc_flags', ['--slice-formula'])
        g = Group(name=name, harness=HD % entry[2:], entry=entry, function=function, enforce=enforce, replace=replace, **kw)
        groups.append(g)
        return g
    G('Strings.value_for_hex_char', 'hex', 'h_hex', 'value_for_hex_char', 'value_for_hex_char', min_post=1)
    G('JSON.skip_whitespace_and_comments', 'skip', 'h_skip', 'skip_whitespace_and_comments', 'skip_whitespace_and_comments (JSON.cc)',
      loops=True, kind='loop-contract', fallback_unwind=10, replay=RP('text'), first='cadical')
    G('JSON.parse.dispatch', 'dispatch', 'h_parse', 'JSON_parse', 'JSON::parse(StringReader&, bool): dispatcher', kind='recursive', replay=RP('text'))
    G('JSON.parse.list', 'list', 'h_list', 'JSON_parse_list', 'JSON::parse(StringReader&, bool): list branch',
      loops=True, kind='recursive', replay=RP('list'), first='cadical', cbmc_flags=[])     # no slicing: the token ghosts must stay in the trace
    G('JSON.parse.dict', 'dict', 'h_dict', 'JSON_parse_dict', 'JSON::parse(StringReader&, bool): dictionary branch',
      loops=True, kind='recursive', replay=RP('dict'), first='cadical', cbmc_flags=[])
    NOOVF = [c for c in DEFAULT_CHECKS if c not in ('--signed-overflow-check', '--undefined-shift-check')] + ['--no-signed-overflow-check', '--no-undefined-shift-check']
    G('JSON.parse.number', 'number', 'h_number', 'JSON_parse_number', 'JSON::parse(StringReader&, bool): number branch',
      loops=True, kind='loop-contract', replay=RP('number'), fallback_unwind=10, defines=[], checks=NOOVF, first='minisat',
      clause_note='all numerals; signed overflow of the int64 / int accumulators wraps (two\'s complement), flagged by the ghost g_j.novf')
    G('JSON.parse.number.no-overflow', 'number', 'h_number', 'JSON_parse_number', 'JSON::parse(StringReader&, bool): number branch, no UB on in-range numerals',
      loops=True, kind='loop-contract', replay=RP('number'), fallback_unwind=10, defines=['C05_NUM_RESTRICT=1', 'C05_LIGHT=1'], first='minisat', tier='thorough', timeout=900,
      clause_note='numerals with at most 18 integer digits (15 hexadecimal digits): --signed-overflow-check on')
    G('JSON.parse.string', 'string', 'h_string', 'JSON_parse_string', 'JSON::parse(StringReader&, bool): string branch',
      loops=True, kind='loop-contract', replay=RP('string'), fallback_unwind=10, defines=[], first='cadical', object_bits=10)
    G('JSON.parse_cstr', 'entry', 'h_cstr', 'JSON_parse_cstr', 'JSON::parse(const char*, size_t, bool)', replay=RP('text'),
      replace=['JSON_parse', 'skip_whitespace_and_comments'])
    G('JSON.parse_str', 'entry', 'h_str', 'JSON_parse_str', 'JSON::parse(const std::string&, bool)', replace=['JSON_parse_cstr'], replay=RP('text'))
    return groups


CLAIMED = True
MANIFEST = dict(
    category='proof',
    text=('JSON::parse(StringReader&, bool) is cut mechanically into its dictionary, list, number and string branches and the dispatcher; these, '
          'skip_whitespace_and_comments, value_for_hex_char and the two string entry points are put under contracts and discharged by cbmc with '
          'every StringReader call replaced by its C01/C02 contract and the recursive calls replaced by the parser\'s own contract (induction on the '
          'remaining input). Decided for all inputs (length, element count and nesting unbounded): only parse_error / out_of_range escape, the cursor '
          'stays inside the input, container loops accept exactly the RFC 8259 grammar (+ trailing comma with extensions) via a lock-step ghost DFA, '
          'number / string / whitespace scanners match ghost RFC automata byte by byte (extent, int-vs-float kind, integer value, escapes, decoded '
          'bytes, hex and // comments only with extensions), constants, trailing-data rejection of the string entry points.'),
    note=('Trusted: cbmc/goto-instrument, the answering solver, the extractor and the C05 lowering steps (condition hoisting, try/catch, propagation), '
          'the abstract JSON value stub, the C01/C02 reader contracts, the ghost automata written from RFC 8259. Not decided: floating-point values, '
          'acceptance-completeness of null/true/false (memcmp spec), numerals beyond int64, end-to-end composition is by induction over the piece contracts, '
          'not by a run. Three genuine defects found and natively reproduced (strict mode rejects {} and []; exponent numbers stay integers / int_data *= 10 '
          'overflows; non-string key leaks type_error); fixes/C05-1..3.patch. Observations outside the statement are listed in the evidence.'),
    technique='function and loop contracts with ghost automata (lock-step specification), callee/recursive-call replacement by contract, goto-instrument --dfcc + cbmc (SAT/SMT portfolio) on mechanically extracted and exception-lowered C text',
)
