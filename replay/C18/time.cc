// Native replay for C18 against the real library:
//   driver format_duration in_usecs= in_precision=
//   driver usecs_to_timeval in_usecs= | timeval_to_usecs g_tv_sec= g_tv_usec= | roundtrip_usecs in_usecs= | roundtrip_timeval in_sec= in_usec=
//   driver format_size in_size= in_include_bytes=
//   driver parse_size g_ps_n= in_b0= .. in_b7=
//   driver format_time in_t=
// exit 1: the postcondition (property statement, evaluated on the real text) is violated; 0: holds; 2: usage / not replayable
#include "replay/common/args.hh"
#include "Strings.hh"
#include "Time.hh"
#include <cmath>
#include <stdexcept>
#include <string>
using namespace phosg;
using namespace std;
typedef unsigned __int128 u128;

static bool all_digits(const string& s) {
  if (s.empty()) return false;
  for (char c : s) if (c < '0' || c > '9') return false;
  return true;
}
static u128 pow10(int n) { u128 r = 1; while (n-- > 0) r *= 10; return r; }
static u128 to_u128(const string& s) { u128 v = 0; for (char c : s) v = v * 10 + (c - '0'); return v; }

static int check_duration(uint64_t usecs, int8_t prec) {
  string text;
  try {
    text = format_duration(usecs, prec);
  } catch (const exception& e) {
    printf("POSTCONDITION VIOLATED on the real code: format_duration(%llu, %d) threw %s\n", (unsigned long long)usecs, prec, e.what());
    return 1;
  }
  printf("format_duration(%llu, %d) = \"%s\"\n", (unsigned long long)usecs, prec, text.c_str());
  vector<string> f;
  size_t p = 0;
  while (true) {
    size_t c = text.find(':', p);
    if (c == string::npos) { f.push_back(text.substr(p)); break; }
    f.push_back(text.substr(p, c - p));
    p = c + 1;
  }
  RCHECK(f.size() >= 1 && f.size() <= 4, "text is not [d:][h:][m:]s[.f]: %zu fields", f.size());
  string sec = f.back(), ip = sec, fp;
  size_t dot = sec.find('.');
  if (dot != string::npos) { ip = sec.substr(0, dot); fp = sec.substr(dot + 1); RCHECK(all_digits(fp), "fraction '%s' is not a digit string", fp.c_str()); }
  RCHECK(all_digits(ip), "seconds '%s' is not a number", sec.c_str());
  for (size_t i = 0; i + 1 < f.size(); i++) RCHECK(all_digits(f[i]), "field '%s' is not a number", f[i].c_str());
  for (size_t i = 1; i + 1 < f.size(); i++) RCHECK(f[i].size() == 2, "inner field '%s' is not zero-padded to two digits", f[i].c_str());
  if (f.size() > 1) RCHECK(ip.size() == 2, "seconds field '%s' is not zero-padded to two digits", sec.c_str());
  if (f.size() >= 2) RCHECK(to_u128(f[f.size() - 2]) < 60, "minutes field '%s' is not below 60", f[f.size() - 2].c_str());
  if (f.size() >= 3) RCHECK(to_u128(f[f.size() - 3]) < 24, "hours field '%s' is not below 24", f[f.size() - 3].c_str());
  if (f.size() >= 2) RCHECK(to_u128(f[0]) != 0, "leading field is zero");
  if (prec >= 0) RCHECK((int)fp.size() == prec, "printed precision %zu, requested %d", fp.size(), prec);
  int P = (int)fp.size();
  if (P > 18) { printf("precision %d: value not re-evaluated (beyond 128-bit arithmetic)\n", P); return 0; }
  // value of the text in units of 10^-P seconds
  u128 whole = 0;
  for (size_t i = 0; i + 1 < f.size(); i++) {
    size_t from_right = f.size() - 2 - i;          // 0 = minutes, 1 = hours, 2 = days
    u128 unit = from_right == 0 ? 60 : from_right == 1 ? 3600 : 86400;
    whole += to_u128(f[i]) * unit;
  }
  u128 T = (whole + to_u128(ip)) * pow10(P) + (P ? to_u128(fp) : 0);
  // input in the same units, rounded at the printed precision: |T * 10^(6-P) - usecs| <= half a unit (ties either way; one
  // microsecond of slack for the double between the exact quotient and printf)
  if (P >= 6) {
    RCHECK(T == (u128)usecs * pow10(P - 6), "text evaluates to a different duration");
  } else {
    u128 unit = pow10(6 - P), tv = T * unit, u = usecs;
    u128 diff = tv > u ? tv - u : u - tv;
    RCHECK(diff * 2 <= unit + 2, "text evaluates to %llu us, input %llu us, more than half a unit (10^-%d s) apart",
           (unsigned long long)(uint64_t)tv, (unsigned long long)usecs, P);
  }
  return 0;
}

// days since 1970-01-01 -> civil date (proleptic Gregorian; H. Hinnant's algorithm), independent of libc
static void civil_from_days(int64_t z, int64_t& y, unsigned& m, unsigned& d) {
  z += 719468;
  int64_t era = (z >= 0 ? z : z - 146096) / 146097;
  unsigned doe = (unsigned)(z - era * 146097);
  unsigned yoe = (doe - doe / 1460 + doe / 36524 - doe / 146096) / 365;
  y = (int64_t)yoe + era * 400;
  unsigned doy = doe - (365 * yoe + yoe / 4 - yoe / 100);
  unsigned mp = (5 * doy + 2) / 153;
  d = doy - (153 * mp + 2) / 5 + 1;
  m = mp < 10 ? mp + 3 : mp - 9;
  y += (m <= 2);
}

int main(int argc, char** argv) {
  Args A(argc, argv);
  if (A.mode == "format_duration") {
    return check_duration(A.u("in_usecs"), (int8_t)A.u("in_precision"));
  } else if (A.mode == "usecs_to_timeval" || A.mode == "roundtrip_usecs") {
    uint64_t u = A.u("in_usecs");
    struct timeval tv = usecs_to_timeval(u);
    printf("usecs_to_timeval(%llu) = {%lld, %lld}\n", (unsigned long long)u, (long long)tv.tv_sec, (long long)tv.tv_usec);
    RCHECK(tv.tv_usec >= 0 && tv.tv_usec < 1000000 && tv.tv_sec >= 0, "timeval not normalised");
    RCHECK((u128)tv.tv_sec * 1000000 + (u128)tv.tv_usec == u, "tv_sec * 10^6 + tv_usec != usecs");
    if (A.mode == "roundtrip_usecs" && u <= 9223372036854775807ull) {
      uint64_t back = timeval_to_usecs(tv);
      RCHECK(back == u, "timeval_to_usecs(usecs_to_timeval(u)) = %llu", (unsigned long long)back);
    }
    return 0;
  } else if (A.mode == "timeval_to_usecs" || A.mode == "roundtrip_timeval") {
    bool rt = A.mode == "roundtrip_timeval";
    struct timeval tv;
    tv.tv_sec = (int64_t)A.u(rt ? "in_sec" : "g_tv_sec");
    tv.tv_usec = (int64_t)A.u(rt ? "in_usec" : "g_tv_usec");
    if (tv.tv_sec < 0 || tv.tv_usec < 0 || tv.tv_usec >= 1000000 || (u128)tv.tv_sec * 1000000 + tv.tv_usec > (u128)9223372036854775807ull) {
      printf("timeval outside the domain of the law\n");
      return 2;
    }
    uint64_t u = timeval_to_usecs(tv);
    printf("timeval_to_usecs({%lld, %lld}) = %llu\n", (long long)tv.tv_sec, (long long)tv.tv_usec, (unsigned long long)u);
    RCHECK(u == (uint64_t)tv.tv_sec * 1000000 + (uint64_t)tv.tv_usec, "wrong microsecond count");
    if (rt) {
      struct timeval b = usecs_to_timeval(u);
      RCHECK(b.tv_sec == tv.tv_sec && b.tv_usec == tv.tv_usec, "usecs_to_timeval(timeval_to_usecs(tv)) = {%lld, %lld}", (long long)b.tv_sec, (long long)b.tv_usec);
    }
    return 0;
  } else if (A.mode == "format_size") {
    // the counterexample first, then witness sizes in every unit (1.5 units, just below the next unit, unit + 1) in both forms: the
    // verifier's quotient is an abstract float, so its size need not be one on which the printed digits differ
    std::vector<std::pair<size_t, bool>> cases = {{(size_t)A.u("in_size"), A.u("in_include_bytes") != 0}};
    for (int u = 1; u <= 6; u++) for (int inc = 0; inc < 2; inc++) {
      size_t unit = (size_t)1 << (10 * u);
      cases.push_back({unit + unit / 2, inc != 0});
      cases.push_back({unit + 1, inc != 0});
      if (u < 6) cases.push_back({unit * 1023 + unit / 4 * 3, inc != 0});
    }
    for (auto& cs : cases) {
    size_t size = cs.first;
    bool inc = cs.second;
    string text = format_size(size, inc);
    printf("format_size(%zu, %d) = \"%s\"\n", size, inc, text.c_str());
    string bytes = to_string(size) + " bytes";
    if (size < 1024) { RCHECK(text == bytes, "expected \"%s\"", bytes.c_str()); continue; }
    static const char letters[] = "KMGTPE";
    int idx = 0;
    while (idx < 5 && (size >> (10 * (idx + 2))) != 0) idx++;       // largest unit <= size
    string rest = text;
    if (inc) {
      RCHECK(text.compare(0, bytes.size() + 2, bytes + " (") == 0 && text.back() == ')', "expected \"%s (... %cB)\"", bytes.c_str(), letters[idx]);
      rest = text.substr(bytes.size() + 2, text.size() - bytes.size() - 3);
    }
    size_t sp = rest.find(' ');
    RCHECK(sp != string::npos && rest.substr(sp + 1) == string(1, letters[idx]) + "B", "unit is not %cB (the largest unit <= size) in \"%s\"", letters[idx], rest.c_str());
    string num = rest.substr(0, sp);
    size_t dot = num.find('.');
    RCHECK(dot != string::npos && num.size() - dot - 1 == 2 && all_digits(num.substr(0, dot)) && all_digits(num.substr(dot + 1)), "number '%s' is not d+.dd", num.c_str());
    long double printed = strtold(num.c_str(), nullptr), exact = (long double)size / (long double)((u128)1 << (10 * (idx + 1)));
    // the quotient is computed in float (24-bit significand): relative error 2^-23, plus half a unit of the last printed digit
    RCHECK(fabsl(printed - exact) <= 0.005L + exact * 2.4e-7L + 1e-9L, "printed %s, size / unit = %.6Lf", num.c_str(), exact);
    }
    return 0;
  } else if (A.mode == "parse_size") {
    size_t n = A.u("g_ps_n");
    if (n < 1 || n > 8) { printf("buffer not replayable (g_ps_n=%zu)\n", n); return 2; }
    string s;
    static const char* names[8] = {"in_b0", "in_b1", "in_b2", "in_b3", "in_b4", "in_b5", "in_b6", "in_b7"};
    for (size_t i = 0; i + 1 < n; i++) s.push_back((char)A.u(names[i]));
    s = s.c_str();       // the scan stops at the first NUL
    size_t got = parse_size(s.c_str());
    printf("parse_size(\"%s\") = %zu\n", s.c_str(), got);
    size_t i = 0; uint64_t v = 0;
    while (i < s.size() && s[i] >= '0' && s[i] <= '9') { v = v * 10 + (uint64_t)(s[i] - '0'); i++; }
    if (i < s.size() && s[i] == '.') { printf("fractional input: not decided\n"); return 0; }
    while (i < s.size() && s[i] == ' ') i++;
    char c = i < s.size() ? s[i] : 0;
    uint64_t scale = (c == 'K' || c == 'k') ? 1ull << 10 : (c == 'M' || c == 'm') ? 1ull << 20 : (c == 'G' || c == 'g') ? 1ull << 30 :
                     (c == 'T' || c == 't') ? 1ull << 40 : (c == 'P' || c == 'p') ? 1ull << 50 : (c == 'E' || c == 'e') ? 1ull << 60 : 1;
    RCHECK(got == v * scale, "expected %llu * %llu", (unsigned long long)v, (unsigned long long)scale);
    return 0;
  } else if (A.mode == "format_time") {
    uint64_t t = A.u("in_t");
    string text;
    try {
      text = format_time(t);
    } catch (const exception& e) {
      printf("POSTCONDITION VIOLATED on the real code: format_time(%llu) threw %s\n", (unsigned long long)t, e.what());
      return 1;
    }
    uint64_t secs = t / 1000000, us = t % 1000000;
    int64_t y; unsigned m, d;
    civil_from_days((int64_t)(secs / 86400), y, m, d);
    unsigned sod = (unsigned)(secs % 86400);
    char want[96];
    snprintf(want, sizeof(want), "%lld-%02u-%02u %02u:%02u:%02u.%06u", (long long)y, m, d, sod / 3600, (sod / 60) % 60, sod % 60, (unsigned)us);
    printf("format_time(%llu) = \"%s\"\n", (unsigned long long)t, text.c_str());
    RCHECK(text == want, "independent calendar gives \"%s\"", want);
    return 0;
  }
  fprintf(stderr, "unknown mode %s\n", A.mode.c_str());
  return 2;
}
