/* C11 TRUSTED stubs for the library calls of render_netloc / parse_netloc (src/Network.cc).  Models with bodies; the
 * loops in them are unwound (the netloc check is a BOUNDED check: short strings).
 *
 *  c11_assign_cstr(r, lit)        std::string(const char*)                      (return "<unknown>";)
 *  c11_assign_vstr(r, s)          std::string copy construction                 (return addr;)
 *  c11_append_cstr(r, lit)        operator+(string, const char*)
 *  c11_append_int(r, v)           r += std::to_string(int): decimal digits, most significant first, '-' for negatives,
 *                                 no leading zeros ("0" for zero)              [C++ 21.3.4: as if by sprintf("%d")]
 *  c11_find_char(s, c)            std::string::find(char): index of the first occurrence, C11_NPOS if there is none
 *  c11_substr(r, s, pos, n)       std::string::substr(pos, n): min(n, size-pos) characters from pos; pos > size throws
 *                                 out_of_range
 *  c11_stod_tail(s, pos)          std::stod(s.substr(pos)) restricted to texts that consist of 1..9 decimal digits only
 *                                 (value = the decimal numeral, exactly representable); an empty text throws
 *                                 invalid_argument as std::stod does; any other character: outside the model (assertion) */
#ifndef STUBS_C11_NET_H
#define STUBS_C11_NET_H
#include "stubs/vstr.h"

#define C11_NPOS ((size_t)-1)

static inline void c11_assign_cstr(vstr* r, const char* lit) {
  r->size = 0;
  for (size_t i = 0; lit[i] != 0; i++) vstr_push_back(r, lit[i]);
}
static inline void c11_append_cstr(vstr* r, const char* lit) {
  for (size_t i = 0; lit[i] != 0; i++) vstr_push_back(r, lit[i]);
}
static inline void c11_assign_vstr(vstr* r, const vstr* s) {
  r->size = 0;
  for (size_t i = 0; i < s->size; i++) vstr_push_back(r, s->data[i]);
}
static inline void c11_append_int(vstr* r, int v) {
  char digits[12];
  int n = 0;
  long long a = v;           /* no overflow for INT_MIN */
  if (a < 0) { vstr_push_back(r, '-'); a = -a; }
  do { digits[n++] = (char)('0' + (a % 10)); a /= 10; } while (a != 0);
  while (n > 0) vstr_push_back(r, digits[--n]);
}
static inline size_t c11_find_char(const vstr* s, char c) {
  for (size_t i = 0; i < s->size; i++)
    if (s->data[i] == c) return i;
  return C11_NPOS;
}
static inline void c11_substr(vstr* r, const vstr* s, size_t pos, size_t n) {
  r->size = 0;
  if (pos > s->size) { verif_exc = EXC_out_of_range; return; }
  size_t avail = s->size - pos;
  size_t cnt = n < avail ? n : avail;
  for (size_t i = 0; i < cnt; i++) vstr_push_back(r, s->data[pos + i]);
}
static inline double c11_stod_tail(const vstr* s, size_t pos) {
  if (pos > s->size) { verif_exc = EXC_out_of_range; return 0; }
  if (pos == s->size) { verif_exc = EXC_invalid_argument; return 0; }
  __CPROVER_assert(s->size - pos <= 9, "stod model: more than nine digits (outside the model)");
  unsigned long acc = 0;
  for (size_t i = pos; i < s->size; i++) {
    char c = s->data[i];
    __CPROVER_assert(c >= '0' && c <= '9', "stod model: text is not a plain decimal numeral (outside the model)");
    acc = acc * 10 + (unsigned long)(c - '0');
  }
  return (double)acc;
}
/* std::string::find_first_not_of(const char* set): index of the first character that is not in the NUL-terminated set */
static inline size_t c11_find_first_not_of(const vstr* s, const char* set) {
  for (size_t i = 0; i < s->size; i++) {
    int in_set = 0;
    for (size_t k = 0; set[k] != 0; k++) if (s->data[i] == set[k]) in_set = 1;
    if (!in_set) return i;
  }
  return C11_NPOS;
}
/* std::stoul / std::stoi / std::stol(s) restricted to texts of 1..9 decimal digits (value = the numeral); empty: invalid_argument */
static inline unsigned long c11_stoul(const vstr* s) { return (unsigned long)c11_stod_tail(s, 0); }

#endif
