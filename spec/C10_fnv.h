/* C10 specification of FNV-1a, written from the FNV definition (Fowler/Noll/Vo; draft-eastlake-fnv, section 2):
 *
 *   hash = offset_basis
 *   for each octet_of_data to be hashed:   hash = hash xor octet_of_data;   hash = hash * FNV_Prime  (mod 2^n)
 *   return hash
 *
 *   32 bit: FNV_Prime = 2^24 + 2^8 + 0x93 = 16777619,            offset_basis = 2166136261
 *   64 bit: FNV_Prime = 2^40 + 2^8 + 0xb3 = 1099511628211,       offset_basis = 14695981039346656037
 * (constants deliberately in the decimal form of the definition, the code under proof writes them in hex). */
#ifndef C10_FNV_SPEC_H
#define C10_FNV_SPEC_H
#include <stdint.h>

#define C10_FNV32_PRIME 16777619u
#define C10_FNV32_OFFSET_BASIS 2166136261u
#define C10_FNV64_PRIME 1099511628211ull
#define C10_FNV64_OFFSET_BASIS 14695981039346656037ull

#define C10_FNV1A32_STEP(hash, octet) ((uint32_t)((((uint32_t)(hash)) ^ (uint32_t)(uint8_t)(octet)) * C10_FNV32_PRIME))
#define C10_FNV1A64_STEP(hash, octet) ((uint64_t)((((uint64_t)(hash)) ^ (uint64_t)(uint8_t)(octet)) * C10_FNV64_PRIME))

#endif
