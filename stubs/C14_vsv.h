/* C14 TRUSTED stub: model of a sequence of std::string blocks (std::vector<std::string> / std::deque<std::string>) as
 * src/Filesystem.cc uses it in read_all and fgets: blocks are appended with emplace_back(n, c), only the LAST block is
 * ever written through back().data() / resized, and the sequence is finally concatenated.  Written from the container
 * semantics in ISO C++ [sequence.reqmts]/[string.capacity]; contains no phosg code.
 *
 * Abstract state (an unbounded number of blocks cannot be stored, so everything except the last block is summarised):
 *     count     number of blocks
 *     total     sum of the sizes of all blocks = length of the concatenation
 *     live      size of the last block while it is still accessible ("live"): its bytes are REAL memory (buf[0..live))
 *     has_live  the last block is the one most recently appended (false after pop_back: the new last block is a summarised one)
 *     g_cval    ghost: the byte of the concatenation at ghost position g_vk, recorded when the block that contains
 *               position g_vk stops being the live one (at the next emplace_back / pop never un-freezes)
 * Concatenation byte k:  VSV_CONCAT(v, k) = k in the live block ? buf[k - (total - live)] : g_cval   (meaningful for k == g_vk).
 * emplace_back re-uses the one real buffer for the new last block (the previous block's bytes have been summarised); its
 * new contents are havocked, which over-approximates the fill character.  Capacity: a block larger than bufcap is outside
 * the model (assertion), like the capacity model of stubs/vstr.h.
 * Iteration (range-for over the container) is modelled as a sequential cursor: vsv_at(v, i) must be called with
 * i = 0, 1, 2, ...; it returns a block whose size is any value consistent with "the sizes sum to total and the last block
 * has size live", and whose bytes are the corresponding bytes of the concatenation (ghost index g_vk). */
#ifndef STUBS_C14_VSV_H
#define STUBS_C14_VSV_H
#include "stubs/vstr.h"
#include <stdlib.h>

typedef struct { size_t count, total, live; int has_live; char* buf; size_t bufcap; } vsv;
extern uint8_t g_cval; extern char* g_vsv_buf; extern size_t g_vsv_cap;
extern size_t g_it_next, g_it_prefix;

#define VSV_FROZEN(v) ((v)->total - (v)->live)
#define VSV_CONCAT(v, k) (((k) >= VSV_FROZEN(v)) ? (uint8_t)(v)->buf[(k) - VSV_FROZEN(v)] : g_cval)
/* representation invariant of the model */
#define VSV_INV(v) ((v)->live <= (v)->total && (v)->live <= (v)->bufcap && ((v)->has_live == 0 || (v)->has_live == 1) && \
                    (!(v)->has_live ==> (v)->live == 0) && ((v)->count == 0 ==> ((v)->total == 0 && !(v)->has_live)) && \
                    (((v)->count == 1 && (v)->has_live) ==> (v)->total == (v)->live))

/* default construction: empty.  The real memory of the live block is the object (g_vsv_buf, g_vsv_cap) that the contract
 * of the function under proof obtains from its precondition (an allocation inside the function could not be named in
 * loop invariants) */
static inline void vsv_init(vsv* v)
{
  v->count = 0; v->total = 0; v->live = 0; v->has_live = 0;
  v->buf = g_vsv_buf;
  v->bufcap = g_vsv_cap;
}
static inline size_t vsv_size(const vsv* v) { return v->count; }

/* emplace_back(n, c): a new last block of n bytes */
static inline void vsv_emplace_back(vsv* v, size_t n, char c)
{
  __CPROVER_assert(n <= v->bufcap, "block larger than the model's block capacity");
  if (v->has_live && g_vk >= VSV_FROZEN(v) && g_vk < v->total)
    g_cval = (uint8_t)v->buf[g_vk - VSV_FROZEN(v)];      /* summarise the previous last block */
  __CPROVER_havoc_object(v->buf);                         /* contents: over-approximation of "n copies of c" */
  v->count++; v->total += n; v->live = n; v->has_live = 1;
}
/* back().data() */
static inline char* vsv_back_data(vsv* v) { __CPROVER_assert(v->has_live, "back() of the model must be the live block"); return v->buf; }
/* back().size() */
static inline size_t vsv_back_size(const vsv* v) { __CPROVER_assert(v->has_live, "back() of the model must be the live block"); return v->live; }
/* back()[i]: [string.access] requires i <= size(); the element at size() is the terminator */
static inline char vsv_back_at(const vsv* v, size_t i)
{
  __CPROVER_assert(v->has_live, "back() of the model must be the live block");
  __CPROVER_assert(i <= v->live, "std::string operator[] beyond size() is undefined");
  return i < v->live ? v->buf[i] : (char)0;
}
/* back().resize(k): only shrinking is modelled (growing would need a fill loop) */
static inline void vsv_back_resize(vsv* v, size_t k)
{
  __CPROVER_assert(v->has_live, "back() of the model must be the live block");
  __CPROVER_assert(k <= v->live, "model restriction: back().resize(k) only shrinks");
  v->total -= v->live - k; v->live = k;
}
/* pop_back(): the new last block is a summarised one */
static inline void vsv_pop_back(vsv* v)
{
  __CPROVER_assert(v->count > 0, "pop_back on an empty container is undefined");
  __CPROVER_assert(v->has_live, "model restriction: pop_back only of the most recently appended block");
  v->total -= v->live; v->live = 0; v->has_live = 0; v->count--;
}
/* std::string(back()) : copy of the last block */
static inline void vsv_copy_back(vstr* ret, vsv* v)
{
  __CPROVER_assert(v->has_live, "back() of the model must be the live block");
  vstr_assign(ret, v->buf, v->live);
}
/* std::string(std::move(front())) -- modelled for a container that holds exactly one block (= the concatenation) */
void vsv_concat_out(vstr* ret, const vsv* v);
static inline void vsv_front_out(vstr* ret, const vsv* v)
{
  __CPROVER_assert(v->count == 1, "model restriction: front() only of a one-block container");
  vsv_concat_out(ret, v);
}
/* reserve(n): capacity model */
static inline void vsv_reserve(vstr* s, size_t n) { __CPROVER_assert(n <= s->cap, "string capacity (allocation modelled as capacity)"); }

/* block i during a sequential iteration */
const vstr* vsv_at(const vsv* v, size_t i)
__CPROVER_requires(VSV_INV(v) && i < v->count && i == g_it_next && g_it_prefix <= VSV_FROZEN(v))
__CPROVER_ensures(__CPROVER_is_fresh(__CPROVER_return_value, sizeof(vstr)))
__CPROVER_ensures(__CPROVER_return_value->size <= v->total && __CPROVER_return_value->cap == __CPROVER_return_value->size)
__CPROVER_ensures(__CPROVER_is_fresh(__CPROVER_return_value->data, __CPROVER_return_value->size))
__CPROVER_ensures(g_it_next == i + 1 && g_it_prefix == __CPROVER_old(g_it_prefix) + __CPROVER_return_value->size && g_it_prefix <= v->total)
__CPROVER_ensures(i + 1 == v->count ==> g_it_prefix == v->total)
__CPROVER_ensures((v->has_live && i + 1 == v->count) ==> __CPROVER_return_value->size == v->live)
__CPROVER_ensures(i + 1 < v->count ==> g_it_prefix <= VSV_FROZEN(v))
__CPROVER_ensures((g_vk >= __CPROVER_old(g_it_prefix) && g_vk < g_it_prefix) ==>
                  (uint8_t)__CPROVER_return_value->data[g_vk - __CPROVER_old(g_it_prefix)] == VSV_CONCAT(v, g_vk))
__CPROVER_assigns(g_it_next, g_it_prefix);

/* the concatenation of all blocks as one string: phosg::join(blocks) with the empty delimiter, and std::move(front())
 * when there is exactly one block */
void vsv_concat_out(vstr* ret, const vsv* v)
__CPROVER_requires(VSV_INV(v) && v->total <= ret->cap)
__CPROVER_ensures(ret->size == v->total)
__CPROVER_ensures(g_vk < v->total ==> (uint8_t)ret->data[g_vk] == VSV_CONCAT(v, g_vk))
__CPROVER_assigns(ret->size, __CPROVER_object_whole(ret->data));

#endif
