/* C08 side-car contracts: split / join (src/Strings.cc, src/Strings.hh).  Written from the property statement:
 *   pieces tile the string:  start_0 = 0,  start_{j+1} = end_j + 1,  s[end_j] == delim,  last end == size;
 *   no piece contains a delimiter unless max_splits stopped splitting (then only the last piece may);
 *   count <= max_splits + 1 when max_splits != 0  (with the tiling facts: count == min(#delim, max_splits or inf) + 1);
 *   join output = pieces interleaved with the delimiter.
 * All facts are stated for ONE symbolic piece g_pj (ghost index) and one symbolic byte g_sk / g_ok. */
#ifndef C08_SPLIT_H
#define C08_SPLIT_H
#include "stubs/C08_str.h"

/* VERIF_SMALL: sizes restricted so that a counterexample can be found on the loop-unwound code and replayed natively */
#ifdef VERIF_SMALL
#define SMALL_REQ(c) __CPROVER_requires(c)
#else
#define SMALL_REQ(c)
#endif
#define SRC_REQ(s) __CPROVER_requires(__CPROVER_is_fresh(s, sizeof(vstr))) \
                   __CPROVER_requires((s)->cap <= VSTR_MAXCAP && (s)->size <= (s)->cap) \
                   __CPROVER_requires(__CPROVER_is_fresh((s)->data, (s)->cap)) SMALL_REQ((s)->cap <= 6)
#define OUT_REQ(ret) __CPROVER_requires(__CPROVER_is_fresh(ret, sizeof(vout))) __CPROVER_requires((ret)->size == 0)
#define VEC_REQ(ret) __CPROVER_requires(__CPROVER_is_fresh(ret, sizeof(vvec))) __CPROVER_requires((ret)->size == 0)

/* max_splits stopped the splitting: the last piece is the unsplit remainder */
#define SPLIT_CAPPED(ret, max_splits) ((max_splits) != 0 && (ret)->size - 1 == (max_splits))

#define SPLIT_CONTRACT \
VEC_REQ(ret) SRC_REQ(s) \
__CPROVER_requires(verif_exc == 0 && g_pj < VSTR_MAXCAP) \
__CPROVER_ensures(verif_exc == 0) \
__CPROVER_ensures(ret->size >= 1 && ret->size - 1 <= s->size) \
__CPROVER_ensures(max_splits != 0 ==> ret->size - 1 <= max_splits) \
__CPROVER_ensures(g_pj < ret->size ==> (g_pstart <= s->size && g_plen <= s->size - g_pstart)) \
__CPROVER_ensures(g_pj == 0 ==> g_pstart == 0) \
__CPROVER_ensures(g_pj + 1 < ret->size ==> (g_nstart == g_pstart + g_plen + 1 && g_nstart <= s->size && s->data[g_pstart + g_plen] == delim)) \
__CPROVER_ensures(g_pj + 1 == ret->size ==> g_pstart + g_plen == s->size) \
__CPROVER_ensures((g_pj < ret->size && !(SPLIT_CAPPED(ret, max_splits) && g_pj + 1 == ret->size) && g_rk < g_plen) ==> s->data[g_pstart + g_rk] != delim) \
__CPROVER_assigns(verif_exc, ret->size, g_pstart, g_plen, g_nstart)
void split(vvec* ret, const vstr* s, char delim, size_t max_splits)
SPLIT_CONTRACT;
/* split(const std::wstring&, wchar_t, size_t): the same specification */
void split_w(vvec* ret, const vstr* s, char delim, size_t max_splits)
SPLIT_CONTRACT;


/* ---- join: items = slices of items->src (stubs/C08_str.h); ghost outputs of the loop: g_joff = offset of piece g_pj in the
 * result, g_joff2 = offset of piece g_pj + 1 ---------------------------------------------------------------------------- */
extern size_t g_joff, g_joff2;
#define ITEMS_REQ(items) __CPROVER_requires(__CPROVER_is_fresh(items, sizeof(vsvec))) \
                         __CPROVER_requires((items)->n <= VSVEC_MAXN) SMALL_REQ((items)->n <= 3) \
                         __CPROVER_requires(__CPROVER_is_fresh((items)->v, (items)->n * sizeof(vslice))) \
                         __CPROVER_requires(__CPROVER_is_fresh((items)->src, sizeof(vstr))) \
                         __CPROVER_requires((items)->src->cap <= VSTR_MAXCAP && (items)->src->size <= (items)->src->cap) SMALL_REQ((items)->src->cap <= 6) \
                         __CPROVER_requires(__CPROVER_is_fresh((items)->src->data, (items)->src->cap))
/* the ghost piece's slice and the backing bytes as ghost scalars (ghost value idiom): fixed by JOIN_GHOST_REQ */
extern size_t g_pjs, g_pjl, g_srcsize; extern const char* g_srcd;
#define JOIN_GHOST_REQ(items) __CPROVER_requires(g_pj < VSVEC_MAXN && (g_pj < (items)->n ==> (g_pjs == (items)->v[g_pj].start && g_pjl == (items)->v[g_pj].len))) \
                              __CPROVER_requires(g_srcd == (items)->src->data && g_srcsize == (items)->src->size)
#define PJ_START(items) g_pjs
#define PJ_LEN(items) g_pjl
#define PJ_OK(items) (g_pjs <= g_srcsize && g_pjl <= g_srcsize - g_pjs)

/* result = item_0 SEP item_1 SEP ... item_{n-1}; SEPLEN = 1 (a delimiter character) or 0 (no delimiter) */
#define JOIN_ENSURES(SEPLEN) \
__CPROVER_ensures(items->n == 0 ==> ret->size == 0) \
__CPROVER_ensures((g_pj < items->n && g_pj == 0) ==> g_joff == 0) \
__CPROVER_ensures((g_pj < items->n && PJ_OK(items)) ==> (g_joff <= ret->size && PJ_LEN(items) <= ret->size - g_joff)) \
__CPROVER_ensures((g_pj < items->n && PJ_OK(items) && g_obase == g_joff && g_rk < PJ_LEN(items)) ==> g_oval == g_srcd[PJ_START(items) + g_rk]) \
__CPROVER_ensures((g_pj + 1 < items->n && PJ_OK(items)) ==> g_joff2 == g_joff + PJ_LEN(items) + (SEPLEN)) \
__CPROVER_ensures((g_pj + 1 == items->n && PJ_OK(items)) ==> ret->size == g_joff + PJ_LEN(items))

void join_delim(vout* ret, const vsvec* items, char delim)
OUT_REQ(ret) ITEMS_REQ(items)
JOIN_GHOST_REQ(items)
JOIN_ENSURES(1)
__CPROVER_ensures((g_pj + 1 < items->n && PJ_OK(items) && g_obase == g_joff + PJ_LEN(items) && g_rk == 0) ==> g_oval == delim)
__CPROVER_assigns(ret->size, g_oval, g_joff, g_joff2);

void join_plain(vout* ret, const vsvec* items)
OUT_REQ(ret) ITEMS_REQ(items)
JOIN_GHOST_REQ(items)
JOIN_ENSURES(0)
__CPROVER_assigns(ret->size, g_oval, g_joff, g_joff2);

#endif
