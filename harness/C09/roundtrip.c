/* C09 bounded composition: parse_data_string(format_data_string(x, mask)) == (x, mask classification) for every byte string of
 * length <= RT_N, every mask, both flag settings.  Both functions are the whole extracted functions (loops unwound; the loop
 * contracts in the text are not applied).  Labelled bounded; the unbounded argument is the step lemmas (harness/C09/sim.c). */
#include "contracts/C03_leaf.h"
#include "x_Encoding_leaf.c"
#include "x_c09_prelude.c"
int verif_exc; size_t g_vk, g_k, g_w, g_j, g_n; bool g_quoted, g_returned;
const char* g_end; char g_c0, g_c1, g_c2, g_c3;
unsigned g_st_calls; const char* g_st_arg; const char* g_st_end; int g_st_base; int g_st_kind;
unsigned long long g_num; double g_dbl; float g_flt; unsigned g_load_calls;
#include "x_fds_full.c"
#include "x_pds_full.c"

#ifndef RT_N
#define RT_N 3
#endif
#define TEXT_MAX (2 + 5 * RT_N)

void b_roundtrip(void)
{
  uint8_t in_x[RT_N], in_mask[RT_N]; size_t in_len; bool in_has_mask; uint64_t in_flags;
  __CPROVER_assume(in_len <= RT_N && (in_has_mask == 0 || in_has_mask == 1) && in_flags <= 1);
#ifdef RT_FLAGS
  __CPROVER_assume(in_flags == RT_FLAGS);            /* case split over the two flag settings (one group each) */
#endif
  char tbuf[TEXT_MAX + 1], dbuf[TEXT_MAX], mbuf[TEXT_MAX];
  vstr T = { tbuf, 0, TEXT_MAX }, D = { dbuf, 0, TEXT_MAX }, M = { mbuf, 0, TEXT_MAX };
  verif_exc = 0; g_load_calls = 0;
  format_data_string(&T, in_x, in_len, in_has_mask ? (const void*)in_mask : (const void*)0, in_flags);
  tbuf[T.size] = 0;                                    /* c_str() */
  parse_data_string(&D, tbuf, T.size, &M, 0);
  __CPROVER_assert(verif_exc == 0, "no exception");
  __CPROVER_assert(D.size == in_len, "parse(format(x)) has the length of x");
  __CPROVER_assert(M.size == in_len, "the parsed mask has the length of x");
  for (size_t k = 0; k < RT_N; k++) {
    if (k < in_len) {
      __CPROVER_assert((uint8_t)dbuf[k] == in_x[k], "parse(format(x))[k] == x[k]");
      __CPROVER_assert((uint8_t)mbuf[k] == PDS_MASK_BYTE(in_has_mask ? in_mask[k] != 0 : 1), "masked/unmasked classification of byte k is kept");
    }
  }
  VERIF_REACH();
}
