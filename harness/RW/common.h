/* shared prelude of the reader/writer harnesses */
#include "contracts/C03_leaf.h"
#include "x_Encoding_leaf.c"
#include "contracts/RW_reader.h"
#include "contracts/RW_writer.h"
#include "contracts/RW_str.h"
int verif_exc; size_t g_mk, g_vk, g_bit, g_oldbits; unsigned g_bitval; size_t g_len, g_off, g_wsize, g_wcap; uint8_t g_vval;
#define CAT_(a, b) a##b
#define CAT(a, b) CAT_(a, b)
#define PGET(T) CAT(StringReader_pget__, T)
#define GET(T) CAT(StringReader_get__, T)
#define SWPUT(T) CAT(StringWriter_put__, T)
#define SWPPUT(T) CAT(StringWriter_pput__, T)
#define BWPUT(T) CAT(BufferWriter_put__, T)
#define BWPPUT(T) CAT(BufferWriter_pput__, T)
#define IN_STATE size_t in_len, in_off, in_mk, in_vk, in_wsize, in_wcap; g_len = in_len; g_off = in_off; g_mk = in_mk; g_vk = in_vk; g_wsize = in_wsize; g_wcap = in_wcap; uint8_t in_vval; g_vval = in_vval
