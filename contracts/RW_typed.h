/* Side-car contracts for the typed one-liners, one accessor (FN) per compilation.
 * The specification comes from the accessor's NAME: SPEC_T value type, SPEC_W bits, SPEC_BIG byte order, SPEC_FLOAT.
 * FKIND: 1 reader get, 2 reader pget, 3 StringWriter put, 4 StringWriter pput, 5 BufferWriter put, 6 BufferWriter pput,
 *        7 round-trip lemma (FN = put, FN2 = get). WB = encoded width in bytes. */
#ifndef RW_TYPED_H
#define RW_TYPED_H
#include "contracts/RW_writer.h"
#define WB (SPEC_W / 8)
#if SPEC_W == 8
#define SUT uint8_t
#define SDEC(p) ((uint8_t)MEMB(p, 0))
#elif SPEC_W == 16
#define SUT uint16_t
#define SDEC(p) ((uint16_t)(SPEC_BIG ? DEC_BE16(p) : DEC_LE16(p)))
#elif SPEC_W == 32
#define SUT uint32_t
#define SDEC(p) ((uint32_t)(SPEC_BIG ? DEC_BE32(p) : DEC_LE32(p)))
#else
#define SUT uint64_t
#define SDEC(p) ((uint64_t)(SPEC_BIG ? DEC_BE64(p) : DEC_LE64(p)))
#endif
#if SPEC_FLOAT && SPEC_W == 32
#define SBITS(x) F2U(x)
#elif SPEC_FLOAT
#define SBITS(x) D2U(x)
#else
#define SBITS(x) ((SUT)(x))
#endif
/* byte i (memory order) of the encoding of bit pattern b in the byte order the name promises */
#define SBYTE(b, i) (SPEC_BIG ? VBYTE(b, WB - 1 - (i)) : VBYTE(b, i))

#define C_RD_GET(F) \
SPEC_T F(StringReader* self, bool advance) \
RD_REQ(self) \
E02(THROWS_OOR(INR(__CPROVER_old(self->offset), WB, self->length))) \
E02(verif_exc != 0 ==> self->offset == __CPROVER_old(self->offset)) \
E02(__CPROVER_old(self->offset) <= self->length ==> self->offset <= self->length) \
E01(verif_exc == 0 ==> SBITS(__CPROVER_return_value) == SDEC(self->data + __CPROVER_old(self->offset))) \
E01(verif_exc == 0 ==> self->offset == __CPROVER_old(self->offset) + (advance ? WB : 0)) \
__CPROVER_assigns(verif_exc, self->offset);

#define C_RD_PGET(F) \
SPEC_T F(const StringReader* self, size_t offset) \
RD_REQ(self) \
E02(THROWS_OOR(INR(offset, WB, self->length))) \
E01(verif_exc == 0 ==> SBITS(__CPROVER_return_value) == SDEC(self->data + offset)) \
__CPROVER_assigns(verif_exc);

/* append: size grows by exactly WB, every new byte (ghost index) is the encoding byte, older bytes unchanged */
#define C_SW_PUT(F) \
void F(StringWriter* self, SPEC_T v) \
SW_REQ(self) __CPROVER_requires(WB <= self->data.cap - self->data.size) \
E02(verif_exc == 0 && self->data.size <= self->data.cap) \
E01(self->data.size == __CPROVER_old(self->data.size) + WB) \
E01((g_vk >= __CPROVER_old(self->data.size) && g_vk < self->data.size) ==> (uint8_t)self->data.data[g_vk] == SBYTE(SBITS(v), g_vk - __CPROVER_old(self->data.size))) \
E01(g_vk < __CPROVER_old(self->data.size) ==> self->data.data[g_vk] == (char)g_vval) \
__CPROVER_assigns(self->data.size, __CPROVER_object_whole(self->data.data));

/* positional write: grows (zero-extending) to cover [offset, offset+WB) or throws length_error when it cannot; bytes
 * outside the written range keep their value */
#define C_SW_PPUT(F) \
void F(StringWriter* self, size_t offset, SPEC_T v) \
SW_REQ(self) \
E02(INR(offset, WB, self->data.cap) ? verif_exc == 0 : verif_exc == EXC_length_error) \
E02(verif_exc == 0 ==> INR(offset, WB, self->data.size)) \
E02(self->data.size <= self->data.cap) \
E01(verif_exc == 0 ==> self->data.size == (offset + WB > __CPROVER_old(self->data.size) ? offset + WB : __CPROVER_old(self->data.size))) \
E01((verif_exc == 0 && g_mk < WB) ==> (uint8_t)self->data.data[offset + g_mk] == SBYTE(SBITS(v), g_mk)) \
E01((verif_exc == 0 && g_vk >= __CPROVER_old(self->data.size) && g_vk < offset) ==> self->data.data[g_vk] == 0) \
E01((g_vk < __CPROVER_old(self->data.size) && (verif_exc != 0 || g_vk < offset || g_vk - offset >= WB)) ==> self->data.data[g_vk] == (char)g_vval) \
__CPROVER_assigns(verif_exc, self->data.size, __CPROVER_object_whole(self->data.data));

#define C_BW_PUT(F) \
void F(BufferWriter* self, SPEC_T v) \
BW_REQ(self) \
E02(INR(__CPROVER_old(self->offset), WB, self->buf_size) ? verif_exc == 0 : verif_exc == EXC_runtime_error) \
E02(verif_exc != 0 ==> self->offset == __CPROVER_old(self->offset)) \
E02(g_vk < self->buf_size && !(verif_exc == 0 && g_vk >= __CPROVER_old(self->offset) && g_vk - __CPROVER_old(self->offset) < WB) ==> self->buf[g_vk] == g_vval) \
E01(verif_exc == 0 ==> self->offset == __CPROVER_old(self->offset) + WB) \
E01((verif_exc == 0 && g_mk < WB) ==> self->buf[__CPROVER_old(self->offset) + g_mk] == SBYTE(SBITS(v), g_mk)) \
__CPROVER_assigns(verif_exc, self->offset, __CPROVER_object_whole(self->buf));

#define C_BW_PPUT(F) \
void F(BufferWriter* self, size_t offset, SPEC_T v) \
BW_REQ(self) \
E02(INR(offset, WB, self->buf_size) ? verif_exc == 0 : verif_exc == EXC_runtime_error) \
E02(g_vk < self->buf_size && !(verif_exc == 0 && g_vk >= offset && g_vk - offset < WB) ==> self->buf[g_vk] == g_vval) \
E01((verif_exc == 0 && g_mk < WB) ==> self->buf[offset + g_mk] == SBYTE(SBITS(v), g_mk)) \
__CPROVER_assigns(verif_exc, __CPROVER_object_whole(self->buf));

#if FKIND == 1
C_RD_GET(FN)
#elif FKIND == 2
C_RD_PGET(FN)
#elif FKIND == 3
C_SW_PUT(FN)
#elif FKIND == 4
C_SW_PPUT(FN)
#elif FKIND == 5
C_BW_PUT(FN)
#elif FKIND == 6
C_BW_PPUT(FN)
#elif FKIND == 7
C_SW_PUT(FN)
C_RD_GET(FN2)
#endif
#endif
