"""Counterexample -> input -> replay against the real C++ code (DESIGN.md 3.7)."""
import json
import os
import re
import shutil
import subprocess
import tempfile
from concurrent.futures import ThreadPoolExecutor

from .pipeline import VERIF


def _hex(v):
    if isinstance(v, dict):
        if v.get('bin') and re.fullmatch(r'[01]+', v['bin']):
            return '0x%X' % int(v['bin'], 2)
        d = v.get('data')
        if d is None:
            return None
        if isinstance(d, str):
            if d in ('TRUE', 'true'):
                return '0x1'
            if d in ('FALSE', 'false'):
                return '0x0'
            m = re.match(r'-?\d+', d)
            if m:
                return '0x%X' % (int(m.group(0)) & 0xFFFFFFFFFFFFFFFF)
        return None
    return None


def flatten(inputs):
    out = []
    for k in sorted(inputs or {}):
        v = inputs[k]
        if isinstance(v, list):
            hs = [_hex(e) for e in v]
            if all(h is not None for h in hs):
                out.append('%s=%s' % (k, ','.join(hs)))
        else:
            h = _hex(v)
            if h is not None:
                out.append('%s=%s' % (k, h))
    return out


def build_driver(src, rp, workdir):
    """Compile the replay driver against the real sources of `src` (working tree). Returns binary or raises."""
    flags = ['-std=c++20', '-O0', '-g', '-fsanitize=address,undefined', '-fno-omit-frame-pointer',
             '-I', os.path.join(src, 'src'), '-I', VERIF, '-w']
    objs = []

    def cc(rel):
        o = os.path.join(workdir, rel.replace('/', '_') + '.o')
        p = subprocess.run(['g++'] + flags + ['-c', os.path.join(src, rel), '-o', o], capture_output=True, text=True)
        if p.returncode != 0:
            raise RuntimeError('native build of %s failed:\n%s' % (rel, p.stderr[-3000:]))
        return o

    with ThreadPoolExecutor(max_workers=8) as ex:
        objs = list(ex.map(cc, rp.sources))
    binp = os.path.join(workdir, 'driver')
    p = subprocess.run(['g++'] + flags + [os.path.join(VERIF, 'replay', rp.driver)] + objs + ['-o', binp, '-lpthread', '-lz'],
                       capture_output=True, text=True)
    if p.returncode != 0:
        raise RuntimeError('native build of replay driver %s failed:\n%s' % (rp.driver, p.stderr[-3000:]))
    return binp


_cache = {}
_cache_lock = __import__('threading').Lock()


def _cleanup():
    for v in _cache.values():
        if v[1]:
            shutil.rmtree(v[1], ignore_errors=True)


__import__('atexit').register(_cleanup)


def cached_driver(src, rp):
    key = (src, rp.driver, tuple(rp.sources))
    with _cache_lock:
        if key not in _cache:
            wd = tempfile.mkdtemp(prefix='verif-replay-')
            try:
                _cache[key] = (build_driver(src, rp, wd), wd, None)
            except RuntimeError as e:
                shutil.rmtree(wd, ignore_errors=True)
                _cache[key] = (None, None, str(e))
        return _cache[key]


def run_driver(src, rp, args):
    """Returns dict(reproduced, rc, output)."""
    try:
        binp, _, err = cached_driver(src, rp)
        if binp is None:
            return {'reproduced': False, 'rc': None, 'output': err}
        env = dict(os.environ, ASAN_OPTIONS='detect_leaks=%d:abort_on_error=0' % (1 if getattr(rp, 'leaks', False) else 0), UBSAN_OPTIONS='print_stacktrace=0')
        try:
            p = subprocess.run([binp, rp.mode] + rp.extra + args, capture_output=True, text=True, timeout=120, env=env,
                               errors='replace')
            out = (p.stdout + p.stderr)[-6000:]
            rc = p.returncode
        except subprocess.TimeoutExpired:
            return {'reproduced': False, 'rc': None, 'output': 'replay driver timed out'}
        rep = rc == 1 or (rc not in (0, 1, 2) and ('AddressSanitizer' in out or 'runtime error' in out))
        return {'reproduced': rep, 'rc': rc, 'output': out}
    finally:
        pass


def attempt(ctx, g):
    """Called for a group with failed obligations that is not a known finding."""
    d = os.path.join(VERIF, 'replays', ctx.pid)
    os.makedirs(d, exist_ok=True)
    path = os.path.join(d, re.sub(r'[^A-Za-z0-9_.-]', '_', g.name) + ('_be' if g.big_endian else '') + '.json')
    failed = g.result.get('failed', [])
    rec = {
        'property': ctx.pid,
        'group': g.name,
        'function': g.function,
        'kind': g.kind,
        'big_endian_host_model': g.big_endian,
        'failed_obligations': ['%s/%s/%s: %s [%s:%s]' % (ctx.pid, g.name, o['name'], o['description'], o['file'], o['line'])
                               for o in failed],
        'verifier': {'engine': g.result.get('engine'), 'cmd': g.result.get('cbmc'),
                     'goto_instrument': g.result.get('goto_instrument'),
                     'trace_property': g.result.get('trace_property')},
        'counterexample': g.result.get('trace_inputs'),
        'src': ctx.src,
        'reproduced': False,
    }
    inputs = g.result.get('trace_inputs')
    if g.replay is not None and inputs:
        args = flatten(inputs)
        rec['driver'] = g.replay.driver
        rec['mode'] = g.replay.mode
        rec['extra'] = g.replay.extra
        rec['sources'] = g.replay.sources
        rec['args'] = args
        r = run_driver(ctx.src, g.replay, args)
        rec['reproduced'] = r['reproduced']
        rec['native_rc'] = r['rc']
        rec['native_output'] = r['output']
    else:
        rec['note'] = ('no native replay: ' + ('no replay driver registered for this group' if g.replay is None
                                               else 'the verifier produced no usable input assignment'))
    with open(path, 'w') as f:
        json.dump(rec, f, indent=1)
    g.result['replay'] = {'path': path, 'reproduced': rec['reproduced']}
    return {'path': path, 'reproduced': rec['reproduced']}


def run_replay_file(ctx, path):
    from .pipeline import Replay
    rec = json.load(open(path))
    if 'driver' not in rec:
        print('replay file carries no native input (obligation: %s)' % '; '.join(rec.get('failed_obligations', [])))
        print(json.dumps(rec.get('verifier'), indent=1))
        return 1
    rp = Replay(driver=rec['driver'], mode=rec['mode'], sources=rec.get('sources', []), extra=rec.get('extra', []))
    r = run_driver(ctx.src, rp, rec.get('args', []))
    print(r['output'])
    if r['reproduced']:
        print('REPRODUCED on %s: %s' % (ctx.src, '; '.join(rec.get('failed_obligations', []))))
        return 1
    print('not reproduced on %s (rc=%s)' % (ctx.src, r['rc']))
    return 0
