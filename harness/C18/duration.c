/* C18: format_duration.  The function text is x_format_duration.c (cut from src/Time.cc on every run). */
#include "contracts/C18_duration.h"
#include "x_format_duration.c"

int verif_exc;
unsigned g_ratio_calls; uint64_t g_ratio_num, g_ratio_den; double g_ratio_val;
uint64_t g_dur_lo, g_dur_hi;
c18_text g_c18_out;

void h_format_duration(void) {
  c18_text* ret = &g_c18_out;
  uint64_t in_usecs;
  int8_t in_precision;
  verif_exc = 0; g_ratio_calls = 0;
  g_dur_lo = DUR_LO; g_dur_hi = DUR_HI;
  format_duration(ret, in_usecs, in_precision);
  VERIF_REACH();
}

/* lemma about the IEEE-754 division c18_fdiv (stubs/C18_text.h): its contract is enforced on its body */
void h_fdiv(void) {
  uint64_t in_num, in_den;
  c18_fdiv(in_num, in_den);
  VERIF_REACH();
}

/* arithmetic lemma (spec/C18_arith.h): contract enforced on the empty body, for all 2^64 arguments */
void h_lemma_nested_div(void) {
  uint64_t in_u;
  c18_lemma_nested_div(in_u);
  VERIF_REACH();
}
void h_lemma_dhm(void) {
  uint64_t in_u;
  c18_lemma_dhm(in_u);
  VERIF_REACH();
}
void h_lemma_cong24(void) {
  uint64_t in_x, in_y;
  c18_lemma_cong24(in_x, in_y);
  VERIF_REACH();
}
