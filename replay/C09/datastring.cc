// C09 native replay: format_data_string / parse_data_string of the real library (links all of libphosg).
//   driver <mode> name=0xHEX[,0xHEX...] ...     exit 1 = postcondition violated on the real code, 0 = holds, 2 = usage
// modes
//   roundtrip   in_x=bytes in_mask=bytes in_len= in_has_mask= in_flags=    parse(format(x, mask)) == (x, mask classification)
//   sim_quoted  in_b= in_m= in_has_mask= in_me= in_next=                    the failing instance of the step lemma, embedded in a string
//   sim_hex     (same inputs)                                               hex form (flags = HEX_ONLY)
//   brackets                                                                "" and "a" round-trip
//   wide_char   in_c= in_be=                                                'c' gives the 16-bit code unit of the byte, zero-extended
//   hexdump     in_start= in_size= in_flags=                                hex dump decodes back (addresses, hex columns), no exception
//   overload                                                                std::string overload: logic_error iff the mask length differs
//   initial                                                                 numerals little-endian / mask enabled at the start
//   classify                                                                quoted form iff every byte is printable (all 1-byte strings + pairs)
//   parse_total in_text=bytes                                               parse under ASan, with and without mask (a crash is the failure)
//   selftest    in_seed=                                                    development aid: reference syntax vs real parser on random texts
//   step        g_c0.. g_c3, g_s_* (parser state flags), g_num ...          one parser step from a synthesised prefix
#include <signal.h>
#include <unistd.h>

#include <string>
#include <vector>

#include "Strings.hh"
#include "replay/common/args.hh"

using namespace std;
using namespace phosg;

static bool printable(uint8_t c) {
  return c == '\r' || c == '\n' || c == '\t' || (c >= 0x20 && c <= 0x7E);
}

static string hexs(const string& s) {
  string r;
  char b[4];
  for (unsigned char c : s) {
    snprintf(b, sizeof(b), "%02X ", c);
    r += b;
  }
  return r;
}

// returns 0 if parse(format(x, mask)) gives back x and the mask classification, else 1
// Reference parser: the documented syntax (the transition function of contracts/C09_step.h, executed natively). Numerals are
// scanned by libc exactly as in the contract's model (value abstract there, libc here).
static string ref_parse(const string& s, string* mask) {
  const char* t = s.c_str();
  string out;
  mask->clear();
  bool rc = false, rmc = false, rs = false, rus = false, high = true, be = false, me = true;
  uint8_t chr = 0;
  auto emit = [&](uint64_t v, size_t w) {
    for (size_t j = 0; j < w; j++) {
      out += (char)(uint8_t)(v >> (8 * (be ? w - 1 - j : j)));
      *mask += (char)(me ? 0xFF : 0x00);
    }
  };
  auto unesc = [](char ch) -> char { return ch == 'n' ? '\n' : ch == 'r' ? '\r' : ch == 't' ? '\t' : ch; };
  size_t i = 0;
  while (t[i]) {
    char c0 = t[i], c1 = t[i + 1];
    if (rc) {
      rc = c0 != '\n';
      i++;
    } else if (rmc) {
      if (c0 == '*' && c1 == '/') { rmc = false; i += 2; } else { i++; }
    } else if (rs || rus) {
      if (c0 == (rs ? '"' : '\'')) { rs = rus = false; i++; continue; }
      char v = c0;
      size_t adv = 1;
      if (c0 == '\\') {
        if (!c1) break;
        v = unesc(c1);
        adv = 2;
      }
      if (rs) { bool sbe = be; be = false; emit((uint8_t)v, 1); be = sbe; } else { emit((uint8_t)v, 2); }
      i += adv;
    } else if (c0 == '?') {
      me = !me; i++;
    } else if (c0 == '$') {
      be = !be; i++;
    } else if (c0 == '#') {
      size_t n = 1;
      while (n < 4 && t[i + n] == '#') n++;
      char* end;
      uint64_t v = strtoull(t + i + n, &end, 0);
      emit(v, n == 1 ? 1 : n == 2 ? 2 : n == 3 ? 4 : 8);
      i = end - t;
    } else if (c0 == '%') {
      char* end;
      if (c1 == '%') {
        double d = strtod(t + i + 2, &end);
        uint64_t bits; memcpy(&bits, &d, 8);
        emit(bits, 8);
      } else {
        float f = strtof(t + i + 1, &end);
        uint32_t bits; memcpy(&bits, &f, 4);
        emit(bits, 4);
      }
      i = end - t;
    } else {
      int hv = (c0 >= '0' && c0 <= '9') ? c0 - '0' : (c0 >= 'A' && c0 <= 'F') ? c0 - 'A' + 10 : (c0 >= 'a' && c0 <= 'f') ? c0 - 'a' + 10 : -1;
      if (hv >= 0) {
        if (high) { chr = hv << 4; } else { bool sbe = be; be = false; emit(chr | hv, 1); be = sbe; chr = 0; }
        high = !high;
      } else if (c0 == '"') { rs = true;
      } else if (c0 == '\'') { rus = true;
      } else if (c0 == '/' && c1 == '/') { rc = true;
      } else if (c0 == '/' && c1 == '*') { rmc = true;
      }
      i++;
    }
  }
  return out;
}

static int roundtrip(const string& x, const string* mask, uint64_t flags) {
  string text = format_data_string(x.data(), x.size(), mask ? mask->data() : nullptr, flags);
  string pmask;
  string back = parse_data_string(text, &pmask, 0);
  string back_nomask = parse_data_string(text, nullptr, 0);
  printf("x = [%s] mask = [%s] flags = %llu\n  text = %s\n  parsed = [%s] parsed mask = [%s]\n", hexs(x).c_str(),
      mask ? hexs(*mask).c_str() : "none", (unsigned long long)flags, text.c_str(), hexs(back).c_str(), hexs(pmask).c_str());
  RCHECK(back == x, "parse_data_string(format_data_string(x)) != x");
  RCHECK(back_nomask == x, "parse_data_string(format_data_string(x)) != x (no mask requested)");
  RCHECK(pmask.size() == x.size(), "parsed mask has %zu bytes for %zu data bytes", pmask.size(), x.size());
  for (size_t k = 0; k < x.size(); k++) {
    bool want = mask ? ((*mask)[k] != 0) : true;
    RCHECK(((uint8_t)pmask[k] == (want ? 0xFF : 0x00)), "mask classification of byte %zu differs", k);
  }
  return 0;
}

static int sim(const Args& a, uint64_t flags) {
  uint8_t b = a.u("in_b"), m = a.u("in_m"), next = a.u("in_next");
  bool has_mask = a.u("in_has_mask"), me = a.u("in_me", 1);
  // the byte in front puts the formatter/parser into mask state `me`; the bytes behind supply the look-ahead character
  vector<string> suffixes = {"", "n", "\"", "a", "\\"};
  if (printable(next) || flags) {
    suffixes.push_back(string(1, (char)next));
  }
  int rc = 0;
  for (const string& suf : suffixes) {
    string x = string("a") + string(1, (char)b) + suf;
    string mask;
    mask += (char)(me ? 0xFF : 0x00);
    mask += (char)m;
    mask += string(suf.size(), (char)(m ? 0xFF : 0x00));
    rc |= roundtrip(x, has_mask ? &mask : nullptr, flags);
    string y = string(1, (char)b) + suf;
    string ymask = mask.substr(1);
    rc |= roundtrip(y, has_mask ? &ymask : nullptr, flags);
  }
  return rc;
}

static void on_alarm(int) {
  static const char msg[] = "POSTCONDITION VIOLATED on the real code: parse_data_string does not terminate on this input (10 s)\n";
  (void)!write(1, msg, sizeof(msg) - 1);
  _exit(1);
}

int main(int argc, char** argv) {
  Args a(argc, argv);
  signal(SIGALRM, on_alarm);
  alarm(10);
  if (a.mode == "roundtrip") {
    size_t len = a.u("in_len");
    const auto& xs = a.arr("in_x");
    const auto& ms = a.arr("in_mask");
    string x, mask;
    for (size_t k = 0; k < len; k++) {
      x += (char)(k < xs.size() ? xs[k] : 0);
      mask += (char)(k < ms.size() ? ms[k] : 0);
    }
    return roundtrip(x, a.u("in_has_mask") ? &mask : nullptr, a.u("in_flags"));
  }
  if (a.mode == "sim_quoted") {
    return sim(a, 0);
  }
  if (a.mode == "sim_hex") {
    return sim(a, FormatDataFlags::HEX_ONLY);
  }
  if (a.mode == "brackets") {
    string m1("\xFF", 1), m0("\x00", 1);
    return roundtrip("", nullptr, 0) | roundtrip("a", nullptr, 0) | roundtrip("a", &m0, 0) | roundtrip("a", &m1, 0);
  }
  if (a.mode == "ascii_column") {
    // all 256 byte values (aligned and unaligned start) dumped with PRINT_ASCII, colour off: cell k of the ASCII column is the byte itself
    // iff it is printable ASCII (0x20..0x7E), a blank otherwise and outside the dumped range
    for (uint64_t start : {(uint64_t)0, (uint64_t)5}) {
      string d;
      for (int k = 0; k < 256; k++) d += (char)k;
      string text = format_data(d.data(), d.size(), start, nullptr, PrintDataFlags::PRINT_ASCII | PrintDataFlags::DISABLE_COLOR | PrintDataFlags::OFFSET_16_BITS);
      size_t p = 0;
      while (p < text.size()) {
        size_t e = text.find('\n', p);
        if (e == string::npos) e = text.size();
        string line = text.substr(p, e - p);
        p = e + 1;
        size_t bar = line.find(" |");
        RCHECK(bar != string::npos, "line without address separator: %s", line.c_str());
        uint64_t addr = strtoull(line.substr(0, bar).c_str(), nullptr, 16);
        size_t col0 = bar + 2 + 3 * 16 + 3;       // hex cells, then " | "
        RCHECK(line.size() >= col0 + 16, "line too short for an ASCII column: %s", line.c_str());
        for (int col = 0; col < 16; col++) {
          uint64_t at = addr + col;
          unsigned char got = (unsigned char)line[col0 + col];
          unsigned char want = ' ';
          if (at >= start && at - start < d.size()) { unsigned char b = (unsigned char)d[at - start]; want = (b >= 0x20 && b <= 0x7E) ? b : ' '; }
          RCHECK(got == want, "ASCII cell for address %llX holds 0x%02X, expected 0x%02X (byte %s)", (unsigned long long)at, got, want,
              (at >= start && at - start < d.size()) ? "in the dumped range" : "outside the dumped range");
        }
      }
    }
    printf("holds on these inputs\n");
    return 0;
  }
  if (a.mode == "hexdump") {
    // hex dump of `size` bytes at `start`: no exception, and the address + hex columns decode back to the bytes at their addresses
    uint64_t start = a.u("in_start"), size = a.u("in_size"), flags = a.u("in_flags");
    if (size > (1 << 16)) {
      printf("size %llu too large for a native replay\n", (unsigned long long)size);
      return 0;
    }
    flags &= (PrintDataFlags::OFFSET_8_BITS | PrintDataFlags::OFFSET_16_BITS | PrintDataFlags::OFFSET_32_BITS | PrintDataFlags::OFFSET_64_BITS |
        PrintDataFlags::PRINT_ASCII);
    string d;
    for (uint64_t k = 0; k < size; k++) {
      d += (char)((k * 37 + 11) & 0xFF);
    }
    string text;
    try {
      text = format_data(d.data(), d.size(), start, nullptr, flags | PrintDataFlags::DISABLE_COLOR);
    } catch (const exception& e) {
      printf("POSTCONDITION VIOLATED on the real code: format_data(start=0x%llX, size=%llu) threw: %s\n", (unsigned long long)start,
          (unsigned long long)size, e.what());
      return 1;
    }
    printf("%s", text.c_str());
    uint64_t decoded = 0, lines = 0;
    size_t p = 0;
    while (p < text.size()) {
      size_t e = text.find('\n', p);
      if (e == string::npos) e = text.size();
      string line = text.substr(p, e - p);
      p = e + 1;
      size_t bar = line.find(" |");
      RCHECK(bar != string::npos, "line without address separator: %s", line.c_str());
      uint64_t addr = strtoull(line.substr(0, bar).c_str(), nullptr, 16);
      lines++;
      for (int col = 0; col < 16; col++) {
        size_t q = bar + 2 + 3 * col;
        RCHECK(q + 3 <= line.size(), "short line: %s", line.c_str());
        string cell = line.substr(q, 3);
        if (cell == "   ") continue;
        uint64_t v = strtoull(cell.c_str(), nullptr, 16);
        uint64_t at = addr + col;
        RCHECK((uint64_t)(at - start) < size, "column %d of line %llX shows a byte outside the dumped range", col, (unsigned long long)addr);
        RCHECK((uint8_t)d[at - start] == v, "byte at address %llX decodes to %02llX, dumped %02X", (unsigned long long)at, (unsigned long long)v,
            (uint8_t)d[at - start]);
        decoded++;
      }
    }
    uint64_t first = start & ~0x0Full, last = start + (size - 1);
    RCHECK(size == 0 || lines == ((last - first) >> 4) + 1, "%llu lines for a range that intersects %llu lines", (unsigned long long)lines,
        (unsigned long long)(((last - first) >> 4) + 1));
    RCHECK(decoded == size, "%llu of %llu bytes decode back", (unsigned long long)decoded, (unsigned long long)size);
    // second pass, zero-line collapsing: a range with all-zero interior lines dumped with COLLAPSE_ZERO_LINES -- every line that IS printed
    // must still carry the right address (state carried from line to line must survive the skipped lines), skipped bytes must be zero
    {
      uint64_t csize = size < 96 ? 96 + (size & 0x0F) : (size > 4096 ? 4096 : size);
      string z(csize, '\0');
      for (uint64_t k = 0; k < 20 && k < csize; k++) z[k] = (char)(0x41 + k);                       // first line(s) non-zero
      for (uint64_t k = csize - 9; k < csize; k++) z[k] = (char)(0x61 + (k & 7));                   // last line non-zero
      if (csize > 70) z[csize / 2] = 0x7E;                                                          // one non-zero interior line
      string t2;
      try {
        t2 = format_data(z.data(), z.size(), start, nullptr, flags | PrintDataFlags::DISABLE_COLOR | PrintDataFlags::COLLAPSE_ZERO_LINES);
      } catch (const exception& e) {
        printf("POSTCONDITION VIOLATED on the real code: format_data(start=0x%llX, size=%llu, COLLAPSE_ZERO_LINES) threw: %s\n", (unsigned long long)start,
            (unsigned long long)csize, e.what());
        return 1;
      }
      vector<bool> seen(csize, false);
      size_t p2 = 0;
      while (p2 < t2.size()) {
        size_t e = t2.find('\n', p2);
        if (e == string::npos) e = t2.size();
        string line = t2.substr(p2, e - p2);
        p2 = e + 1;
        size_t bar = line.find(" |");
        RCHECK(bar != string::npos, "collapse: line without address separator: %s", line.c_str());
        uint64_t addr = strtoull(line.substr(0, bar).c_str(), nullptr, 16);
        for (int col = 0; col < 16; col++) {
          size_t q = bar + 2 + 3 * col;
          RCHECK(q + 3 <= line.size(), "collapse: short line: %s", line.c_str());
          string cell = line.substr(q, 3);
          if (cell == "   ") continue;
          uint64_t v = strtoull(cell.c_str(), nullptr, 16), at = addr + col;
          RCHECK((uint64_t)(at - start) < csize, "collapse: column %d of line %llX shows a byte outside the dumped range", col, (unsigned long long)addr);
          RCHECK((uint8_t)z[at - start] == v, "with COLLAPSE_ZERO_LINES the byte shown at address %llX is %02llX, the dumped byte there is %02X (line address wrong after a collapsed line?)",
              (unsigned long long)at, (unsigned long long)v, (uint8_t)z[at - start]);
          seen[at - start] = true;
        }
      }
      for (uint64_t k = 0; k < csize; k++) RCHECK(seen[k] || z[k] == 0, "collapse: non-zero byte at offset %llu is not shown", (unsigned long long)k);
    }
    return 0;
  }
  if (a.mode == "overload") {
    // std::string overload: logic_error iff a mask of another length is given
    for (size_t dl : {0, 1, 3}) {
      for (size_t ml : {0, 1, 2, 3}) {
        string d(dl, 'a'), m(ml, '\xFF');
        bool threw = false;
        try {
          string r = format_data_string(d, &m, 0);
          RCHECK(r == format_data_string(d.data(), d.size(), m.data(), 0), "overload result differs from the pointer form");
        } catch (const logic_error&) {
          threw = true;
        }
        RCHECK(threw == (dl != ml), "data %zu bytes, mask %zu bytes: %s", dl, ml, threw ? "threw" : "did not throw");
      }
      string d(dl, 'a');
      RCHECK(format_data_string(d, nullptr, 0) == format_data_string(d.data(), d.size(), nullptr, 0), "overload without mask");
    }
    return 0;
  }
  if (a.mode == "initial") {
    string m;
    string d = parse_data_string("##258 01", &m, 0);
    printf("##258 01 -> [%s] mask [%s]\n", hexs(d).c_str(), hexs(m).c_str());
    RCHECK(d == string("\x02\x01\x01", 3), "initial state: little-endian numerals, hex pairs");
    RCHECK(m == string("\xFF\xFF\xFF", 3), "initial state: mask enabled");
    return 0;
  }
  if (a.mode == "wide_char") {
    char c = (char)a.u("in_c");
    bool be = a.u("in_be");
    string text = string(be ? "$" : "") + "'" + string(1, c) + "'";
    string out = parse_data_string(text);
    printf("text = %s -> [%s]\n", text.c_str(), hexs(out).c_str());
    RCHECK(out.size() == 2, "one character inside '...' gives %zu bytes", out.size());
    RCHECK((uint8_t)out[be ? 1 : 0] == (uint8_t)c, "low byte of the code unit");
    RCHECK((uint8_t)out[be ? 0 : 1] == 0, "high byte of the code unit of character 0x%02X is 0x%02X, not zero (sign extension of char)",
        (uint8_t)c, (uint8_t)out[be ? 0 : 1]);
    return 0;
  }
  if (a.mode == "classify") {
    for (unsigned v = 0; v < 256; v++) {
      for (unsigned w : {0x41u, v}) {
        string x;
        x += (char)w;
        x += (char)v;
        string t = format_data_string(x.data(), x.size(), nullptr, 0);
        bool quoted = !t.empty() && t[0] == '"';
        bool want = printable(v) && printable(w);
        RCHECK(quoted == want, "bytes %02X %02X: quoted form %s, every byte printable %s (text %s)", w, v, quoted ? "chosen" : "not chosen",
            want ? "yes" : "no", t.c_str());
        string th = format_data_string(x.data(), x.size(), nullptr, FormatDataFlags::HEX_ONLY);
        RCHECK(th.empty() || th[0] != '"', "HEX_ONLY produced a quoted string");
      }
    }
    return 0;
  }
  if (a.mode == "parse_total") {
    string text;
    for (uint64_t v : a.arr("in_text")) {
      text += (char)v;
    }
    string mask;
    string d1 = parse_data_string(text, &mask, 0);
    string d2 = parse_data_string(text, nullptr, 0);
    RCHECK(d1 == d2, "result depends on whether a mask is requested");
    RCHECK(mask.size() == d1.size(), "mask size %zu != data size %zu", mask.size(), d1.size());
    RCHECK(d1.size() <= 4 * text.size(), "more than 4 output bytes per input character");
    for (unsigned char c : mask) {
      RCHECK(c == 0xFF || c == 0x00, "mask byte %02X", c);
    }
    return 0;
  }
  if (a.mode == "step") {
    // synthesise a prefix that brings the real parser into the recorded entry state, append the look-ahead characters of the
    // counterexample (and, when the text does not end inside them, a probe that makes the state after the step visible) and
    // compare the real parser with the reference transition function (the step contract, executed natively)
    bool rc = a.u("g_s_rc"), rmc = a.u("g_s_rmc"), rs = a.u("g_s_rs"), rus = a.u("g_s_rus");
    bool high = a.u("g_s_high", 1), be = a.u("g_s_be"), me = a.u("g_s_me", 1);
    uint8_t chr = a.u("g_s_chr");
    char c[4] = {(char)a.u("g_c0"), (char)a.u("g_c1"), (char)a.u("g_c2"), (char)a.u("g_c3")};
    string prefix;
    if (be) prefix += "$";
    if (!me) prefix += "?";
    static const char* digits = "0123456789ABCDEF";
    if (!high) prefix += digits[chr >> 4];
    if (rc) prefix += "//";
    if (rmc) prefix += "/*";
    if (rs) prefix += "\"";
    if (rus) prefix += "'";
    string tail;
    int k = 0;
    for (; k < 4 && c[k]; k++) {
      tail += c[k];
    }
    int rcode = 0;
    // the counterexample itself, then the same step followed by probes that make the state after the step visible
    // (other inputs than the counterexample, but any difference is a violation on the real code all the same)
    vector<string> texts = {prefix + tail};
    vector<string> tails = {tail};
    bool n = !rc && !rmc && !rs && !rus;
    if (n && (c[0] == '#' || c[0] == '%')) {
      size_t nm = 1;
      while (nm < 4 && c[nm] == c[0] && (c[0] == '#' || nm < 2)) nm++;
      tails.push_back(string(nm, c[0]) + (c[0] == '#' ? "258" : "0.1"));
    }
    for (const string& tl : tails) {
      for (const char* probe : {" \n*/ 4 ##258 'a' \"b\" 1", "7 \"\n*/ 4 ##258 'a' \"b\" 1", "x> 41"}) {
        texts.push_back(prefix + tl + probe);
      }
    }
    // witness texts of constructs whose step the counterexample prefix cannot set up: an empty line comment, comments back to back,
    // integer literals in the upper half of the 64-bit range and negative ones
    for (const char* w : {"//\n01 02 ?03?\n// t\n04", "// a\n//\n05", "/**/06//\n07", "####18446744073709551615 ####9223372036854775808", "####-1 ##-2 #-3", "####0xFFFFFFFFFFFFFFFE"})
      texts.push_back(w);
    for (const string& text : texts) {
      string m_real, m_ref, d_real;
      try {
        d_real = parse_data_string(text, &m_real, 0);
      } catch (const exception& e) {
        printf("text = [%s]\nPOSTCONDITION VIOLATED on the real code: parse_data_string threw %s with ALLOW_FILES off\n", hexs(text).c_str(), e.what());
        rcode = 1;
        continue;
      }
      string d_ref = ref_parse(text, &m_ref);
      if (d_real != d_ref || m_real != m_ref) {
        printf("text = [%s]\n  real [%s] mask [%s]\n  ref  [%s] mask [%s]\n", hexs(text).c_str(), hexs(d_real).c_str(), hexs(m_real).c_str(),
            hexs(d_ref).c_str(), hexs(m_ref).c_str());
        printf("POSTCONDITION VIOLATED on the real code: parse_data_string differs from the documented syntax on this text\n");
        rcode = 1;
      }
    }
    return rcode;
  }
  if (a.mode == "selftest") {
    // development aid (not part of the proof): the reference transition function against the real parser on random texts,
    // and random round trips
    uint64_t st = a.u("in_seed", 1) * 0x9E3779B97F4A7C15ull + 1;
    auto rnd = [&]() { st ^= st << 13; st ^= st >> 7; st ^= st << 17; return st; };
    static const char alpha[] = "\"'\\/*?$#%<> \n\r\tnrt0123456789abcdefABCDEFxXg.-+e\xE9\x80";
    alarm(0);
    for (int it = 0; it < 200000; it++) {
      string text;
      size_t n = rnd() % 24;
      for (size_t k = 0; k < n; k++) {
        text += (rnd() % 8) ? alpha[rnd() % (sizeof(alpha) - 1)] : (char)(1 + rnd() % 255);
      }
      string m_real, m_ref;
      string d_real = parse_data_string(text, &m_real, 0);
      string d_ref = ref_parse(text, &m_ref);
      if (d_real != d_ref || m_real != m_ref) {
        printf("text = [%s]\n  real [%s] mask [%s]\n  ref  [%s] mask [%s]\n", hexs(text).c_str(), hexs(d_real).c_str(), hexs(m_real).c_str(),
            hexs(d_ref).c_str(), hexs(m_ref).c_str());
        return 1;
      }
    }
    return 0;
  }
  fprintf(stderr, "unknown mode %s\n", a.mode.c_str());
  return 2;
}
