/* C06: the two row-loop blocks of the BMP loader (-DC06_DIM, -DC06_DEPTH=24|32 for BI_RGB). Function text: x_bmp_load.c. */
#include "contracts/C06_bmp.h"
#include "x_bmp_load.c"

int verif_exc;

#define GHOSTS                                           \
  uint8_t in_x, in_y, in_c; /* narrow: see ppm_load.c */  \
  size_t in_k;                                           \
  uint8_t in_v;                                          \
  uint8_t in_w, in_h;                                    \
  bool in_rev;                                           \
  g_x = in_x; g_y = in_y; g_c = in_c;                    \
  g_bk = in_k; g_bv = in_v

void h_bmp_rgb(void) {
  GHOSTS;
  g_fr = C06_FROW(g_y, in_h, in_rev);
  g_in = g_x * (C06_DEPTH / 8) + C06_RGB_CHAN_BYTE(g_c);
  g_oidx = (g_y * (size_t)in_w + g_x) * 3 + g_c;
  FILE* f;
  bool* has_alpha_out;
  void** new_data_unique;
  Image_load_bmp_rgb(f, C06_DEPTH, in_w, in_h, in_rev, has_alpha_out, new_data_unique);
  VERIF_REACH();
}

void h_bmp_bitfields(void) {
  GHOSTS;
  uint32_t in_mr, in_mg, in_mb, in_ma;
  g_fr = C06_FROW(g_y, in_h, in_rev);
  g_in = g_x * 4 + C06_MASK_BYTE(C06_SEL4(g_c, in_mr, in_mg, in_mb, in_ma));
  g_oidx = (g_y * (size_t)in_w + g_x) * 4 + g_c;
  FILE* f;
  bool* has_alpha_out;
  void** new_data_unique;
  Image_load_bmp_bitfields(f, 32, in_mr, in_mg, in_mb, in_ma, in_w, in_h, in_rev, has_alpha_out, new_data_unique);
  VERIF_REACH();
}
