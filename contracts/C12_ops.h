/* C12: local specifications of the public operations of LRUSet<int> / LRUMap<int,int> (unbounded part).
 *
 * Each contract says, for one alias configuration CFG of the neighbourhood of the item concerned (contracts/C12_list.h):
 *   - which links are rewired and how (the recency list step of the property statement, phrased locally),
 *   - the total_size arithmetic ("size() is the sum of the entries' sizes": every operation changes total_size by exactly
 *     the change of the sizes it stores),
 *   - which calls are made on the hash map (ghost counters of stubs/C12_umap.h: exactly one erase of exactly the node of
 *     the key, emplace only for an absent key ...), the boolean result (new vs existing key) and the exception,
 *   - and, through the assigns clause, that *nothing else* is written: no other item, no key pointer, no value.
 * The map is abstract: g_node is the node stored for the key the operation is called with (0 = absent), g_new the node a
 * successful emplace creates.  The container may hold any number of further items.
 */
#ifndef C12_OPS_H
#define C12_OPS_H
#include "contracts/C12_list.h"

#define IT (&g_node->second)
#define NW (&g_new->second)

/* the node stored for key k, with its key pointer set (every linked item has key == &node.first) */
#define NODE_REQ(k) \
  __CPROVER_requires(__CPROVER_is_fresh(g_node, sizeof(umap_node))) \
  __CPROVER_requires(g_node->first == (k) && g_key == (k) && g_node->second.key == &g_node->first)
#define ABSENT_REQ(k) __CPROVER_requires(g_node == 0 && g_key == (k))
#define NEW_REQ() __CPROVER_requires(__CPROVER_is_fresh(g_new, sizeof(umap_node)))

#if CFG_HAS_ITEM
#define KEY_REQ(self, k) NODE_REQ(k) NB_REQ(self, IT)
#elif CFG == CFG_EMPTY || CFG == CFG_NONEMPTY
#define KEY_REQ(self, k) ABSENT_REQ(k) NEW_REQ() PUSH_REQ(self)
#else
#define KEY_REQ(self, k) ABSENT_REQ(k) BIND_LIST(self)
#endif

#define RET __CPROVER_return_value
#define OLD(x) __CPROVER_old(x)

/* a size argument replaces the stored size: total changes by exactly the difference (arithmetic modulo 2^64) */
#define ENS_RESIZED(self, new_size) \
  __CPROVER_ensures(g_i->size == (new_size) && (self)->total_size == g_tot0 - g_sz0 + (new_size))
#define ASSIGNS_RESIZED(self) __CPROVER_assigns((self)->total_size, g_i->size)

/* existing key: stored size := size, item moved to the front, result false */
#define ENS_EXISTING_FRONT(self, size) \
  __CPROVER_ensures(!RET) ENS_RESIZED(self, size) ENS_FRONT(self)
/* new key: node g_new initialised (key pointer, size), pushed in front, result true */
#define ENS_NEW_PUSHED(self, size) \
  __CPROVER_ensures(RET && NW->key == &g_new->first && g_new->first == g_key && NW->size == (size)) \
  __CPROVER_ensures((self)->total_size == g_tot0 + (size)) ENS_PUSHED(self, NW)

/* ================================================================================================ constructors */
#ifdef C12_MAP
static inline void M(Item_ctor_copy)(Item* self, ValueT value, size_t size)
__CPROVER_requires(__CPROVER_is_fresh(self, sizeof(Item)))
__CPROVER_ensures(UMAP_ITEM_FRESH(self))
__CPROVER_assigns(__CPROVER_object_whole(self));
static inline void M(Item_ctor_move)(Item* self, ValueT value, size_t size)
__CPROVER_requires(__CPROVER_is_fresh(self, sizeof(Item)))
__CPROVER_ensures(UMAP_ITEM_FRESH(self))
__CPROVER_assigns(__CPROVER_object_whole(self));
#else
static inline void M(Item_ctor)(Item* self, size_t size)
__CPROVER_requires(__CPROVER_is_fresh(self, sizeof(Item)))
__CPROVER_ensures(UMAP_ITEM_FRESH(self))
__CPROVER_assigns(__CPROVER_object_whole(self));
#endif

void M(ctor)(LRU* self)
__CPROVER_requires(__CPROVER_is_fresh(self, sizeof(LRU)))
__CPROVER_ensures(self->head == 0 && self->tail == 0 && self->total_size == 0 && g_nctor == OLD(g_nctor) + 1)
__CPROVER_assigns(self->head, self->tail, self->total_size, g_nctor);

/* ================================================================================================ LRUMap helpers */
#ifdef C12_MAP
void M(touch_item)(LRU* self, Item* item)
REQ_SELF(self)
__CPROVER_requires(__CPROVER_is_fresh(item, sizeof(Item)))
NB_REQ(self, item)
ENS_FRONT(self)
__CPROVER_ensures(self->total_size == g_tot0 && item->size == g_sz0)
ASSIGNS_FRONT(self);

void M(change_item_size)(LRU* self, Item* item, size_t new_size)
REQ_SELF(self)
__CPROVER_requires(__CPROVER_is_fresh(item, sizeof(Item)))
__CPROVER_requires(g_i == item && g_sz0 == item->size && g_tot0 == self->total_size)
ENS_RESIZED(self, new_size)
ASSIGNS_RESIZED(self);
#endif

/* ================================================================================================ insertion */
#ifdef C12_SET
#if CFG_HAS_ITEM
bool M(after_emplace)(LRU* self, umap_emplace_ret emplace_ret, size_t size)
REQ_SELF(self) NODE_REQ(g_key) NB_REQ(self, IT)
__CPROVER_requires(emplace_ret.first == g_node && !emplace_ret.second)
ENS_EXISTING_FRONT(self, size)
ASSIGNS_FRONT(self) ASSIGNS_RESIZED(self);
#else
bool M(after_emplace)(LRU* self, umap_emplace_ret emplace_ret, size_t size)
REQ_SELF(self) NEW_REQ() PUSH_REQ(self)
__CPROVER_requires(emplace_ret.first == g_new && emplace_ret.second && g_new->first == g_key && UMAP_ITEM_FRESH(NW))
ENS_NEW_PUSHED(self, size)
ASSIGNS_PUSH(self, NW) __CPROVER_assigns(self->total_size, NW->key, NW->size);
#endif

#if CFG_HAS_ITEM
#define SET_INSERT_SPEC(key) REQ_SELF(self) KEY_REQ(self, key) \
  ENS_EXISTING_FRONT(self, size) __CPROVER_ensures(g_nemplace == OLD(g_nemplace)) \
  ASSIGNS_FRONT(self) ASSIGNS_RESIZED(self) __CPROVER_assigns(g_nemplace)
#else
#define SET_INSERT_SPEC(key) REQ_SELF(self) KEY_REQ(self, key) \
  ENS_NEW_PUSHED(self, size) __CPROVER_ensures(g_nemplace == OLD(g_nemplace) + 1) \
  ASSIGNS_PUSH(self, NW) __CPROVER_assigns(self->total_size, g_nemplace, __CPROVER_object_whole(g_new))
#endif
bool M(insert)(LRU* self, K key, size_t size) SET_INSERT_SPEC(key);
bool M(emplace)(LRU* self, K key, size_t size) SET_INSERT_SPEC(key);
#endif

#ifdef C12_MAP
/* insert: an existing key gets the new value and size and is touched (result false); emplace leaves an existing entry alone */
#if CFG_HAS_ITEM
#define MAP_INSERT_SPEC() REQ_SELF(self) KEY_REQ(self, k) \
  ENS_EXISTING_FRONT(self, size) __CPROVER_ensures(g_i->value == v) \
  ASSIGNS_FRONT(self) ASSIGNS_RESIZED(self) __CPROVER_assigns(g_i->value)
#define MAP_EMPLACE_SPEC() REQ_SELF(self) KEY_REQ(self, k) \
  __CPROVER_ensures(!RET && g_nemplace == OLD(g_nemplace)) \
  __CPROVER_assigns(g_nemplace)
#else
#define MAP_INSERT_SPEC() REQ_SELF(self) KEY_REQ(self, k) \
  ENS_NEW_PUSHED(self, size) __CPROVER_ensures(NW->value == v && g_nemplace == OLD(g_nemplace) + 1) \
  ASSIGNS_PUSH(self, NW) __CPROVER_assigns(self->total_size, g_nemplace, __CPROVER_object_whole(g_new))
#define MAP_EMPLACE_SPEC() MAP_INSERT_SPEC()
#endif
bool M(insert)(LRU* self, KeyT k, ValueT v, size_t size) MAP_INSERT_SPEC();
bool M(insert_const)(LRU* self, KeyT k, ValueT v, size_t size) MAP_INSERT_SPEC();
bool M(emplace)(LRU* self, KeyT k, ValueT v, size_t size) MAP_EMPLACE_SPEC();
#endif

/* ================================================================================================ erase / clear */
#if CFG_HAS_ITEM
bool M(erase)(LRU* self, K k)
REQ_SELF(self) KEY_REQ(self, k)
__CPROVER_ensures(RET && self->total_size == g_tot0 - g_sz0)
ENS_UNLINK_NB(self)
__CPROVER_ensures(g_nerase == OLD(g_nerase) + 1 && g_erased == g_node)
ASSIGNS_UNLINK_NB(self)
__CPROVER_assigns(self->total_size, g_nerase, g_erased, __CPROVER_object_whole(g_node));
#else
bool M(erase)(LRU* self, K k)
REQ_SELF(self) KEY_REQ(self, k)
__CPROVER_ensures(!RET)
__CPROVER_assigns();
#endif

void M(clear)(LRU* self)
REQ_SELF(self)
__CPROVER_ensures(self->head == 0 && self->tail == 0 && self->total_size == 0 && g_nclear == OLD(g_nclear) + 1)
__CPROVER_assigns(self->head, self->tail, self->total_size, g_nclear);

/* ================================================================================================ size changes, touch */
#ifdef C12_SET
#if CFG_HAS_ITEM
bool M(change_size)(LRU* self, K k, size_t new_size)       /* LRUSet::change_size does not refresh recency */
REQ_SELF(self) KEY_REQ(self, k)
__CPROVER_ensures(RET && verif_exc == 0) ENS_RESIZED(self, new_size)
ASSIGNS_RESIZED(self) __CPROVER_assigns(verif_exc);
#else
bool M(change_size)(LRU* self, K k, size_t new_size)
REQ_SELF(self) KEY_REQ(self, k)
__CPROVER_ensures(!RET && verif_exc == 0)
__CPROVER_assigns(verif_exc);
#endif
#endif

#ifdef C12_MAP
#if CFG_HAS_ITEM
bool M(change_size)(LRU* self, K k, size_t new_size, bool touch)    /* refreshes recency iff touch */
REQ_SELF(self) KEY_REQ(self, k)
__CPROVER_ensures(RET && verif_exc == 0) ENS_RESIZED(self, new_size)
__CPROVER_ensures(touch ==> (self->head == g_i && g_i->prev == 0 && g_i->next == (g_P == 0 ? g_N : g_H)))
__CPROVER_ensures((touch && g_P != 0) ==> (g_H->prev == g_i && g_P->next == g_N))
__CPROVER_ensures((touch && g_N != 0) ==> g_N->prev == (g_P == 0 ? g_i : g_P))
__CPROVER_ensures(touch ==> self->tail == ((g_N == 0 && g_P != 0) ? g_P : g_T))
__CPROVER_ensures(!touch ==> (self->head == g_H && self->tail == g_T && g_i->prev == g_P && g_i->next == g_N))
__CPROVER_ensures((!touch && g_P != 0) ==> g_P->next == g_i)
__CPROVER_ensures((!touch && g_N != 0) ==> g_N->prev == g_i)
__CPROVER_ensures((!touch && g_H != 0) ==> g_H->prev == 0)
ASSIGNS_FRONT(self) ASSIGNS_RESIZED(self) __CPROVER_assigns(verif_exc);
#else
bool M(change_size)(LRU* self, K k, size_t new_size, bool touch)
REQ_SELF(self) KEY_REQ(self, k)
__CPROVER_ensures(!RET && verif_exc == 0)
__CPROVER_assigns(verif_exc);
#endif
#endif

#if CFG_HAS_ITEM
bool M(touch)(LRU* self, K k, ssize_t new_size)             /* moves to the front; new_size >= 0 also replaces the size */
REQ_SELF(self) KEY_REQ(self, k)
__CPROVER_ensures(RET && verif_exc == 0) ENS_FRONT(self)
__CPROVER_ensures(g_i->size == (new_size >= 0 ? (size_t)new_size : g_sz0))
__CPROVER_ensures(self->total_size == (new_size >= 0 ? g_tot0 - g_sz0 + (size_t)new_size : g_tot0))
ASSIGNS_FRONT(self) ASSIGNS_RESIZED(self) __CPROVER_assigns(verif_exc);
#else
bool M(touch)(LRU* self, K k, ssize_t new_size)
REQ_SELF(self) KEY_REQ(self, k)
__CPROVER_ensures(!RET && verif_exc == 0)
__CPROVER_assigns(verif_exc);
#endif

/* ================================================================================================ lookups (LRUMap) */
#ifdef C12_MAP
#if CFG_HAS_ITEM
#define MAP_AT_SPEC() REQ_SELF(self) KEY_REQ(self, k) \
  __CPROVER_ensures(verif_exc == 0 && RET == &g_i->value && g_i->value == g_val0) \
  ENS_FRONT(self) __CPROVER_ensures(self->total_size == g_tot0 && g_i->size == g_sz0) \
  ASSIGNS_FRONT(self) __CPROVER_assigns(verif_exc)
#define MAP_ITEM_SIZE_SPEC() REQ_SELF(self) KEY_REQ(self, k) \
  __CPROVER_ensures(verif_exc == 0 && RET == g_sz0) __CPROVER_assigns(verif_exc)
#else
#define MAP_AT_SPEC() REQ_SELF(self) KEY_REQ(self, k) \
  __CPROVER_ensures(verif_exc == EXC_out_of_range && RET == 0) __CPROVER_assigns(verif_exc)
#define MAP_ITEM_SIZE_SPEC() REQ_SELF(self) KEY_REQ(self, k) \
  __CPROVER_ensures(verif_exc == EXC_out_of_range) __CPROVER_assigns(verif_exc)
#endif
ValueT* M(at)(LRU* self, KeyT k) MAP_AT_SPEC();
const ValueT* M(at_const)(LRU* self, KeyT k) MAP_AT_SPEC();
size_t M(item_size)(const LRU* self, KeyT k) MAP_ITEM_SIZE_SPEC();

bool M(empty)(const LRU* self)
__CPROVER_requires(__CPROVER_is_fresh(self, sizeof(LRU)))
__CPROVER_ensures(RET == (g_count == 0))
__CPROVER_assigns();
#endif

size_t M(size)(const LRU* self)
__CPROVER_requires(__CPROVER_is_fresh(self, sizeof(LRU)))
__CPROVER_ensures(RET == self->total_size)
__CPROVER_assigns();

size_t M(count)(const LRU* self)
__CPROVER_requires(__CPROVER_is_fresh(self, sizeof(LRU)))
__CPROVER_ensures(RET == g_count)
__CPROVER_assigns();

/* ================================================================================================ evict / peek */
#ifdef C12_MAP
#define EVICT_T EvictedObject
#define ENS_EVICTED() __CPROVER_ensures(verif_exc == 0 && RET.key == g_key && RET.value == g_val0 && RET.size == g_sz0)
#else
#define EVICT_T pair_K_size
#define ENS_EVICTED() __CPROVER_ensures(verif_exc == 0 && RET.first == g_key && RET.second == g_sz0)
#endif

#if CFG == CFG_ONLY || CFG == CFG_SECOND_TAIL || CFG == CFG_TAIL
/* the tail item is the least recently used one: it is returned, unlinked and its node (exactly one) erased */
EVICT_T M(evict_object)(LRU* self)
REQ_SELF(self) NODE_REQ(g_key) NB_REQ(self, IT)
ENS_EVICTED()
__CPROVER_ensures(self->total_size == g_tot0 - g_sz0)
ENS_UNLINK_NB(self)
__CPROVER_ensures(g_nerase == OLD(g_nerase) + 1 && g_erased == g_node)
ASSIGNS_UNLINK_NB(self)
__CPROVER_assigns(self->total_size, g_nerase, g_erased, verif_exc, __CPROVER_object_whole(g_node));
#else
EVICT_T M(evict_object)(LRU* self)
REQ_SELF(self)
__CPROVER_requires(self->head == 0 && self->tail == 0)
__CPROVER_ensures(verif_exc == EXC_out_of_range)
__CPROVER_assigns(verif_exc);
#endif

#ifdef C12_SET
#if CFG == CFG_PEEK
pair_K_size M(peek)(LRU* self)
REQ_SELF(self) NODE_REQ(g_key)
__CPROVER_requires(self->tail == IT && g_sz0 == IT->size)
ENS_EVICTED()
__CPROVER_assigns(verif_exc);
#else
pair_K_size M(peek)(LRU* self)
REQ_SELF(self)
__CPROVER_requires(self->head == 0 && self->tail == 0)
__CPROVER_ensures(verif_exc == EXC_out_of_range)
__CPROVER_assigns(verif_exc);
#endif
#endif

/* ================================================================================================ swap */
void M(swap)(LRU* self, LRU* other)
__CPROVER_requires(__CPROVER_is_fresh(self, sizeof(LRU)))
__CPROVER_requires(__CPROVER_is_fresh(other, sizeof(LRU)))
__CPROVER_ensures(self->head == OLD(other->head) && self->tail == OLD(other->tail) && self->total_size == OLD(other->total_size))
__CPROVER_ensures(other->head == OLD(self->head) && other->tail == OLD(self->tail) && other->total_size == OLD(self->total_size))
__CPROVER_ensures(g_nswap == OLD(g_nswap) + 1)
__CPROVER_ensures((g_swap_a == &self->items && g_swap_b == &other->items) || (g_swap_a == &other->items && g_swap_b == &self->items))
__CPROVER_assigns(self->head, self->tail, self->total_size, other->head, other->tail, other->total_size, g_nswap, g_swap_a, g_swap_b);

#endif
