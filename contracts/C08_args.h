/* C08 side-car contract: split_args (src/Strings.cc) -- shell-style argument splitting, checked in LOCK-STEP against a reference
 * automaton written from the plain definition:
 *   state: open quote q (0, ' or "), in_space (between arguments);  reading character c at z (c2 = the character after it):
 *     q != 0 and c == q            -> the quote closes, nothing is written;
 *     q == 0 and c is ' or "       -> the quote opens, nothing is written;
 *     c == '\\' (otherwise)        -> the next character c2 is written literally (two characters consumed); no next character: error
 *                                     "incomplete escape sequence";
 *     otherwise                    -> c is written (literally inside quotes);
 *   writing ch: a non-literal blank (space / tab, "C" locale) ends the current argument (in_space := true); any other character -- the
 *   NUL byte included -- is appended to the current argument, which is started first when in_space (in_space := false);
 *   at the end an open quote is the error "unterminated quoted string".  Both errors are runtime_error.
 * An argument exists from its first written character (an empty pair of quotes alone produces no argument: documented choice of the
 * reference; the statement does not fix it).
 * The result vector is abstracted to the sequence of operations on it (new argument / append character), recorded by the stubs and
 * compared with the reference step after every iteration (c8_args_check is called from the loop increment). */
#ifndef C08_ARGS_H
#define C08_ARGS_H
#include "contracts/C08_split.h"

typedef struct { size_t count; size_t cur_len; } vargs;
extern size_t g_nnew, g_npush, g_z0; extern char g_pushval, g_c, g_c2, g_q0, g_quote; extern bool g_sp0, g_havenext, g_xerr;
static inline void c8_args_new(vargs* r) { __CPROVER_assume(r->count < VSTR_MAXCAP); r->count++; r->cur_len = 0; g_nnew++; }
static inline void c8_args_push(vargs* r, char c)
{
  __CPROVER_assert(r->count > 0, "vector::back() on an empty vector is undefined");
  __CPROVER_assume(r->cur_len < VSTR_MAXCAP); r->cur_len++; g_npush++; g_pushval = c;
}

#define ARG_CLOSES(c, q) ((q) != 0 && (c) == (q))
#define ARG_OPENS(c, q) ((q) == 0 && ((c) == '"' || (c) == '\''))
#define ARG_ESCAPES(c, q) (!ARG_CLOSES(c, q) && (c) == '\\')
#define ARG_EMITS(c, q) (!ARG_CLOSES(c, q) && !ARG_OPENS(c, q))
#define ARG_CH(c, c2, q) (ARG_ESCAPES(c, q) ? (c2) : (c))
#define ARG_LITERAL(c, q) ((q) != 0 || ARG_ESCAPES(c, q))
#define ARG_IS_SPACE(c, c2, q) (ARG_EMITS(c, q) && !ARG_LITERAL(c, q) && (ARG_CH(c, c2, q) == ' ' || ARG_CH(c, c2, q) == '\t'))
#define ARG_QUOTE_NEXT(c, q) (ARG_CLOSES(c, q) ? 0 : ARG_OPENS(c, q) ? (c) : (q))

#define ARGS_SNAPSHOT(s, z, q, sp) \
  g_z0 = (z); g_c = (s)->data[z]; g_havenext = (z) + 1 < (s)->size; g_c2 = g_havenext ? (s)->data[(z) + 1] : 0; g_q0 = (q); g_sp0 = (sp) ? 1 : 0; \
  g_nnew = 0; g_npush = 0; g_xerr = ARG_ESCAPES(g_c, g_q0) && !g_havenext;
static inline void c8_args_check(char quote, bool in_space, size_t z)
{
  bool verif_emit = ARG_EMITS(g_c, g_q0), verif_space = ARG_IS_SPACE(g_c, g_c2, g_q0);
  bool verif_app = verif_emit && !verif_space;
  __CPROVER_assert(!g_xerr, "lock-step: a backslash with nothing after it is the error 'incomplete escape sequence'");
  __CPROVER_assert(z == g_z0 + (ARG_ESCAPES(g_c, g_q0) ? 1 : 0), "lock-step: one character consumed, two for an escape");
  __CPROVER_assert(quote == ARG_QUOTE_NEXT(g_c, g_q0), "lock-step: quote state");
  __CPROVER_assert((in_space ? 1 : 0) == ((verif_emit ? verif_space : g_sp0) ? 1 : 0), "lock-step: between-arguments state");   /* a havocked _Bool may hold any byte */
  __CPROVER_assert(g_nnew == ((verif_app && g_sp0) ? 1 : 0), "lock-step: a new argument starts exactly when a character is written while between arguments");
  __CPROVER_assert(g_npush == (verif_app ? 1 : 0), "lock-step: every written character that is not a separating blank is appended (NUL included)");
  __CPROVER_assert(verif_app ==> g_pushval == ARG_CH(g_c, g_c2, g_q0), "lock-step: the appended character is c, or the escaped character after a backslash");
  g_quote = quote;
}

void split_args(vargs* ret, const vstr* s)
__CPROVER_requires(__CPROVER_is_fresh(ret, sizeof(vargs))) __CPROVER_requires(ret->count == 0 && ret->cur_len == 0)
SRC_REQ(s)
__CPROVER_requires(verif_exc == 0)
__CPROVER_ensures(verif_exc == 0 || verif_exc == EXC_runtime_error)
__CPROVER_ensures((verif_exc != 0) == (g_xerr || g_quote != 0))     /* throws iff incomplete escape or the reference's quote state is open at the end */
__CPROVER_assigns(verif_exc, ret->count, ret->cur_len, g_nnew, g_npush, g_z0, g_pushval, g_c, g_c2, g_q0, g_quote, g_sp0, g_havenext, g_xerr);
#endif
