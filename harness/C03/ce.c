/* C03: one instantiation of converted_endian per compilation (-DCE=be_uint32_t -DCLS=big_endian -DExposedT=.. ...).
 * All function text comes from the x_*.c / x_*.inc files extracted on this run. */
#include "contracts/C03_leaf.h"
#include "x_Encoding_leaf.c"
#include "contracts/C03_spec.h"
#include "x_bswap_spec.c"
#include "x_platform.h"      /* the real host-order selection of Platform.hh -> PHOSG_LITTLE_ENDIAN / PHOSG_BIG_ENDIAN */
#include "x_ce_map.h"        /* which base class / policy struct each wrapper class uses, read from Encoding.hh */

#define CAT_(a, b) a##b
#define CAT(a, b) CAT_(a, b)
#define M(n) CAT(CE, _##n)
#define BSWAP_SPEC_(A, R) bswap__##A##__##R
#define BSWAP_SPEC(A, R) BSWAP_SPEC_(A, R)

typedef struct __attribute__((packed)) { StoredT value; } CE;   /* layout checked against the class text by props/C03.py */

#define BASE CAT(BASE_, CLS)
/* OnStoreSt::fn : ExposedT -> StoredT */
#define ArgT ExposedT
#define ResultT StoredT
#define ST_FN M(onstore)
#include CAT(STORE_INC_, BASE)
#undef ArgT
#undef ResultT
#undef ST_FN
/* OnLoadSt::fn : StoredT -> ExposedT */
#define ArgT StoredT
#define ResultT ExposedT
#define ST_FN M(onload)
#include CAT(LOAD_INC_, BASE)
#undef ArgT
#undef ResultT
#undef ST_FN

StoredT g_self_raw;   /* ghost: raw stored representation on entry (only so that the counterexample names it) */
#define IN_RAW StoredT in_raw; g_self_raw = in_raw
#include "contracts/C03_ce.h"
#include "x_ce_members.inc"

void h_layout(void) {
  __CPROVER_assert(sizeof(CE) == sizeof(ExposedT), "wrapper occupies exactly sizeof(T) bytes");
  __CPROVER_assert(_Alignof(CE) == 1, "wrapper is packed (alignment 1)");
  VERIF_REACH();
}
#define HV(name) void h_##name(void) { CE* w; IN_RAW; ExposedT in_v; M(name)(w, in_v); VERIF_REACH(); }
#define H0(name) void h_##name(void) { CE* w; IN_RAW; M(name)(w); VERIF_REACH(); }
HV(ctor) HV(store) HV(assign)
H0(conv) H0(load) H0(load_raw) H0(preinc) H0(predec) H0(postinc) H0(postdec)
void h_store_raw(void) { CE* w; IN_RAW; StoredT in_v; M(store_raw)(w, in_v); VERIF_REACH(); }
#define HD(name) void h_##name(void) { CE* w; IN_RAW; R in_d; M(name)(w, in_d); VERIF_REACH(); }
HD(add_assign) HD(sub_assign) HD(mul_assign) HD(div_assign)
#if !ISFLOAT
HD(mod_assign) HD(and_assign) HD(or_assign) HD(xor_assign) HD(shl_assign) HD(shr_assign)
#endif

/* round trip: load(store(v)) is bit-identical to v -- lemma over the two contracts */
void l_roundtrip(void) {
  CE w; ExposedT in_v; IN_RAW;
  w.value = in_raw;
  M(store)(&w, in_v);
  g_self_raw = w.value;
  ExposedT r = M(load)(&w);
  __CPROVER_assert(BITS(r) == BITS(in_v), "load(store(v)) is bit-identical to v");
  VERIF_REACH();
}
