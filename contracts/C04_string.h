/* C04: contract of JSON::escape_string (loop contract + function contract) and the ghost vocabulary of the string lemmas.
 *
 * escape_string(s, mode) appends to `ret` (the local result string of the C++ function, an out-parameter here; g_base = its size
 * on entry) one group per character of s, in order and contiguously:  POS(0) = g_base, the group of s[k] occupies
 * [POS(k), POS(k+1)), POS(k+1) = POS(k) + C04_ESC_LEN(s[k], mode), its bytes are C04_ESC_BYTE(s[k], mode, 0..), POS(n) = final size.
 * Stated for one symbolic index g_ek (ghost index idiom): g_p0 = POS(g_ek), g_p1 = POS(g_ek + 1), both recorded by ghost
 * statements (g_p0 at the start of iteration g_ek, g_p1 at the start of iteration g_ek + 1 resp. behind the loop). */
#ifndef C04_STRING_H
#define C04_STRING_H
#include "stubs/C04_json.h"
#include "spec/C04_escape.h"

extern size_t g_ek, g_p0, g_p1, g_base;
extern char g_ech;
extern int g_c04_dummy;

#ifdef VERIF_SMALL
#define C04_SMAX 8
#else
#define C04_SMAX 0x0FFFFFFFFFFFull
#endif

/* ghost statements (they assign ghosts only) */
#define C04_ESCAPE_GHOST do { if (verif_i == g_ek) { g_p0 = ret->size; g_ech = ch; } if (verif_i == g_ek + 1) { g_p1 = ret->size; } } while (0)
#define C04_ESCAPE_END do { if (vstr_size(s) == g_ek + 1) { g_p1 = ret->size; } } while (0)
#define C04_ESCAPE_GHOSTS g_p0, g_p1, g_ech

#define C04_GROUP_AT(ret, p, b, mode) \
  ((ret)->data[p] == C04_ESC_BYTE(b, mode, 0) && \
   (C04_ESC_LEN(b, mode) < 2 || (ret)->data[(p) + 1] == C04_ESC_BYTE(b, mode, 1)) && \
   (C04_ESC_LEN(b, mode) < 4 || ((ret)->data[(p) + 2] == C04_ESC_BYTE(b, mode, 2) && (ret)->data[(p) + 3] == C04_ESC_BYTE(b, mode, 3))) && \
   (C04_ESC_LEN(b, mode) < 6 || ((ret)->data[(p) + 4] == C04_ESC_BYTE(b, mode, 4) && (ret)->data[(p) + 5] == C04_ESC_BYTE(b, mode, 5))))

#define C04_ESCAPE_LOOP_INV(ret, s, i) \
  ((i) <= (s)->size && g_base + (i) <= (ret)->size && (ret)->size <= g_base + 6 * (i) && \
   (g_ek < (i) ==> (g_ech == (s)->data[g_ek] && g_base + g_ek <= g_p0 && g_p0 + C04_ESC_LEN(g_ech, mode) <= (ret)->size && C04_GROUP_AT(ret, g_p0, g_ech, mode))) && \
   (g_ek + 1 == (i) ==> (ret)->size == g_p0 + C04_ESC_LEN(g_ech, mode)) && \
   (g_ek + 1 < (i) ==> g_p1 == g_p0 + C04_ESC_LEN(g_ech, mode)))

void JSON_escape_string(vstr* ret, const vstr* s, int mode)
__CPROVER_requires(__CPROVER_is_fresh(s, sizeof(vstr)))
__CPROVER_requires(s->size <= C04_SMAX && s->size <= s->cap && s->cap <= VSTR_MAXCAP)
__CPROVER_requires(__CPROVER_is_fresh(s->data, s->cap))
__CPROVER_requires(__CPROVER_is_fresh(ret, sizeof(vstr)))
__CPROVER_requires(ret->cap <= VSTR_MAXCAP && ret->size <= 8 && ret->size == g_base && 6 * s->size <= ret->cap - ret->size)
__CPROVER_requires(__CPROVER_is_fresh(ret->data, ret->cap))
__CPROVER_requires(mode >= 0 && mode <= 2)
__CPROVER_ensures(g_base + s->size <= ret->size && ret->size <= g_base + 6 * s->size)
__CPROVER_ensures(g_ek < s->size ==> (g_ech == s->data[g_ek] && g_base + g_ek <= g_p0 && g_p1 == g_p0 + C04_ESC_LEN(g_ech, mode) && g_p1 <= ret->size))
__CPROVER_ensures(g_ek < s->size ==> C04_GROUP_AT(ret, g_p0, g_ech, mode))
__CPROVER_ensures((g_ek == 0 && s->size > 0) ==> g_p0 == g_base)
__CPROVER_ensures(g_ek + 1 == s->size ==> g_p1 == ret->size)
__CPROVER_ensures(s->size == 0 ==> ret->size == g_base)
__CPROVER_assigns(ret->size, __CPROVER_object_whole(ret->data), g_p0, g_p1, g_ech);

/* the string loop of JSON::parse is not put under a loop contract (see props/C04.py: induction step = l_string_step) */
#define C04_STREAM_GHOSTS g_c04_dummy
#define C04_STRING_LOOP_INV(r, data) (1 == 1)
#define C04_STRING_LOOP_VARIANT(r, data) ((r)->length - (r)->offset)
#endif
