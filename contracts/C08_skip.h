/* C08 side-car contracts: skip_whitespace / skip_non_whitespace / skip_word (std::string and C-string overloads), toupper / tolower.
 * Plain definitions: the result is the first index >= offset (clamped to the end of the text) at which the scanned class stops;
 * every index in between is in the class (ghost index g_sk).  The overloads are renamed *_str / *_cstr. */
#ifndef C08_SKIP_H
#define C08_SKIP_H
#include "contracts/C08_split.h"
extern size_t g_off0, g_mid, g_len;
#define BETWEEN(k, a, b) ((k) >= (a) && (k) < (b))

size_t skip_whitespace_str(const vstr* s, size_t offset)
SRC_REQ(s)
__CPROVER_ensures(__CPROVER_return_value >= offset && (offset <= s->size ==> __CPROVER_return_value <= s->size) && (offset >= s->size ==> __CPROVER_return_value == offset))
__CPROVER_ensures(__CPROVER_return_value < s->size ==> !C8_WS(s->data[__CPROVER_return_value]))
__CPROVER_ensures(BETWEEN(g_sk, offset, __CPROVER_return_value) ==> C8_WS(s->data[g_sk]))
__CPROVER_assigns(g_off0);

size_t skip_non_whitespace_str(const vstr* s, size_t offset)
SRC_REQ(s)
__CPROVER_ensures(__CPROVER_return_value >= offset && (offset <= s->size ==> __CPROVER_return_value <= s->size) && (offset >= s->size ==> __CPROVER_return_value == offset))
__CPROVER_ensures(__CPROVER_return_value < s->size ==> C8_WS(s->data[__CPROVER_return_value]))
__CPROVER_ensures(BETWEEN(g_sk, offset, __CPROVER_return_value) ==> !C8_WS(s->data[g_sk]))
__CPROVER_assigns(g_off0);

/* skip_word: the rest of the current word [offset, g_mid), then the blanks after it [g_mid, result) */
size_t skip_word_str(const vstr* s, size_t offset)
SRC_REQ(s)
__CPROVER_ensures(g_mid >= offset && __CPROVER_return_value >= g_mid && (offset <= s->size ==> __CPROVER_return_value <= s->size) && (offset >= s->size ==> __CPROVER_return_value == offset))
__CPROVER_ensures(BETWEEN(g_sk, offset, g_mid) ==> !C8_WS(s->data[g_sk]))
__CPROVER_ensures(BETWEEN(g_sk, g_mid, __CPROVER_return_value) ==> C8_WS(s->data[g_sk]))
__CPROVER_ensures((g_mid < s->size && g_mid == __CPROVER_return_value) ==> 0)   /* a word that is not at the end is followed by at least one blank */
__CPROVER_ensures(__CPROVER_return_value < s->size ==> !C8_WS(s->data[__CPROVER_return_value]))
__CPROVER_assigns(g_off0, g_mid);

/* C strings: the text ends at its first NUL; there is a NUL at g_len (so the scan is bounded) and offset <= strlen(s), i.e. no NUL
 * before offset (stated at the ghost index and at index 0).  NUL is not whitespace and ends a word. */
#define CTEXT_REQ(s) __CPROVER_requires(g_len < VSTR_MAXCAP) __CPROVER_requires(__CPROVER_is_fresh(s, g_len + 1)) \
                     __CPROVER_requires(s[g_len] == 0 && offset <= g_len && (g_sk < offset ==> s[g_sk] != 0) && (offset > 0 ==> s[0] != 0))
size_t skip_whitespace_cstr(const char* s, size_t offset)
CTEXT_REQ(s)
__CPROVER_ensures(__CPROVER_return_value >= offset && __CPROVER_return_value <= g_len)
__CPROVER_ensures(!C8_WS(s[__CPROVER_return_value]))
__CPROVER_ensures(BETWEEN(g_sk, offset, __CPROVER_return_value) ==> C8_WS(s[g_sk]))
__CPROVER_assigns(g_off0);

size_t skip_non_whitespace_cstr(const char* s, size_t offset)
CTEXT_REQ(s)
__CPROVER_ensures(__CPROVER_return_value >= offset && __CPROVER_return_value <= g_len)
__CPROVER_ensures(s[__CPROVER_return_value] == 0 || C8_WS(s[__CPROVER_return_value]))
__CPROVER_ensures(BETWEEN(g_sk, offset, __CPROVER_return_value) ==> (s[g_sk] != 0 && !C8_WS(s[g_sk])))
__CPROVER_ensures(__CPROVER_return_value > offset ==> (s[offset] != 0 && !C8_WS(s[offset])))
__CPROVER_assigns(g_off0);

size_t skip_word_cstr(const char* s, size_t offset)
CTEXT_REQ(s)
__CPROVER_ensures(g_mid >= offset && __CPROVER_return_value >= g_mid && __CPROVER_return_value <= g_len)
__CPROVER_ensures(BETWEEN(g_sk, offset, g_mid) ==> (s[g_sk] != 0 && !C8_WS(s[g_sk])))
__CPROVER_ensures(BETWEEN(g_sk, g_mid, __CPROVER_return_value) ==> C8_WS(s[g_sk]))
__CPROVER_ensures(g_mid == __CPROVER_return_value ==> s[g_mid] == 0)
__CPROVER_ensures(!C8_WS(s[__CPROVER_return_value]))
__CPROVER_assigns(g_off0, g_mid);

/* toupper / tolower: same length, every byte mapped by the "C"-locale table (only a-z / A-Z change) */
#define C8_UPPER(c) (((c) >= 'a' && (c) <= 'z') ? (char)((c) - 32) : (c))
#define C8_LOWER(c) (((c) >= 'A' && (c) <= 'Z') ? (char)((c) + 32) : (c))
void toupper_str(vout* ret, const vstr* s)
OUT_REQ(ret) SRC_REQ(s)
__CPROVER_ensures(ret->size == s->size)
__CPROVER_ensures((g_rk == 0 && g_obase < s->size) ==> g_oval == C8_UPPER(s->data[g_obase]))
__CPROVER_assigns(ret->size, g_oval);
void tolower_str(vout* ret, const vstr* s)
OUT_REQ(ret) SRC_REQ(s)
__CPROVER_ensures(ret->size == s->size)
__CPROVER_ensures((g_rk == 0 && g_obase < s->size) ==> g_oval == C8_LOWER(s->data[g_obase]))
__CPROVER_assigns(ret->size, g_oval);
#endif
