/* C04: trusted per-format models of the formatting calls in JSON::serialize / JSON::escape_string (DESIGN.md 3.2).  TRUSTED BASE.
 * The format string of every string_printf call is read from the source text on every run and decomposed by props/C04.py
 * (literal prefix, zero flag, width, length modifier, conversion); a format outside "<prefix>%0<W>[hh|h]X", "<prefix>%" PRIX64
 * and "%g" is an extraction break.  The models below are written from ISO C 7.21.6.1 (fprintf) and [string.conversions]. */
#ifndef STUBS_C04_PRINTF_H
#define STUBS_C04_PRINTF_H
#include "stubs/C04_json.h"

enum { C04_LEN_none = 0, C04_LEN_hh = 1, C04_LEN_h = 2 };
#define C04_HEXCH(d, upper) ((char)((d) < 10 ? '0' + (d) : ((upper) ? 'A' : 'a') + ((d) - 10)))

/* ret += string_printf(PREFIX "%0<width><len>X", arg) with a `char` argument (the literal PREFIX is appended by the caller):
 * the argument undergoes the default argument promotions (char -> int, sign-extending where char is signed: x86-64);
 * 7.21.6.1p7: hh / h -- the value is converted to unsigned char / unsigned short before printing, otherwise it is read as unsigned int;
 * p8 (X): unsigned hexadecimal with the letters ABCDEF; precision 1: at least one digit; p6 (0 flag) + field width: leading zeros
 * pad to the field width; a longer value is never truncated.
 * The conditions are written so that they fold to constants for a literal width (for hh the value has at most two digits). */
static inline void C04_printf_hex(vstr* ret, unsigned width, int len, bool upper, char arg)
{
  unsigned v = (unsigned)(int)arg;
  __CPROVER_assert(width <= 8, "C04_printf_hex: field width larger than the model supports");
  if (len == C04_LEN_hh) {
    v = (unsigned char)v;
    if (width > 7) vstr_push_back(ret, '0');
    if (width > 6) vstr_push_back(ret, '0');
    if (width > 5) vstr_push_back(ret, '0');
    if (width > 4) vstr_push_back(ret, '0');
    if (width > 3) vstr_push_back(ret, '0');
    if (width > 2) vstr_push_back(ret, '0');
    if (width > 1 || v >= 0x10u) vstr_push_back(ret, C04_HEXCH((v >> 4) & 15, upper));
    vstr_push_back(ret, C04_HEXCH(v & 15, upper));
    return;
  }
  if (len == C04_LEN_h) v = (unsigned short)v;
  unsigned nd = v >= 0x10000000u ? 8 : v >= 0x1000000u ? 7 : v >= 0x100000u ? 6 : v >= 0x10000u ? 5 : v >= 0x1000u ? 4 : v >= 0x100u ? 3 : v >= 0x10u ? 2 : 1;
  unsigned total = nd > width ? nd : width;
  if (total > 7) vstr_push_back(ret, C04_HEXCH((v >> 28) & 15, upper));
  if (total > 6) vstr_push_back(ret, C04_HEXCH((v >> 24) & 15, upper));
  if (total > 5) vstr_push_back(ret, C04_HEXCH((v >> 20) & 15, upper));
  if (total > 4) vstr_push_back(ret, C04_HEXCH((v >> 16) & 15, upper));
  if (total > 3) vstr_push_back(ret, C04_HEXCH((v >> 12) & 15, upper));
  if (total > 2) vstr_push_back(ret, C04_HEXCH((v >> 8) & 15, upper));
  if (total > 1) vstr_push_back(ret, C04_HEXCH((v >> 4) & 15, upper));
  vstr_push_back(ret, C04_HEXCH(v & 15, upper));
}

/* return string_printf(PREFIX "%" PRIX64, arg): the canonical uppercase hexadecimal numeral of the 64-bit argument read as
 * uint64_t (an int64_t argument is passed through the ellipsis unchanged and re-read as unsigned long: same bits), no leading
 * zeros, at least one digit.  Ghosts: g_dstart = index of the first digit, g_ndigits = number of digits, g_mag = the value. */
extern size_t g_dstart;
extern unsigned g_ndigits;
extern uint64_t g_mag;
static inline void C04_printf_hex64(vstr* ret, const char* prefix, uint64_t v)
{
  ret->size = 0;
  C04_append_lit(ret, prefix);
  unsigned nd = 1;
  for (unsigned k = 1; k < 16; k++) {
    if ((v >> (4 * k)) != 0) nd = k + 1;
  }
  g_dstart = ret->size; g_ndigits = nd; g_mag = v;
  for (unsigned k = 0; k < 16; k++) {
    if (k < nd) vstr_push_back(ret, C04_HEXCH((unsigned)((v >> (4 * (nd - 1 - k))) & 15), 1));
  }
}

/* return std::to_string(int64_t): [string.conversions] = sprintf("%ld"): the canonical decimal numeral: '-' iff v < 0, then the
 * digits d_0 .. d_{n-1} (n <= 19) with d_0 != 0 unless n == 1 and sum d_k 10^(n-1-k) == |v|.  Modelled as "any digit string whose
 * value (Horner fold, exact in 64 bits for n <= 19) is |v|": by existence and uniqueness of the decimal representation that is
 * exactly the canonical numeral.  The digits are left to the solver, so no division is needed.
 * Ghosts: g_dstart / g_ndigits as above, g_pref[k] = value of the first k digits (g_pref[n] == |v|).  `g_pref[k] <= |v|` is
 * implied by the final equation (a prefix of a numeral denotes at most the whole) and is stated to help the solver. */
unsigned nondet_C04_unsigned(void);
extern uint64_t g_pref[20];
static inline void C04_to_string(vstr* ret, int64_t v)
{
  uint64_t mag = v < 0 ? (uint64_t)0 - (uint64_t)v : (uint64_t)v;
  unsigned n = nondet_C04_unsigned();
  __CPROVER_assume(n >= 1 && n <= 19);
  ret->size = 0;
  if (v < 0) vstr_push_back(ret, '-');
  g_dstart = ret->size; g_ndigits = n; g_mag = mag;
  g_pref[0] = 0;
  for (unsigned k = 0; k < 19; k++) {
    if (k < n) {
      unsigned d = nondet_C04_unsigned();
      __CPROVER_assume(d <= 9);
      __CPROVER_assume(d != 0 || k != 0 || n == 1);
      g_pref[k + 1] = g_pref[k] * 10 + d;
      __CPROVER_assume(g_pref[k + 1] <= mag);
      vstr_push_back(ret, (char)('0' + d));
    }
  }
  __CPROVER_assume(g_pref[n] == mag);
}

/* string ret = string_printf("%g", x): "some string of the %g output grammar" -- the text is chosen by the harness
 * (g_gtext, g_glen; constrained there by spec/C04_gfmt.h), the numeric relation between x and the text is NOT modelled. */
extern const char* g_gtext;
extern size_t g_glen;
static inline void C04_printf_g(vstr* ret, double x)
{
  (void)x;
  ret->size = 0;
  for (size_t k = 0; k < g_glen; k++) vstr_push_back(ret, g_gtext[k]);
}

#endif
