/* C19 side-car contracts for src/UnitTest.cc / src/UnitTest.hh (the definitions are extracted text).
 * Spec source: property C19.
 *   expect_generic(pred, msg, file, line): throws expectation_failed exactly when pred is false, the thrown
 *     object carries msg/file/line (members and what() arguments); does nothing otherwise.
 *   expect_raises_fn<E>(file, line, fn): returns normally iff fn threw an object whose type is E or derives
 *     from E; in every other case (fn returned, fn threw something else, fn threw a non-std object) it throws
 *     expectation_failed whose file/line are the call site given by the caller -- also when E is a base of
 *     expectation_failed. */
#ifndef C19_UNITTEST_H
#define C19_UNITTEST_H
#include "contracts/C19_exc.h"

void expect_generic(bool pred, const char* msg, const char* file, uint64_t line)
__CPROVER_requires(verif_exc == EXC_none)
__CPROVER_ensures(verif_exc == (pred ? EXC_none : EXC_expectation_failed))
__CPROVER_ensures(!pred ==> (g_exc_msg == msg && g_exc_file == file && g_exc_line == line))
__CPROVER_ensures(!pred ==> (g_what_msg == msg && g_what_file == file && g_what_line == line))
__CPROVER_ensures(pred ==> (g_exc_msg == __CPROVER_old(g_exc_msg) && g_exc_file == __CPROVER_old(g_exc_file) &&
                            g_exc_line == __CPROVER_old(g_exc_line)))
__CPROVER_ensures(pred ==> (g_what_msg == __CPROVER_old(g_what_msg) && g_what_file == __CPROVER_old(g_what_file) &&
                            g_what_line == __CPROVER_old(g_what_line)))
__CPROVER_assigns(verif_exc, g_exc_msg, g_exc_file, g_exc_line, g_what_msg, g_what_file, g_what_line);

#ifdef ER_NAME
/* one textual instantiation: ER_NAME = expect_raises_fn__<E>, EXC_ExcT = EXC_<E> (Group.defines) */
void ER_NAME(const char* file, uint64_t line, verif_function fn)
__CPROVER_requires(verif_exc == EXC_none)
__CPROVER_requires(VERIF_FUNCTION_VALID(fn))
__CPROVER_ensures(VERIF_SUBTYPE(fn, EXC_ExcT) ? verif_exc == EXC_none : verif_exc == EXC_expectation_failed)
__CPROVER_ensures(verif_exc == EXC_expectation_failed ==> (g_exc_file == file && g_exc_line == line))
__CPROVER_ensures(verif_exc == EXC_expectation_failed ==> (g_what_file == file && g_what_line == line))
__CPROVER_assigns(verif_exc, g_exc_msg, g_exc_file, g_exc_line, g_what_msg, g_what_file, g_what_line);
#endif

#endif
