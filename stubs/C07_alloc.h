/* C07: "allocation succeeds" -- Image.cc does not test the result of malloc; the whole-buffer operations are verified under the
 * assumption that malloc returns a non-null pointer (cbmc 6 lets malloc fail by default).  Listed in the evidence as a stub assumption. */
#ifndef C07_ALLOC_H
#define C07_ALLOC_H
#include <stdlib.h>
static inline void* verif_malloc(size_t n)
{
  void* p = malloc(n);
  __CPROVER_assume(p != 0);
  return p;
}
#endif
