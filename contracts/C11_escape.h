/* C11 side-car contracts: escape_quotes / escape_controls / escape_url (src/Strings.cc).
 *
 * Each loop body is extracted as a function of its own (escape_*_step: handles ONE input octet) and proved against a
 * loop-free step contract: the code appended for the octet satisfies the escaper's specification predicate
 * (spec/C11_escape.h: ESC_Q_OK / ESC_C_OK / ESC_U_OK -- permitted octets only; for controls/url: the reference unescaper
 * reads exactly this code and yields the input octet).  The enclosing function is proved with the loop body replaced by a
 * call of the step function, bound to the step contract (--replace-call-with-contract), under a loop contract that says
 * where the code of input octet g_k (ghost index) lies:
 *   g_pos   output position at which the code of octet g_k starts   (g_k == 0  ==>  g_pos == 0)
 *   g_olen  its length, g_o0..g_o3 its octets (as found in the result afterwards: later steps only append)
 *   g_pos1  output position at which the code of octet g_k+1 starts: g_pos + g_olen == g_pos1 (or the final length when
 *           g_k is the last octet)   -- the codes tile the output in input order, nothing else is emitted. */
#ifndef C11_ESCAPE_H
#define C11_ESCAPE_H
#include "stubs/vstr.h"
#include "stubs/C11_str.h"
#include "spec/C11_escape.h"

#ifdef VERIF_SMALL
#define ESC_MAXLEN 2
#else
#define ESC_MAXLEN 0x0FFFFFFFFFFFull       /* 2^44-1: 4 * length + 4 stays below the cbmc object size limit */
#endif

extern uint8_t g_sc;                        /* the input octet the current step works on */
extern size_t g_k;                          /* ghost input index */
extern uint8_t g_kch;                       /* the input octet at g_k */
extern size_t g_pos, g_pos1, g_olen;
extern uint8_t g_o0, g_o1, g_o2, g_o3;
extern int g_flag;                          /* escape_non_ascii / escape_slash as 0/1 */

#define U8(x) ((uint8_t)(x))
#define ESC_RET_APPEND_REQ(room) \
  __CPROVER_requires(__CPROVER_is_fresh(ret, sizeof(vstr))) \
  __CPROVER_requires(ret->cap <= VSTR_MAXCAP && ret->size <= ret->cap && (room) <= ret->cap - ret->size) \
  __CPROVER_requires(__CPROVER_is_fresh(ret->data, ret->cap))
#define ESC_SRC_REQ \
  __CPROVER_requires(__CPROVER_is_fresh(s, sizeof(vstr))) \
  __CPROVER_requires(s->size <= ESC_MAXLEN && s->size <= s->cap && s->cap <= VSTR_MAXCAP) \
  __CPROVER_requires(__CPROVER_is_fresh(s->data, s->cap))
#define OLD __CPROVER_old(ret->size)
/* the step appended between 1 and 4 octets which satisfy the predicate OK for the input octet g_sc */
#define STEP_ENSURES(OK) \
  __CPROVER_ensures(ret->size > OLD && ret->size - OLD <= 4) \
  __CPROVER_ensures(OK(U8(ret->data[OLD]), U8(ret->data[OLD + 1]), U8(ret->data[OLD + 2]), U8(ret->data[OLD + 3]), ret->size - OLD, g_sc, g_flag)) \
  __CPROVER_assigns(ret->size, __CPROVER_object_from(ret->data + ret->size))

void escape_quotes_step(vstr* ret, const vstr* s, size_t x)
ESC_RET_APPEND_REQ(4)
ESC_SRC_REQ
__CPROVER_requires(x < s->size && g_sc == U8(s->data[x]))
STEP_ENSURES(ESC_Q_OK);

void escape_controls_step(vstr* ret, const vstr* s, size_t x, bool escape_non_ascii)
ESC_RET_APPEND_REQ(4)
ESC_SRC_REQ
__CPROVER_requires(x < s->size && g_sc == U8(s->data[x]) && g_flag == (escape_non_ascii ? 1 : 0))
STEP_ENSURES(ESC_C_OK);

void escape_url_step(vstr* ret, char ch, bool escape_slash)
ESC_RET_APPEND_REQ(4)
__CPROVER_requires(g_sc == U8(ch) && g_flag == (escape_slash ? 1 : 0))
STEP_ENSURES(ESC_U_OK);

/* ---- whole functions ---- */
#define ESC_FN_REQ \
  ESC_SRC_REQ \
  __CPROVER_requires(__CPROVER_is_fresh(ret, sizeof(vstr))) \
  __CPROVER_requires(ret->size == 0 && ret->cap <= VSTR_MAXCAP && ret->cap >= 4 * s->size + 4) \
  __CPROVER_requires(__CPROVER_is_fresh(ret->data, ret->cap)) \
  __CPROVER_requires(g_k <= ESC_MAXLEN && (g_k < s->size ==> g_kch == U8(s->data[g_k])))
#define ESC_AT(j) U8(ret->data[g_pos + (j)])
#define ESC_FN_ENSURES(OK) \
  __CPROVER_ensures(s->size == 0 ==> ret->size == 0) \
  __CPROVER_ensures((g_k == 0 && s->size != 0) ==> g_pos == 0) \
  __CPROVER_ensures(g_k < s->size ==> (g_olen >= 1 && g_olen <= 4 && g_pos <= ret->size && g_olen <= ret->size - g_pos && g_pos + g_olen == (g_k + 1 < s->size ? g_pos1 : ret->size))) \
  __CPROVER_ensures(g_k < s->size ==> (ESC_AT(0) == g_o0 && (g_olen < 2 || ESC_AT(1) == g_o1) && (g_olen < 3 || ESC_AT(2) == g_o2) && (g_olen < 4 || ESC_AT(3) == g_o3))) \
  __CPROVER_ensures(g_k < s->size ==> OK(g_o0, g_o1, g_o2, g_o3, g_olen, g_kch, g_flag)) \
  __CPROVER_assigns(g_sc, g_pos, g_pos1, g_olen, g_o0, g_o1, g_o2, g_o3, ret->size, __CPROVER_object_whole(ret->data))

void escape_quotes(vstr* ret, const vstr* s)
ESC_FN_REQ
ESC_FN_ENSURES(ESC_Q_OK);

void escape_controls(vstr* ret, const vstr* s, bool escape_non_ascii)
ESC_FN_REQ
__CPROVER_requires(g_flag == (escape_non_ascii ? 1 : 0))
ESC_FN_ENSURES(ESC_C_OK);

void escape_url(vstr* ret, const vstr* s, bool escape_slash)
ESC_FN_REQ
__CPROVER_requires(g_flag == (escape_slash ? 1 : 0))
ESC_FN_ENSURES(ESC_U_OK);

#endif
