/* C06: PPM / PGM / PAM loader from the allocation on (-DC06_DIM -DC06_CW -DC06_GRAY). The function text is x_ppm_load.c. */
#include "contracts/C06_ppm.h"
#include "x_ppm_load.c"

int verif_exc;

void h_ppm_tail(void) {
  uint8_t in_w, in_h, in_c; /* narrow inputs: the high bits of every size product are constants for the solver; the contract bounds them by C06_DIM <= 16 anyway */
  uint16_t in_P;
  bool in_alpha = C06_ALPHA; /* constant per group: the strides become constants (the symbolic-stride query is 10x larger) */
  uint64_t in_maxv;
  g_P = in_P;
  g_c = in_c;
  g_alloc = 0; g_freed = 0;
  Image* self;
  FILE* f;
  Image_load_ppm_tail(self, f, C06_FORMAT, in_w, in_h, in_alpha, C06_CW, in_maxv);
  VERIF_REACH();
}
