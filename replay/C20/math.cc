// Native replay for C20 (src/Math.hh): calls the real phosg templates with the verifier's counterexample and evaluates
// the same postconditions. exit 1 = violated on the real code, 0 = holds, 2 = usage.
//   math log2i <type> in_v=..
//   math gcd <type> in_a=.. in_b=.. [in_d=.. in_d2=..]
//   math reduce_fraction <type> in_a=.. in_b=.. [in_d=.. in_d2=.. in_e=..]
//   math gcd_commutes <type> in_a=.. in_b=.. in_d=..
#include "replay/common/args.hh"
#include "Math.hh"
#include <type_traits>
using namespace phosg;
typedef unsigned long long ull;

template <typename T> static int t_log2i(const Args& A) {
  T v = (T)A.u("in_v");
  if (!(v > 0)) { printf("precondition v > 0 not met\n"); return 0; }
  T r = log2i<T>(v);
  using U = std::make_unsigned_t<T>;
  ull uv = (ull)(U)v;
  int W = sizeof(T) * 8;
  printf("log2i<%d-bit %s>(0x%llX) = %lld\n", W, std::is_signed_v<T> ? "signed" : "unsigned", uv, (long long)r);
  RCHECK(r >= 0 && (ull)r < (ull)W, "result %lld is not in [0, %d)", (long long)r, W);
  RCHECK((uv >> (ull)r) == 1, "result %lld is not floor(log2 0x%llX): 0x%llX >> %lld = 0x%llX, expected 1", (long long)r, uv, uv,
         (long long)r, uv >> (ull)r);
  printf("holds on this input\n");
  return 0;
}

static bool divs(ull d, ull x) { return d != 0 && x % d == 0; }

template <typename T> static int t_gcd(const Args& A) {
  using U = std::make_unsigned_t<T>;
  T a = (T)A.u("in_a"), b = (T)A.u("in_b");
  if (a < 0 || b < 0) { printf("precondition a,b >= 0 not met\n"); return 0; }
  T r = gcd<T>(a, b);
  printf("gcd(%llu, %llu) = %lld\n", (ull)(U)a, (ull)(U)b, (long long)r);
  RCHECK(r >= 0, "negative result");
  RCHECK((r == 0) == (a == 0 && b == 0), "result is 0 iff both arguments are 0");
  RCHECK(b != 0 || r == a, "gcd(a,0) == a");
  if (r != 0) RCHECK((ull)(U)a % (ull)(U)r == 0 && (ull)(U)b % (ull)(U)r == 0, "result does not divide both arguments");
  for (const char* k : {"in_d", "in_d2"}) {
    ull d = A.u(k, 1);
    if (d < 1) continue;
    RCHECK((divs(d, (U)a) && divs(d, (U)b)) == (r == 0 ? true : divs(d, (U)r)), "d=%llu: d|a and d|b <=> d|gcd fails", d);
  }
  if (A.mode == "gcd_commutes") {
    T r2 = gcd<T>(b, a);
    RCHECK(r == r2, "gcd(a,b)=%lld but gcd(b,a)=%lld", (long long)r, (long long)r2);
  }
  printf("holds on this input\n");
  return 0;
}

template <typename T> static int t_rf(const Args& A) {
  using U = std::make_unsigned_t<T>;
  T a = (T)A.u("in_a"), b = (T)A.u("in_b");
  if (a < 0 || b < 0 || (a == 0 && b == 0)) { printf("precondition not met\n"); return 0; }
  auto pq = reduce_fraction<T>(a, b);
  ull p = (ull)(U)pq.first, q = (ull)(U)pq.second, ua = (ull)(U)a, ub = (ull)(U)b;
  printf("reduce_fraction(%llu, %llu) = (%llu, %llu)\n", ua, ub, p, q);
  RCHECK(pq.first >= 0 && pq.second >= 0, "negative term");
  RCHECK((unsigned __int128)p * ub == (unsigned __int128)q * ua, "ratio changed: p*b != q*a");
  // coprime: no e >= 2 divides both (reference Euclid on the results)
  ull x = p, y = q;
  while (y) { ull m = x % y; x = y; y = m; }
  RCHECK(x == 1, "terms are not coprime: common divisor %llu", x);
  printf("holds on this input\n");
  return 0;
}

template <typename T> static int disp(const Args& A) {
  if (A.mode == "log2i") return t_log2i<T>(A);
  if (A.mode == "gcd" || A.mode == "gcd_commutes") return t_gcd<T>(A);
  if (A.mode == "reduce_fraction") return t_rf<T>(A);
  fprintf(stderr, "unknown mode %s\n", A.mode.c_str());
  return 2;
}

int main(int argc, char** argv) {
  Args A(argc, argv);
  if (A.extra.size() != 1) { fprintf(stderr, "usage: math <mode> <type> k=v...\n"); return 2; }
  const std::string& t = A.extra[0];
  if (t == "uint8_t") return disp<uint8_t>(A);
  if (t == "int8_t") return disp<int8_t>(A);
  if (t == "uint16_t") return disp<uint16_t>(A);
  if (t == "int16_t") return disp<int16_t>(A);
  if (t == "uint32_t") return disp<uint32_t>(A);
  if (t == "int32_t") return disp<int32_t>(A);
  if (t == "uint64_t") return disp<uint64_t>(A);
  if (t == "int64_t") return disp<int64_t>(A);
  fprintf(stderr, "unknown type %s\n", t.c_str());
  return 2;
}
