/* C14 trusted stub: opendir / readdir / closedir (POSIX), strcmp against a short literal, and the result container of
 * list_directory / list_directory_sorted.
 *
 * Ghost directory: g_total entries in all; readdir delivers them one by one (g_dn so far) and returns NULL exactly when all
 * have been delivered.  Every entry is a fresh object whose d_name is an ARBITRARY NUL-terminated string of at most 255
 * bytes (so every name, "." and ".." and names that merely start with dots, is covered).  One entry, number g_dk, is
 * watched: g_dk_dot says whether ITS name is exactly "." or ".." (the specification, computed from the bytes), g_dk_stored
 * counts how often its name was put into the result.  Storing anything that is not the name of the entry just returned is
 * counted in g_foreign. */
#ifndef C14_DIR_H
#define C14_DIR_H
#include <stddef.h>
#include <stdlib.h>
typedef struct { int verif_dummy; } C14_DIR;
struct c14_dirent { char d_name[256]; };
typedef struct { size_t count; int sorted; } c14_names;

size_t g_total, g_dn, g_dk;
int g_dk_dot, g_dir_open;
unsigned g_dk_stored, g_foreign, g_closedirs;
const char* g_cur_name;
struct c14_dirent g_ent;
int nondet_c14_int(void);

/* "." or ".." exactly */
#define C14_IS_DOT(p) ((p)[0] == '.' && ((p)[1] == 0 || ((p)[1] == '.' && (p)[2] == 0)))

static inline C14_DIR* c14_opendir(const void* name) {
  if (nondet_c14_int()) {
    return 0;                       /* opendir may fail */
  }
  C14_DIR* d = (C14_DIR*)malloc(sizeof(C14_DIR));
  __CPROVER_assume(d != 0);
  g_dir_open = 1;
  return d;
}
static inline struct c14_dirent* c14_readdir(C14_DIR* d) {
  __CPROVER_assert(d != 0 && g_dir_open == 1, "readdir on an open directory stream");
  if (g_dn >= g_total) {
    g_cur_name = 0;
    return 0;                       /* end of directory */
  }
  /* POSIX: the returned structure may be statically allocated and overwritten by the next readdir call on the stream --
   * the stub does exactly that (one entry object, new arbitrary content on every call) */
  struct c14_dirent verif_fresh_content;
  g_ent = verif_fresh_content;
  struct c14_dirent* e = &g_ent;
  __CPROVER_assume(e->d_name[255] == 0);
  g_cur_name = e->d_name;
  if (g_dn == g_dk) {
    g_dk_dot = C14_IS_DOT(e->d_name);
  }
  g_dn++;
  return e;
}
static inline int c14_closedir(C14_DIR* d) {
  __CPROVER_assert(d != 0 && g_dir_open == 1, "closedir on an open directory stream");
  g_dir_open = 0;
  g_closedirs++;
  return 0;
}
/* strcmp(a, b) for a literal b of at most two characters (the only use in the directory listers): exact ISO C result sign */
static inline int c14_strcmp(const char* a, const char* b) {
  __CPROVER_assert(b[0] == 0 || b[1] == 0 || b[2] == 0, "strcmp stub: second argument is a literal of at most two characters");
#define C14_CMP_AT(i) { unsigned char ca = (unsigned char)a[i], cb = (unsigned char)b[i]; if (ca != cb) { return ca < cb ? -1 : 1; } if (ca == 0) { return 0; } }
  C14_CMP_AT(0) C14_CMP_AT(1) C14_CMP_AT(2)
  return 0; /* not reached: b has a terminator within three bytes */
}
static inline void c14_names_store(c14_names* s, const char* p) {
  if (p != 0 && p == g_cur_name) {
    if (g_dn == g_dk + 1) {
      g_dk_stored++;
    }
    s->count++;
  } else {
    g_foreign++;
  }
}
static inline void c14_names_sort(c14_names* s) { s->sorted = 1; }
#endif
