/* C04: memcmp with a body (ISO C 7.24.4.1: compares the first n characters as unsigned char; zero iff all are equal).  The shared
 * contract-only verif_memcmp of stubs/libc.h states just "0 => equal", which cannot show that skip_if("null", 4) MATCHES the
 * text "null"; here the sizes are the literal lengths (<= 8), so the comparison is written out loop-free.  TRUSTED BASE. */
#ifndef STUBS_C04_LIBC_H
#define STUBS_C04_LIBC_H
#include "stubs/libc.h"
#define C04_CMP1(k) if (n > (k) && pa[k] != pb[k]) return pa[k] < pb[k] ? -1 : 1;
int verif_memcmp(const void* a, const void* b, size_t n)
{
  if (verif_exc) return 0;   /* exception in flight: in C++ the call is not evaluated */
  const unsigned char* pa = (const unsigned char*)a;
  const unsigned char* pb = (const unsigned char*)b;
  __CPROVER_assert(n <= 8, "C04 memcmp model: at most 8 bytes");
  C04_CMP1(0) C04_CMP1(1) C04_CMP1(2) C04_CMP1(3) C04_CMP1(4) C04_CMP1(5) C04_CMP1(6) C04_CMP1(7)
  return 0;
}
#endif
