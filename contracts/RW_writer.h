/* Side-car contracts: BufferWriter / StringWriter / BitWriter / BitReader core functions (C01, C02). */
#ifndef RW_WRITER_H
#define RW_WRITER_H
#include "contracts/RW_reader.h"
#include "contracts/RW_wtypes.h"

#define BW_OK(w) (__CPROVER_is_fresh(w, sizeof(BufferWriter)) && (w)->buf_size <= RD_MAX && __CPROVER_is_fresh((w)->buf, (w)->buf_size) && \
                  verif_exc == 0 && (w)->buf_size == g_len && (w)->offset == g_off && \
                  (w)->offset <= (w)->buf_size /* class invariant: the cursor only moves by successful writes */ && \
                  (g_vk < (w)->buf_size ==> g_vval == (w)->buf[g_vk]) /* ghost: value of byte g_vk on entry */)
#define BW_REQ(w) __CPROVER_requires(__CPROVER_is_fresh(w, sizeof(BufferWriter))) __CPROVER_requires((w)->buf_size <= RD_MAX) \
                  __CPROVER_requires(__CPROVER_is_fresh((w)->buf, (w)->buf_size)) \
                  __CPROVER_requires(verif_exc == 0 && (w)->buf_size == g_len && (w)->offset == g_off && (w)->offset <= (w)->buf_size) \
                  __CPROVER_requires(g_vk < (w)->buf_size ==> g_vval == (w)->buf[g_vk])
#define SRC_REQ(p, n) __CPROVER_requires((n) <= RD_MAX) __CPROVER_requires(__CPROVER_is_fresh(p, n))
#define SRC_OK(p, n) ((n) <= RD_MAX && __CPROVER_is_fresh(p, n))

/* fixed-buffer writer: stores inside [buf, buf+buf_size) or throws runtime_error and stores nothing */
void BufferWriter_pwrite(BufferWriter* self, size_t offset, const void* data, size_t size)
BW_REQ(self) SRC_REQ(data, size)
E02(INR(offset, size, self->buf_size) ? verif_exc == 0 : verif_exc == EXC_runtime_error)
E02(g_vk < self->buf_size && !(verif_exc == 0 && g_vk >= offset && g_vk - offset < size) ==> self->buf[g_vk] == g_vval)
E01(verif_exc == 0 ==> (g_mk < size ==> self->buf[offset + g_mk] == ((const uint8_t*)data)[g_mk]))
__CPROVER_assigns(verif_exc, __CPROVER_object_whole(self->buf));

void BufferWriter_write(BufferWriter* self, const void* data, size_t size)
BW_REQ(self) SRC_REQ(data, size)
E02(INR(__CPROVER_old(self->offset), size, self->buf_size) ? verif_exc == 0 : verif_exc == EXC_runtime_error)
E02(verif_exc != 0 ==> self->offset == __CPROVER_old(self->offset))
E02(g_vk < self->buf_size && !(verif_exc == 0 && g_vk >= __CPROVER_old(self->offset) && g_vk - __CPROVER_old(self->offset) < size) ==> self->buf[g_vk] == g_vval)
E01(verif_exc == 0 ==> self->offset == __CPROVER_old(self->offset) + size)
E01(verif_exc == 0 ==> (g_mk < size ==> self->buf[__CPROVER_old(self->offset) + g_mk] == ((const uint8_t*)data)[g_mk]))
__CPROVER_assigns(verif_exc, self->offset, __CPROVER_object_whole(self->buf));

#define SW_OK(w) (__CPROVER_is_fresh(w, sizeof(StringWriter)) && (w)->data.cap <= RD_MAX && (w)->data.size <= (w)->data.cap && \
                  __CPROVER_is_fresh((w)->data.data, (w)->data.cap) && verif_exc == 0 && (w)->data.size == g_wsize && (w)->data.cap == g_wcap && \
                  (g_vk < (w)->data.size ==> g_vval == (uint8_t)(w)->data.data[g_vk]) /* ghost: value of byte g_vk on entry */)

#define SW_REQ(w) __CPROVER_requires(__CPROVER_is_fresh(w, sizeof(StringWriter))) __CPROVER_requires((w)->data.cap <= RD_MAX && (w)->data.size <= (w)->data.cap) \
                  __CPROVER_requires(__CPROVER_is_fresh((w)->data.data, (w)->data.cap)) \
                  __CPROVER_requires(verif_exc == 0 && (w)->data.size == g_wsize && (w)->data.cap == g_wcap) \
                  __CPROVER_requires(g_vk < (w)->data.size ==> g_vval == (uint8_t)(w)->data.data[g_vk])
size_t StringWriter_size(const StringWriter* self)
SW_REQ(self) __CPROVER_ensures(__CPROVER_return_value == self->data.size) __CPROVER_assigns();

/* append: allocation is assumed to succeed (capacity), the appended bytes are the source bytes, older bytes keep their value */
void StringWriter_write(StringWriter* self, const void* data, size_t size)
SW_REQ(self) SRC_REQ(data, size) __CPROVER_requires(size <= self->data.cap - self->data.size)
E02(verif_exc == 0 && self->data.size <= self->data.cap)
E01(self->data.size == __CPROVER_old(self->data.size) + size)
E01(g_vk < __CPROVER_old(self->data.size) ==> self->data.data[g_vk] == (char)g_vval)
E01((g_vk >= __CPROVER_old(self->data.size) && g_vk < self->data.size) ==> self->data.data[g_vk] == ((const char*)data)[g_vk - __CPROVER_old(self->data.size)])
__CPROVER_assigns(self->data.size, __CPROVER_object_whole(self->data.data));

/* the std::string overload: all size() bytes of the block, zero bytes included */
size_t nondet_verif_cstrlen(void);
extern size_t g_zk;     /* ghost index for "no NUL before the first NUL" */
static inline size_t verif_cstrlen(const char* p, size_t size)
{ size_t n = nondet_verif_cstrlen(); __CPROVER_assume(n <= size && (n == size || p[n] == 0) && (g_zk < n ==> p[g_zk] != 0)); return n; }
void StringWriter_write_str(StringWriter* self, const vstr* data)
SW_REQ(self) __CPROVER_requires(__CPROVER_is_fresh(data, sizeof(vstr))) __CPROVER_requires(data->size <= RD_MAX && __CPROVER_is_fresh(data->data, data->size))
__CPROVER_requires(data->size <= self->data.cap - self->data.size)
E02(verif_exc == 0 && self->data.size <= self->data.cap)
E01(self->data.size == __CPROVER_old(self->data.size) + data->size)
E01(g_vk < __CPROVER_old(self->data.size) ==> self->data.data[g_vk] == (char)g_vval)
E01((g_vk >= __CPROVER_old(self->data.size) && g_vk < self->data.size) ==> self->data.data[g_vk] == data->data[g_vk - __CPROVER_old(self->data.size)])
__CPROVER_assigns(self->data.size, __CPROVER_object_whole(self->data.data));

void StringWriter_extend_to(StringWriter* self, size_t size, char v)
SW_REQ(self)
E02(size <= self->data.cap ? (verif_exc == 0 && self->data.size == size) : verif_exc == EXC_length_error)
E01(verif_exc == 0 ==> ((g_vk < __CPROVER_old(self->data.size) && g_vk < size) ==> self->data.data[g_vk] == (char)g_vval))
E01(verif_exc == 0 ==> ((g_vk >= __CPROVER_old(self->data.size) && g_vk < size) ==> self->data.data[g_vk] == v))
__CPROVER_assigns(verif_exc, self->data.size, __CPROVER_object_whole(self->data.data));

void StringWriter_extend_by(StringWriter* self, size_t size, char v)
SW_REQ(self) __CPROVER_requires(size <= RD_MAX)
E02(size <= self->data.cap - __CPROVER_old(self->data.size) ? (verif_exc == 0 && self->data.size == __CPROVER_old(self->data.size) + size) : verif_exc == EXC_length_error)
E01(verif_exc == 0 ==> (g_vk < __CPROVER_old(self->data.size) ==> self->data.data[g_vk] == (char)g_vval))
E01(verif_exc == 0 ==> ((g_vk >= __CPROVER_old(self->data.size) && g_vk < self->data.size) ==> self->data.data[g_vk] == v))
__CPROVER_assigns(verif_exc, self->data.size, __CPROVER_object_whole(self->data.data));

/* ---- bits ---- */
#define BTW_OK(w) (__CPROVER_is_fresh(w, sizeof(BitWriter)) && (w)->data.cap <= RD_MAX && (w)->data.size <= (w)->data.cap && \
                   __CPROVER_is_fresh((w)->data.data, (w)->data.cap) && verif_exc == 0 && (w)->last_byte_unset_bits < 8 && \
                   ((w)->data.size == 0 ==> (w)->last_byte_unset_bits == 0) && (w)->data.size == g_wsize)
#define BTW_BITS(w) ((w)->data.size * 8 - (w)->last_byte_unset_bits)
/* representation invariant: the unset low bits of the last byte are zero */
#define BTW_CLEAN(w) ((w)->last_byte_unset_bits == 0 || (((uint8_t)(w)->data.data[(w)->data.size - 1]) & ((1u << (w)->last_byte_unset_bits) - 1)) == 0)

#define BTW_REQ(w) __CPROVER_requires(__CPROVER_is_fresh(w, sizeof(BitWriter))) __CPROVER_requires((w)->data.cap <= RD_MAX && (w)->data.size <= (w)->data.cap) \
                   __CPROVER_requires(__CPROVER_is_fresh((w)->data.data, (w)->data.cap)) \
                   __CPROVER_requires(verif_exc == 0 && (w)->last_byte_unset_bits < 8 && ((w)->data.size == 0 ==> (w)->last_byte_unset_bits == 0) && (w)->data.size == g_wsize)
size_t BitWriter_size(const BitWriter* self)
BTW_REQ(self) __CPROVER_ensures(__CPROVER_return_value == BTW_BITS(self)) __CPROVER_assigns();

/* write(v): bit string grows by exactly the bit v at index old size (MSB first), every older bit keeps its value */
void BitWriter_write(BitWriter* self, bool v)
BTW_REQ(self) __CPROVER_requires(BTW_CLEAN(self)) __CPROVER_requires(self->data.size < self->data.cap)
__CPROVER_requires(g_oldbits == BTW_BITS(self)) __CPROVER_requires(g_bit < g_oldbits) __CPROVER_requires(g_bitval == BITAT(self->data.data, g_bit))
E01(BTW_BITS(self) == g_oldbits + 1)
E01(BITAT(self->data.data, g_oldbits) == (v ? 1 : 0))
E01(BITAT(self->data.data, g_bit) == g_bitval)
E01(self->last_byte_unset_bits < 8 && BTW_CLEAN(self))
E02(self->data.size <= self->data.cap)
__CPROVER_assigns(self->last_byte_unset_bits, self->data.size, __CPROVER_object_whole(self->data.data));

/* truncate(n): cannot extend (logic_error); otherwise the bit string becomes its first n bits: size' == n, every kept bit
 * (ghost g_bit < n) keeps its value, the representation invariant (unset low bits of the last byte are zero) holds again */
void BitWriter_truncate(BitWriter* self, size_t size)
BTW_REQ(self) __CPROVER_requires(BTW_CLEAN(self))
__CPROVER_requires(g_oldbits == BTW_BITS(self) && (g_bit < g_oldbits ==> g_bitval == BITAT(self->data.data, g_bit)))
E01(size <= g_oldbits ? verif_exc == 0 : verif_exc == EXC_logic_error)
E01(verif_exc == 0 ==> BTW_BITS(self) == size)
E01((verif_exc == 0 && g_bit < size) ==> BITAT(self->data.data, g_bit) == g_bitval)
E01(verif_exc == 0 ==> (self->last_byte_unset_bits < 8 && BTW_CLEAN(self)))
E01(verif_exc != 0 ==> BTW_BITS(self) == g_oldbits)
E02(self->data.size <= self->data.cap)
__CPROVER_assigns(verif_exc, self->last_byte_unset_bits, self->data.size, __CPROVER_object_whole(self->data.data));

/* BitReader: no bounds check by design (C02's anchors do not list it): in-range is a precondition; sub_bits/subx_bits
 * (C02) are what establish it for sub-readers. */
#define BR_OK(r) (__CPROVER_is_fresh(r, sizeof(BitReader)) && (r)->length <= RD_MAX && __CPROVER_is_fresh((r)->data, ((r)->length + 7) >> 3) && verif_exc == 0 && \
                  (r)->length == g_len && (r)->offset == g_off)
/* bit readers: the length is in BITS; the small-input bound of the counterexample / bounded re-check runs must leave room for a
 * full 64-bit field at an unaligned offset */
#ifdef VERIF_SMALL
#define BR_MAX 160
#else
#define BR_MAX RD_MAX
#endif
#define BR_REQ(r) __CPROVER_requires(__CPROVER_is_fresh(r, sizeof(BitReader))) __CPROVER_requires((r)->length <= BR_MAX) \
                  __CPROVER_requires(__CPROVER_is_fresh((r)->data, ((r)->length + 7) >> 3)) \
                  __CPROVER_requires(verif_exc == 0 && (r)->length == g_len && (r)->offset == g_off)
uint64_t BitReader_pread(BitReader* self, size_t start_offset, uint8_t size)
BR_REQ(self) __CPROVER_requires((size > 64 || INR(start_offset, size, self->length))) __CPROVER_requires(g_bit < size)
E01(size > 64 ? verif_exc == EXC_logic_error : verif_exc == 0)
E01(verif_exc == 0 ==> ((__CPROVER_return_value >> (size - 1 - g_bit)) & 1) == BITAT(self->data, start_offset + g_bit))
E01(verif_exc == 0 && size < 64 ==> (__CPROVER_return_value >> size) == 0)
__CPROVER_assigns(verif_exc);

uint64_t BitReader_read(BitReader* self, uint8_t size, bool advance)
BR_REQ(self) __CPROVER_requires((size > 64 || INR(self->offset, size, self->length))) __CPROVER_requires(g_bit < size)
E01(size > 64 ? verif_exc == EXC_logic_error : verif_exc == 0)
E01(verif_exc == 0 ==> ((__CPROVER_return_value >> (size - 1 - g_bit)) & 1) == BITAT(self->data, __CPROVER_old(self->offset) + g_bit))
E01(verif_exc == 0 ==> self->offset == __CPROVER_old(self->offset) + (advance ? size : 0))
E01(verif_exc != 0 ==> self->offset == __CPROVER_old(self->offset))
__CPROVER_assigns(verif_exc, self->offset);
#endif
