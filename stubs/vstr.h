/* Trusted C model of std::string (DESIGN.md 3.2): { data, size, cap }.
 * "Allocation succeeds" is modelled by capacity: an operation that needs more than `cap` bytes is outside the model and
 * its precondition fails (callers state the capacity they need in their own requires; listed as assumption).
 * Contract-only operations (bound with --replace-call-with-contract) use the ghost index g_vk instead of a quantifier;
 * their preconditions are asserted at the call site and include the memory-safety conditions of the source ranges. */
#ifndef STUBS_VSTR_H
#define STUBS_VSTR_H
#include "contracts/verif.h"

typedef struct { char* data; size_t size; size_t cap; } vstr;
extern size_t g_vk;     /* ghost byte index */

#define VSTR_MAXCAP 0x7FFFFFFFFFFFull
#define VSTR_OK(s) (__CPROVER_is_fresh(s, sizeof(vstr)) && (s)->cap <= VSTR_MAXCAP && (s)->size <= (s)->cap && \
                    __CPROVER_is_fresh((s)->data, (s)->cap))
#define VSTR_EMPTY_OK(s) (VSTR_OK(s) && (s)->size == 0)

/* small operations with real bodies (pointer checks inside them are the capacity / bounds obligations) */
static inline size_t vstr_size(const vstr* s) { return s->size; }
static inline char* vstr_data(vstr* s) { return s->data; }
static inline void vstr_push_back(vstr* s, char c) { __CPROVER_assert(s->size < s->cap, "string capacity (allocation modelled as capacity)"); s->data[s->size] = c; s->size++; }
static inline void vstr_pop_back(vstr* s) { __CPROVER_assert(s->size > 0, "pop_back on empty string is undefined"); s->size--; }
static inline void vstr_clear(vstr* s) { s->size = 0; }
static inline bool vstr_ends_with_c(const vstr* s, char c) { return s->size > 0 && s->data[s->size - 1] == c; }

/* std::string(const char* p, size_t n) / assign(p, n) */
void vstr_assign(vstr* s, const char* p, size_t n)
__CPROVER_requires(n == 0 || __CPROVER_r_ok(p, n))
__CPROVER_requires(n <= s->cap)
__CPROVER_ensures(s->size == n)
__CPROVER_ensures(g_vk < n ==> s->data[g_vk] == p[g_vk])
__CPROVER_assigns(s->size, __CPROVER_object_whole(s->data));

/* append(const char* p, size_t n) */
void vstr_append(vstr* s, const char* p, size_t n)
__CPROVER_requires(n == 0 || __CPROVER_r_ok(p, n))
__CPROVER_requires(n <= s->cap - s->size)
__CPROVER_ensures(s->size == __CPROVER_old(s->size) + n)
__CPROVER_ensures((g_vk >= __CPROVER_old(s->size) && g_vk < s->size) ==> s->data[g_vk] == p[g_vk - __CPROVER_old(s->size)])
__CPROVER_assigns(s->size, __CPROVER_object_from(s->data + s->size));   /* frame: bytes below the old size are untouched */

/* resize(n, c): keeps the first min(old size, n) bytes, fills the rest with c */
void vstr_resize(vstr* s, size_t n, char c)
__CPROVER_requires(n <= s->cap)
__CPROVER_ensures(s->size == n)
__CPROVER_ensures((g_vk >= __CPROVER_old(s->size) && g_vk < n) ==> s->data[g_vk] == c)
__CPROVER_assigns(s->size; n > s->size: __CPROVER_object_from(s->data + s->size));

#endif
