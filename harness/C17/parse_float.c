/* C17: Arguments::parse_float<RetT> (-DRetT=float|double -DC17_FLOAT=1 -DPF_NAME=parse_float__<RetT>).
 * strtod is the abstract scanner of stubs/C17_strto.h: it consumes in_endoff characters and reports the double in_fval
 * (any bit pattern: finite, infinite, NaN). */
#include "contracts/C17_parse.h"
#include "x_parse_float.inc"

int verif_exc, verif_errno, g_base; unsigned g_ncalls;
size_t g_endoff, g_size, g_vk; bool g_neg, g_ovf; uint64_t g_mag; char g_stopch; double g_fval;

void h_parse_float(void) {
  const vstr* text; const void* id;
  size_t in_endoff, in_size; char in_stopch; double in_fval; int in_errno;
  g_endoff = in_endoff; g_size = in_size; g_stopch = in_stopch; g_fval = in_fval;
  verif_exc = EXC_none; verif_errno = in_errno; g_ncalls = 0;
  PF_NAME(id, text);
  VERIF_REACH();
}
