/* placeholder */
#define M4_CTOR_OUTER
#define M4_CTOR_INNER
#define M4_TR_OUTER
#define M4_TR_INNER
#define M4_MM_OUTER
#define M4_MM_MID
#define M4_MM_INNER
