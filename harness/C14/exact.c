/* C14: exact-size family and single-call readers (loop-free). */
#include "contracts/C14_io.h"
int verif_exc; C14_GHOSTS
#include "x_exact.c"

/* VERIF_SMALL: only for re-asking the verifier for a counterexample small enough to replay natively */
#ifdef VERIF_SMALL
#define SMALL __CPROVER_assume(in_src_len <= 4096 && in_pos <= 4096)
#define SMALL_SIZE(n) __CPROVER_assume((n) <= 4096)
#else
#define SMALL
#define SMALL_SIZE(n)
#endif
#define IN_GHOSTS size_t in_src_len, in_pos, in_vk, in_wpos; uint8_t in_sval, in_wval; SMALL; \
  g_src_len = in_src_len; g_pos = in_pos; g_vk = in_vk; g_wpos = in_wpos; g_sval = in_sval; g_wval = in_wval; \
  g_eof_seen = 0; g_err_seen = 0; g_chunk = 0; g_stream_fd_taken = 0; verif_exc = 0

void h_readx(void) { IN_GHOSTS; int in_fd; void* d; size_t in_size; SMALL_SIZE(in_size); phosg_readx(in_fd, d, in_size); VERIF_REACH(); }
void h_readx_str(void) { IN_GHOSTS; int in_fd; vstr* r; size_t in_size; SMALL_SIZE(in_size); phosg_readx_str(r, in_fd, in_size); VERIF_REACH(); }
void h_writex(void) { IN_GHOSTS; int in_fd; const void* d; size_t in_size; SMALL_SIZE(in_size); phosg_writex(in_fd, d, in_size); VERIF_REACH(); }
void h_writex_str(void) { IN_GHOSTS; int in_fd; const vstr* s; phosg_writex_str(in_fd, s); VERIF_REACH(); }
void h_preadx(void) { IN_GHOSTS; int in_fd; void* d; size_t in_size; off_t in_offset; SMALL_SIZE(in_size); phosg_preadx(in_fd, d, in_size, in_offset); VERIF_REACH(); }
void h_preadx_str(void) { IN_GHOSTS; int in_fd; vstr* r; size_t in_size; off_t in_offset; SMALL_SIZE(in_size); phosg_preadx_str(r, in_fd, in_size, in_offset); VERIF_REACH(); }
void h_pwritex(void) { IN_GHOSTS; int in_fd; const void* d; size_t in_size; off_t in_offset; SMALL_SIZE(in_size); phosg_pwritex(in_fd, d, in_size, in_offset); VERIF_REACH(); }
void h_pwritex_str(void) { IN_GHOSTS; int in_fd; const vstr* s; off_t in_offset; phosg_pwritex_str(in_fd, s, in_offset); VERIF_REACH(); }
void h_freadx(void) { IN_GHOSTS; C14_FILE* f; void* d; size_t in_size; SMALL_SIZE(in_size); phosg_freadx(f, d, in_size); VERIF_REACH(); }
void h_freadx_str(void) { IN_GHOSTS; C14_FILE* f; vstr* r; size_t in_size; SMALL_SIZE(in_size); phosg_freadx_str(r, f, in_size); VERIF_REACH(); }
void h_fwritex(void) { IN_GHOSTS; C14_FILE* f; const void* d; size_t in_size; SMALL_SIZE(in_size); phosg_fwritex(f, d, in_size); VERIF_REACH(); }
void h_fwritex_str(void) { IN_GHOSTS; C14_FILE* f; const vstr* s; phosg_fwritex_str(f, s); VERIF_REACH(); }
void h_fgetcx(void) { IN_GHOSTS; C14_FILE* f; phosg_fgetcx(f); VERIF_REACH(); }
void h_read_str(void) { IN_GHOSTS; int in_fd; vstr* r; size_t in_size; SMALL_SIZE(in_size); phosg_read_str(r, in_fd, in_size); VERIF_REACH(); }
void h_fread_str(void) { IN_GHOSTS; C14_FILE* f; vstr* r; size_t in_size; SMALL_SIZE(in_size); phosg_fread_str(r, f, in_size); VERIF_REACH(); }
void h_load_file(void) { IN_GHOSTS; ssize_t in_stat_size; g_stat_size = in_stat_size; vstr* r; const vstr* fn; phosg_load_file(r, fn); VERIF_REACH(); }
void h_save_file(void) { IN_GHOSTS; const vstr* fn; const void* d; size_t in_size; SMALL_SIZE(in_size); phosg_save_file(fn, d, in_size); VERIF_REACH(); }
void h_save_file_str(void) { IN_GHOSTS; const vstr* fn; const vstr* s; phosg_save_file_str(fn, s); VERIF_REACH(); }
