/* C20: gcd / reduce_fraction / log2i, one integer type per compilation (-DIntT=.. -DUIntT=.. -DW=.. -DSIGNED=.. -DSFX=..).
 * The function text is x_math.inc, cut from src/Math.hh on this run. */
#include "contracts/C20_math.h"
#include "x_math.inc"

void h_log2i(void) { IntT in_v; LOG2I_NAME(in_v); VERIF_REACH(); }

void h_gcd(void) {
  IntT in_a, in_b; UIntT in_d, in_d2;
  g_d = in_d; g_d2 = in_d2;
  GCD_NAME(in_a, in_b);
  VERIF_REACH();
}

#if defined(GCD_ABS) && GCD_ABS
void h_gcd_abs(void) {
  IntT in_a, in_b; UIntT in_d, in_d2; _Bool in_Da, in_Db;
  g_d = in_d; g_d2 = in_d2; g_Da = in_Da ? 1 : 0; g_Db = in_Db ? 1 : 0;   /* a nondet _Bool may hold any non-zero byte: normalise */
  GCD_NAME(in_a, in_b);
  VERIF_REACH();
}
#endif

void h_reduce_fraction(void) {
  IntT in_a, in_b; UIntT in_d, in_d2, in_e;
  g_d = in_d; g_d2 = in_d2; g_e = in_e;
  RF_NAME(in_a, in_b);
  VERIF_REACH();
}

/* lemma over the gcd contract: gcd(a,b) and gcd(b,a) have the same divisors (hence are equal up to sign) */
void l_gcd_commutes(void) {
  IntT in_a, in_b; UIntT in_d;
  __CPROVER_assume(NONNEG(in_a) && NONNEG(in_b) && in_d >= 1);   /* the contract's precondition */
  g_d = in_d; g_d2 = 1;
  IntT r1 = GCD_NAME(in_a, in_b);
  IntT r2 = GCD_NAME(in_b, in_a);
  __CPROVER_assert(DIVS(g_d, r1) == DIVS(g_d, r2), "d | gcd(a,b) <=> d | gcd(b,a)");
  VERIF_REACH();
}
