/* C04: contracts of JSON::escape_string (loop contract + function contract), of its loop body, and the ghost vocabulary of the
 * string lemmas.
 *
 * escape_string(s, mode) appends to `ret` (the local result string of the C++ function, an out-parameter here; g_base = its size
 * on entry) one group per character of s, in order and contiguously:  POS(0) = g_base, the group of s[k] occupies
 * [POS(k), POS(k+1)), POS(k+1) = POS(k) + C04_ESC_LEN(s[k], mode), its bytes are C04_ESC_BYTE(s[k], mode, 0..), POS(n) = final size.
 * Stated for one symbolic index g_ek (ghost index idiom): g_ech = s[g_ek]; (g_gl; g_g0..g_g5) = the group C04_ESC(g_ech, mode),
 * bound once by a ghost statement at function start so that the clauses mention scalars only; g_p0 = POS(g_ek) and
 * g_p1 = POS(g_ek + 1) are recorded by ghost statements (g_p0 at the start of iteration g_ek, g_p1 at the start of iteration
 * g_ek + 1 resp. behind the loop).  (g_cl; g_c0..g_c5) = the group of the character handled by the last execution of the loop body. */
#ifndef C04_STRING_H
#define C04_STRING_H
#include "stubs/C04_json.h"
#include "spec/C04_escape.h"

extern size_t g_ek, g_p0, g_p1, g_base;
extern char g_ech;
extern unsigned g_gl, g_cl;
extern char g_g0, g_g1, g_g2, g_g3, g_g4, g_g5, g_c0, g_c1, g_c2, g_c3, g_c4, g_c5;
extern int g_c04_dummy;

#ifdef VERIF_SMALL
#define C04_SMAX 8
#else
#define C04_SMAX 0x0FFFFFFFFFFFull
#endif

/* (L; B0..B5) := / == the group of byte b */
#define C04_SET_GROUP(L, B0, B1, B2, B3, B4, B5, b, mode) do { L = C04_ESC_LEN(b, mode); B0 = C04_ESC_BYTE(b, mode, 0); B1 = C04_ESC_BYTE(b, mode, 1); \
  B2 = C04_ESC_BYTE(b, mode, 2); B3 = C04_ESC_BYTE(b, mode, 3); B4 = C04_ESC_BYTE(b, mode, 4); B5 = C04_ESC_BYTE(b, mode, 5); } while (0)
#define C04_GROUP_IS(L, B0, B1, B2, B3, B4, B5, b, mode) (L == C04_ESC_LEN(b, mode) && B0 == C04_ESC_BYTE(b, mode, 0) && B1 == C04_ESC_BYTE(b, mode, 1) && \
  B2 == C04_ESC_BYTE(b, mode, 2) && B3 == C04_ESC_BYTE(b, mode, 3) && B4 == C04_ESC_BYTE(b, mode, 4) && B5 == C04_ESC_BYTE(b, mode, 5))
/* the L bytes at index p of the string are B0.. (L is 1, 2, 4 or 6) */
#define C04_BYTES_AT(str, p, L, B0, B1, B2, B3, B4, B5) \
  ((str)->data[p] == B0 && (L < 2 || (str)->data[(p) + 1] == B1) && (L < 4 || ((str)->data[(p) + 2] == B2 && (str)->data[(p) + 3] == B3)) && \
   (L < 6 || ((str)->data[(p) + 4] == B4 && (str)->data[(p) + 5] == B5)))
#define C04_G g_gl, g_g0, g_g1, g_g2, g_g3, g_g4, g_g5
#define C04_C g_cl, g_c0, g_c1, g_c2, g_c3, g_c4, g_c5
#define C04_GROUP_IS_(...) C04_GROUP_IS(__VA_ARGS__)
#define C04_SET_GROUP_(...) C04_SET_GROUP(__VA_ARGS__)
#define C04_BYTES_AT_(...) C04_BYTES_AT(__VA_ARGS__)

/* ghost statements (they assign ghosts only) */
#define C04_CHAR_GHOST C04_SET_GROUP_(C04_C, ch, mode)
#define C04_ESCAPE_INIT do { if (g_ek < s->size) { g_ech = s->data[g_ek]; C04_SET_GROUP_(C04_G, g_ech, mode); } } while (0)
#define C04_ESCAPE_GHOST do { if (verif_i == g_ek) { g_p0 = ret->size; } if (g_ek < verif_i && verif_i == g_ek + 1) { g_p1 = ret->size; } } while (0)
#define C04_ESCAPE_END do { if (g_ek < vstr_size(s) && vstr_size(s) == g_ek + 1) { g_p1 = ret->size; } } while (0)
#define C04_ESCAPE_GHOSTS g_p0, g_p1, C04_C

#define C04_ESCAPE_LOOP_INV(ret, s, i) \
  ((i) <= (s)->size && g_base + (i) <= (ret)->size && (ret)->size <= g_base + ((i) << 3) && (ret)->size <= (ret)->cap && \
   (g_ek < (i) ==> (g_base + g_ek <= g_p0 && g_p0 < (ret)->size && g_p0 + g_gl <= (ret)->size && (g_ek != 0 || g_p0 == g_base) && \
                    (g_ek + 1 == (i) ? (ret)->size == g_p0 + g_gl : g_p1 == g_p0 + g_gl))) && \
   (g_ek < (i) ==> C04_BYTES_AT_(ret, g_p0, C04_G)))

/* the body of the loop, for one character: appends exactly the group C04_ESC(ch, mode); the bytes below the old size are untouched */
void JSON_escape_char(vstr* ret, char ch, int mode)
__CPROVER_requires(__CPROVER_is_fresh(ret, sizeof(vstr)))
__CPROVER_requires(ret->cap <= VSTR_MAXCAP && ret->size <= ret->cap && 6 <= ret->cap - ret->size)
__CPROVER_requires(__CPROVER_is_fresh(ret->data, ret->cap))
__CPROVER_requires(mode >= 0 && mode <= 2)
__CPROVER_ensures(C04_GROUP_IS_(C04_C, ch, mode))
__CPROVER_ensures(ret->size == __CPROVER_old(ret->size) + g_cl)
__CPROVER_ensures(C04_BYTES_AT_(ret, __CPROVER_old(ret->size), C04_C))
__CPROVER_assigns(ret->size, __CPROVER_object_from(ret->data + ret->size), C04_C);

void JSON_escape_string(vstr* ret, const vstr* s, int mode)
__CPROVER_requires(__CPROVER_is_fresh(s, sizeof(vstr)))
__CPROVER_requires(s->size <= C04_SMAX && s->size <= s->cap && s->cap <= VSTR_MAXCAP)
__CPROVER_requires(__CPROVER_is_fresh(s->data, s->cap))
__CPROVER_requires(__CPROVER_is_fresh(ret, sizeof(vstr)))
__CPROVER_requires(ret->cap <= VSTR_MAXCAP && ret->size <= 8 && ret->size <= ret->cap && ret->size == g_base && (s->size << 3) <= ret->cap - ret->size)   /* room for 8 bytes per character (at most 6 are used); shifts instead of products keep the bounds linear */
__CPROVER_requires(__CPROVER_is_fresh(ret->data, ret->cap))
__CPROVER_requires(mode >= 0 && mode <= 2)
__CPROVER_ensures(g_base + s->size <= ret->size && ret->size <= g_base + (s->size << 3))
__CPROVER_ensures(g_ek < s->size ==> (g_ech == s->data[g_ek] && C04_GROUP_IS_(C04_G, g_ech, mode)))
__CPROVER_ensures(g_ek < s->size ==> (g_base + g_ek <= g_p0 && g_p0 < ret->size && g_p1 == g_p0 + g_gl && g_p1 <= ret->size))
__CPROVER_ensures(g_ek < s->size ==> C04_BYTES_AT_(ret, g_p0, C04_G))
__CPROVER_ensures((g_ek == 0 && s->size > 0) ==> g_p0 == g_base)
__CPROVER_ensures((g_ek < s->size && g_ek + 1 == s->size) ==> g_p1 == ret->size)
__CPROVER_ensures(s->size == 0 ==> ret->size == g_base)
__CPROVER_assigns(ret->size, __CPROVER_object_from(ret->data + ret->size), g_p0, g_p1, g_ech, C04_G, C04_C);   /* frame: the bytes below the old size are untouched */

#endif
