/* C10 specification of CRC-32, written from RFC 1952 section 8 ("Appendix: Sample CRC Code"), which defines the
 * CRC by its bit-serial table construction and its running (seedable) form:
 *
 *   make_crc_table:  for n in 0..255:  c = n;  repeat 8 times:  if (c & 1) c = 0xedb88320 ^ (c >> 1); else c = c >> 1;
 *                    crc_table[n] = c
 *   update_crc(crc, buf, len):  c = crc ^ 0xffffffff;
 *                               for n in 0..len-1:  c = crc_table[(c ^ buf[n]) & 0xff] ^ (c >> 8);
 *                               return c ^ 0xffffffff
 *   crc(buf, len) = update_crc(0, buf, len)       "the crc should be initialized to zero"; running use:
 *                                                  crc = update_crc(crc, next_chunk, len)
 *
 * Only expression macros (usable in ghost statements, clauses and natively in the replay driver). */
#ifndef C10_CRC32_SPEC_H
#define C10_CRC32_SPEC_H
#include <stdint.h>

#define C10_CRC32_POLY 0xedb88320u
/* one iteration of the inner loop of make_crc_table */
#define C10_CRC32_BIT(c) ((((uint32_t)(c)) & 1u) ? (C10_CRC32_POLY ^ (((uint32_t)(c)) >> 1)) : (((uint32_t)(c)) >> 1))
/* t = crc_table[n] as make_crc_table defines it; t is a uint32_t lvalue (comma expression: no statement, no loop) */
#define C10_CRC32_TABLE_ENTRY(t, n) \
  ((t) = (uint32_t)(n), (t) = C10_CRC32_BIT(t), (t) = C10_CRC32_BIT(t), (t) = C10_CRC32_BIT(t), (t) = C10_CRC32_BIT(t), \
   (t) = C10_CRC32_BIT(t), (t) = C10_CRC32_BIT(t), (t) = C10_CRC32_BIT(t), (t) = C10_CRC32_BIT(t), (t))
/* register on entry / value returned */
#define C10_CRC32_INIT(crc) (((uint32_t)(crc)) ^ 0xffffffffu)
#define C10_CRC32_FINAL(c) (((uint32_t)(c)) ^ 0xffffffffu)
/* table index used for the next octet, and the register update given the table entry te = crc_table[index] */
#define C10_CRC32_INDEX(c, octet) ((((uint32_t)(c)) ^ (uint32_t)(uint8_t)(octet)) & 0xffu)
#define C10_CRC32_UPDATE(c, te) (((uint32_t)(te)) ^ (((uint32_t)(c)) >> 8))
/* crc = 0 is the start value of a fresh checksum */
#define C10_CRC32_START 0u

#endif
