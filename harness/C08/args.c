/* C08: split_args in lock-step with the reference automaton. */
#include "harness/C08/common.h"
#include "contracts/C08_args.h"
size_t g_nnew, g_npush, g_z0; char g_pushval, g_c, g_c2, g_q0, g_quote; bool g_sp0, g_havenext, g_xerr;
#include "x_args.c"
void h_split_args(void) { vargs* ret; const vstr* s; IN_GHOSTS; split_args(ret, s); VERIF_REACH(); }
