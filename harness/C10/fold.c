/* C10: crc32, fnv1a32, fnv1a64.  The function text and the crc32_table are x_Hash_fold.c (extracted each run). */
#include "contracts/C10_fold.h"
#include "x_Hash_fold.c"
#include <stdlib.h>

int verif_exc;

/* Lemma harnesses allocate their buffers themselves.  An object of the cbmc memory model is smaller than
 * __CPROVER_max_malloc_size (2^(64 - object_bits) - 1) and cbmc 6 lets malloc fail by default: both facts are the
 * domain "the caller passes a buffer that exists"; the enforced contracts get the same domain from is_fresh. */
#define C10_BUFFER(p, n)                               \
  __CPROVER_assume((n) < __CPROVER_max_malloc_size);   \
  void* p = malloc(n);                                 \
  __CPROVER_assume(p != 0)

/* Table lemma (RFC 1952 make_crc_table): every entry of the real table is the 8-step bit-serial division of its index
 * by the reflected polynomial 0xedb88320 -- symbolic index, so all 256 entries. */
void l_crc32_table(void) {
  C10_TABLE_INIT();
  uint8_t in_i;
  uint32_t t;
  C10_CRC32_TABLE_ENTRY(t, in_i);
  __CPROVER_assert(crc32_table[in_i] == t, "crc32_table[i] == RFC 1952 make_crc_table entry i");
  VERIF_REACH();
}

/* crc32 of a buffer of symbolic length with a symbolic seed: the call continues the specification run that starts in
 * register INIT(seed) (= seed ^ 0xffffffff, RFC 1952 update_crc). */
void h_crc32(void) {
  C10_TABLE_INIT();
  size_t in_size;
  uint32_t in_cs;
  const void* data;
  g_crc = C10_CRC32_INIT(in_cs);
  g_n = 0;
  crc32(data, in_size, in_cs);
  VERIF_REACH();
}

/* one-argument form: the default seed is the RFC's start value 0, so the result is crc(buf, len) */
void l_crc32_default(void) {
  C10_TABLE_INIT();
  size_t in_size;
  C10_BUFFER(data, in_size);
  __CPROVER_assert(X_CRC32_DEFAULT_SEED == C10_CRC32_START, "default seed of crc32 is the RFC 1952 start value 0");
  g_crc = 0xffffffffu; /* register of a fresh RFC 1952 run */
  g_n = 0;
  uint32_t r = crc32(data, in_size, X_CRC32_DEFAULT_SEED);
  __CPROVER_assert(r == (g_crc ^ 0xffffffffu) && g_n == in_size, "crc32(buf, len) == update_crc(0, buf, len)");
  VERIF_REACH();
}

/* Chaining, over the contract: seeding the second call with the first result resumes the *same* specification run
 * (side condition ~~x == x), so after both calls the run has consumed a then b -- i.e. a||b -- and the second result is
 * what the specification returns for a||b from the original seed. */
void l_crc32_chain(void) {
  C10_TABLE_INIT();
  size_t in_na, in_nb;
  uint32_t in_seed;
  C10_BUFFER(a, in_na);
  C10_BUFFER(b, in_nb);
  g_crc = C10_CRC32_INIT(in_seed);
  g_n = 0;
  uint32_t r1 = crc32(a, in_na, in_seed);
  __CPROVER_assert(C10_CRC32_INIT(r1) == g_crc, "seeding with crc32(a) resumes the register where the run over a ended");
  uint32_t r2 = crc32(b, in_nb, r1);
  __CPROVER_assert(r2 == C10_CRC32_FINAL(g_crc), "crc32(b, seed = crc32(a, s)) is the value of the run over a||b from s");
  __CPROVER_assert(g_n == in_na + in_nb, "the run consumed |a| + |b| octets");
  VERIF_REACH();
}

#define FNV(W, T, GH)                                                                                          \
  void h_fnv1a##W(void) {                                                                                      \
    size_t in_size;                                                                                            \
    T in_hash;                                                                                                 \
    const void* data;                                                                                          \
    GH = in_hash;                                                                                              \
    g_n = 0;                                                                                                   \
    fnv1a##W(data, in_size, in_hash);                                                                          \
    VERIF_REACH();                                                                                             \
  }                                                                                                            \
  void l_fnv1a##W##_default(void) {                                                                            \
    size_t in_size;                                                                                            \
    C10_BUFFER(data, in_size);                                                                                 \
    __CPROVER_assert(X_FNV1A##W##_START == C10_FNV##W##_OFFSET_BASIS, "FNV1A_START is the FNV offset basis"); \
    __CPROVER_assert(X_FNV1A##W##_DEFAULT == C10_FNV##W##_OFFSET_BASIS && X_FNV1A##W##_DEFAULT_STR == C10_FNV##W##_OFFSET_BASIS, "the default seed of both overloads is the FNV offset basis"); \
    GH = C10_FNV##W##_OFFSET_BASIS;                                                                            \
    g_n = 0;                                                                                                   \
    T r = fnv1a##W(data, in_size, X_FNV1A##W##_DEFAULT);                                                       \
    __CPROVER_assert(r == GH && g_n == in_size, "fnv1a(buf) == FNV-1a recurrence from the offset basis");      \
    VERIF_REACH();                                                                                             \
  }                                                                                                            \
  void l_fnv1a##W##_chain(void) {                                                                              \
    size_t in_na, in_nb;                                                                                       \
    T in_seed;                                                                                                 \
    C10_BUFFER(a, in_na);                                                                                      \
    C10_BUFFER(b, in_nb);                                                                                      \
    GH = in_seed;                                                                                              \
    g_n = 0;                                                                                                   \
    T r1 = fnv1a##W(a, in_na, in_seed);                                                                        \
    __CPROVER_assert(r1 == GH, "seeding with fnv1a(a) resumes the recurrence where a ended");                  \
    T r2 = fnv1a##W(b, in_nb, r1);                                                                             \
    __CPROVER_assert(r2 == GH, "fnv1a(b, seed = fnv1a(a, s)) is the value of the recurrence over a||b from s"); \
    __CPROVER_assert(g_n == in_na + in_nb, "the recurrence consumed |a| + |b| octets");                        \
    VERIF_REACH();                                                                                             \
  }
FNV(32, uint32_t, g_h32)
#define FNVSTR(W, T, GH)                  \
  void h_fnv1a##W##_str(void) {           \
    T in_hash;                            \
    const C10_str* s;                     \
    GH = in_hash;                         \
    g_n = 0;                              \
    fnv1a##W##_str(s, in_hash);           \
    VERIF_REACH();                        \
  }
FNVSTR(32, uint32_t, g_h32)
FNVSTR(64, uint64_t, g_h64)
FNV(64, uint64_t, g_h64)
