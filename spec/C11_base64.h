/* C11 specification macros: base64 per RFC 4648 (written from the RFC text, not from src/Encoding.cc).
 *
 * RFC 4648 section 4, Table 1 ("The Base 64 Alphabet"):  value 0..25 -> 'A'..'Z', 26..51 -> 'a'..'z', 52..61 -> '0'..'9',
 *   62 -> '+', 63 -> '/', (pad) '='.  Section 5, Table 2 ("URL and Filename safe"): identical except 62 -> '-', 63 -> '_'.
 * Encoding (section 4): input octets are taken in groups of 24 bits (3 octets), most significant bit first, and cut into
 *   four 6-bit values.  Final quantum of 8 bits: two characters + "==" ; of 16 bits: three characters + "=" ; the
 *   missing low bits are zero.
 * Decoding is the inverse; section 3.3: characters outside the alphabet are rejected; padding only at the end.
 * `url` selects table 2.  All macros are over scalar values (never over dereferences). */
#ifndef SPEC_C11_BASE64_H
#define SPEC_C11_BASE64_H

/* Table 1 / Table 2: 6-bit value -> character */
#define B64_CHAR(v, url) ((char)( (v) < 26 ? 'A' + (v) : (v) < 52 ? 'a' + ((v) - 26) : (v) < 62 ? '0' + ((v) - 52) : \
                                  (v) == 62 ? ((url) ? '-' : '+') : ((url) ? '_' : '/') ))
/* inverse reading of the same tables: character (as unsigned octet) -> value; B64_PAD for '=', B64_BAD for anything else */
#define B64_PAD 0x80
#define B64_BAD 0xFF
#define B64_VAL(c, url)  ( ((c) >= 'A' && (c) <= 'Z') ? (c) - 'A' : ((c) >= 'a' && (c) <= 'z') ? (c) - 'a' + 26 : \
                           ((c) >= '0' && (c) <= '9') ? (c) - '0' + 52 : (c) == ((url) ? '-' : '+') ? 62 : \
                           (c) == ((url) ? '_' : '/') ? 63 : (c) == '=' ? B64_PAD : B64_BAD )
#define B64_IN(c, url) (B64_VAL(c, url) < 64)     /* c is one of the 64 alphabet characters */

/* ---- encoding of one 24-bit group: b0,b1,b2 the octets, n = number of octets present in the group (1..3) ---- */
#define B64_ENC0(b0, b1, b2, n, url) B64_CHAR(((b0) >> 2) & 0x3F, url)
#define B64_ENC1(b0, b1, b2, n, url) B64_CHAR((((b0) & 0x03) << 4) | ((n) >= 2 ? (((b1) >> 4) & 0x0F) : 0), url)
#define B64_ENC2(b0, b1, b2, n, url) ((n) >= 2 ? B64_CHAR((((b1) & 0x0F) << 2) | ((n) >= 3 ? (((b2) >> 6) & 0x03) : 0), url) : '=')
#define B64_ENC3(b0, b1, b2, n, url) ((n) >= 3 ? B64_CHAR((b2) & 0x3F, url) : '=')

/* ---- decoding of one 4-character block c0..c3 (octets); last = it is the final block of the text ---- */
#define B64_FULL(c0, c1, c2, c3, url)  (B64_IN(c0, url) && B64_IN(c1, url) && B64_IN(c2, url) && B64_IN(c3, url))
#define B64_PAD2(c0, c1, c2, c3, url)  (B64_IN(c0, url) && B64_IN(c1, url) && (c2) == '=' && (c3) == '=')      /* xx== */
#define B64_PAD1(c0, c1, c2, c3, url)  (B64_IN(c0, url) && B64_IN(c1, url) && B64_IN(c2, url) && (c3) == '=')  /* xxx= */
/* strictness: a block is acceptable iff all four characters are in the alphabet, or it is the last block and ends in
 * one or two pad characters preceded by alphabet characters only */
#define B64_BLOCK_OK(c0, c1, c2, c3, last, url) (B64_FULL(c0, c1, c2, c3, url) || \
                                                 ((last) && (B64_PAD2(c0, c1, c2, c3, url) || B64_PAD1(c0, c1, c2, c3, url))))
/* number of octets an acceptable block decodes to */
#define B64_NOUT(c2, c3) ((c3) == '=' ? ((c2) == '=' ? 1 : 2) : 3)
/* decoded octets (defined when the characters used are in the alphabet) */
#define B64_DEC0(c0, c1, url) ((uint8_t)((B64_VAL(c0, url) << 2) | (B64_VAL(c1, url) >> 4)))
#define B64_DEC1(c1, c2, url) ((uint8_t)(((B64_VAL(c1, url) & 0x0F) << 4) | (B64_VAL(c2, url) >> 2)))
#define B64_DEC2(c2, c3, url) ((uint8_t)(((B64_VAL(c2, url) & 0x03) << 6) | B64_VAL(c3, url)))

#endif
