/* C05: abstract model of a phosg::JSON value (TRUSTED stub, own to C05).
 * Only what the parser's control flow and the property talk about is kept: the kind, the scalar payload, the number of
 * elements a container received, and for strings the length plus the byte at one ghost index (g_sk).
 * The real JSON class (std::variant of null/bool/int64/double/string/list/dict with unique_ptr children) is dropped:
 * element storage, ownership and hashing are libstdc++ and are not verified here. */
#ifndef STUBS_C05_JVAL_H
#define STUBS_C05_JVAL_H
#include "contracts/verif.h"
#include "stubs/vstr.h"
#include <stdlib.h>

enum { JV_NULL = 0, JV_BOOL = 1, JV_INT = 2, JV_FLOAT = 3, JV_STRING = 4, JV_LIST = 5, JV_DICT = 6 };
typedef struct { int kind; int64_t i; double d; bool b; size_t count; bool is_string; uint8_t sk_byte; } JVal;

extern size_t g_sk;      /* ghost index into a decoded string ("every decoded byte") */

/* `JSON ret;` -- default constructed value is null */
static inline void jv_init(JVal* v) { v->kind = JV_NULL; v->i = 0; v->d = 0; v->b = 0; v->count = 0; v->is_string = 0; v->sk_byte = 0; }
static inline void jv_set_null(JVal* v) { jv_init(v); }
static inline void jv_set_bool(JVal* v, bool b) { jv_init(v); v->kind = JV_BOOL; v->b = b; }
static inline void jv_set_int(JVal* v, int64_t i) { jv_init(v); v->kind = JV_INT; v->i = i; }
static inline void jv_set_float(JVal* v, double d) { jv_init(v); v->kind = JV_FLOAT; v->d = d; }
/* `ret = std::move(data);` -- string value: length and the byte at the ghost index */
static inline void jv_set_string(JVal* v, const vstr* s)
{ jv_init(v); v->kind = JV_STRING; v->is_string = 1; v->count = s->size; if (g_sk < s->size) v->sk_byte = (uint8_t)s->data[g_sk]; }
static inline void jv_set_list(JVal* v) { jv_init(v); v->kind = JV_LIST; }
static inline void jv_set_dict(JVal* v) { jv_init(v); v->kind = JV_DICT; }
/* emplace_back / emplace: one more member was handed to the container (duplicate keys are not modelled: count is the
 * number of members parsed) */
static inline void jv_list_append(JVal* v) { v->count++; }
static inline void jv_dict_emplace(JVal* v) { v->count++; }
/* JSON::is_string() of the key */
static inline bool jv_is_string(const JVal* v) { return v->is_string; }

/* the local `std::string data` of the string branch: allocation succeeds, capacity `cap` */
static inline void vstr_local_init(vstr* s, size_t cap)
{ s->data = (char*)malloc(cap); __CPROVER_assume(s->data != 0); s->size = 0; s->cap = cap; }

/* <ctype.h> in the "C" locale (ISO C 7.4.1.5 / 7.4.1.12); the argument is the (possibly negative) plain char promoted to int */
static inline int verif_isdigit(int c) { return c >= '0' && c <= '9'; }
static inline int verif_isxdigit(int c) { return (c >= '0' && c <= '9') || (c >= 'a' && c <= 'f') || (c >= 'A' && c <= 'F'); }
#endif
