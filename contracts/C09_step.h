/* C09 O-4 / O-1: ONE iteration of parse_data_string's loop (extracted with Unit.block as pds_step over the parser state) against
 * the transition function that the documented syntax defines.  Every state variable has its own next-state clause, so the
 * contract is a complete description of the step; the output clauses say which bytes each construct appends.
 *
 *   text position `in`: g_n >= 1 characters remain, in[g_n] == 0 is the terminator, in[0] != 0 on entry (= the loop condition)
 *   C0 = in[0], C1 = in[1] (C1 is only meaningful because C0 != 0), C2/C3 = in[2]/in[3] when the preceding characters are not NUL
 */
#ifndef C09_STEP_H
#define C09_STEP_H
#include "stubs/C09_str.h"
#include "contracts/C09_glue.h"
#include "contracts/C03_leaf.h"
#ifndef C09_TAIL_MODEL
#error "the step contract is written over the append-only string model (compile with -DC09_TAIL_MODEL)"
#endif

/* parser state: the locals of parse_data_string that live across iterations (names and types from the source) */
extern const char* in; extern uint8_t chr;
extern bool reading_string, reading_unicode_string, reading_comment, reading_multiline_comment, reading_high_nybble, reading_filename;
extern bool big_endian, mask_enabled, allow_files;
extern OUT_STR* data; extern OUT_STR* mask; extern vstr filename;

/* ghosts fixed by the preconditions */
extern size_t g_n;                                  /* remaining text: in[g_n] == 0 is the terminator (g_end) */
extern char g_c0, g_c1, g_c2, g_c3;                 /* the characters at in[0..3] (0 after the first NUL) */
extern size_t g_j;                                  /* ghost index into the bytes appended by this step */

#define O(x) __CPROVER_old(x)
#define C0 g_c0
#define C1 g_c1
#define C2 g_c2
#define C3 g_c3

/* ---- the syntax ------------------------------------------------------------------------------------------------------ */
#define IS_HEX(c) (((c) >= '0' && (c) <= '9') || ((c) >= 'A' && (c) <= 'F') || ((c) >= 'a' && (c) <= 'f'))
#define HEXVAL(c) ((uint8_t)((c) <= '9' ? (c) - '0' : (c) <= 'F' ? (c) - 'A' + 10 : (c) - 'a' + 10))
/* escapes inside "..." : \n \r \t are the control characters, any other character stands for itself (\" \' \\) */
#define UNESC(c) ((c) == 'n' ? '\n' : (c) == 'r' ? '\r' : (c) == 't' ? '\t' : (c))
/* number of '#' (1..4) and the width they select: # 8-bit, ## 16-bit, ### 32-bit, #### 64-bit */
#define NHASH (C1 != '#' ? 1 : C2 != '#' ? 2 : C3 != '#' ? 3 : 4)
#define WHASH (C1 != '#' ? 1 : C2 != '#' ? 2 : C3 != '#' ? 4 : 8)
/* % float (4 bytes), %% double (8 bytes) */
#define NPCT (C1 != '%' ? 1 : 2)
#define WPCT (C1 != '%' ? 4 : 8)

/* modes at entry */
#define M_RC O(reading_comment)
#define M_RMC O(reading_multiline_comment)
#define M_RS O(reading_string)
#define M_RUS O(reading_unicode_string)
#define M_N (!M_RC && !M_RMC && !M_RS && !M_RUS)        /* between constructs */
#define M_STR (M_RS || M_RUS)

/* characters consumed (for # and %: at least the markers, then whatever the number scanner takes) */
#define ADV (M_RC ? 1 : M_RMC ? ((C0 == '*' && C1 == '/') ? 2 : 1) : M_STR ? (C0 != '\\' ? 1 : C1 != 0 ? 2 : 0) : 1)
#define IS_NUM (M_N && (C0 == '#' || C0 == '%'))
/* bytes appended */
#define NOUT (M_RS ? ((C0 == '"' || (C0 == '\\' && C1 == 0)) ? 0 : 1) \
            : M_RUS ? ((C0 == '\'' || (C0 == '\\' && C1 == 0)) ? 0 : 2) \
            : !M_N ? 0 : C0 == '#' ? WHASH : C0 == '%' ? WPCT : (IS_HEX(C0) && !O(reading_high_nybble)) ? 1 : 0)
/* the value a numeric construct appends, as an integer of NOUT bytes */
#define NUMVAL (C0 == '#' ? (uint64_t)g_num : C1 == '%' ? D2U(g_dbl) : (uint64_t)F2U(g_flt))
/* the 16-bit code unit of a character inside '...' : the byte, zero-extended */
#define WIDE(c) ((uint16_t)(uint8_t)(c))
/* byte j of an n-byte numeral v in the selected byte order (big_endian is toggled by $; the default is little-endian) */
#define ORDERED_BYTE(v, n, j, be) VBYTE(v, (be) ? (n) - 1 - (j) : (j))
#define OUTBYTE(j) ((uint8_t)(M_RS ? (C0 == '\\' ? UNESC(C1) : C0) \
                  : M_RUS ? ORDERED_BYTE(WIDE(C0 == '\\' ? UNESC(C1) : C0), 2, j, O(big_endian)) \
                  : (C0 == '#' || C0 == '%') ? ORDERED_BYTE(NUMVAL, NOUT, j, O(big_endian)) \
                  : (O(chr) | HEXVAL(C0))))

/* The high byte of the code unit of a character >= 0x80 inside '...' is judged by its own obligation group
 * (parse_data_string.wide_char: zero extension, independent of the signedness of char), not by the step contract. */
#define WIDE_CH ((char)(C0 == '\\' ? UNESC(C1) : C0))
#define WIDE_HIGH_OF_NEGATIVE(j) (M_RUS && WIDE_CH < 0 && (j) == (O(big_endian) ? 0 : 1))

/* output strings (append-only model, stubs/C09_str.h): window empty on entry, room for one step */
#define OUT_REQ(s) __CPROVER_requires(__CPROVER_is_fresh(s, sizeof(OUT_STR))) \
                   __CPROVER_requires((s)->nw == 0 && (s)->cap <= VSTR_MAXCAP && (s)->size <= (s)->cap && (s)->cap - (s)->size >= C09_WIN)
#ifdef MASK_NULL
#define STEP_MASK_REQ __CPROVER_requires(mask == 0)
#define STEP_MASK_ENS
#define STEP_MASK_ASSIGNS
#else
#define STEP_MASK_REQ OUT_REQ(mask)
#define STEP_MASK_ENS __CPROVER_ensures(mask->size == O(mask->size) + NOUT && mask->nw == NOUT) \
                      __CPROVER_ensures(g_j < NOUT ==> (uint8_t)mask->w[g_j] == PDS_MASK_BYTE(O(mask_enabled)))
#define STEP_MASK_ASSIGNS , mask->size, mask->nw, mask->first, __CPROVER_object_upto(mask->w, C09_WIN)
#endif

/* the remaining text is an object of its own when the step is verified; at the call inside parse_data_string it is the tail of
 * the text object (is_fresh cannot describe a pointer into the middle of an object) */
#ifdef STEP_AT_CALL_SITE
#define STEP_TEXT_REQ __CPROVER_requires(__CPROVER_r_ok(in, g_n + 1))
#else
/* g_s_*: copies of the entry state for the counterexample -> native replay path (replay/C09/datastring.cc, mode step) */
extern bool g_s_rc, g_s_rmc, g_s_rs, g_s_rus, g_s_high, g_s_be, g_s_me; extern uint8_t g_s_chr;
#define STEP_TEXT_REQ __CPROVER_requires(__CPROVER_is_fresh(in, g_n + 1)) \
  __CPROVER_requires(g_s_rc == reading_comment && g_s_rmc == reading_multiline_comment && g_s_rs == reading_string && g_s_rus == reading_unicode_string) \
  __CPROVER_requires(g_s_high == reading_high_nybble && g_s_be == big_endian && g_s_me == mask_enabled && g_s_chr == chr)
#endif

void pds_step(void)
/* the text, the position, the look-ahead ghosts */
__CPROVER_requires(g_n >= 1 && g_n <= PDS_MAXTEXT)
STEP_TEXT_REQ
__CPROVER_requires(in[g_n] == 0 && g_end == in + g_n)
__CPROVER_requires(g_c0 == in[0] && g_c0 != 0 && g_c1 == in[1])
__CPROVER_requires(g_c2 == (g_c1 == 0 ? 0 : in[2]))
__CPROVER_requires(g_c3 == (g_c2 == 0 ? 0 : in[3]))
OUT_REQ(data)
STEP_MASK_REQ
/* state invariants */
__CPROVER_requires(PDS_B01(reading_string) && PDS_B01(reading_unicode_string) && PDS_B01(reading_comment) && PDS_B01(reading_multiline_comment))
__CPROVER_requires(PDS_B01(reading_high_nybble) && PDS_B01(big_endian) && PDS_B01(mask_enabled))
__CPROVER_requires(!allow_files && !reading_filename && verif_exc == 0 && !g_returned && g_st_calls == 0 && g_load_calls == 0)
__CPROVER_requires(PDS_MODES_OK(reading_comment, reading_multiline_comment, reading_string, reading_unicode_string))
__CPROVER_requires(PDS_NYBBLE_OK(reading_high_nybble, chr))
/* ---- state invariants are kept, no exception, no file access -------------------------------------------------------- */
__CPROVER_ensures(!reading_filename && verif_exc == 0 && g_load_calls == 0)
__CPROVER_ensures(PDS_MODES_OK(reading_comment, reading_multiline_comment, reading_string, reading_unicode_string))
__CPROVER_ensures(PDS_NYBBLE_OK(reading_high_nybble, chr))
/* ---- next state, one clause per variable ----------------------------------------------------------------------------- */
__CPROVER_ensures(reading_comment == (M_RC ? C0 != '\n' : (M_N && C0 == '/' && C1 == '/')))                 /* // ... newline */
__CPROVER_ensures(reading_multiline_comment == (M_RMC ? !(C0 == '*' && C1 == '/') : (M_N && C0 == '/' && C1 == '*')))
__CPROVER_ensures(reading_string == (M_RS ? C0 != '"' : (M_N && C0 == '"')))                                 /* "..." */
__CPROVER_ensures(reading_unicode_string == (M_RUS ? C0 != '\'' : (M_N && C0 == '\'')))                     /* '...' */
__CPROVER_ensures(mask_enabled == (O(mask_enabled) != (M_N && C0 == '?')))                                   /* ? toggles the mask */
__CPROVER_ensures(big_endian == (O(big_endian) != (M_N && C0 == '$')))                                       /* $ toggles the byte order */
__CPROVER_ensures(reading_high_nybble == (O(reading_high_nybble) != (M_N && IS_HEX(C0))))
__CPROVER_ensures(chr == ((M_N && IS_HEX(C0)) ? (O(reading_high_nybble) ? HEXVAL(C0) << 4 : 0) : O(chr)))
__CPROVER_ensures(g_returned == (M_STR && C0 == '\\' && C1 == 0))                  /* a backslash at the very end stops the parser */
/* ---- position: stays inside the text, moves forward (except on the stop above) ------------------------------------ */
__CPROVER_ensures(__CPROVER_same_object(in, g_end) && __CPROVER_POINTER_OFFSET(in) <= __CPROVER_POINTER_OFFSET(g_end))
__CPROVER_ensures(!IS_NUM ==> (in == O(in) + ADV && g_st_calls == 0))
__CPROVER_ensures(IS_NUM ==> (g_st_calls == 1 && g_st_arg == O(in) + (C0 == '#' ? NHASH : NPCT) && in == g_st_end))
__CPROVER_ensures(IS_NUM ==> (g_st_kind == (C0 == '#' ? 1 : C1 == '%' ? 2 : 3) && (C0 == '#' ==> g_st_base == 0)))
__CPROVER_ensures(g_returned || __CPROVER_POINTER_OFFSET(in) > __CPROVER_POINTER_OFFSET(O(in)))
/* ---- output ---------------------------------------------------------------------------------------------------------- */
__CPROVER_ensures(data->size == O(data->size) + NOUT && data->nw == NOUT)
__CPROVER_ensures(NOUT <= 4 * (__CPROVER_POINTER_OFFSET(in) - __CPROVER_POINTER_OFFSET(O(in))))
__CPROVER_ensures((g_j < NOUT && !WIDE_HIGH_OF_NEGATIVE(g_j)) ==> (uint8_t)data->w[g_j] == OUTBYTE(g_j))
STEP_MASK_ENS
__CPROVER_assigns(in, chr, reading_string, reading_unicode_string, reading_comment, reading_multiline_comment, reading_high_nybble,
                  big_endian, mask_enabled, g_returned,
                  g_st_calls, g_st_arg, g_st_end, g_st_base, g_st_kind, g_num, g_dbl, g_flt,
                  data->size, data->nw, data->first, __CPROVER_object_upto(data->w, C09_WIN) STEP_MASK_ASSIGNS);

#endif
