/* C10 TRUSTED stubs (assumed contracts on dependencies of src/Hash.cc; DESIGN.md 3.2).
 *
 *  - C10_writer: model of phosg::StringWriter as used by the MD5/SHA1/SHA256 constructors (padding tail) and bin().
 *    The real class is the subject of property C01; here each member used by Hash.cc is a *declaration with a contract*
 *    (never a body) that is used with --replace-call-with-contract.  The content of the writer is described through
 *    ONE ghost position g_wi (symbolic, fixed by the harness): each contract says what byte g_wi holds afterwards
 *    (new data / unchanged); this is weaker than the real class (everything not said is havocked), hence sound to assume.
 *       write(p, n)        append the n bytes at p                          (std::string::append(p, n))
 *       put_u8(v)          append one byte
 *       put_u32l/put_u32b  append the 4-byte little/big-endian encoding     (put<le_uint32_t> / put<be_uint32_t>)
 *       extend_to(n, c)    std::string::resize(n, c)
 *       pput_u64l/pput_u64b(off, v)   grow with zero bytes to off + 8 if shorter, then store the 8-byte
 *                          little/big-endian encoding of v at off           (pput<le_uint64_t> / pput<be_uint64_t>)
 *       size(), data()     accessors (plain bodies)
 *    Modelling limit: the buffer is a fixed array of C10_WCAP bytes; a call that would exceed it violates a precondition
 *    (reported as "proof does not go through", never silently accepted).  Hash.cc never holds more than 128 bytes.
 *  - le_uint32_t conversion (MD5 reads the block through `const le_uint32_t*`): returns the little-endian numeral of
 *    the 4 stored bytes on every host -- proved by C03 (group Encoding.converted_endian[le_uint32_t].conv).
 *  - C10_string_printf_N: phosg::string_printf restricted to the formats Hash.cc uses: N conversions "%08X"
 *    (PRIX32 == "X" with 32-bit unsigned int), output = for each argument in order its 8 upper-case hexadecimal digits,
 *    most significant first (ISO C fprintf: X conversion, 0 flag, width 8), described through ghost position g_hi. */
#ifndef C10_WRITER_H
#define C10_WRITER_H
#include "contracts/verif.h"

#define C10_WCAP 256

typedef struct {
  uint8_t data[C10_WCAP];
  size_t size;
} C10_writer;

size_t g_wi; /* ghost position inside the writer's string */
/* the byte at the ghost position; the index is reduced into the array so that the expression is defined for every g_wi
 * (C10_WCAP is a power of two; every clause that uses it is guarded by g_wi < size <= C10_WCAP, where it is data[g_wi]) */
#define C10_WAT(w) ((w)->data[g_wi & (C10_WCAP - 1)])
size_t g_hi; /* ghost position inside the formatted string */

void C10_writer_init(C10_writer* w)
__CPROVER_requires(__CPROVER_w_ok(w, sizeof(C10_writer)))
__CPROVER_ensures(w->size == 0)
__CPROVER_assigns(__CPROVER_object_whole(w));

static inline size_t C10_writer_size(const C10_writer* w) { return w->size; }
static inline const char* C10_writer_data(const C10_writer* w) { return (const char*)w->data; }

void C10_writer_write(C10_writer* w, const void* p, size_t n)
__CPROVER_requires(__CPROVER_w_ok(w, sizeof(C10_writer)) && w->size <= C10_WCAP && n <= C10_WCAP - w->size)
__CPROVER_requires(__CPROVER_r_ok(p, n))
__CPROVER_ensures(w->size == __CPROVER_old(w->size) + n)
__CPROVER_ensures(g_wi < __CPROVER_old(w->size) ==> C10_WAT(w) == __CPROVER_old(C10_WAT(w)))
__CPROVER_ensures((g_wi >= __CPROVER_old(w->size) && g_wi < w->size) ==> C10_WAT(w) == ((const uint8_t*)p)[g_wi - __CPROVER_old(w->size)])
__CPROVER_assigns(__CPROVER_object_whole(w));

void C10_writer_put_u8(C10_writer* w, uint8_t v)
__CPROVER_requires(__CPROVER_w_ok(w, sizeof(C10_writer)) && w->size < C10_WCAP)
__CPROVER_ensures(w->size == __CPROVER_old(w->size) + 1)
__CPROVER_ensures(g_wi < __CPROVER_old(w->size) ==> C10_WAT(w) == __CPROVER_old(C10_WAT(w)))
__CPROVER_ensures(g_wi == __CPROVER_old(w->size) ==> C10_WAT(w) == v)
__CPROVER_assigns(__CPROVER_object_whole(w));

#define C10_PUT32(NAME, BYTEK)                                                                                           \
  void NAME(C10_writer* w, uint32_t v)                                                                                   \
  __CPROVER_requires(__CPROVER_w_ok(w, sizeof(C10_writer)) && w->size <= C10_WCAP - 4)                                   \
  __CPROVER_ensures(w->size == __CPROVER_old(w->size) + 4)                                                               \
  __CPROVER_ensures(g_wi < __CPROVER_old(w->size) ==> C10_WAT(w) == __CPROVER_old(C10_WAT(w)))                     \
  __CPROVER_ensures((g_wi >= __CPROVER_old(w->size) && g_wi < w->size) ==> C10_WAT(w) == BYTEK(v, g_wi - __CPROVER_old(w->size))) \
  __CPROVER_assigns(__CPROVER_object_whole(w));
/* byte k (0..n-1) in memory order of the little / big-endian encoding of an n-byte value */
#define C10_LE_BYTE(v, k) VBYTE(v, k)
#define C10_BE32_BYTE(v, k) VBYTE(v, 3 - (k))
#define C10_BE64_BYTE(v, k) VBYTE(v, 7 - (k))
C10_PUT32(C10_writer_put_u32l, C10_LE_BYTE)
C10_PUT32(C10_writer_put_u32b, C10_BE32_BYTE)

void C10_writer_extend_to(C10_writer* w, size_t n, char c)
__CPROVER_requires(__CPROVER_w_ok(w, sizeof(C10_writer)) && w->size <= C10_WCAP && n <= C10_WCAP)
__CPROVER_ensures(w->size == n)
__CPROVER_ensures((g_wi < __CPROVER_old(w->size) && g_wi < n) ==> C10_WAT(w) == __CPROVER_old(C10_WAT(w)))
__CPROVER_ensures((g_wi >= __CPROVER_old(w->size) && g_wi < n) ==> C10_WAT(w) == (uint8_t)c)
__CPROVER_assigns(__CPROVER_object_whole(w));

#define C10_PPUT64(NAME, BYTEK)                                                                                          \
  void NAME(C10_writer* w, size_t off, uint64_t v)                                                                       \
  __CPROVER_requires(__CPROVER_w_ok(w, sizeof(C10_writer)) && w->size <= C10_WCAP && off <= C10_WCAP - 8)                \
  __CPROVER_ensures(w->size == ((off + 8 > __CPROVER_old(w->size)) ? off + 8 : __CPROVER_old(w->size)))                  \
  __CPROVER_ensures((g_wi >= off && g_wi < off + 8) ==> C10_WAT(w) == BYTEK(v, g_wi - off))                           \
  __CPROVER_ensures((g_wi < __CPROVER_old(w->size) && (g_wi < off || g_wi >= off + 8)) ==> C10_WAT(w) == __CPROVER_old(C10_WAT(w))) \
  __CPROVER_ensures((g_wi >= __CPROVER_old(w->size) && g_wi < off) ==> C10_WAT(w) == 0)                               \
  __CPROVER_assigns(__CPROVER_object_whole(w));
C10_PPUT64(C10_writer_pput_u64l, C10_LE_BYTE)
C10_PPUT64(C10_writer_pput_u64b, C10_BE64_BYTE)
/* the other widths of the same family, so that a variant of the code that stores the length field differently still
 * reaches the verifier (which then judges it against the standard's padding rule) instead of breaking the extraction */
#define C10_PPUTN(NAME, T, N, BYTEK)                                                                                     \
  void NAME(C10_writer* w, size_t off, T v)                                                                              \
  __CPROVER_requires(__CPROVER_w_ok(w, sizeof(C10_writer)) && w->size <= C10_WCAP && off <= C10_WCAP - N)                \
  __CPROVER_ensures(w->size == ((off + N > __CPROVER_old(w->size)) ? off + N : __CPROVER_old(w->size)))                  \
  __CPROVER_ensures((g_wi >= off && g_wi < off + N) ==> C10_WAT(w) == BYTEK(v, g_wi - off))                           \
  __CPROVER_ensures((g_wi < __CPROVER_old(w->size) && (g_wi < off || g_wi >= off + N)) ==> C10_WAT(w) == __CPROVER_old(C10_WAT(w))) \
  __CPROVER_ensures((g_wi >= __CPROVER_old(w->size) && g_wi < off) ==> C10_WAT(w) == 0)                               \
  __CPROVER_assigns(__CPROVER_object_whole(w));
#define C10_BE16_BYTE(v, k) VBYTE(v, 1 - (k))
C10_PPUTN(C10_writer_pput_u32l, uint32_t, 4, C10_LE_BYTE)
C10_PPUTN(C10_writer_pput_u32b, uint32_t, 4, C10_BE32_BYTE)
C10_PPUTN(C10_writer_pput_u16l, uint16_t, 2, C10_LE_BYTE)
C10_PPUTN(C10_writer_pput_u16b, uint16_t, 2, C10_BE16_BYTE)
C10_PPUTN(C10_writer_pput_u8, uint8_t, 1, C10_LE_BYTE)

/* le_uint32_t: C03 proves conv == little-endian numeral of the stored bytes */
typedef struct __attribute__((packed)) { uint32_t value; } le_uint32_t;
static inline uint32_t le_uint32_t_conv(const le_uint32_t* self) { return (uint32_t)DEC_LE32(self); }

/* string_printf("%08X" x N, a0..a(N-1)) */
typedef struct {
  char data[72];
  size_t size;
} C10_hexstr;
#define C10_HEXDIGIT(n) ((char)(((n) & 15u) < 10u ? ('0' + ((n) & 15u)) : ('A' + (((n) & 15u) - 10u))))
/* character j (0..7) of the "%08X" rendering of the 32-bit value a */
#define C10_08X_CHAR(a, j) C10_HEXDIGIT(((uint32_t)(a)) >> (4 * (7 - (j))))
#define C10_FMT_IS_08X(fmt, i) ((fmt)[4 * (i)] == '%' && (fmt)[4 * (i) + 1] == '0' && (fmt)[4 * (i) + 2] == '8' && (fmt)[4 * (i) + 3] == 'X')
#define C10_ARGSEL4(k, a0, a1, a2, a3) ((k) == 0 ? (a0) : (k) == 1 ? (a1) : (k) == 2 ? (a2) : (a3))

/* string_printf with ONE conversion, executable model (ISO C 7.21.6.1, conversion X of an unsigned int): "%08X" = exactly 8 digits,
 * zero-padded; "%X" = the minimal number of digits (at least one); any other format is outside the stub (assertion) */
static inline void C10_string_printf_1(C10_hexstr* ret, const char* fmt, uint32_t a)
{
  int padded = fmt[0] == '%' && fmt[1] == '0' && fmt[2] == '8' && fmt[3] == 'X' && fmt[4] == 0;
  int plain = fmt[0] == '%' && fmt[1] == 'X' && fmt[2] == 0;
  __CPROVER_assert(padded || plain, "string_printf stub: single-conversion format is %08X or %X");
  __CPROVER_assume(padded || plain);
  unsigned skip = 0;                       /* leading zero digits dropped by %X (never the last digit) */
  if (plain) {
    if ((a >> 4) == 0) skip = 7; else if ((a >> 8) == 0) skip = 6; else if ((a >> 12) == 0) skip = 5; else if ((a >> 16) == 0) skip = 4;
    else if ((a >> 20) == 0) skip = 3; else if ((a >> 24) == 0) skip = 2; else if ((a >> 28) == 0) skip = 1;
  }
  ret->size = 8 - skip;
#define C10_P1(j) if ((j) >= skip) ret->data[(j) - skip] = C10_08X_CHAR(a, (j));
  C10_P1(0) C10_P1(1) C10_P1(2) C10_P1(3) C10_P1(4) C10_P1(5) C10_P1(6) C10_P1(7)
}
/* ret += piece (piece: at most 8 characters) */
static inline void C10_hexstr_append(C10_hexstr* ret, const C10_hexstr* piece)
{
  __CPROVER_assert(piece->size <= 8 && ret->size <= 64, "hex string stub capacity");
  __CPROVER_assume(piece->size <= 8 && ret->size <= 64);
#define C10_A1(j) if ((j) < piece->size) ret->data[ret->size + (j)] = piece->data[(j)];
  C10_A1(0) C10_A1(1) C10_A1(2) C10_A1(3) C10_A1(4) C10_A1(5) C10_A1(6) C10_A1(7)
  ret->size += piece->size;
}

void C10_string_printf_4(C10_hexstr* ret, const char* fmt, uint32_t a0, uint32_t a1, uint32_t a2, uint32_t a3)
__CPROVER_requires(__CPROVER_w_ok(ret, sizeof(C10_hexstr)) && __CPROVER_r_ok(fmt, 17))
__CPROVER_requires(C10_FMT_IS_08X(fmt, 0) && C10_FMT_IS_08X(fmt, 1) && C10_FMT_IS_08X(fmt, 2) && C10_FMT_IS_08X(fmt, 3) && fmt[16] == 0)
__CPROVER_ensures(ret->size == 32)
__CPROVER_ensures(g_hi < 32 ==> ret->data[g_hi] == C10_08X_CHAR(C10_ARGSEL4(g_hi >> 3, a0, a1, a2, a3), g_hi & 7))
__CPROVER_assigns(__CPROVER_object_whole(ret));

void C10_string_printf_5(C10_hexstr* ret, const char* fmt, uint32_t a0, uint32_t a1, uint32_t a2, uint32_t a3, uint32_t a4)
__CPROVER_requires(__CPROVER_w_ok(ret, sizeof(C10_hexstr)) && __CPROVER_r_ok(fmt, 21))
__CPROVER_requires(C10_FMT_IS_08X(fmt, 0) && C10_FMT_IS_08X(fmt, 1) && C10_FMT_IS_08X(fmt, 2) && C10_FMT_IS_08X(fmt, 3) && C10_FMT_IS_08X(fmt, 4) && fmt[20] == 0)
__CPROVER_ensures(ret->size == 40)
__CPROVER_ensures(g_hi < 40 ==> ret->data[g_hi] == C10_08X_CHAR((g_hi >> 3) == 4 ? a4 : C10_ARGSEL4(g_hi >> 3, a0, a1, a2, a3), g_hi & 7))
__CPROVER_assigns(__CPROVER_object_whole(ret));

void C10_string_printf_8(C10_hexstr* ret, const char* fmt, uint32_t a0, uint32_t a1, uint32_t a2, uint32_t a3, uint32_t a4,
                         uint32_t a5, uint32_t a6, uint32_t a7)
__CPROVER_requires(__CPROVER_w_ok(ret, sizeof(C10_hexstr)) && __CPROVER_r_ok(fmt, 33))
__CPROVER_requires(C10_FMT_IS_08X(fmt, 0) && C10_FMT_IS_08X(fmt, 1) && C10_FMT_IS_08X(fmt, 2) && C10_FMT_IS_08X(fmt, 3))
__CPROVER_requires(C10_FMT_IS_08X(fmt, 4) && C10_FMT_IS_08X(fmt, 5) && C10_FMT_IS_08X(fmt, 6) && C10_FMT_IS_08X(fmt, 7) && fmt[32] == 0)
__CPROVER_ensures(ret->size == 64)
__CPROVER_ensures(g_hi < 64 ==> ret->data[g_hi] == C10_08X_CHAR((g_hi >> 3) < 4 ? C10_ARGSEL4(g_hi >> 3, a0, a1, a2, a3) : C10_ARGSEL4((g_hi >> 3) - 4, a4, a5, a6, a7), g_hi & 7))
__CPROVER_assigns(__CPROVER_object_whole(ret));

#endif
