/* C09: trusted C models (own stubs of property C09) of the std::string / libc calls used by parse_data_string and
 * format_data_string (src/Strings.cc).  All of them have real bodies over the shared std::string model of stubs/vstr.h
 * ({data,size,cap}; "allocation succeeds" = capacity, an append beyond the capacity fails vstr_push_back's assertion).
 *
 *   std::string::append(const char* p, size_t n)      -> C09_append_bytes   (ISO C++ [string.append]: appends p[0..n))
 *   std::string::append(size_t n, char c)              -> C09_append_fill    (appends n copies of c)
 *   std::string::operator+=(const char* literal)       -> C09_append_lit     (appends the literal without its terminator)
 *   ret += string_printf("%02X", v)                    -> C09_append_printf_hex (ISO C 7.21.6.1: X conversion, precision/width 2
 *                                                         with 0 flag: exactly two upper-case hexadecimal digits for v < 256)
 *   strtoull / strtod / strtof                         -> C09_strtoull/strtod/strtof: ISO C 7.22.1.3/.4: the end pointer lies
 *                                                         between nptr and the terminating NUL of the text (a NUL is neither white
 *                                                         space nor part of a numeral, so the scan never passes it); the numeric
 *                                                         value is abstract (ghost g_num / g_dbl / g_flt)
 *   load_file(filename)                                -> C09_load_file: may only be reached with ParseDataFlags::ALLOW_FILES
 */
#ifndef STUBS_C09_STR_H
#define STUBS_C09_STR_H
#include "stubs/vstr.h"

/* ghosts written by the stubs */
extern const char* g_end;         /* the terminating NUL of the text being parsed (c_str()[size()]) */
extern unsigned g_st_calls;       /* number of strto* calls */
extern const char* g_st_arg;      /* nptr of the last strto* call */
extern const char* g_st_end;      /* end pointer it stored */
extern int g_st_base;             /* base of the last strtoull call */
extern int g_st_kind;             /* 1 strtoull, 2 strtod, 3 strtof */
extern unsigned long long g_num;  /* value returned by the last strtoull */
extern double g_dbl;              /* value returned by the last strtod */
extern float g_flt;               /* value returned by the last strtof */
extern unsigned g_load_calls;

/* ---- the output string -------------------------------------------------------------------------------------------------
 * Two models of the std::string the parser / formatter appends to (selected per harness; the extracted text uses OUT_STR):
 *   default          vstr of stubs/vstr.h: the whole content {data,size,cap}
 *   C09_TAIL_MODEL   append-only view: only the total size and the bytes appended since the window was last reset are kept
 *                    (std::string::append / push_back / operator+= never modify earlier bytes: ISO C++ [string.append]); the
 *                    earlier content, which neither function ever reads, is not represented (byte 0 is kept in `first`).
 *                    One loop iteration of the parser / formatter appends at most C09_WIN bytes. */
#define C09_WIN 8
#ifdef C09_TAIL_MODEL
typedef struct { size_t size; size_t cap; size_t nw; char w[C09_WIN]; char first; } c09_tail_str;   /* first: byte 0 of the string */
typedef c09_tail_str OUT_STR;
static inline size_t out_size(const OUT_STR* s) { return s->size; }
static inline void out_clear(OUT_STR* s) { s->size = 0; s->nw = 0; }
static inline void out_push_back(OUT_STR* s, char c)
{
  __CPROVER_assert(s->size < s->cap, "string capacity (allocation modelled as capacity)");
  __CPROVER_assert(s->nw < C09_WIN, "at most C09_WIN bytes are appended between two window resets (model)");
  if (s->size == 0) {
    s->first = c;
  }
  s->w[s->nw] = c;
  s->nw++;
  s->size++;
}
/* frame of appends (assigns-clause targets) and the window fill, for loop contracts written once for both models */
#define OUT_ASSIGNS(s) (s)->size, (s)->nw, (s)->first, __CPROVER_object_upto((s)->w, C09_WIN)
#define OUT_ASSIGNS_NONEMPTY(s) (s)->size, (s)->nw, __CPROVER_object_upto((s)->w, C09_WIN)      /* appends to a non-empty string keep byte 0 */
#define OUT_WINDOW_LE(s, n) ((s)->nw <= (n))
/* a new iteration of the parser's loop starts a new window (used by the loop skeleton in front of the step call) */
#define C09_WINDOW_RESET(s) do { if ((s) != 0) (s)->nw = 0; } while (0)
#else
#define C09_WINDOW_RESET(s) do { } while (0)
#define OUT_ASSIGNS(s) (s)->size, __CPROVER_object_whole((s)->data)
#define OUT_ASSIGNS_NONEMPTY(s) (s)->size, __CPROVER_object_whole((s)->data)
#define OUT_WINDOW_LE(s, n) 1
typedef vstr OUT_STR;
#define out_size vstr_size
#define out_clear vstr_clear
#define out_push_back vstr_push_back
#endif

size_t nondet_size_t(void);
unsigned long long nondet_ull(void);
double nondet_double(void);
float nondet_float(void);

static inline void C09_append_bytes(OUT_STR* s, const char* p, size_t n)
{
  for (size_t i = 0; i < n; i++) {
    out_push_back(s, p[i]);
  }
}

static inline void C09_append_fill(OUT_STR* s, size_t n, char c)
{
  for (size_t i = 0; i < n; i++) {
    out_push_back(s, c);
  }
}

static inline void C09_append_lit(OUT_STR* s, const char* lit, size_t n)
{
  /* literals of at most 4 characters; no loop (a callee loop without contract inside a loop under contract trips dfcc) */
  __CPROVER_assert(n <= 4, "string literal appended by the formatter has at most 4 characters (model)");
  if (n > 0) out_push_back(s, lit[0]);
  if (n > 1) out_push_back(s, lit[1]);
  if (n > 2) out_push_back(s, lit[2]);
  if (n > 3) out_push_back(s, lit[3]);
}

#define C09_HEXDIGIT(v, upper) ((char)((v) < 10 ? '0' + (v) : ((upper) ? 'A' : 'a') + ((v) - 10)))
static inline void C09_append_printf_hex(OUT_STR* s, const char* fmt, unsigned v)
{
  /* only "%02X" / "%02x" are modelled; anything else is outside the model */
  __CPROVER_assert(fmt[0] == '%' && fmt[1] == '0' && fmt[2] == '2' && (fmt[3] == 'X' || fmt[3] == 'x') && fmt[4] == 0,
                   "string_printf format is %02X or %02x (printf model)");
  __CPROVER_assert(v < 256, "two-digit hex format is given a byte");
  out_push_back(s, C09_HEXDIGIT((v >> 4) & 15, fmt[3] == 'X'));
  out_push_back(s, C09_HEXDIGIT(v & 15, fmt[3] == 'X'));
}

#define C09_STRTO_COMMON(kind)                                                                                                   \
  __CPROVER_assert(__CPROVER_same_object(nptr, g_end) && __CPROVER_POINTER_OFFSET(nptr) <= __CPROVER_POINTER_OFFSET(g_end),      \
                   "strto* is given a pointer into the NUL-terminated text");                                                    \
  size_t adv = nondet_size_t();                                                                                                  \
  __CPROVER_assume(adv <= (size_t)(__CPROVER_POINTER_OFFSET(g_end) - __CPROVER_POINTER_OFFSET(nptr)));                           \
  g_st_calls++; g_st_arg = nptr; g_st_kind = (kind); g_st_end = nptr + adv;                                                      \
  *endptr = (char*)nptr + adv;

static inline unsigned long long C09_strtoull(const char* nptr, char** endptr, int base)
{
  C09_STRTO_COMMON(1)
  g_st_base = base;
  g_num = nondet_ull();
  return g_num;
}

/* strtoll / strtol / strtoul: a different conversion (range of long long / long: numerals from 2^63 up saturate) -- its result is not the
 * strtoull value g_num the contract of the number branch speaks about */
long long nondet_c09_ll(void);
static inline long long C09_strtoll(const char* nptr, char** endptr, int base)
{
  C09_STRTO_COMMON(4)
  g_st_base = base;
  return nondet_c09_ll();
}

static inline double C09_strtod(const char* nptr, char** endptr)
{
  C09_STRTO_COMMON(2)
  g_dbl = nondet_double();
  return g_dbl;
}

static inline float C09_strtof(const char* nptr, char** endptr)
{
  C09_STRTO_COMMON(3)
  g_flt = nondet_float();
  return g_flt;
}

/* load_file: with ALLOW_FILES off it must be unreachable (that is the obligation); the model raises cannot_open_file */
static inline void C09_load_file(OUT_STR* data, const vstr* filename)
{
  (void)data; (void)filename;
  g_load_calls++;
  __CPROVER_assert(0, "load_file is never reached when ParseDataFlags::ALLOW_FILES is off");
  verif_exc = EXC_cannot_open_file;
}

#endif
