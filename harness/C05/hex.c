/* C05: h_hex */
#include "harness/C05/common.h"
#include "x_json_hex.c"

void h_hex(void) { char in_x; value_for_hex_char(in_x); VERIF_REACH(); }
