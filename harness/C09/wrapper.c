/* C09: the std::string overload of format_data_string (size check + forwarding). */
#include "contracts/C09_wrapper.h"
int verif_exc; size_t g_vk, g_k, g_w; bool g_quoted, g_returned;
const char* g_end; unsigned g_st_calls; const char* g_st_arg; const char* g_st_end; int g_st_base; int g_st_kind;
unsigned long long g_num; double g_dbl; float g_flt; unsigned g_load_calls;
unsigned g_f_calls; const void* g_f_data; size_t g_f_size; const void* g_f_mask; uint64_t g_f_flags; OUT_STR* g_f_ret;

/* recording stub of the pointer/size form */
static void format_data_string(OUT_STR* ret, const void* vdata, size_t size, const void* vmask, uint64_t flags)
{
  g_f_calls++; g_f_ret = ret; g_f_data = vdata; g_f_size = size; g_f_mask = vmask; g_f_flags = flags;
}
#include "x_fds_wrapper.c"

void h_wrapper(void)
{
  OUT_STR* ret; const vstr* d; const vstr* m; uint64_t in_flags;
  format_data_string_str(ret, d, m, in_flags);
  VERIF_REACH();
}
