/* C14: list_directory / list_directory_sorted return exactly the entry names present (every entry except "." and "..",
 * each once), for a directory of any size and any names; the directory stream is closed exactly once; cannot_open_file iff
 * opendir fails.  The watched entry g_dk is arbitrary, so the clause about it is a statement about every entry. */
#ifndef C14_DIRC_H
#define C14_DIRC_H
#include "contracts/verif.h"
#include "stubs/vstr.h"
#include "stubs/C14_dir.h"
#define C14_DIR_CONTRACT \
__CPROVER_requires(__CPROVER_is_fresh(files, sizeof(c14_names))) \
__CPROVER_requires(verif_exc == 0 && g_dn == 0 && g_dk_stored == 0 && g_foreign == 0 && g_closedirs == 0 && g_dir_open == 0) \
__CPROVER_requires(g_total <= 0xFFFFFFFF && g_dk < g_total && files->count == 0) \
__CPROVER_ensures(verif_exc == 0 || verif_exc == EXC_cannot_open_file) \
__CPROVER_ensures(verif_exc == 0 ==> (g_dn == g_total && g_closedirs == 1 && g_dir_open == 0)) \
__CPROVER_ensures(verif_exc == 0 ==> g_foreign == 0) \
__CPROVER_ensures(verif_exc == 0 ==> g_dk_stored == (g_dk_dot ? 0u : 1u)) \
__CPROVER_ensures(verif_exc != 0 ==> (g_dn == 0 && g_closedirs == 0 && files->count == 0)) \
__CPROVER_assigns(verif_exc, g_dn, g_dk_dot, g_dk_stored, g_foreign, g_closedirs, g_dir_open, g_cur_name, g_ent, files->count, files->sorted)

void phosg_list_directory(c14_names* files, const vstr* dirname)
C14_DIR_CONTRACT;
void phosg_list_directory_sorted(c14_names* files, const vstr* dirname)
C14_DIR_CONTRACT
__CPROVER_ensures(verif_exc == 0 ==> files->sorted == 1);

#define C14_DIR_LOOP \
__CPROVER_assigns(entry, g_dn, g_dk_dot, g_dk_stored, g_foreign, g_cur_name, g_ent, files->count) \
__CPROVER_loop_invariant(verif_exc == 0 && g_dn <= g_total && g_foreign == 0 && g_closedirs == 0 && g_dir_open == 1) \
__CPROVER_loop_invariant(g_dn > g_dk ? g_dk_stored == (g_dk_dot ? 0u : 1u) : g_dk_stored == 0) \
__CPROVER_decreases(g_total - g_dn)
#endif
