/* C14 TRUSTED stub, BOUNDED groups only: executable definitions of the pvec operations of stubs/C14_pvec.h (linear
 * search / element shifting, written from [lower.bound], [upper.bound], [vector.modifiers]) so that Poll::add / remove
 * can be run on concrete small vectors.  The comparison is "by fd" -- what the extracted lambdas are proved to compute
 * (groups Poll.add.pred / Poll.remove.pred). */
#ifndef STUBS_C14_PVEC_IMPL_H
#define STUBS_C14_PVEC_IMPL_H
#include "stubs/C14_pvec.h"
size_t pvec_lower_bound(const pvec* v, const c14_pollfd* x)
{ size_t i = 0; while (i < v->n && v->data[i].fd < x->fd) i++; return i; }          /* first element not less than x */
size_t pvec_upper_bound(const pvec* v, const c14_pollfd* x)
{ size_t i = 0; while (i < v->n && !(x->fd < v->data[i].fd)) i++; return i; }       /* first element greater than x */
void pvec_insert(pvec* v, size_t idx, const c14_pollfd* x)
{
  __CPROVER_assert(idx <= v->n && v->n < v->cap, "insert position / capacity");
  for (size_t i = v->n; i > idx; i--) v->data[i] = v->data[i - 1];
  v->data[idx] = *x; v->n++;
}
void pvec_erase(pvec* v, size_t idx)
{
  __CPROVER_assert(idx < v->n, "erase position");
  for (size_t i = idx; i + 1 < v->n; i++) v->data[i] = v->data[i + 1];
  v->n--;
}
#endif
