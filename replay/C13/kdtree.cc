// C13 native replay: the real phosg::KDTree against a brute-force entry list.
//   driver <mode> dims=2|3 coord_bits=16|64 n=N shape_parent=.. shape_side=.. [del_k=K] in_c0=.. in_c1=.. [in_c2=..] in_v=.. [in_p0.. in_pv]
//          [in_lo0.. in_hi0..] [er_mask=M | in_er=..]
// The tree is built through the public API by inserting the shape's entries in index order (breadth-first numbering, parent before
// child): because the coordinates satisfy the ordering invariant of the shape, link_node reproduces exactly that shape.  Then the
// operation named by <mode> is applied and size / iteration / at / exists / within / exists(low,high) are compared with a linear
// scan for all stored points, the operation's point and all boxes spanned by the occurring coordinates.
// exit 1: a difference (or, under ASan, a crash -> non-zero exit with a sanitizer report); exit 0: agrees.
#include <algorithm>
#include <cstdint>
#include <cstdio>
#include <deque>
#include <stdexcept>
#include <tuple>
#include <vector>

#include "KDTree.hh"
#include "Vector.hh"
#include "replay/common/args.hh"

using namespace phosg;
using namespace std;

static int64_t sext(uint64_t v, unsigned bits) {
  if (bits >= 64) {
    return (int64_t)v;
  }
  uint64_t m = 1ULL << (bits - 1);
  v &= (1ULL << bits) - 1;
  return (int64_t)((v ^ m) - m);
}

struct Entry {
  int64_t c[3];
  int v;
  bool operator<(const Entry& o) const { return tie(c[0], c[1], c[2], v) < tie(o.c[0], o.c[1], o.c[2], o.v); }
  bool operator==(const Entry& o) const { return tie(c[0], c[1], c[2], v) == tie(o.c[0], o.c[1], o.c[2], o.v); }
};

template <typename P> P mk(const int64_t* c);
template <> Vector2<int64_t> mk<Vector2<int64_t>>(const int64_t* c) { return Vector2<int64_t>(c[0], c[1]); }
template <> Vector3<int64_t> mk<Vector3<int64_t>>(const int64_t* c) { return Vector3<int64_t>(c[0], c[1], c[2]); }

template <typename P>
static Entry ent(const P& p, int v) {
  Entry e{{0, 0, 0}, v};
  for (size_t d = 0; d < P::dimensions(); d++) {
    e.c[d] = p.at(d);
  }
  return e;
}

static void show(const char* what, const vector<Entry>& l) {
  printf("  %s:", what);
  for (const auto& e : l) {
    printf(" (%lld,%lld,%lld)=%d", (long long)e.c[0], (long long)e.c[1], (long long)e.c[2], e.v);
  }
  printf("\n");
}

// full comparison of the tree with the list; returns the number of differences (prints the first few)
template <typename P>
static int compare(const KDTree<P, int>& t, vector<Entry> list, const vector<Entry>& extra_points) {
  const size_t D = P::dimensions();
  int bad = 0;
  auto fail = [&](const char* fmt, auto... a) {
    if (bad < 8) {
      printf("POSTCONDITION VIOLATED on the real code: ");
      printf(fmt, a...);
      printf("\n");
    }
    bad++;
  };
  sort(list.begin(), list.end());
  if (t.size() != list.size()) {
    fail("size() = %zu, the list has %zu entries", t.size(), list.size());
  }
  vector<Entry> it_list;
  size_t guard = 0;
  for (auto it = t.begin(); it != t.end() && guard < list.size() + 8; ++it, guard++) {
    it_list.push_back(ent(it->first, it->second));
  }
  sort(it_list.begin(), it_list.end());
  if (!(it_list == list)) {
    fail("iteration yields a different multiset than the list");
    show("list     ", list);
    show("iteration", it_list);
  }
  // the same walk with the post-increment form: `it++` returns the position BEFORE the step (the `*it++` idiom)
  vector<Entry> post_list;
  guard = 0;
  for (auto it = t.begin(); it != t.end() && guard < list.size() + 8; guard++) {
    auto before = it++;
    post_list.push_back(ent(before->first, before->second));
  }
  sort(post_list.begin(), post_list.end());
  if (!(post_list == list)) {
    fail("iteration through the values returned by it++ yields a different multiset than the list");
    show("list ", list);
    show("*it++", post_list);
  }
  vector<Entry> points = list;
  points.insert(points.end(), extra_points.begin(), extra_points.end());
  for (const auto& q : points) {
    vector<int> vals;
    for (const auto& e : list) {
      if (equal(e.c, e.c + 3, q.c)) {
        vals.push_back(e.v);
      }
    }
    P p = mk<P>(q.c);
    bool threw = false;
    int got = 0;
    try {
      got = t.at(p);
    } catch (const out_of_range&) {
      threw = true;
    }
    if (vals.empty() && !threw) {
      fail("at(%lld,%lld,%lld) returned %d for a point that is not stored", (long long)q.c[0], (long long)q.c[1], (long long)q.c[2], got);
    }
    if (!vals.empty() && threw) {
      fail("at(%lld,%lld,%lld) threw out_of_range although the entry is stored (and is visited by iteration)", (long long)q.c[0],
          (long long)q.c[1], (long long)q.c[2]);
    }
    if (!vals.empty() && !threw && find(vals.begin(), vals.end(), got) == vals.end()) {
      fail("at(%lld,%lld,%lld) returned %d, not a value stored at that point", (long long)q.c[0], (long long)q.c[1], (long long)q.c[2], got);
    }
    if (t.exists(p) != !vals.empty()) {
      fail("exists(%lld,%lld,%lld) = %d, linear scan says %d", (long long)q.c[0], (long long)q.c[1], (long long)q.c[2], (int)t.exists(p),
          (int)!vals.empty());
    }
  }
  // boxes: low from the occurring coordinates, high from the occurring coordinates and their successors
  vector<int64_t> lows[3], highs[3];
  for (size_t d = 0; d < 3; d++) {
    for (const auto& q : points) {
      lows[d].push_back(q.c[d]);
      highs[d].push_back(q.c[d]);
      if (q.c[d] != INT64_MAX) {
        highs[d].push_back(q.c[d] + 1);
      }
    }
    if (lows[d].empty() || d >= D) {
      lows[d].assign(1, 0);
      highs[d].assign(1, 1);
    }
    for (auto* v : {&lows[d], &highs[d]}) {
      sort(v->begin(), v->end());
      v->erase(unique(v->begin(), v->end()), v->end());
    }
  }
  for (int64_t l0 : lows[0]) for (int64_t h0 : highs[0]) for (int64_t l1 : lows[1]) for (int64_t h1 : highs[1])
  for (int64_t l2 : lows[2]) for (int64_t h2 : highs[2]) {
    int64_t lo[3] = {l0, l1, l2}, hi[3] = {h0, h1, h2};
    vector<Entry> want;
    for (const auto& e : list) {
      bool in = true;
      for (size_t d = 0; d < D; d++) {
        in = in && e.c[d] >= lo[d] && e.c[d] < hi[d];
      }
      if (in) {
        want.push_back(e);
      }
    }
    P plo = mk<P>(lo), phi = mk<P>(hi);
    vector<Entry> got;
    bool threw = false;
    try {
      for (const auto& r : t.within(plo, phi)) {
        got.push_back(ent(r.first, r.second));
      }
    } catch (const exception& e) {
      threw = true;
      fail("within([%lld,%lld,%lld),[%lld,%lld,%lld)) threw \"%s\"; the linear scan returns %zu entries", (long long)l0, (long long)l1,
          (long long)l2, (long long)h0, (long long)h1, (long long)h2, e.what(), want.size());
    }
    sort(got.begin(), got.end());
    if (!threw && !(got == want)) {
      fail("within([%lld,%lld,%lld),[%lld,%lld,%lld)) returns %zu entries, the linear scan %zu", (long long)l0, (long long)l1, (long long)l2,
          (long long)h0, (long long)h1, (long long)h2, got.size(), want.size());
    }
    if (t.exists(plo, phi) != !want.empty()) {
      fail("exists([%lld,%lld,%lld),[%lld,%lld,%lld)) = %d, the linear scan finds %zu entries", (long long)l0, (long long)l1, (long long)l2,
          (long long)h0, (long long)h1, (long long)h2, (int)t.exists(plo, phi), want.size());
    }
    if (bad > 8) {
      return bad;
    }
  }
  return bad;
}

template <typename P>
static int run(const Args& a) {
  const size_t D = P::dimensions();
  unsigned bits = (unsigned)a.u("coord_bits", 16);
  size_t n = (size_t)a.u("n");
  auto coord = [&](const char* base, size_t d, size_t i) -> int64_t {
    string k = string(base) + char('0' + d);
    const auto& v = a.arr(k.c_str());
    return i < v.size() ? sext(v[i], bits) : 0;
  };
  vector<Entry> list;
  for (size_t i = 0; i < n; i++) {
    Entry e{{0, 0, 0}, 0};
    for (size_t d = 0; d < D; d++) {
      e.c[d] = coord("in_c", d, i);
    }
    const auto& vs = a.arr("in_v");
    e.v = i < vs.size() ? (int)(uint32_t)vs[i] : 0;
    list.push_back(e);
  }
  auto point = [&](const char* base) {
    Entry e{{0, 0, 0}, 0};
    for (size_t d = 0; d < D; d++) {
      e.c[d] = coord(base, d, 0);
    }
    return e;
  };
  // the tree is deliberately leaked in every mode but `destroy` (a defect of the destructor must not mask other modes)
  auto* t = new KDTree<P, int>();
  for (const auto& e : list) {
    t->insert(mk<P>(e.c), e.v);
  }
  show("entries (breadth-first order of the shape)", list);
  vector<Entry> extra;
  int bad = 0;
  const string& m = a.mode;
  if (m == "insert") {
    Entry p = point("in_p");
    p.v = (int)(uint32_t)a.u("in_pv");
    auto it = t->insert(mk<P>(p.c), p.v);
    list.push_back(p);
    if (it == t->end() || !(ent(it->first, it->second) == p)) {
      printf("POSTCONDITION VIOLATED on the real code: insert() did not return an iterator at the new entry\n");
      bad++;
    }
  } else if (m == "delete_node") {
    // delete_node(k) through the public API: the iterator visits nodes breadth-first = in index order
    size_t k = (size_t)a.u("del_k");
    auto it = t->begin();
    for (size_t s = 0; s < k; s++) {
      ++it;
    }
    if (!(ent(it->first, it->second) == list[k])) {
      printf("replay: iterator position %zu is not entry %zu (shape not reproduced)\n", k, k);
      return 2;
    }
    t->erase_advance(it);
    list.erase(list.begin() + k);
  } else if (m == "erase") {
    Entry p = point("in_p");
    p.v = (int)(uint32_t)a.u("in_pv");
    auto f = find(list.begin(), list.end(), p);
    bool r = t->erase(mk<P>(p.c), p.v);
    if (r != (f != list.end())) {
      printf("POSTCONDITION VIOLATED on the real code: erase returned %d, a matching entry %s\n", (int)r, f != list.end() ? "existed" : "did not exist");
      bad++;
    }
    if (f != list.end()) {
      list.erase(f);
    }
    extra.push_back(p);
  } else if (m == "at" || m == "exists") {
    extra.push_back(point("in_p"));
  } else if (m == "within" || m == "exists_range") {
    extra.push_back(point("in_lo"));
    extra.push_back(point("in_hi"));
  } else if (m == "iterate") {
    // covered by compare()
  } else if (m == "erase_advance") {
    vector<uint64_t> er = a.arr("in_er");
    if (a.has("er_mask")) { // concrete erase pattern of the group: bit s = erase at step s
      er.clear();
      for (size_t s = 0; s < n + 1; s++) {
        er.push_back((a.u("er_mask") >> s) & 1);
      }
    }
    vector<Entry> visited, survivors;
    size_t s = 0;
    for (auto it = t->begin(); it != t->end() && s < n + 4; s++) {
      Entry cur = ent(it->first, it->second);
      visited.push_back(cur);
      if (s < er.size() && (er[s] & 1)) {
        t->erase_advance(it);
      } else {
        survivors.push_back(cur);
        ++it;
      }
    }
    vector<Entry> sorted_list = list;
    sort(sorted_list.begin(), sorted_list.end());
    sort(visited.begin(), visited.end());
    if (!(visited == sorted_list)) {
      printf("POSTCONDITION VIOLATED on the real code: iteration with erase_advance did not visit every entry exactly once\n");
      show("stored ", sorted_list);
      show("visited", visited);
      bad++;
    }
    list = survivors;
  } else if (m == "destroy") {
    delete t; // a crash here is reported by the sanitizer (non-zero exit, "AddressSanitizer" in the output)
    printf("destroyed a tree with %zu nodes\n", n);
    return 0;
  } else {
    fprintf(stderr, "unknown mode %s\n", m.c_str());
    return 2;
  }
  bad += compare(*t, list, extra);
  if (bad) {
    printf("%d difference(s) between the real KDTree and the brute-force list after `%s`\n", bad, m.c_str());
    return 1;
  }
  printf("real KDTree agrees with the brute-force list after `%s` (%zu entries)\n", m.c_str(), list.size());
  return 0;
}

int main(int argc, char** argv) {
  Args a(argc, argv);
  if (a.u("dims", 2) == 3) {
    return run<Vector3<int64_t>>(a);
  }
  return run<Vector2<int64_t>>(a);
}
