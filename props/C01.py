"""C01 -- typed binary writer/reader round-trip with exact big/little-endian byte layout (DESIGN.md section 4, C01)."""
from props import rw_common as rw

ID = 'C01'
LEVEL = 'proof'
EXPLANATION = rw.EXPLANATION
TRUSTED = rw.TRUSTED
ASSUMPTIONS = rw.ASSUMPTIONS
DROPS = rw.DROPS
NOT_DECIDED = [
    'sequences of values: each append/read is one obligation with frame clauses (older bytes unchanged, cursor advanced by the encoded width); the induction over the sequence is the stated argument, not a single query',
    'native-order (put_u16 ...) and reverse-endian (put_u16r ...) one-liners are outside the b-/l-suffixed set the statement names and are not instantiated',
    'BitWriter::reset, BlockStringWriter: not under contract',
    'std::string growth is the capacity model of stubs/vstr.h (allocation failure is outside the model except for resize in pput)',
]
CLAIMED = True
MANIFEST = dict(
    category='proof',
    text=('Every reader accessor (pgetv/getv, get<T>/pget<T>, the 36 typed get_*/pget_* one-liners, the hand-assembled 24/48-bit forms with their '
          'sign-extending variants (ext24 / ext48 are discharged here as well), read/readx/pread/preadx in both overloads, get_cstr/pget_cstr/get_line, skip_if) and every writer operation '
          '(StringWriter write/extend/put_*/pput_*, BufferWriter pwrite/write/put_*/pput_*, BitWriter::write/size, BitReader::pread/read) carries a contract whose '
          'C01 clauses say: the value returned/stored is the big-/little-endian numeral of exactly the bytes at the position (floats bit-exact), the cursor '
          'advances by exactly the encoded width, older bytes are unchanged (ghost byte index), positional writes zero-extend. Contracts are enforced with '
          'goto-instrument --dfcc on text extracted from /repo/src each run; loops (cstr, line, bit reads) are closed by loop contracts, so buffer lengths, '
          'offsets and values are unbounded. put_X;get_X round trips are lemmas over the two contracts. thorough repeats the typed groups under a big-endian host model.'),
    note=('Trusted: cbmc/goto-instrument/solvers, the extractor, stubs/vstr.h (std::string as {data,size,cap}; append/assign assume capacity), stubs/libc.h (memcpy/memcmp contracts), '
          'the spec macros (definition of BE/LE numerals). Buffer lengths are < 2^47 (cbmc object size limit). Sequences are covered by per-step frame clauses plus induction (argument, not a query).'),
    technique='function + loop contracts (ghost index, ghost bit index) enforced with goto-instrument --dfcc / --apply-loop-contracts, discharged by cbmc; round trips as lemmas over the contracts',
)


def plan(ctx):
    return rw.plan(ctx, 'C01')
