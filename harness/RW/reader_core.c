/* C01/C02: StringReader core accessors. Function text: x_reader_core.c (+ ext24/ext48 from x_Encoding_leaf.c). */
#include "contracts/C03_leaf.h"
#include "x_Encoding_leaf.c"
#include "contracts/RW_reader.h"
int verif_exc; size_t g_mk; size_t g_len, g_off;
#include "x_reader_core.c"

#define IN_STATE size_t in_len, in_off, in_mk; g_len = in_len; g_off = in_off; g_mk = in_mk
void h_pgetv(void) { StringReader* r; IN_STATE; size_t in_offset, in_size; StringReader_pgetv(r, in_offset, in_size); VERIF_REACH(); }
void h_getv(void) { StringReader* r; IN_STATE; size_t in_size; bool in_advance; StringReader_getv(r, in_size, in_advance); VERIF_REACH(); }
#define HP(name) void h_##name(void) { StringReader* r; IN_STATE; size_t in_offset; StringReader_##name(r, in_offset); VERIF_REACH(); }
#define HG(name) void h_##name(void) { StringReader* r; IN_STATE; bool in_advance; StringReader_##name(r, in_advance); VERIF_REACH(); }
HP(pget_u24b) HP(pget_u24l) HP(pget_u48b) HP(pget_u48l) HP(pget_s24b) HP(pget_s24l) HP(pget_s48b) HP(pget_s48l)
HG(get_u24b) HG(get_u24l) HG(get_u48b) HG(get_u48l) HG(get_s24b) HG(get_s24l) HG(get_s48b) HG(get_s48l)
#define H0(name) void h_##name(void) { StringReader* r; IN_STATE; StringReader_##name(r); VERIF_REACH(); }
H0(where) H0(size) H0(remaining) H0(eof)
#define HS(name) void h_##name(void) { StringReader* r; IN_STATE; size_t in_size; StringReader_##name(r, in_size); VERIF_REACH(); }
HS(go) HS(truncate) HS(skip) HS(peek)
void h_skip_if(void) { StringReader* r; IN_STATE; const void* d; size_t in_size; StringReader_skip_if(r, d, in_size); VERIF_REACH(); }
void h_pread_buf(void) { StringReader* r; IN_STATE; void* d; size_t in_offset, in_size; StringReader_pread_buf(r, in_offset, d, in_size); VERIF_REACH(); }
void h_preadx_buf(void) { StringReader* r; IN_STATE; void* d; size_t in_offset, in_size; StringReader_preadx_buf(r, in_offset, d, in_size); VERIF_REACH(); }
void h_read_buf(void) { StringReader* r; IN_STATE; void* d; size_t in_size; bool in_advance; StringReader_read_buf(r, d, in_size, in_advance); VERIF_REACH(); }
void h_readx_buf(void) { StringReader* r; IN_STATE; void* d; size_t in_size; bool in_advance; StringReader_readx_buf(r, d, in_size, in_advance); VERIF_REACH(); }
#define HSUB1(name, RT) void h_##name(void) { StringReader* r; IN_STATE; RT* ret; size_t in_offset; StringReader_##name(r, ret, in_offset); VERIF_REACH(); }
#define HSUB2(name, RT) void h_##name(void) { StringReader* r; IN_STATE; RT* ret; size_t in_offset, in_size; StringReader_##name(r, ret, in_offset, in_size); VERIF_REACH(); }
HSUB1(sub1, StringReader) HSUB2(sub2, StringReader) HSUB1(subx1, StringReader) HSUB2(subx2, StringReader)
HSUB1(sub_bits1, BitReader) HSUB2(sub_bits2, BitReader) HSUB1(subx_bits1, BitReader) HSUB2(subx_bits2, BitReader)
