/* C14 TRUSTED stub: std::vector<struct pollfd> with iterators as indices, and std::upper_bound / std::lower_bound on it,
 * as Poll::add / Poll::remove use them ([vector.modifiers], [upper.bound], [lower.bound]).  Contract-only.
 *
 * The vector is STRICTLY SORTED by fd (Poll's representation invariant) and is described relative to one key g_key:
 *     g_lb       number of elements whose fd is < g_key      (= std::lower_bound position of g_key)
 *     g_present  the element at g_lb has fd == g_key
 * For such a vector lower_bound(key) = g_lb and upper_bound(key) = g_lb + g_present (first element whose fd is > key).
 * The contract of the function under proof states the description as index facts about elements g_lb-1, g_lb, g_lb+1.
 * Element preservation uses the ghost value idiom: (g_pfd, g_pev) = fd/events of element g_pk before the call. */
#ifndef STUBS_C14_PVEC_H
#define STUBS_C14_PVEC_H
#include "contracts/verif.h"
typedef struct { int fd; short events; short revents; } c14_pollfd;      /* struct pollfd (POSIX <poll.h>) */
typedef struct { c14_pollfd* data; size_t n; size_t cap; } pvec;
extern int g_key, g_present, g_pfd;
extern short g_pev;
extern size_t g_lb, g_pk, g_pn;

static inline size_t pvec_end(const pvec* v) { return v->n; }
static inline bool pvec_empty(const pvec* v) { return v->n == 0; }
static inline void pvec_pop_back(pvec* v) { __CPROVER_assert(v->n > 0, "pop_back on an empty vector is undefined"); v->n--; }

size_t pvec_lower_bound(const pvec* v, const c14_pollfd* x)
__CPROVER_requires(x->fd == g_key)
__CPROVER_ensures(__CPROVER_return_value == g_lb)
__CPROVER_assigns();

size_t pvec_upper_bound(const pvec* v, const c14_pollfd* x)
__CPROVER_requires(x->fd == g_key)
__CPROVER_ensures(__CPROVER_return_value == g_lb + (g_present ? 1 : 0))
__CPROVER_assigns();

/* insert(position, x): elements from idx on move up by one; capacity = "allocation succeeds" */
void pvec_insert(pvec* v, size_t idx, const c14_pollfd* x)
__CPROVER_requires(idx <= v->n && v->n < v->cap)
__CPROVER_requires(g_pk < v->n ==> (g_pfd == v->data[g_pk].fd && g_pev == v->data[g_pk].events))
__CPROVER_ensures(v->n == __CPROVER_old(v->n) + 1)
__CPROVER_ensures(v->data[idx].fd == x->fd && v->data[idx].events == x->events)
__CPROVER_ensures((g_pk >= idx && g_pk + 1 < v->n) ==> (v->data[g_pk + 1].fd == g_pfd && v->data[g_pk + 1].events == g_pev))
__CPROVER_assigns(v->n, __CPROVER_object_from(v->data + idx));          /* elements below idx are untouched */

/* erase(position): elements above idx move down by one */
void pvec_erase(pvec* v, size_t idx)
__CPROVER_requires(idx < v->n)
__CPROVER_requires(g_pk < v->n ==> (g_pfd == v->data[g_pk].fd && g_pev == v->data[g_pk].events))
__CPROVER_ensures(v->n == __CPROVER_old(v->n) - 1)
__CPROVER_ensures((g_pk > idx && g_pk <= v->n) ==> (v->data[g_pk - 1].fd == g_pfd && v->data[g_pk - 1].events == g_pev))
__CPROVER_assigns(v->n, __CPROVER_object_from(v->data + idx));
#endif
