/* C18: trusted model of the text that phosg builds with string_printf / operator+ in format_duration, format_size and
 * format_time, and of the few libc calls parse_size / format_time make.
 *
 * A std::string produced by string_printf is modelled by c18_text: NOT by its characters but by a summary of the sequence of printf
 * conversions that produced it (one token per conversion specification / literal run), plus its length.  The decimal
 * rendering of a number is libc's job (printf); what phosg decides is WHICH value is printed with WHICH conversion in WHICH
 * order -- that is what the tokens carry.  props/C18.py (class PrintfLowering) parses the format string of every
 * string_printf call in the extracted text on every run and emits one c18_put_* call per conversion.
 *
 * What this model assumes about printf (ISO C 7.21.6.1), each assumption is a __CPROVER_assume below or stated here:
 *   %[0][w]u/lu/zu : decimal numeral of the value, at least w characters, padded on the left with '0' (flag 0) or ' '
 *   %s             : the characters of the NUL-terminated argument (model limit: at most 2 characters -- "0" / "" are what the code passes)
 *   %.Pf / %.*lf   : "[0-9]+" if P == 0 else "[0-9]+ '.' [0-9]{P}"; a negative P given through '*' counts as omitted (= 6);
 *                    the number of integer digits D is that of the value rounded at P decimals: D == 1 below 10 - 0.5*10^-P,
 *                    D == 2 from there up to 100 - 0.5*10^-P, D >= 3 above (details at c18_put_double; model limit: 0 <= v <= 1e20, not NaN)
 * std::string::at(i) throws std::out_of_range iff i >= size() (C++ [string.access]).
 */
#ifndef STUBS_C18_TEXT_H
#define STUBS_C18_TEXT_H
#include "contracts/verif.h"

enum { C18_LIT = 1, C18_U64 = 2, C18_STR = 3, C18_DBL = 4 };

/* All members are scalars on purpose (no arrays: every member stays a separate symbol of the verifier on every path). */
typedef struct {
  size_t len;                 /* std::string::size() */
  /* ---- shape: which conversions, in which order ---- */
  uint8_t ntok;               /* number of tokens (conversion specifications / literal runs of <= 8 characters / %s arguments) */
  uint32_t shape;             /* their kinds, one octal digit per token, first token most significant (model limit: 10 tokens) */
  uint8_t nlit;               /* literal runs + %s arguments */
  uint64_t lit0, lit1, lit2;  /* characters of the first three of them, first character in the low byte */
  uint8_t lit0n, lit1n, lit2n;
  uint8_t nu64;               /* %u conversions; the first one: */
  uint64_t u64_val; uint8_t u64_width, u64_zero;
  uint8_t ndbl;               /* %f conversions; the first one: */
  int dbl_prec;               /* digits after the decimal point (0: no point) */
  uint8_t dbl_digits;         /* integer digits D */
  double dbl_val;             /* the value handed to printf */
  bool dbl_is_ratio;          /* ... which is the result of the last c18_ratio / c18_ratiof, */
  uint64_t dbl_num, dbl_den;  /* of this numerator and denominator */
  /* ---- recogniser of the duration grammar [d:][h:][m:]s[.f], advanced by every appended token (specification side: see
   * contracts/C18_duration.h for the clauses that read it):  (integer ':')* then optional literal '0's then one %f token ---- */
  bool d_bad;                 /* the text left the grammar */
  uint8_t d_nf;               /* integer fields completed by a ':' so far */
  uint64_t d_f0, d_f1, d_f2;  /* their values, left to right */
  bool d_two0, d_two1, d_two2;/* field i is rendered as exactly two characters, zero padded */
  bool d_pend;                /* an integer token waits for its ':' */
  uint64_t d_pv; bool d_p2;
  uint8_t d_lead;             /* literal '0' characters seen since the last ':' (padding of the seconds) */
  bool d_sec;                 /* the seconds token has been appended */
  uint8_t d_sec_lead;         /* '0' characters in front of it */
  /* evaluated when the seconds token is appended -- on every path separately, before the paths of the caller merge, so that
   * the products below are plain products of the printed values: the last three integer fields read as days / hours / minutes,
   * the text's value in microseconds  d_total = days*86400e6 + hours*3600e6 + minutes*60e6 + (numerator of the seconds), and
   * whether that sum is exact (no wrap-around) */
  uint64_t d_day, d_hr, d_min;
  uint64_t d_total;
  bool d_exact;
} c18_text;

/* ---- ghost record of the last "(double)(num) / den" evaluation (c18_ratio): lets the contracts speak about the integer
 * numerator and denominator of the value that is printed, without a second floating-point divider in the specification */
extern unsigned g_ratio_calls;
extern uint64_t g_ratio_num, g_ratio_den;
extern double g_ratio_val;

/* IEEE-754 binary64 division of two converted 64-bit unsigned integers.  The body is the division itself; the contract (the
 * range facts the callers' proofs need: the quotient is a number in [0, 2^64]; a numerator below 60 * 10^6 divided by 10^6
 * gives a double below 60; on which side of 9.5, 9.95, ... 10 the quotient by 10^6 lies) is PROVED on that body by its own obligation group and then used in place of the divider. */
double c18_fdiv(uint64_t num, uint64_t den)
__CPROVER_requires(1)
__CPROVER_ensures(den != 0 ==> (__CPROVER_return_value >= 0.0 && __CPROVER_return_value <= 18446744073709551616.0))
__CPROVER_ensures((den == 1000000 && num < 60000000) ==> __CPROVER_return_value < 60.0)
/* on which side of the rounding thresholds 10 - 0.5 * 10^-P (P = 0..6) of c18_put_double the quotient lies */
#define C18_FDIV_SIDE(N, C) ((den == 1000000 && num < (N)) ==> __CPROVER_return_value < (C)) && ((den == 1000000 && num >= (N)) ==> __CPROVER_return_value >= (C))
__CPROVER_ensures(C18_FDIV_SIDE(9500000, 9.5) && C18_FDIV_SIDE(9950000, 9.95) && C18_FDIV_SIDE(9995000, 9.995) && C18_FDIV_SIDE(9999500, 9.9995))
__CPROVER_ensures(C18_FDIV_SIDE(9999950, 9.99995) && C18_FDIV_SIDE(9999995, 9.999995) && C18_FDIV_SIDE(10000000, 10.0))
__CPROVER_ensures((den == 1000000 && num < 10000000) ==> __CPROVER_return_value < 9.9999995)
__CPROVER_assigns()
{
  return (double)num / (double)den;
}
/* C++: static_cast<double>(num) / den  with an unsigned long long den (usual arithmetic conversions: den -> double);
 * records numerator, denominator and result of the division in the ghosts */
static inline double c18_ratio(uint64_t num, uint64_t den)
{
  double r = c18_fdiv(num, den);
  g_ratio_calls++; g_ratio_num = num; g_ratio_den = den; g_ratio_val = r;
  return r;
}
/* C++: (float)num / den  with an unsigned long long den (den -> float), then promoted to double by the varargs call */
static inline double c18_ratiof(uint64_t num, uint64_t den)
{
  double r = (double)((float)num / (float)den);
  g_ratio_calls++; g_ratio_num = num; g_ratio_den = den; g_ratio_val = r;
  return r;
}

#define C18_NDIGITS(v) ((v) < 10ull ? 1 : (v) < 100ull ? 2 : (v) < 1000ull ? 3 : (v) < 10000ull ? 4 : (v) < 100000ull ? 5 : \
  (v) < 1000000ull ? 6 : (v) < 10000000ull ? 7 : (v) < 100000000ull ? 8 : (v) < 1000000000ull ? 9 : (v) < 10000000000ull ? 10 : \
  (v) < 100000000000ull ? 11 : (v) < 1000000000000ull ? 12 : (v) < 10000000000000ull ? 13 : (v) < 100000000000000ull ? 14 : \
  (v) < 1000000000000000ull ? 15 : (v) < 10000000000000000ull ? 16 : (v) < 100000000000000000ull ? 17 : \
  (v) < 1000000000000000000ull ? 18 : (v) < 10000000000000000000ull ? 19 : 20)

/* ---- duration-grammar recogniser steps ---- */
static inline void c18_d_int(c18_text* t, uint64_t v, unsigned chars, unsigned nd, unsigned zero)
{
  if (t->d_pend || t->d_sec || t->d_lead != 0) t->d_bad = 1;
  t->d_pend = 1; t->d_pv = v; t->d_p2 = (chars == 2 && (nd == 2 || zero != 0));
}
static inline void c18_d_char(c18_text* t, char c)
{
  if (c == ':') {
    if (!t->d_pend || t->d_sec || t->d_nf >= 3) t->d_bad = 1;
    else {
      if (t->d_nf == 0) { t->d_f0 = t->d_pv; t->d_two0 = t->d_p2; }
      else if (t->d_nf == 1) { t->d_f1 = t->d_pv; t->d_two1 = t->d_p2; }
      else { t->d_f2 = t->d_pv; t->d_two2 = t->d_p2; }
      t->d_nf++; t->d_pend = 0;
    }
  } else if (c == '0') {
    if (t->d_pend || t->d_sec || t->d_lead >= 4) t->d_bad = 1; else t->d_lead++;
  } else {
    t->d_bad = 1;
  }
}
static inline void c18_d_sec(c18_text* t, uint64_t num)
{
  if (t->d_pend || t->d_sec) t->d_bad = 1;
  t->d_sec = 1; t->d_sec_lead = t->d_lead; t->d_lead = 0;
  t->d_min = t->d_nf == 0 ? 0 : t->d_nf == 1 ? t->d_f0 : t->d_nf == 2 ? t->d_f1 : t->d_f2;
  t->d_hr = t->d_nf <= 1 ? 0 : t->d_nf == 2 ? t->d_f0 : t->d_f1;
  t->d_day = t->d_nf <= 2 ? 0 : t->d_f0;
  {
    uint64_t w1 = t->d_day * 86400000000ull, w2 = t->d_hr * 3600000000ull, w3 = t->d_min * 60000000ull;
    uint64_t s1 = w1 + w2, s2 = s1 + w3, s3 = s2 + num;
    t->d_total = s3;
    t->d_exact = t->d_day <= 213503982ull && t->d_hr <= 5124095576ull && t->d_min <= 307445734561ull   /* products below 2^64 */
                 && s1 >= w1 && s2 >= s1 && s3 >= s2;                                                    /* sums without carry out */
  }
}

/* ---- text construction ---- */
static inline void c18_begin(c18_text* t)
{
  t->len = 0; t->ntok = 0; t->shape = 0;
  t->nlit = 0; t->lit0 = 0; t->lit1 = 0; t->lit2 = 0; t->lit0n = 0; t->lit1n = 0; t->lit2n = 0;
  t->nu64 = 0; t->u64_val = 0; t->u64_width = 0; t->u64_zero = 0;
  t->ndbl = 0; t->dbl_prec = 0; t->dbl_digits = 0; t->dbl_val = 0.0; t->dbl_is_ratio = 0; t->dbl_num = 0; t->dbl_den = 0;
  t->d_bad = 0; t->d_nf = 0; t->d_f0 = 0; t->d_f1 = 0; t->d_f2 = 0; t->d_two0 = 0; t->d_two1 = 0; t->d_two2 = 0;
  t->d_pend = 0; t->d_pv = 0; t->d_p2 = 0; t->d_lead = 0; t->d_sec = 0; t->d_sec_lead = 0;
  t->d_day = 0; t->d_hr = 0; t->d_min = 0; t->d_total = 0; t->d_exact = 0;
}
static inline void c18_new_tok(c18_text* t, unsigned kind)
{
  __CPROVER_assert(t->ntok < 10, "model limit: a text has at most 10 printf tokens");
  t->ntok++;
  t->shape = t->shape * 8 + kind;
}
static inline void c18_d_run(c18_text* t, uint64_t packed, unsigned n)
{
  if (n > 0) c18_d_char(t, (char)(packed));
  if (n > 1) c18_d_char(t, (char)(packed >> 8));
  if (n > 2) c18_d_char(t, (char)(packed >> 16));
  if (n > 3) c18_d_char(t, (char)(packed >> 24));
  if (n > 4) c18_d_char(t, (char)(packed >> 32));
  if (n > 5) c18_d_char(t, (char)(packed >> 40));
  if (n > 6) c18_d_char(t, (char)(packed >> 48));
  if (n > 7) c18_d_char(t, (char)(packed >> 56));
}
static inline void c18_run(c18_text* t, unsigned kind, uint64_t packed, unsigned n)
{
  c18_new_tok(t, kind);
  if (t->nlit == 0) { t->lit0 = packed; t->lit0n = n; }
  else if (t->nlit == 1) { t->lit1 = packed; t->lit1n = n; }
  else if (t->nlit == 2) { t->lit2 = packed; t->lit2n = n; }
  if (t->nlit < 255) t->nlit++;
  t->len += n;
  c18_d_run(t, packed, n);
}
/* a run of 1..8 literal characters of the format string (first character in the low byte) */
static inline void c18_put_lit(c18_text* t, uint64_t packed, unsigned n) { c18_run(t, C18_LIT, packed, n); }
/* %s */
static inline void c18_put_cstr(c18_text* t, const char* s)
{
  unsigned n = 0; uint64_t packed = 0;
  if (s[0] != 0) {
    n = 1; packed = (uint8_t)s[0];
    if (s[1] != 0) {
      n = 2; packed |= ((uint64_t)(uint8_t)s[1]) << 8;
      __CPROVER_assert(s[2] == 0, "model limit: %s arguments have at most 2 characters");
    }
  }
  c18_run(t, C18_STR, packed, n);
}
/* %[0][width]u / lu / zu */
static inline void c18_put_u64(c18_text* t, uint64_t v, unsigned width, unsigned zero)
{
  unsigned nd = C18_NDIGITS(v);
  unsigned chars = nd < width ? width : nd;
  c18_new_tok(t, C18_U64);
  if (t->nu64 == 0) { t->u64_val = v; t->u64_width = width; t->u64_zero = zero; }
  if (t->nu64 < 255) t->nu64++;
  t->len += chars;
  c18_d_int(t, v, chars, nd, zero);
}
unsigned nondet_c18_unsigned(void);
char nondet_c18_char(void);
static inline void c18_dbl(c18_text* t, int prec, unsigned d, double v, bool is_ratio, uint64_t num, uint64_t den)
{
  c18_new_tok(t, C18_DBL);
  if (t->ndbl == 0) { t->dbl_prec = prec; t->dbl_digits = d; t->dbl_val = v; t->dbl_is_ratio = is_ratio; t->dbl_num = num; t->dbl_den = den; }
  if (t->ndbl < 255) t->ndbl++;
  t->len += d + (prec > 0 ? 1 + (size_t)prec : 0);
  c18_d_sec(t, num);
}
/* %.*lf / %.Pf  (prec < 0: precision omitted = 6) */
static inline void c18_put_double(c18_text* t, int prec, double v)
{
  __CPROVER_assert(v >= 0.0 && v <= 1e20, "model limit: %f is modelled for 0 <= v <= 1e20 only");
  if (prec < 0) prec = 6;
  unsigned d = nondet_c18_unsigned();
  __CPROVER_assume(d >= 1 && d <= 21);
  /* D follows the value rounded at prec decimals: it grows at 10 - 0.5 * 10^-prec (and 100 - ...).  prec == 0: the threshold is a
   * double and an exact tie rounds to the even neighbour 10 / 100; prec 1..6: the threshold is not a double, a value equal to its
   * nearest double may go either way; prec > 6: either neighbour inside [9.99999995, 10) */
  double c10 = prec == 0 ? 9.5 : prec == 1 ? 9.95 : prec == 2 ? 9.995 : prec == 3 ? 9.9995 : prec == 4 ? 9.99995 : prec == 5 ? 9.999995 :
               prec == 6 ? 9.9999995 : 9.99999995;
  double c100 = prec == 0 ? 99.5 : prec == 1 ? 99.95 : prec == 2 ? 99.995 : prec == 3 ? 99.9995 : prec == 4 ? 99.99995 : prec == 5 ? 99.999995 :
                prec == 6 ? 99.9999995 : 99.99999995;
  bool above10 = prec == 0 ? v >= c10 : prec <= 6 ? v > c10 : v >= 10.0;
  bool above100 = prec == 0 ? v >= c100 : prec <= 6 ? v > c100 : v >= 100.0;
  __CPROVER_assume(!(v < c10) || d == 1);
  __CPROVER_assume(!above10 || d >= 2);
  __CPROVER_assume(!(v < c100) || d <= 2);
  __CPROVER_assume(!above100 || d >= 3);
  c18_dbl(t, prec, d, v, g_ratio_calls >= 1 && v == g_ratio_val, g_ratio_num, g_ratio_den);
}
#define C18_IS_ONE_DBL(t) ((t)->ntok == 1 && (t)->ndbl == 1)
/* operator+(std::string, const std::string&) (model limit: the right operand is the text of a single %f conversion) */
static inline void c18_append(c18_text* t, const c18_text* o)
{
  __CPROVER_assert(C18_IS_ONE_DBL(o), "model limit: operator+ is modelled for a right operand that is the text of one %f conversion");
  c18_dbl(t, o->dbl_prec, o->dbl_digits, o->dbl_val, o->dbl_is_ratio, o->dbl_num, o->dbl_den);
}
static inline size_t c18_size(const c18_text* t) { return t->len; }
/* std::string::at on the text of a single %f conversion */
static inline char c18_at(const c18_text* t, size_t i)
{
  if (i >= t->len) { verif_exc = EXC_out_of_range; return 0; }
  __CPROVER_assert(C18_IS_ONE_DBL(t), "model limit: at() is modelled on the text of one %f conversion only");
  char dg = nondet_c18_char();
  __CPROVER_assume(dg >= '0' && dg <= '9');
  return (t->dbl_prec > 0 && i == t->dbl_digits) ? '.' : dg;
}

/* ---- libc used by parse_size ---- */
/* isdigit in the "C" locale (ISO C 7.4.1.5).  Argument values outside unsigned char / EOF are formally undefined; glibc
 * answers 0 for -128..-1, which is what this model does. */
static inline int c18_isdigit(int c) { return c >= '0' && c <= '9'; }

#endif
