/* C09: the two "read the data for this line" cursor loops of format_data (current data, previous data).
 * Memory-safety / cursor discipline for ANY partition of the data into iovecs (array length and element lengths symbolic):
 * every element index used is inside the array it is applied to, every byte offset is inside that element's buffer, the
 * cursor stays inside its array, only logic_error may be thrown, only the 16-byte line buffer is written. */
#ifndef C09C_IOV_H
#define C09C_IOV_H
#include "stubs/C09_iov.h"
#define C9_MAXIOV 0x100000
#define CURSOR_CONTRACT(NAME) \
void NAME(uint8_t* CURSOR_BUF, const struct iovec* iovs, size_t num_iovs, const struct iovec* prev_iovs, size_t num_prev_iovs, \
          size_t* current_iov_index_p, size_t* current_iov_bytes_p, size_t* prev_iov_index_p, size_t* prev_iov_bytes_p, \
          uint8_t line_bytes, uint8_t line_invalid_start_bytes) \
__CPROVER_requires(num_iovs >= 1 && num_iovs <= C9_MAXIOV && num_prev_iovs >= 1 && num_prev_iovs <= C9_MAXIOV) \
__CPROVER_requires(__CPROVER_is_fresh(iovs, num_iovs * sizeof(struct iovec))) \
__CPROVER_requires(__CPROVER_is_fresh(prev_iovs, num_prev_iovs * sizeof(struct iovec))) \
__CPROVER_requires(__CPROVER_is_fresh(CURSOR_BUF, 16)) \
__CPROVER_requires(__CPROVER_is_fresh(current_iov_index_p, sizeof(size_t))) __CPROVER_requires(__CPROVER_is_fresh(current_iov_bytes_p, sizeof(size_t))) \
__CPROVER_requires(__CPROVER_is_fresh(prev_iov_index_p, sizeof(size_t))) __CPROVER_requires(__CPROVER_is_fresh(prev_iov_bytes_p, sizeof(size_t))) \
__CPROVER_requires(*current_iov_index_p < num_iovs && *prev_iov_index_p < num_prev_iovs)   /* cursors inside their arrays (class invariant of the walk) */ \
__CPROVER_requires((size_t)line_bytes + line_invalid_start_bytes <= 16 && verif_exc == 0) \
__CPROVER_ensures(verif_exc == 0 || verif_exc == EXC_logic_error) \
__CPROVER_ensures(verif_exc == 0 ==> (*current_iov_index_p < num_iovs && *prev_iov_index_p < num_prev_iovs)) \
__CPROVER_assigns(verif_exc, *current_iov_index_p, *current_iov_bytes_p, *prev_iov_index_p, *prev_iov_bytes_p, __CPROVER_object_whole(CURSOR_BUF));
#define CURSOR_BUF line_buf
CURSOR_CONTRACT(format_data_read_current)
#undef CURSOR_BUF
#define CURSOR_BUF prev_line_buf
CURSOR_CONTRACT(format_data_read_prev)
#undef CURSOR_BUF
#endif
