/* C08: trusted C models of the std::string / std::vector<std::string> / libc operations used by the split / join / strip /
 * replace / skip helpers of src/Strings.cc and src/Strings.hh.  Extends stubs/vstr.h (same { data, size, cap } model).
 *
 * Contract-only operations (bound with --replace-call-with-contract) state their result with ghost indices instead of
 * quantifiers:  g_sk = absolute index into the *source* string, g_ok = absolute index into the *output* string (that is
 * vstr.h's g_vk), g_wit = existential witness assigned by the stub (a "first mismatch" position).
 * Operations with bodies record ghost facts about ONE symbolic piece (index g_pj) of a vector<string>:
 *      "piece g_pj is s[g_pstart .. g_pstart + g_plen)",  "piece g_pj + 1 starts at g_nstart".
 * The only __CPROVER_assume statements are (a) allocation succeeds = the result string has capacity, (b) the
 * representation invariant of the slice vector (every slice lies inside its backing string). */
#ifndef STUBS_C08_STR_H
#define STUBS_C08_STR_H
#include "stubs/vstr.h"

#define C8_NPOS ((size_t)-1)
#define g_ok g_vk

extern size_t g_sk;        /* ghost index into the source string */
extern size_t g_wit;       /* witness index assigned by compare/find stubs */
extern size_t g_cand;      /* ghost candidate match position (find of a multi-byte needle) */
extern size_t g_pj;        /* ghost piece index */
extern size_t g_pstart, g_plen, g_nstart;   /* recorded slice of piece g_pj, start of piece g_pj + 1 */

/* ---- vector<string> whose elements are slices of one source string: only the count is stored, the slice of the ghost
 * piece is recorded when it is pushed ----------------------------------------------------------------------------- */
typedef struct { size_t size; } vvec;

/* ret.emplace_back(s.substr(pos, n)) / ret.push_back(s.substr(pos, n)):  [string.substr] throws out_of_range if pos > size(),
 * otherwise the piece is s[pos, pos + min(n, size() - pos)) */
static inline void c8_push_substr(vvec* ret, const vstr* s, size_t pos, size_t n)
{
  if (pos > s->size) { verif_exc = EXC_out_of_range; return; }
  size_t verif_len = n < s->size - pos ? n : s->size - pos;
  if (ret->size == g_pj) { g_pstart = pos; g_plen = verif_len; }
  if (g_pj != C8_NPOS && ret->size == g_pj + 1) { g_nstart = pos; }
  ret->size++;
}

/* ---- a vector<string> given as input: element i is src[v[i].start, v[i].start + v[i].len) ------------------------- */
typedef struct { size_t start; size_t len; } vslice;
typedef struct { const vslice* v; size_t n; const vstr* src; } vsvec;
#ifndef VSVEC_MAXN
#define VSVEC_MAXN 0x1000000000ull
#endif

static inline const vslice* c8_item(const vsvec* items, size_t i)
{
  /* representation invariant of the model: every element is a slice of the backing string */
  __CPROVER_assume(items->v[i].start <= items->src->size && items->v[i].len <= items->src->size - items->v[i].start);
  return &items->v[i];
}

/* ---- result strings that are only written (never read back) by the function under contract: the content is ONE ghost
 * byte.  The ghost output position is the pair (g_obase, g_rk) = absolute index g_obase + g_rk; an append / push_back that
 * STARTS at offset g_obase and covers relative index g_rk records the byte it writes there in g_oval.  Contracts are phrased
 * "if piece X starts at g_obase then g_oval == ..." for every (g_obase, g_rk) (both are inputs, i.e. universally quantified);
 * if no write starts at g_obase, g_oval keeps its arbitrary initial value and such a clause fails (never unsound).
 * Allocation succeeds (sizes stay below VSTR_MAXCAP) is assumed. --------------------------------------------------------- */
typedef struct { size_t size; } vout;
extern char g_oval;
extern size_t g_obase, g_rk;
static inline void c8_append(vout* s, const char* p, size_t n)
{
  __CPROVER_assume(n <= VSTR_MAXCAP - s->size);     /* allocation succeeds */
  __CPROVER_assert(n == 0 || __CPROVER_r_ok(p, n), "append(p, n): source range is readable");
  if (s->size == g_obase && g_rk < n) g_oval = p[g_rk];
  s->size += n;
}
/* std::string::c_str(): the buffer followed by a NUL terminator ([string.accessors]) */
static inline const char* c8_cstr(const vstr* s)
{
  __CPROVER_assume(s->size < s->cap && s->data[s->size] == 0);
  return s->data;
}
/* append(const char* p): appends the C string at p, i.e. the bytes up to (not including) the FIRST NUL */
static inline void c8_append_cstr(vout* s, const char* p)
{
  size_t n;
  __CPROVER_assume(n <= VSTR_MAXCAP);
  __CPROVER_assume(__CPROVER_r_ok(p, n + 1) && p[n] == 0);     /* a terminator exists ... */
  __CPROVER_assume(g_rk < n ==> p[g_rk] != 0);                 /* ... and no byte before it (ghost index) is NUL */
  c8_append(s, p, n);
}
static inline void c8_push_back(vout* s, char c)
{
  __CPROVER_assume(s->size < VSTR_MAXCAP);          /* allocation succeeds */
  if (s->size == g_obase && g_rk == 0) g_oval = c;
  s->size++;
}
static inline void c8_reserve(vout* s, size_t n) { (void)s; (void)n; }   /* capacity hint: no observable effect */

/* ---- searching -------------------------------------------------------------------------------------------------------- */
/* s.find(ch, pos): lowest index >= pos holding ch, npos if none  [string.find] */
size_t c8_find_ch(const vstr* s, char ch, size_t pos)
__CPROVER_ensures(__CPROVER_return_value == C8_NPOS || (__CPROVER_return_value >= pos && __CPROVER_return_value < s->size))
__CPROVER_ensures(__CPROVER_return_value != C8_NPOS ==> s->data[__CPROVER_return_value] == ch)
__CPROVER_ensures((pos <= s->size && g_rk < (__CPROVER_return_value == C8_NPOS ? s->size : __CPROVER_return_value) - pos) ==> s->data[pos + g_rk] != ch)   /* g_rk is relative to pos */
__CPROVER_assigns();

#ifdef C8_CONCRETE
/* executable definition, used only by the bounded count check (no contract replacement there) */
size_t c8_find_ch(const vstr* s, char ch, size_t pos)
{
  for (size_t verif_i = pos; verif_i < s->size; verif_i++) if (s->data[verif_i] == ch) return verif_i;
  return C8_NPOS;
}
#endif

/* s.find(p, pos, n) with n > 0 or n == 0: lowest index r >= pos with r + n <= size and s[r, r+n) == p[0, n), npos if none.
 * "no earlier match" is stated for the ghost candidate g_cand with the mismatch witness g_wit chosen by the stub. */
size_t c8_find_buf(const vstr* s, const char* p, size_t pos, size_t n)
__CPROVER_requires(n == 0 || __CPROVER_r_ok(p, n))
__CPROVER_ensures(__CPROVER_return_value == C8_NPOS ||
                  (__CPROVER_return_value >= pos && __CPROVER_return_value <= s->size && n <= s->size - __CPROVER_return_value))
__CPROVER_ensures((__CPROVER_return_value != C8_NPOS && g_sk < n) ==> s->data[__CPROVER_return_value + g_sk] == p[g_sk])
__CPROVER_ensures((g_cand >= pos && g_cand <= s->size && n <= s->size - g_cand && (__CPROVER_return_value == C8_NPOS || g_cand < __CPROVER_return_value))
                  ==> (g_wit < n && s->data[g_cand + g_wit] != p[g_wit]))
__CPROVER_assigns(g_wit);

/* s.find_first_not_of(set) / s.find_last_not_of(set) with the set given as a C string of at most 4 characters
 * (membership spelled out; a NUL byte is never a member of a C-string set), and find_last_not_of(ch)  [string.find.last.not.of] */
#define C8_WS(c) ((c) == ' ' || (c) == '\t' || (c) == '\r' || (c) == '\n')
#define C8_SETLEN_OK(t) ((t)[0] == 0 || (t)[1] == 0 || (t)[2] == 0 || (t)[3] == 0 || (t)[4] == 0)
#define C8_INSET(c, t) ((t)[0] != 0 && ((c) == (t)[0] || ((t)[1] != 0 && ((c) == (t)[1] || ((t)[2] != 0 && ((c) == (t)[2] || ((t)[3] != 0 && (c) == (t)[3])))))))

/* The "every byte before / after the result is in the set" universal is stated at several instances: the ghost index g_sk, the
 * first and the last byte, and g_inst = the index returned by the previous find_*_not_* call (so that two consecutive searches on
 * the same string are related: first_not_of(s) <= last_not_of(s)); every instance is a consequence of the same universal. */
extern size_t g_inst;
#define C8_FNO_ENSURES(MEMBER, BEYOND) \
__CPROVER_ensures(__CPROVER_return_value == C8_NPOS || __CPROVER_return_value < s->size) \
__CPROVER_ensures(__CPROVER_return_value != C8_NPOS ==> !MEMBER(s->data[__CPROVER_return_value])) \
__CPROVER_ensures((g_sk < s->size && (__CPROVER_return_value == C8_NPOS || BEYOND(g_sk, __CPROVER_return_value))) ==> MEMBER(s->data[g_sk])) \
__CPROVER_ensures((0 < s->size && (__CPROVER_return_value == C8_NPOS || BEYOND(0, __CPROVER_return_value))) ==> MEMBER(s->data[0])) \
__CPROVER_ensures((0 < s->size && (__CPROVER_return_value == C8_NPOS || BEYOND(s->size - 1, __CPROVER_return_value))) ==> MEMBER(s->data[s->size - 1])) \
__CPROVER_ensures((__CPROVER_old(g_inst) < s->size && (__CPROVER_return_value == C8_NPOS || BEYOND(__CPROVER_old(g_inst), __CPROVER_return_value))) ==> MEMBER(s->data[__CPROVER_old(g_inst)])) \
__CPROVER_ensures(g_inst == __CPROVER_return_value) \
__CPROVER_assigns(g_inst)
#define C8_BEFORE(k, r) ((k) < (r))
#define C8_AFTER(k, r) ((k) > (r))

#define C8_M_SET(c) C8_INSET(c, set)
size_t c8_find_first_not_of(const vstr* s, const char* set)
__CPROVER_requires(__CPROVER_r_ok(set, 5) && C8_SETLEN_OK(set))
C8_FNO_ENSURES(C8_M_SET, C8_BEFORE);

size_t c8_find_last_not_of(const vstr* s, const char* set)
__CPROVER_requires(__CPROVER_r_ok(set, 5) && C8_SETLEN_OK(set))
C8_FNO_ENSURES(C8_M_SET, C8_AFTER);

#define C8_M_CH(c) ((c) == ch)
size_t c8_find_last_not_ch(const vstr* s, char ch)
C8_FNO_ENSURES(C8_M_CH, C8_AFTER);

/* s.compare(pos, len, str): [string.compare] throws out_of_range if pos > size(); compares s[pos, pos + rlen), rlen = min(len, size() - pos),
 * with str; 0 iff equal length and equal bytes.  Inequality is witnessed by g_wit (first differing index) chosen by the stub. */
#define C8_RLEN(s, pos, len) ((len) < (s)->size - (pos) ? (len) : (s)->size - (pos))
int c8_compare(const vstr* s, size_t pos, size_t len, const vstr* str)
__CPROVER_requires(pos <= s->size)
__CPROVER_ensures(__CPROVER_return_value == 0 ==> (C8_RLEN(s, pos, len) == str->size && (g_sk < str->size ==> s->data[pos + g_sk] == str->data[g_sk])))
__CPROVER_ensures((__CPROVER_return_value != 0 && C8_RLEN(s, pos, len) == str->size) ==> (g_wit < str->size && s->data[pos + g_wit] != str->data[g_wit]))
__CPROVER_assigns(g_wit);

/* s = s.substr(pos, n) (a string replaced by its own infix): throws out_of_range if pos > size; the new size is
 * rlen = min(n, size - pos) and new byte k is old byte pos + k.  Modelled exactly as a change of view: the data pointer moves
 * forward by pos (no byte is copied or havocked).  g_shift records how many leading bytes were dropped. */
extern char g_sval;
extern size_t g_shift;
static inline void c8_assign_substr_self(vstr* s, size_t pos, size_t n)
{
  if (pos > s->size) { verif_exc = EXC_out_of_range; return; }
  size_t verif_len = n < s->size - pos ? n : s->size - pos;
  s->data += pos; s->cap -= pos; s->size = verif_len;
  g_shift = pos;
}

/* ---- libc ---------------------------------------------------------------------------------------------------------------- */
/* toupper / tolower in the "C" locale (ISO C 7.4.2): only a-z / A-Z are mapped.  glibc accepts -128..255 (plain char
 * arguments); ISO C leaves negative arguments other than EOF undefined -- see ASSUMPTIONS of props/C08.py. */
static inline int c8_toupper(int c) { return (c >= 'a' && c <= 'z') ? c - 'a' + 'A' : c; }
static inline int c8_tolower(int c) { return (c >= 'A' && c <= 'Z') ? c - 'A' + 'a' : c; }
/* isblank in the "C" locale: space and horizontal tab */
static inline int c8_isblank(int c) { return c == ' ' || c == '\t'; }

#endif
