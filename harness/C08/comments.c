/* C08: strip_multiline_comments<std::string> in lock-step with the reference automaton. */
#include "harness/C08/common.h"
#include "contracts/C08_comments.h"
size_t g_z0, g_wo0, g_wo; char g_c, g_c2, g_oprev; bool g_havenext, g_in0, g_in;
#include "x_comments.c"
void h_strip_multiline_comments(void) { vstr* s; bool in_allow; IN_GHOSTS; strip_multiline_comments(s, in_allow); VERIF_REACH(); }
