/* Trusted contract-only models of the libc calls phosg's byte readers/writers use (DESIGN.md 3.2).
 * They are bound with --replace-call-with-contract; their *preconditions* are the memory-safety obligations of the
 * call site (asserted there), their postconditions use a ghost index instead of a quantifier. */
#ifndef STUBS_LIBC_H
#define STUBS_LIBC_H
#include "contracts/verif.h"

extern size_t g_mk;       /* ghost index into the bytes copied by the last verif_memcpy */

/* memcpy: ISO C 7.24.2.1 -- copies n bytes; both ranges must be accessible (overlap not modelled: callers pass distinct objects) */
void* verif_memcpy(void* dst, const void* src, size_t n)
__CPROVER_requires(n == 0 || (__CPROVER_w_ok(dst, n) && __CPROVER_r_ok(src, n)))
__CPROVER_ensures(__CPROVER_return_value == dst)
__CPROVER_ensures(g_mk < n ==> ((const uint8_t*)dst)[g_mk] == ((const uint8_t*)src)[g_mk])
__CPROVER_assigns(n != 0: __CPROVER_object_upto(dst, n));

/* memcmp: only memory safety and "0 => equal at the ghost index" */
int verif_memcmp(const void* a, const void* b, size_t n)
__CPROVER_requires(verif_exc != 0 || n == 0 || (__CPROVER_r_ok(a, n) && __CPROVER_r_ok(b, n)))   /* exception in flight: arguments are not evaluated in C++ */
__CPROVER_ensures((verif_exc == 0 && __CPROVER_return_value == 0) ==> (g_mk < n ==> ((const uint8_t*)a)[g_mk] == ((const uint8_t*)b)[g_mk]))
__CPROVER_assigns();

#endif
