// Native replay for C20 (src/Vector.hh): calls the real Vector2/3/4 / Matrix4 members with the verifier's counterexample
// and evaluates the same postcondition (componentwise definition computed here independently, in wrap-around arithmetic).
// exit 1 = violated on the real code, 0 = holds / precondition not met, 2 = usage.
//   vec <Class>_<member> <T> g_s=a,b,c,d g_o=a,b,c,d g_t=v g_dim=i
//   vec <Class>_order <T> in_a=.. in_b=.. in_c=..
//   vec cross_orthogonal <T> in_a=.. in_b=..
//   vec Matrix4_<member> <T> g_m=16 values g_x=.. g_y=.. g_val=.. g_o=..
#include "replay/common/args.hh"
#include <stdexcept>
#include "Vector.hh"
#include <limits>
#include <type_traits>
using namespace phosg;
typedef unsigned long long ull;

template <typename V> constexpr int dims() { return (int)V::dimensions(); }
template <typename T> static T& comp(Vector2<T>& v, int i) { return i == 0 ? v.x : v.y; }
template <typename T> static T& comp(Vector3<T>& v, int i) { return i == 0 ? v.x : i == 1 ? v.y : v.z; }
template <typename T> static T& comp(Vector4<T>& v, int i) { return i == 0 ? v.x : i == 1 ? v.y : i == 2 ? v.z : v.w; }

// inputs: the harness locals in_* carry the whole nondet arrays; the ghosts g_* (same values) are the fallback
static const char* key(const Args& A, const char* k) {
  static const char* alias[][2] = {{"g_s", "in_s"}, {"g_o", "in_o"}, {"g_m", "in_m"}, {"g_t", "in_t"}, {"g_dim", "in_dim"},
                                   {"g_x", "in_x"}, {"g_y", "in_y"}, {"g_val", "in_val"}};
  for (auto& a : alias) if (!strcmp(k, a[0]) && A.has(a[1])) return a[1];
  return k;
}
template <typename T> static T arr(const Args& A, const char* k, size_t i) {
  const auto& v = A.arr(key(A, k));
  return (T)(i < v.size() ? v[i] : 0);
}
template <typename V, typename T> static V load(const Args& A, const char* k) {
  V v;
  for (int i = 0; i < dims<V>(); i++) comp(v, i) = arr<T>(A, k, i);
  return v;
}

#define FAILV(...) do { printf("POSTCONDITION VIOLATED on the real code: "); printf(__VA_ARGS__); printf("\n"); return 1; } while (0)
#define PRE_FAIL() do { printf("precondition not met (the native operator is undefined on this input)\n"); return 0; } while (0)

// expected value of a binary operator on T, computed without undefined behaviour; false if the native operator is undefined
template <typename T> static bool binop(char op, T a, T b, T& r) {
  using U = std::make_unsigned_t<T>;
  constexpr bool S = std::is_signed_v<T>;
  T tmp;
  switch (op) {
    case '+': if (S && __builtin_add_overflow(a, b, &tmp)) return false; r = (T)((U)a + (U)b); return true;
    case '-': if (S && __builtin_sub_overflow(a, b, &tmp)) return false; r = (T)((U)a - (U)b); return true;
    case '*': if (S && __builtin_mul_overflow(a, b, &tmp)) return false; r = (T)((U)a * (U)b); return true;
    case '/': case '%':
      if (b == 0) return false;
      if (S && a == std::numeric_limits<T>::min() && b == (T)-1) return false;
      r = op == '/' ? (T)(a / b) : (T)(a % b); return true;
  }
  return false;
}

template <typename V, typename T> static int vec_mode(const Args& A, const std::string& m) {
  constexpr int N = dims<V>();
  V s = load<V, T>(A, "g_s"), o = load<V, T>(A, "g_o");
  T t = (T)A.u(key(A, "g_t"));
  auto show = [&](const char* what) {
    printf("%s: self=[", what);
    for (int i = 0; i < N; i++) printf("%s0x%llX", i ? "," : "", (ull)comp(s, i));
    printf("] other=[");
    for (int i = 0; i < N; i++) printf("%s0x%llX", i ? "," : "", (ull)comp(o, i));
    printf("] scalar=0x%llX\n", (ull)t);
  };
  show(m.c_str());
  // componentwise binary forms ---------------------------------------------------------------
  struct { const char* name; char op; bool scalar; bool inplace; } bins[] = {
      {"add", '+', false, false}, {"sub", '-', false, false}, {"adds", '+', true, false}, {"subs", '-', true, false},
      {"muls", '*', true, false}, {"divs", '/', true, false}, {"mods", '%', true, false},
      {"iadd", '+', false, true}, {"isub", '-', false, true}, {"iadds", '+', true, true}, {"isubs", '-', true, true},
      {"imuls", '*', true, true}, {"idivs", '/', true, true}, {"imods", '%', true, true}};
  for (auto& b : bins) {
    if (m != b.name) continue;
    V e;
    for (int i = 0; i < N; i++)
      if (!binop<T>(b.op, comp(s, i), b.scalar ? t : comp(o, i), comp(e, i))) PRE_FAIL();
    V r = s;
    if (m == "add") r = s + o; else if (m == "sub") r = s - o; else if (m == "adds") r = s + t; else if (m == "subs") r = s - t;
    else if (m == "muls") r = s * t; else if (m == "divs") r = s / t; else if (m == "mods") r = s % t;
    else {
      V* ret = nullptr;
      if (m == "iadd") ret = &(r += o); else if (m == "isub") ret = &(r -= o); else if (m == "iadds") ret = &(r += t);
      else if (m == "isubs") ret = &(r -= t); else if (m == "imuls") ret = &(r *= t); else if (m == "idivs") ret = &(r /= t);
      else if (m == "imods") ret = &(r %= t);
      if (ret != &r) FAILV("compound assignment does not return *this");
    }
    for (int i = 0; i < N; i++)
      if (comp(r, i) != comp(e, i)) FAILV("component %d is 0x%llX, componentwise definition gives 0x%llX", i, (ull)comp(r, i), (ull)comp(e, i));
    printf("holds on this input\n");
    return 0;
  }
  if (m == "neg") {
    V e;
    for (int i = 0; i < N; i++) if (!binop<T>('-', (T)0, comp(s, i), comp(e, i))) PRE_FAIL();
    V r = -s;
    for (int i = 0; i < N; i++) if (comp(r, i) != comp(e, i)) FAILV("component %d of -v is 0x%llX, expected 0x%llX", i, (ull)comp(r, i), (ull)comp(e, i));
  } else if (m == "make0") {
    V r;
    for (int i = 0; i < N; i++) if (comp(r, i) != 0) FAILV("default constructor: component %d is not 0", i);
  } else if (m == "make") {
    V r;
    if constexpr (N == 2) r = V(comp(s, 0), comp(s, 1));
    else if constexpr (N == 3) r = V(comp(s, 0), comp(s, 1), comp(s, 2));
    else r = V(comp(s, 0), comp(s, 1), comp(s, 2), comp(s, 3));
    for (int i = 0; i < N; i++) if (comp(r, i) != comp(s, i)) FAILV("constructor: component %d is 0x%llX, expected 0x%llX", i, (ull)comp(r, i), (ull)comp(s, i));
  } else if (m == "make_v2") {
    Vector2<T> p = load<Vector2<T>, T>(A, "g_s");
    T w = (T)A.u("in_w");
    if constexpr (N == 3) { V r(p, t); if (r.x != p.x || r.y != p.y || r.z != t) FAILV("Vector3(Vector2, z) components wrong"); }
    else if constexpr (N == 4) { V r(p, t, w); if (r.x != p.x || r.y != p.y || r.z != t || r.w != w) FAILV("Vector4(Vector2, z, w) components wrong"); }
  } else if (m == "make_v3") {
    if constexpr (N == 4) {
      Vector3<T> p = load<Vector3<T>, T>(A, "g_s");
      V r(p, t);
      if (r.x != p.x || r.y != p.y || r.z != p.z || r.w != t) FAILV("Vector4(Vector3, w) components wrong");
    }
  } else if (m == "isz") {
    bool e = true;
    for (int i = 0; i < N; i++) e = e && comp(s, i) == 0;
    if ((!s) != e) FAILV("operator! returned %d, all-components-zero is %d", (int)!s, (int)e);
  } else if (m == "eq" || m == "ne") {
    bool e = true;
    for (int i = 0; i < N; i++) e = e && comp(s, i) == comp(o, i);
    if (m == "eq" && (s == o) != e) FAILV("operator== returned %d, componentwise equality is %d", (int)(s == o), (int)e);
    if (m == "ne" && (s != o) != !e) FAILV("operator!= returned %d, componentwise equality is %d", (int)(s != o), (int)e);
  } else if (m == "lt") {
    bool e = false;
    for (int i = 0; i < N; i++) { if (comp(s, i) < comp(o, i)) { e = true; break; } if (comp(s, i) > comp(o, i)) break; }
    if ((s < o) != e) FAILV("operator< returned %d, lexicographic order gives %d", (int)(s < o), (int)e);
  } else if (m == "at") {
    size_t d = A.u(key(A, "g_dim"));
    if (d >= (size_t)N) PRE_FAIL();
    try {
      if (s.at(d) != comp(s, (int)d)) FAILV("at(%zu) returned 0x%llX, component is 0x%llX", d, (ull)s.at(d), (ull)comp(s, (int)d));
    } catch (const std::exception& e) {
      FAILV("at(%zu) threw for a valid index of a %d-component vector: %s", d, N, e.what());
    }
  } else if (m == "dimensions") {
    if (V::dimensions() != (size_t)N) FAILV("dimensions()");
  } else if (m == "norm1" || m == "norm2" || m == "dot") {
    T acc = 0;
    for (int i = 0; i < N; i++) {
      T term = comp(s, i);
      if (m == "norm2" && !binop<T>('*', comp(s, i), comp(s, i), term)) PRE_FAIL();
      if (m == "dot" && !binop<T>('*', comp(s, i), comp(o, i), term)) PRE_FAIL();
      if (i == 0) acc = term; else if (!binop<T>('+', acc, term, acc)) PRE_FAIL();
    }
    T r = m == "norm1" ? s.norm1() : m == "norm2" ? s.norm2() : s.dot(o);
    if (r != acc) FAILV("%s returned 0x%llX, definition gives 0x%llX", m.c_str(), (ull)r, (ull)acc);
  } else if (m == "cross") {
    if constexpr (N == 3) {
      T e[3], p, q;
      int idx[3][4] = {{1, 2, 2, 1}, {2, 0, 0, 2}, {0, 1, 1, 0}};
      for (int i = 0; i < 3; i++) {
        if (!binop<T>('*', comp(s, idx[i][0]), comp(o, idx[i][1]), p) || !binop<T>('*', comp(s, idx[i][2]), comp(o, idx[i][3]), q) ||
            !binop<T>('-', p, q, e[i])) PRE_FAIL();
      }
      V r = s.cross(o);
      for (int i = 0; i < 3; i++) if (comp(r, i) != e[i]) FAILV("cross: component %d is 0x%llX, expected 0x%llX", i, (ull)comp(r, i), (ull)e[i]);
      if constexpr (!std::is_signed_v<T>) {
        if (s.dot(r) != 0 || o.dot(r) != 0) FAILV("cross product is not orthogonal to its operands (mod 2^n)");
      }
    }
  } else {
    fprintf(stderr, "unknown member %s\n", m.c_str());
    return 2;
  }
  printf("holds on this input\n");
  return 0;
}

template <typename V, typename T> static int order_mode(const Args& A) {
  V a = load<V, T>(A, "in_a"), b = load<V, T>(A, "in_b"), c = load<V, T>(A, "in_c");
  bool same = true;
  for (int i = 0; i < dims<V>(); i++) same = same && comp(a, i) == comp(b, i);
  if (same && (a < b)) FAILV("irreflexive: a < a");
  if ((a < b) && (b < a)) FAILV("asymmetric");
  if ((a < b) && (b < c) && !(a < c)) FAILV("transitive");
  if (!(a < b) && !(b < a) && !(b < c) && !(c < b) && ((a < c) || (c < a))) FAILV("incomparability is not transitive");
  if ((!(a < b) && !(b < a)) != (a == b)) FAILV("!(a<b) && !(b<a) <=> a == b");
  if ((a == b) != same) FAILV("operator== is not componentwise equality");
  if ((a != b) == (a == b)) FAILV("operator!= is not the negation of ==");
  printf("holds on this input\n");
  return 0;
}

template <typename T> static int matrix_mode(const Args& A, const std::string& m) {
  Matrix4<T> M;
  for (int k = 0; k < 16; k++) M.v[k] = arr<T>(A, "g_m", k);
  if (m == "ctor") {
    Matrix4<T> I;
    for (int x = 0; x < 4; x++) for (int y = 0; y < 4; y++) if (I.m[x][y] != (T)(x == y)) FAILV("Matrix4() is not the identity at [%d][%d]", x, y);
  } else if (m == "transposition" || m == "transposition_twice") {
    Matrix4<T> R = M.transposition();
    for (int x = 0; x < 4; x++) for (int y = 0; y < 4; y++) if (R.m[y][x] != M.m[x][y]) FAILV("transposition()[%d][%d] != m[%d][%d]", y, x, x, y);
    Matrix4<T> R2 = R.transposition();
    for (int k = 0; k < 16; k++) if (R2.v[k] != M.v[k]) FAILV("transposition twice differs at flat index %d", k);
  } else if (m == "transpose" || m == "transpose_twice") {
    Matrix4<T> R = M;
    if (&R.transpose() != &R) FAILV("transpose() does not return *this");
    for (int x = 0; x < 4; x++) for (int y = 0; y < 4; y++) if (R.m[y][x] != M.m[x][y]) FAILV("transpose: [%d][%d] != old [%d][%d]", y, x, x, y);
    R.transpose();
    for (int k = 0; k < 16; k++) if (R.v[k] != M.v[k]) FAILV("transpose twice differs at flat index %d", k);
  } else if (m == "mulv") {
    if constexpr (!std::is_signed_v<T>) {
      Vector4<T> v = load<Vector4<T>, T>(A, "g_o");
      Vector4<T> r = M * v;
      for (int i = 0; i < 4; i++) {
        T e = (T)(M.m[0][i] * v.x + M.m[1][i] * v.y + M.m[2][i] * v.z + M.m[3][i] * v.w);
        if (comp(r, i) != e) FAILV("(M*v) row %d is 0x%llX, sum_j m[j][%d]*v_j is 0x%llX", i, (ull)comp(r, i), i, (ull)e);
      }
    }
  } else {
    fprintf(stderr, "unknown Matrix4 member %s\n", m.c_str());
    return 2;
  }
  printf("holds on this input\n");
  return 0;
}

template <typename T> static int disp(const Args& A) {
  const std::string& m = A.mode;
  if (m == "cross_orthogonal") {
    Vector3<T> a = load<Vector3<T>, T>(A, "in_a"), b = load<Vector3<T>, T>(A, "in_b");
    if constexpr (std::is_signed_v<T>) { printf("stated for unsigned element types\n"); return 0; }
    Vector3<T> c = a.cross(b);
    if (a.dot(c) != 0) FAILV("a . (a x b) = 0x%llX", (ull)a.dot(c));
    if (b.dot(c) != 0) FAILV("b . (a x b) = 0x%llX", (ull)b.dot(c));
    printf("holds on this input\n");
    return 0;
  }
  size_t us = m.find('_');
  if (us == std::string::npos) return 2;
  std::string cls = m.substr(0, us), mem = m.substr(us + 1);
  if (cls == "Matrix4") return matrix_mode<T>(A, mem);
  if (mem == "order") {
    if (cls == "Vector2") return order_mode<Vector2<T>, T>(A);
    if (cls == "Vector3") return order_mode<Vector3<T>, T>(A);
    if (cls == "Vector4") return order_mode<Vector4<T>, T>(A);
  }
  if (cls == "Vector2") return vec_mode<Vector2<T>, T>(A, mem);
  if (cls == "Vector3") return vec_mode<Vector3<T>, T>(A, mem);
  if (cls == "Vector4") return vec_mode<Vector4<T>, T>(A, mem);
  fprintf(stderr, "unknown class %s\n", cls.c_str());
  return 2;
}

int main(int argc, char** argv) {
  Args A(argc, argv);
  if (A.extra.size() != 1) { fprintf(stderr, "usage: vec <mode> <T> k=v...\n"); return 2; }
  const std::string& t = A.extra[0];
  if (t == "int64_t") return disp<int64_t>(A);
  if (t == "uint64_t") return disp<uint64_t>(A);
  if (t == "uint32_t") return disp<uint32_t>(A);
  fprintf(stderr, "unknown element type %s\n", t.c_str());
  return 2;
}
