/* C09: ghost variables and specification macros shared by the data-string contracts.
 * Specification source: the property statement of C09 (losslessness of format_data_string -> parse_data_string, totality of the
 * parser, "for each documented construct ($ endianness, # decimal widths, % floats, quotes, comments, ? mask toggles) the
 * bytes the syntax defines") and the construct documentation in the comments of parse_data_string. */
#ifndef C09_GLUE_H
#define C09_GLUE_H
#include "contracts/verif.h"
#include "stubs/vstr.h"

extern size_t g_k;        /* ghost index: a data byte */
extern size_t g_w;        /* witness: index of a byte outside the printable set */
extern bool g_quoted;     /* the formatter chose the quoted form */
extern bool g_returned;   /* the parser step executed `return data;` */

/* the set of bytes the quoted form is used for: printable ASCII plus the three escaped controls */
#define FDS_PRINTABLE(c) ((c) == '\r' || (c) == '\n' || (c) == '\t' || ((c) >= 0x20 && (c) <= 0x7E))

/* parser state invariants: at most one "mode" is active; a pending high nybble sits in the top half of chr */
#define PDS_MODES_OK(rc, rmc, rs, rus) (((rc) ? 1 : 0) + ((rmc) ? 1 : 0) + ((rs) ? 1 : 0) + ((rus) ? 1 : 0) <= 1)
#define PDS_NYBBLE_OK(high, chr) ((high) ? (chr) == 0 : ((chr) & 0x0F) == 0)
/* mask strings consist of 0xFF (byte is compared) and 0x00 (byte is ignored) */
#define PDS_IS_MASK_BYTE(c) ((uint8_t)(c) == 0xFF || (uint8_t)(c) == 0x00)
#define PDS_MASK_BYTE(enabled) ((enabled) ? 0xFF : 0x00)

/* a bool object holds 0 or 1 (ISO C 6.2.5); the verifier's havoc does not know that */
#define PDS_B01(b) ((b) == 0 || (b) == 1)
/* loop assigns of the skeleton: the mask string only when one was passed */
#ifdef MASK_NULL
#define PDS_LOOP_MASK_ASSIGNS
#else
#define PDS_LOOP_MASK_ASSIGNS , mask->size, mask->nw, mask->first, __CPROVER_object_upto(mask->w, C09_WIN)
#endif

/* texts up to 4 GiB (assumption; cbmc flags pointer arithmetic beyond 2^39 on fresh objects of symbolic size) */
#define PDS_MAXTEXT 0xFFFFFFFFull

#endif
