/* C04: scalar round trips  serialize arm -> text -> dispatch -> parser branch  (pieces 3, 4, 5 of DESIGN.md C04). */
#include "harness/C04/prelude.h"

/* piece 5 (bounded, syntactic): for every string of the %g output grammar (spec_g_text, <= 13 characters) the float arm of
 * serialize yields a text that (a) is a number of RFC 8259, (b) dispatches to the number branch, which (c) consumes it
 * ENTIRELY without an exception and (d) yields a value of the FLOAT kind.  The numeric value is not decided here. */
void h_float_syntax(void) {
  char in_text[13]; size_t in_len; uint32_t in_options; double in_v; C04_IN_BOOL(in_strict);
  __CPROVER_assume(in_len <= 13);
  __CPROVER_assume(spec_g_text(in_text, in_len));
  g_gtext = in_text; g_glen = in_len; verif_exc = 0;
  JSONV v; v.kind = JK_double; v.f = in_v;
  char obuf[16]; vstr out = {obuf, 0, 16};
  JSON_ser_float(&v, &out, in_options, 0, JSON_ser_escape_mode(in_options));
  __CPROVER_assert(verif_exc == 0 && out.size >= in_len, "serialize(float) does not throw and keeps the %g text");
  bool hf, he;
  __CPROVER_assert(spec_rfc_number(out.data, out.size, &hf, &he), "serialize(float) is a number of RFC 8259 section 6 (standard JSON)");
  StringReader r = {(const uint8_t*)out.data, out.size, 0};
  int d = JSON_parse_dispatch(&r);
  __CPROVER_assert(d == 3, "the first character of serialize(float) selects the number branch of parse");
  JSONV ret; ret.kind = -1;
  JSON_parse_number(&r, in_strict, out.data[0], &ret);
  __CPROVER_assert(verif_exc == 0, "parse(serialize(float)) does not throw");
  __CPROVER_assert(r.offset == r.length, "parse consumes the serialized float entirely");
  __CPROVER_assert(ret.kind == JK_double, "parse(serialize(float)) is of the float kind");
  VERIF_REACH();
}

/* piece 3: integers.  text = serialize(int v) (decimal through to_string, hexadecimal through "%" PRIX64 under HEX_INTEGERS:
 * the canonical numeral of v, stubs/C04_printf.h); the number branch of parse reads it back: no exception, whole text consumed,
 * int kind, value == v -- with the signed-overflow / shift checks ON inside the extracted code (UB on the way is a failed
 * obligation).  A numeral of an int64 has at most 20 characters, so unwinding 21 times is complete for the whole domain.
 * C04_INT_MIN: 1 = only v == INT64_MIN, 0 = every other value;  C04_INT_HEX: with / without HEX_INTEGERS. */
#ifndef C04_INT_MIN
#define C04_INT_MIN 0
#endif
#ifndef C04_INT_HEX
#define C04_INT_HEX 0
#endif
void h_int_roundtrip(void) {
  int64_t in_v; uint32_t in_options; C04_IN_BOOL(in_strict);
  __CPROVER_assume(C04_MODE_OK(in_strict, in_options));
  __CPROVER_assume(C04_INT_MIN ? in_v == INT64_MIN : in_v != INT64_MIN);
  __CPROVER_assume(C04_INT_HEX ? (in_options & SerializeOption_HEX_INTEGERS) != 0 : (in_options & SerializeOption_HEX_INTEGERS) == 0);
  verif_exc = 0;
  JSONV v; v.kind = JK_int64_t; v.i = in_v;
  char obuf[24]; vstr out = {obuf, 0, 24};
  JSON_ser_int(&v, &out, in_options, 0, JSON_ser_escape_mode(in_options));
  __CPROVER_assert(verif_exc == 0 && out.size >= 1, "serialize(int) does not throw and is not empty");
  bool hf = false, he = false;
  __CPROVER_assert(C04_INT_HEX || (spec_rfc_number(out.data, out.size, &hf, &he) && !hf && !he), "without HEX_INTEGERS serialize(int) is an integer of RFC 8259 section 6 (standard JSON)");
  StringReader r = {(const uint8_t*)out.data, out.size, 0};
  int d = JSON_parse_dispatch(&r);
  __CPROVER_assert(d == 3, "the first character of serialize(int) selects the number branch of parse");
  JSONV ret; ret.kind = -1;
  JSON_parse_number(&r, in_strict, out.data[0], &ret);
  __CPROVER_assert(verif_exc == 0, "parse(serialize(int)) does not throw");
  __CPROVER_assert(r.offset == r.length, "parse consumes the serialized int entirely");
  __CPROVER_assert(ret.kind == JK_int64_t, "parse(serialize(int)) is of the int kind");
  __CPROVER_assert(ret.i == in_v, "parse(serialize(int v)) == v");
  VERIF_REACH();
}

/* piece 4: null / true / false and the ONE_CHARACTER_TRIVIAL_CONSTANTS option against the skip_if arms of parse (loop-free). */
void h_const_roundtrip(void) {
  unsigned in_kind; uint32_t in_options; C04_IN_BOOL(in_b); C04_IN_BOOL(in_strict);
  __CPROVER_assume(C04_MODE_OK(in_strict, in_options));
  __CPROVER_assume(in_kind <= 1);
  verif_exc = 0;
  JSONV v; v.kind = in_kind ? JK_bool : JK_nullptr_t; v.b = in_b;
  char obuf[8]; vstr out = {obuf, 0, 8};
  int esc = JSON_ser_escape_mode(in_options);
  if (in_kind) JSON_ser_bool(&v, &out, in_options, 0, esc); else JSON_ser_null(&v, &out, in_options, 0, esc);
  __CPROVER_assert(verif_exc == 0 && out.size >= 1, "serialize(constant) does not throw and is not empty");
  /* RFC 8259 section 3: the literal names are exactly false, null, true (lowercase) */
  if (!(in_options & SerializeOption_ONE_CHARACTER_TRIVIAL_CONSTANTS)) {
    const char* name = !in_kind ? "null" : in_b ? "true" : "false";
    size_t n = !in_kind ? 4 : in_b ? 4 : 5;
    __CPROVER_assert(out.size == n && out.data[0] == name[0] && out.data[1] == name[1] && out.data[2] == name[2] && out.data[3] == name[3] &&
                     (n == 4 || out.data[4] == name[4]), "without ONE_CHARACTER_TRIVIAL_CONSTANTS the text is the literal name of RFC 8259 section 3");
  }
  StringReader r = {(const uint8_t*)out.data, out.size, 0};
  int d = JSON_parse_dispatch(&r);
  __CPROVER_assert(d == 0, "the first character of a serialized constant selects none of the container / number / string branches");
  JSONV ret; ret.kind = -1;
  JSON_parse_const(&r, in_strict, &ret);
  __CPROVER_assert(verif_exc == 0, "parse(serialize(constant)) does not throw");
  __CPROVER_assert(r.offset == r.length, "parse consumes the serialized constant entirely");
  __CPROVER_assert(ret.kind == v.kind && (!in_kind || ret.b == in_b), "parse(serialize(constant)) is the same constant");
  VERIF_REACH();
}
