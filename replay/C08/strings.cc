#include "replay/common/args.hh"
int main(int argc, char** argv) { Args A(argc, argv); return 0; }
