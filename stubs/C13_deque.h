/* C13 trusted stub: std::deque<Node*> as used by KDTree (emplace_back / front / pop_front / empty only).
 * Model: a bounded FIFO.  Elements are appended at `tail` and consumed at `head`; storage is never reused, so the
 * capacity bounds the TOTAL number of emplace_back calls on one deque object (every traversal of a tree with n nodes
 * pushes each node at most once, plus the root / a null root once).  Exceeding the capacity or reading an empty deque
 * is an assertion failure, never silently ignored (assert-then-assume: reported, then that path ends).  No allocation failure (std::bad_alloc) is modelled. */
#ifndef C13_DEQUE_H
#define C13_DEQUE_H
#include <stddef.h>
struct Node;
#ifndef VDEQUE_CAP
#define VDEQUE_CAP 8
#endif
typedef struct { struct Node* buf[VDEQUE_CAP]; size_t head; size_t tail; } vdeque;

static inline void vdeque_init(vdeque* d) { d->head = 0; d->tail = 0; }
static inline int vdeque_empty(const vdeque* d) { return d->head == d->tail; }
static inline void vdeque_emplace_back(vdeque* d, struct Node* n) {
  __CPROVER_assert(d->tail < VDEQUE_CAP, "deque stub capacity suffices for the bounded shape");
  __CPROVER_assume(d->tail < VDEQUE_CAP); /* assert-then-assume: the overflow is reported, execution beyond it is not modelled */
  d->buf[d->tail] = n;
  d->tail++;
}
static inline struct Node* vdeque_front(const vdeque* d) {
  __CPROVER_assert(d->head < d->tail, "deque::front() on an empty deque");
  __CPROVER_assume(d->head < d->tail); /* undefined behaviour is reported, not continued */
  return d->buf[d->head];
}
static inline void vdeque_pop_front(vdeque* d) {
  __CPROVER_assert(d->head < d->tail, "deque::pop_front() on an empty deque");
  __CPROVER_assume(d->head < d->tail); /* undefined behaviour is reported, not continued */
  d->head++;
}
static inline size_t vdeque_size(const vdeque* d) { return d->tail - d->head; }
static inline struct Node* vdeque_back(const vdeque* d) {
  __CPROVER_assert(d->head < d->tail, "back() on an empty sequence");
  __CPROVER_assume(d->head < d->tail); /* undefined behaviour is reported, not continued */
  return d->buf[d->tail - 1];
}
static inline void vdeque_pop_back(vdeque* d) {
  __CPROVER_assert(d->head < d->tail, "pop_back() on an empty sequence");
  __CPROVER_assume(d->head < d->tail); /* undefined behaviour is reported, not continued */
  d->tail--;
}
/* the fill constructor `std::vector<Node*> v(count, value);` */
static inline void vdeque_fill(vdeque* d, size_t count, struct Node* value) {
  __CPROVER_assert(count <= VDEQUE_CAP, "sequence stub capacity suffices for the fill constructor");
  __CPROVER_assume(count <= VDEQUE_CAP);
  for (size_t i = 0; i < VDEQUE_CAP; i++) {
    if (i < count) {
      d->buf[i] = value;
    }
  }
  d->tail = count;
}
#endif
