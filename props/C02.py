"""C02 -- bounds-checked readers/writers never touch memory outside their buffer (DESIGN.md section 4, C02)."""
from props import rw_common as rw

ID = 'C02'
LEVEL = 'proof'
EXPLANATION = rw.EXPLANATION
TRUSTED = rw.TRUSTED
ASSUMPTIONS = rw.ASSUMPTIONS
DROPS = rw.DROPS
NOT_DECIDED = [
    'BitReader performs no bounds checks by design (not in the property\'s anchors): in-range is a precondition there; sub_bits/subx_bits, which create bit readers, are under contract',
    'StringReader::all(), the shared_ptr-owning constructors and BlockStringWriter are not under contract',
    'the growable writer "throws when it cannot grow": modelled as length_error from resize when the request exceeds the capacity of the string model',
]
CLAIMED = True
MANIFEST = dict(
    category='proof',
    text=('For a reader over an is_fresh buffer of symbolic length (any length < 2^47, including 0) and ALL offsets/sizes in the full 64-bit range, every accessor is '
          'proved to either throw out_of_range or return exactly the requested slice (throwing forms) / the in-range prefix (clamping forms): the C02 clauses say '
          '"no exception iff off <= len and n <= len - off" (a wrap-free specification), the pointer/slice equals data+off, sub-readers lie inside the parent, the '
          'cursor stays <= length after every read operation (also on the exception exit), BufferWriter stores inside [buf, buf+buf_size) or throws runtime_error and '
          'stores nothing (ghost byte frame), StringWriter::pput grows to cover the write or throws length_error. cbmc\'s pointer/bounds checks are on for every '
          'dereference inside the bodies and the preconditions of the memcpy/memcmp/std::string stubs (readable/writable ranges) are obligations at each call site.'),
    note=('Trusted: cbmc/goto-instrument/solvers, the extractor, stubs/vstr.h, stubs/libc.h. Lengths < 2^47 (cbmc object limit). --unsigned-overflow-check stays off '
          '(wrap-around is defined and is exactly what the specification is written to expose).'),
    technique='function + loop contracts enforced with goto-instrument --dfcc, full 64-bit symbolic offsets/sizes over is_fresh buffers of symbolic length, cbmc pointer checks',
)


def plan(ctx):
    return rw.plan(ctx, 'C02')
