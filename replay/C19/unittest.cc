// Native replay for C19: runs the real expect_* macros / expect_generic / expect_raises_fn<E> (headers of the working
// tree, UnitTest.cc compiled by g++) on the verifier's counterexample and evaluates the same postcondition with real
// C++ exceptions. exit 1 = violated on the real code, 0 = holds, 2 = usage.
//   driver expect_generic            in_pred= in_line=
//   driver expect_raises <E>         in_fn= in_line=          (in_fn: 0 returns, k throws kind k of contracts/verif.h)
//   driver macro <name> <T>          in_a= in_b= | in_fn=
#include <string.h>
#include "replay/common/args.hh"
#include "UnitTest.hh"
#include <new>
#include <stdexcept>
#include <functional>
using namespace phosg;

// the EXC_* numbering of contracts/verif.h
enum { K_none = 0, K_exception, K_logic_error, K_out_of_range, K_invalid_argument, K_length_error, K_domain_error,
       K_runtime_error, K_range_error, K_overflow_error, K_underflow_error, K_bad_alloc, K_expectation_failed,
       K_non_std = 17 };
static const char* kind_name(uint64_t k) {
  static const char* n[] = {"returns normally", "throws std::exception", "throws std::logic_error", "throws std::out_of_range",
    "throws std::invalid_argument", "throws std::length_error", "throws std::domain_error", "throws std::runtime_error",
    "throws std::range_error", "throws std::overflow_error", "throws std::underflow_error", "throws std::bad_alloc",
    "throws phosg::expectation_failed"};
  return k <= 12 ? n[k] : (k == K_non_std ? "throws int (non-std object)" : "?");
}

static const char* const INNER_FILE = "inner_site.cc";
static void behave(uint64_t k) {
  switch (k) {
    case K_none: return;
    case K_exception: throw std::exception();
    case K_logic_error: throw std::logic_error("x");
    case K_out_of_range: throw std::out_of_range("x");
    case K_invalid_argument: throw std::invalid_argument("x");
    case K_length_error: throw std::length_error("x");
    case K_domain_error: throw std::domain_error("x");
    case K_runtime_error: throw std::runtime_error("x");
    case K_range_error: throw std::range_error("x");
    case K_overflow_error: throw std::overflow_error("x");
    case K_underflow_error: throw std::underflow_error("x");
    case K_bad_alloc: throw std::bad_alloc();
    case K_expectation_failed: throw expectation_failed("inner failure", INNER_FILE, 99);
    case K_non_std: throw 42;
    default: fprintf(stderr, "behaviour %llu outside the model\n", (unsigned long long)k); exit(2);
  }
}

// does the real C++ run time select `catch (const E&)` for behaviour k?  (the specification side uses the real type system)
template <typename E> static bool real_subtype(uint64_t k) {
  if (k == K_none) return false;
  try { behave(k); } catch (const E&) { return true; } catch (...) { return false; }
  return false;
}

template <typename E> static int raises(uint64_t k, uint64_t line) {
  static const char* const FILE_ = "call_site.cc";
  bool want_ok = real_subtype<E>(k);
  bool ok = false, failed = false, other = false;
  const char* f = nullptr; uint64_t l = 0; std::string what;
  try {
    expect_raises_fn<E>(FILE_, line, [k]() { behave(k); });
    ok = true;
  } catch (const expectation_failed& e) {
    failed = true; f = e.file; l = e.line; what = e.what();
  } catch (...) {
    other = true;
  }
  printf("fn %s; expect_raises_fn<E> %s\n", kind_name(k), ok ? "returned normally" : failed ? "threw expectation_failed" : "threw something else");
  RCHECK(!other, "expect_raises_fn let a foreign exception escape");
  RCHECK(ok == want_ok, "fn %s: expect_raises must %s but it %s", kind_name(k), want_ok ? "succeed" : "fail with expectation_failed",
         ok ? "succeeded" : "failed");
  if (failed) {
    RCHECK(f == FILE_ && l == line, "the failure carries %s:%llu, the call site is %s:%llu", f, (unsigned long long)l, FILE_, (unsigned long long)line);
    std::string pre = std::string("failure at ") + FILE_ + ":" + std::to_string(line) + ": ";
    RCHECK(what.compare(0, pre.size(), pre) == 0, "what() = \"%s\" does not start with \"%s\"", what.c_str(), pre.c_str());
  }
  printf("holds on this input\n");
  return 0;
}

template <typename T> static int macro_rel(const std::string& n, T a, T b) {
  int na = 0, nb = 0;
  bool threw = false, want = false; uint64_t ln = 0, eline = 0; const char* efile = ""; std::string emsg, neg;
  try {
    if (n == "eq") { want = a == b; neg = "!="; ln = __LINE__; expect_eq((na++, a), (nb++, b)); }
    else if (n == "ne") { want = a != b; neg = "=="; ln = __LINE__; expect_ne((na++, a), (nb++, b)); }
    else if (n == "gt") { want = a > b; neg = "<="; ln = __LINE__; expect_gt((na++, a), (nb++, b)); }
    else if (n == "ge") { want = a >= b; neg = "<"; ln = __LINE__; expect_ge((na++, a), (nb++, b)); }
    else if (n == "lt") { want = a < b; neg = ">="; ln = __LINE__; expect_lt((na++, a), (nb++, b)); }
    else if (n == "le") { want = a <= b; neg = ">"; ln = __LINE__; expect_le((na++, a), (nb++, b)); }
    else return 2;
  } catch (const expectation_failed& e) {
    threw = true; eline = e.line; efile = e.file; emsg = e.msg;
  }
  RCHECK(threw == !want, "expect_%s: relation is %s but the macro %s", n.c_str(), want ? "true" : "false", threw ? "threw" : "did not throw");
  RCHECK(na == 1 && nb == 1, "expect_%s evaluated its operands %d / %d times", n.c_str(), na, nb);
  if (threw) {
    RCHECK(eline == ln && std::string(efile) == __FILE__, "expect_%s failure carries %s:%llu, call site is %s:%llu", n.c_str(), efile,
           (unsigned long long)eline, __FILE__, (unsigned long long)ln);
    std::string m = "(na++, a) " + neg + " (nb++, b)";
    RCHECK(emsg == m, "expect_%s failure message is \"%s\", expected \"%s\"", n.c_str(), emsg.c_str(), m.c_str());
  }
  printf("holds on this input\n");
  return 0;
}

// operand hygiene: operands with a top-level ?: (binds looser than the relational operators)
template <typename T> static int macro_hyg(const std::string& n, bool ca, T a, T a2, bool cb, T b, T b2) {
  bool threw = false, want = false; T va = ca ? a : a2, vb = cb ? b : b2;
  try {
    if (n == "eq") { want = va == vb; expect_eq(ca ? a : a2, cb ? b : b2); }
    else if (n == "ne") { want = va != vb; expect_ne(ca ? a : a2, cb ? b : b2); }
    else if (n == "gt") { want = va > vb; expect_gt(ca ? a : a2, cb ? b : b2); }
    else if (n == "ge") { want = va >= vb; expect_ge(ca ? a : a2, cb ? b : b2); }
    else if (n == "lt") { want = va < vb; expect_lt(ca ? a : a2, cb ? b : b2); }
    else if (n == "le") { want = va <= vb; expect_le(ca ? a : a2, cb ? b : b2); }
    else return 2;
  } catch (const expectation_failed& e) { threw = true; }
  printf("expect_%s(%d ? %Lg : %Lg, %d ? %Lg : %Lg)\n", n.c_str(), (int)ca, (long double)a, (long double)a2, (int)cb, (long double)b, (long double)b2);
  RCHECK(threw == !want, "expect_%s(x ? a : a2, y ? b : b2): relation between the operand values is %s but the macro %s", n.c_str(),
         want ? "true" : "false", threw ? "threw" : "did not throw");
  printf("holds on this input\n");
  return 0;
}

// expect(p) / expect_msg(p, m) with an operand of type T: fails exactly when p converts to false (p == 0)
template <typename T>
static int macro_expect(const std::string& n, T a) {
  int na = 0, nb = 0;
  static const char* const MSG = "given message";
  bool threw = false; uint64_t ln = 0, eline = 0; std::string efile, emsg;
  try {
    if (n == "expect") { ln = __LINE__; expect((na++, a)); nb = 1; }
    else { ln = __LINE__; expect_msg((na++, a), (nb++, MSG)); }
  } catch (const expectation_failed& e) { threw = true; eline = e.line; efile = e.file; emsg = e.msg; if (n == "expect") nb = 1; }
  printf("%s(%Lg)\n", n.c_str(), (long double)a);
  RCHECK(threw == (a == 0), "%s(%Lg) %s", n.c_str(), (long double)a, threw ? "threw although the predicate is true (non-zero)" : "did not throw");
  RCHECK(na == 1 && nb == 1, "%s evaluated its operands %d / %d times", n.c_str(), na, nb);
  if (threw) {
    RCHECK(eline == ln && efile == __FILE__, "%s failure carries %s:%llu, call site is %s:%llu", n.c_str(), efile.c_str(),
           (unsigned long long)eline, __FILE__, (unsigned long long)ln);
    std::string want = n == "expect" ? "!((na++, a))" : MSG;
    RCHECK(emsg == want, "%s failure message is \"%s\", expected \"%s\"", n.c_str(), emsg.c_str(), want.c_str());
  }
  printf("holds on this input\n");
  return 0;
}

int main(int argc, char** argv) {
  Args A(argc, argv);
  const std::string& m = A.mode;
  if (m == "expect_generic") {
    bool pred = A.u("in_pred") & 1; uint64_t line = A.u("in_line");
    static const char* const MSG = "the message"; static const char* const FILE_ = "call_site.cc";
    printf("expect_generic(%d, msg, file, %llu)\n", pred, (unsigned long long)line);
    bool threw = false, other = false; const char *em = nullptr, *ef = nullptr; uint64_t el = 0; std::string what;
    try { expect_generic(pred, MSG, FILE_, line); }
    catch (const expectation_failed& e) { threw = true; em = e.msg; ef = e.file; el = e.line; what = e.what(); }
    catch (...) { other = true; }
    RCHECK(!other, "expect_generic threw something that is not expectation_failed");
    RCHECK(threw == !pred, "pred=%d but expect_generic %s", pred, threw ? "threw" : "did not throw");
    if (threw) {
      RCHECK(em == MSG && ef == FILE_ && el == line, "payload (%s, %s, %llu) differs from the arguments (%s, %s, %llu)", em, ef,
             (unsigned long long)el, MSG, FILE_, (unsigned long long)line);
      std::string w = std::string("failure at ") + FILE_ + ":" + std::to_string(line) + ": " + MSG;
      RCHECK(what == w, "what() = \"%s\", expected \"%s\"", what.c_str(), w.c_str());
    }
    printf("holds on this input\n");
    return 0;
  }
  if (m == "expect_raises" && A.extra.size() == 1) {
    const std::string& E = A.extra[0];
    uint64_t k = A.u("in_fn"), line = A.u("in_line");
    printf("expect_raises_fn<%s>\n", E.c_str());
    if (E == "exception") return raises<std::exception>(k, line);
    if (E == "logic_error") return raises<std::logic_error>(k, line);
    if (E == "out_of_range") return raises<std::out_of_range>(k, line);
    if (E == "invalid_argument") return raises<std::invalid_argument>(k, line);
    if (E == "length_error") return raises<std::length_error>(k, line);
    if (E == "domain_error") return raises<std::domain_error>(k, line);
    if (E == "runtime_error") return raises<std::runtime_error>(k, line);
    if (E == "range_error") return raises<std::range_error>(k, line);
    if (E == "overflow_error") return raises<std::overflow_error>(k, line);
    if (E == "underflow_error") return raises<std::underflow_error>(k, line);
    if (E == "bad_alloc") return raises<std::bad_alloc>(k, line);
    if (E == "expectation_failed") return raises<expectation_failed>(k, line);
    return 2;
  }
  if (m == "macro_hyg" && A.extra.size() == 2) {
    const std::string& n = A.extra[0];
    bool ca = A.u("in_ca") != 0, cb = A.u("in_cb") != 0;
    uint64_t u[4] = {A.u("in_a"), A.u("in_a2"), A.u("in_b"), A.u("in_b2")};
    if (A.extra[1] == "double") { double d[4]; memcpy(d, u, 32); return macro_hyg<double>(n, ca, d[0], d[1], cb, d[2], d[3]); }
    return macro_hyg<int64_t>(n, ca, (int64_t)u[0], (int64_t)u[1], cb, (int64_t)u[2], (int64_t)u[3]);
  }
  if (m == "macro" && A.extra.size() == 2) {
    const std::string& n = A.extra[0];
    if (n == "expect" || n == "expect_msg") {
      const std::string& ty = A.extra[1];
      if (ty == "double") { double a; uint64_t bits = A.u("in_a"); memcpy(&a, &bits, 8); return macro_expect<double>(n, a); }
      if (ty == "float") { float a; uint32_t bits = (uint32_t)A.u("in_a"); memcpy(&a, &bits, 4); return macro_expect<float>(n, a); }
      if (ty == "uint64_t") return macro_expect<uint64_t>(n, A.u("in_a"));
      return macro_expect<int64_t>(n, (int64_t)A.u("in_a"));
    }
    if (n == "expect_raises") {
      uint64_t k = A.u("in_fn"); int na = 0;
      std::function<void()> fn = [k]() { behave(k); };
      bool want_ok = real_subtype<std::runtime_error>(k), ok = false; uint64_t ln = 0, eline = 0; std::string efile;
      try { ln = __LINE__; expect_raises(std::runtime_error, (na++, fn)); ok = true; }
      catch (const expectation_failed& e) { eline = e.line; efile = e.file; }
      RCHECK(ok == want_ok, "fn %s: expect_raises(std::runtime_error, fn) %s", kind_name(k), ok ? "succeeded" : "failed");
      RCHECK(na == 1, "expect_raises evaluated fn %d times", na);
      if (!ok) RCHECK(eline == ln && efile == __FILE__, "expect_raises failure carries %s:%llu, call site is %s:%llu", efile.c_str(),
                      (unsigned long long)eline, __FILE__, (unsigned long long)ln);
      printf("holds on this input\n");
      return 0;
    }
    if (A.extra[1] == "int64_t") return macro_rel<int64_t>(n, (int64_t)A.u("in_a"), (int64_t)A.u("in_b"));
    if (A.extra[1] == "uint64_t") return macro_rel<uint64_t>(n, A.u("in_a"), A.u("in_b"));
    if (A.extra[1] == "int8_t") return macro_rel<int8_t>(n, (int8_t)A.u("in_a"), (int8_t)A.u("in_b"));
    if (A.extra[1] == "float") {
      uint32_t ua = (uint32_t)A.u("in_a"), ub = (uint32_t)A.u("in_b"); float a, b; memcpy(&a, &ua, 4); memcpy(&b, &ub, 4);
      return macro_rel<float>(n, a, b);
    }
    if (A.extra[1] == "double") {
      uint64_t ua = A.u("in_a"), ub = A.u("in_b"); double a, b; memcpy(&a, &ua, 8); memcpy(&b, &ub, 8);
      return macro_rel<double>(n, a, b);
    }
    return 2;
  }
  fprintf(stderr, "unknown mode %s\n", m.c_str());
  return 2;
}
