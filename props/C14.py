"""C14 -- file and stream reads are complete regardless of how data is delivered (DESIGN.md section 4, C14)."""
import re
from vf.extract import Source, Unit
from vf.lex import Rule, ExtractionBreak
from vf import lex
from vf.pipeline import Group, Replay, ALL_LIB

ID = 'C14'
LEVEL = 'proof'
CC = 'src/Filesystem.cc'
HH = 'src/Filesystem.hh'

# every libc / syscall name Filesystem.cc's readers use is bound to its contract-only stub (stubs/C14_io.h)
SYS_NAMES = 'read|pread|write|pwrite|fread|fwrite|fgetc|fgets|feof|ferror|fileno|strlen|close'


def SYS(count='+'):
    return Rule(r'(?<![\w.>])(?:::)?\b(%s)\(' % SYS_NAMES, r'c14_\1(', count=count, regex=True)


def exact_unit(ctx, src):
    """readx/writex/preadx/pwritex/freadx/fwritex (both overloads), fgetcx, read(int,size_t), fread(FILE*,size_t)."""
    u = Unit(ctx, 'exact')
    u.raw('#include "stubs/vstr.h"\n#include "stubs/C14_io.h"\n')
    for nm, a1, a1c in (('readx', 'int fd', 'int fd'), ('preadx', 'int fd', 'int fd'), ('freadx', r'FILE\* f', 'C14_FILE* f')):
        off = ', off_t offset' if nm == 'preadx' else ''
        u.function(src, CC, r'void %s\(%s, void\* data, size_t size%s\)' % (nm, a1, off),
                   new_header='void phosg_%s(%s, void* data, size_t size%s)' % (nm, a1c, off), rules=[SYS()], ret_zero='', must_loops=False)
        u.function(src, CC, r'string %s\(%s, size_t size%s\)' % (nm, a1, off),
                   new_header='void phosg_%s_str(vstr* ret, %s, size_t size%s)' % (nm, a1c, off),
                   rules=[Rule(r'string ret\(size, 0\);', "vstr_resize(ret, size, 0);", count=1, regex=True),
                          Rule(r'\b%s\((\w+), ret\.data\(\), size' % nm, r'phosg_%s(\1, vstr_data(ret), size' % nm, count=1, regex=True),
                          Rule('return ret;', 'return;', count=1)],
                   may_throw=['phosg_' + nm], ret_zero='')
    for nm, a1, a1c in (('writex', 'int fd', 'int fd'), ('pwritex', 'int fd', 'int fd'), ('fwritex', r'FILE\* f', 'C14_FILE* f')):
        off = ', off_t offset' if nm == 'pwritex' else ''
        u.function(src, CC, r'void %s\(%s, const void\* data, size_t size%s\)' % (nm, a1, off),
                   new_header='void phosg_%s(%s, const void* data, size_t size%s)' % (nm, a1c, off), rules=[SYS()], ret_zero='')
        u.function(src, CC, r'void %s\(%s, const string& data%s\)' % (nm, a1, off),
                   new_header='void phosg_%s_str(%s, const vstr* data%s)' % (nm, a1c, off),
                   rules=[Rule(r'\b%s\((\w+), data\.data\(\), data\.size\(\)' % nm, r'phosg_%s(\1, data->data, data->size' % nm, count=1, regex=True)],
                   ret_zero='')
    u.function(src, CC, r'uint8_t fgetcx\(FILE\* f\)', new_header='uint8_t phosg_fgetcx(C14_FILE* f)', rules=[SYS()], ret_zero='0')
    for nm, a1, a1c in (('read', 'int fd', 'int fd'), ('fread', r'FILE\* f', 'C14_FILE* f')):
        u.function(src, CC, r'string %s\(%s, size_t size\)' % (nm, a1),
                   new_header='void phosg_%s_str(vstr* data, %s, size_t size)' % (nm, a1c),
                   rules=[Rule(r"string data\(size, '\\0'\);", "vstr_resize(data, size, '\\\\0');", count=1, regex=True),
                          SYS(), Rule('data.data()', 'vstr_data(data)', count=1),
                          Rule(r'data\.resize\((\w+)\);', r"vstr_resize(data, \1, '\\\\0');", count=1, regex=True),
                          Rule('return data;', 'return;', count=1)], ret_zero='')
    # whole files: the local scoped_fd becomes a plain descriptor obtained from the open stub (its destructor call at scope
    # exit is dropped: "closed exactly once" is the subject of the scoped_fd groups)
    # (an explicit permission argument is dropped: the mode bits of a created file are not part of the statement)
    OPEN = Rule(r'scoped_fd fd\(filename, ([^;,]+)(?:,[^;,]+)?\);', r'int fd = c14_open(filename, \1); if (verif_exc) return;', count=1, regex=True)
    u.raw('#include <fcntl.h>\n#include <errno.h>\n')
    u.function(src, CC, r'string load_file\(const string& filename\)', new_header='void phosg_load_file(vstr* data, const vstr* filename)',
               rules=[OPEN, Rule('fstat(fd).st_size', 'c14_fstat_size(fd)', count=1),
                      Rule(r'string data\(file_size, 0\);', 'vstr_resize(data, file_size, 0);', count=1, regex=True),
                      SYS(1), Rule('data.data()', 'vstr_data(data)', count=1), Rule('data.size()', 'vstr_size(data)', count=1),
                      Rule('return data;', 'return;', count=1)], may_throw=['c14_fstat_size'], ret_zero='')
    u.function(src, CC, r'void save_file\(const string& filename, const void\* data, size_t size\)',
               new_header='void phosg_save_file(const vstr* filename, const void* data, size_t size)', rules=[OPEN, SYS(1)], ret_zero='')
    u.function(src, CC, r'void save_file\(const string& filename, const string& data\)',
               new_header='void phosg_save_file_str(const vstr* filename, const vstr* data)',
               rules=[Rule('save_file(filename, data.data(), data.size());', 'phosg_save_file(filename, data->data, data->size);', count=1)])
    return u


def dir_unit(ctx, src):
    """list_directory / list_directory_sorted: the readdir loop, with any file-local helper it calls (Unit.helpers)."""
    u = Unit(ctx, 'dir')
    u.raw('#include <stdbool.h>\n#include <string.h>\n')
    common = [Rule(r'\bopendir\(dirname\.c_str\(\)\)', 'c14_opendir(dirname)', count=1, regex=True),
              Rule(r'\bDIR\*', 'C14_DIR*', count='+', regex=True),
              Rule(r'\bstruct dirent\*', 'struct c14_dirent*', count='+', regex=True),
              Rule(r'(?<![\w.>])(?:::)?\b(readdir|closedir|strcmp)\(', r'c14_\1(', count='+', regex=True),
              Rule(r'\bfiles\.(?:emplace|emplace_back|insert|push_back)\(', 'c14_names_store(files, ', count='+', regex=True),
              Rule(r'\breturn files;', 'return;', count=1, regex=True)]
    bodies = []
    for nm, decl, extra in (('list_directory', r'unordered_set<string> files;', []),
                            ('list_directory_sorted', r'vector<string> files;',
                             [Rule(r'\bsort\(files\.begin\(\), files\.end\(\)\);', 'c14_names_sort(files);', count=1, regex=True)])):
        t = u.function(src, CC, r'(?:unordered_set|vector)<string> %s\(const string& dirname\)' % nm,
                       new_header='void phosg_%s(c14_names* files, const vstr* dirname)' % nm,
                       rules=[Rule(decl, '', count=1)] + common + extra, ret_zero='', loops={1: 'C14_DIR_LOOP'}, nloops=1, emit=False)
        bodies.append(t)
    # file-local helpers the loops call (e.g. a predicate factored out of the "." / ".." test) are part of the verified text
    u.helpers(src, CC, '\n'.join(bodies), known=('c14_opendir', 'c14_readdir', 'c14_closedir', 'c14_strcmp', 'c14_names_store', 'c14_names_sort'))
    for t in bodies:
        u.parts.append(t)
    return u


READ_ALL_LOOP1 = """
__CPROVER_assigns(total_size, verif_exc, g_pos, g_eof_seen, g_err_seen, g_chunk, g_cval, buffers.count, buffers.total, buffers.live, buffers.has_live, __CPROVER_object_whole(buffers.buf))
__CPROVER_loop_invariant(verif_exc == 0 && g_err_seen == 0 && g_pos <= g_src_len)
__CPROVER_loop_invariant(buffers.total == g_pos && total_size == g_pos && buffers.count <= g_pos && VSV_INV(&buffers))
__CPROVER_loop_invariant(g_vk < buffers.total ==> VSV_CONCAT(&buffers, g_vk) == g_sval)
__CPROVER_decreases(g_src_len - g_pos)
"""
READ_ALL_LOOP2 = """
__CPROVER_assigns(verif_i, g_it_next, g_it_prefix, ret->size, __CPROVER_object_whole(ret->data))
__CPROVER_loop_invariant(verif_i <= buffers.count && g_it_next == verif_i && ret->size == g_it_prefix && g_it_prefix <= buffers.total)
__CPROVER_loop_invariant(verif_i < buffers.count ==> g_it_prefix <= VSV_FROZEN(&buffers))
__CPROVER_loop_invariant(verif_i == buffers.count ==> g_it_prefix == buffers.total)
__CPROVER_loop_invariant(g_vk < ret->size ==> (uint8_t)ret->data[g_vk] == VSV_CONCAT(&buffers, g_vk))
__CPROVER_decreases(buffers.count - verif_i)
"""


def read_all_rules():
    return [
        # function-local `static const` -> constant (dfcc would havoc the static)
        Rule(r'static const ssize_t read_size = ([^;]+);', r'enum { read_size = \1 };', count=None, regex=True),
        Rule(r'vector<string> buffers;', 'vsv buffers; vsv_init(&buffers);', count=None, regex=True),
        Rule(r'buffers\.emplace_back\(', 'vsv_emplace_back(&buffers, ', count=None, regex=True),
        Rule('buffers.back().data()', 'vsv_back_data(&buffers)', count=None),
        # one overload written in terms of the other
        Rule(r'\breturn read_all\(([^;]*)\);', r'{ phosg_read_all_fd(ret, \1); return; }', count=None, regex=True),
        SYS('+'),
        Rule(r'buffers\.back\(\)\.resize\(', 'vsv_back_resize(&buffers, ', count=None, regex=True),
        Rule('buffers.size()', 'vsv_size(&buffers)', count=None),
        Rule(r'return (?:move\()?buffers\.back\(\)\)?;', '{ vsv_copy_back(ret, &buffers); return; }', count=None, regex=True),
        Rule(r'return (?:move\()?buffers\.front\(\)\)?;', '{ vsv_front_out(ret, &buffers); return; }', count=None, regex=True),
        Rule(r'string ret;', '', count=None, regex=True),
        Rule(r'ret\.reserve\(', 'vsv_reserve(ret, ', count=None, regex=True),
        Rule(r'for \(const string& (\w+) : buffers\) \{',
             r'g_it_next = 0; g_it_prefix = 0; for (size_t verif_i = 0; verif_i < vsv_size(&buffers); verif_i++) { const vstr* \1 = vsv_at(&buffers, verif_i);',
             count=None, regex=True),
        Rule(r'ret \+= (\w+);', r'vstr_append(ret, \1->data, \1->size);', count=None, regex=True),
        Rule('return ret;', 'return;', count=None),
    ]


def loops_unit(ctx, src):
    u = Unit(ctx, 'read_all')
    u.raw('#include "stubs/C14_io.h"\n#include "stubs/C14_vsv.h"\n')
    u.function(src, CC, r'string read_all\(int fd\)', new_header='void phosg_read_all_fd(vstr* ret, int fd)',
               rules=read_all_rules(), ret_zero='', nloops=2, loops={1: READ_ALL_LOOP1, 2: READ_ALL_LOOP2})
    # (the block loops carry loop contracts; an overload that has no loops of its own -- e.g. written in terms of the other one -- has none)
    from vf import lex
    _, fbody, _, _ = lex.find_def(src.text(CC), r'string read_all\(FILE\* f\)', 'read_all(FILE*)')
    nl = len(lex.find_loops(fbody))
    u.function(src, CC, r'string read_all\(FILE\* f\)', new_header='void phosg_read_all_file(vstr* ret, C14_FILE* f)',
               rules=read_all_rules(), ret_zero='', nloops=nl, loops={1: READ_ALL_LOOP1, 2: READ_ALL_LOOP2} if nl == 2 else {})
    u.function(src, CC, r'string fgets\(FILE\* f\)', new_header='void phosg_fgets(vstr* ret, C14_FILE* f)', ret_zero='', nloops=1, loops={1: FGETS_LOOP},
               rules=[Rule(r'deque<string> blocks;', 'vsv blocks; vsv_init(&blocks);', count=1, regex=True),
                      Rule(r'string& block = blocks\.emplace_back\(', 'vsv_emplace_back(&blocks, ', count=1, regex=True),
                      SYS('+'),
                      Rule(r'\bblock\.(data|c_str)\(\)', 'vsv_back_data(&blocks)', count='+', regex=True),
                      Rule('block.size()', 'vsv_back_size(&blocks)', count='+'),
                      Rule(r'\bblock\[([^\]]+)\]', r'vsv_back_at(&blocks, \1)', count=None, regex=True),
                      Rule(r'\bblock\.resize\(', 'vsv_back_resize(&blocks, ', count=None, regex=True),
                      Rule('blocks.pop_back();', 'vsv_pop_back(&blocks);', count=1),
                      Rule('blocks.size()', 'vsv_size(&blocks)', count=None),
                      Rule('return move(blocks.front());', '{ vsv_front_out(ret, &blocks); return; }', count=1),
                      Rule('return join(blocks);', '{ vsv_concat_out(ret, &blocks); return; }', count=1)])
    return u


FGETS_LOOP = """
__CPROVER_assigns(verif_exc, g_pos, g_eof_seen, g_err_seen, g_overrun, g_fg_buf, g_fg_len, g_cval, blocks.count, blocks.total, blocks.live, blocks.has_live, __CPROVER_object_whole(blocks.buf))
__CPROVER_loop_invariant(verif_exc == 0 && g_overrun == 0 && g_err_seen == 0 && g_eof_seen == 0 && g_pos <= g_src_len && !(g_has_nl && g_pos == g_src_len))
__CPROVER_loop_invariant(blocks.total == g_pos && blocks.count <= g_pos && VSV_INV(&blocks))
__CPROVER_loop_invariant(g_vk < blocks.total ==> VSV_CONCAT(&blocks, g_vk) == g_sval)
__CPROVER_decreases(g_src_len - g_pos)
"""


def fd_unit(ctx, src):
    """scoped_fd: the C mirror is { int fd; } -- checked against the class text; constructors with member-initialiser lists
    are emitted as `self->fd = <initialiser expression cut from the source>;` followed by the extracted body."""
    from vf.lex import find_def
    _, cbody, _, _ = find_def(src.text(HH), r'class scoped_fd', 'class')
    i = cbody.rfind('private:')
    members = [l.strip() for l in cbody[i + 8:].strip().rstrip('}').strip().split('\n') if l.strip()] if i >= 0 else None
    if members != ['int fd;']:
        raise ExtractionBreak('scoped_fd: data members changed: %r' % members)
    u = Unit(ctx, 'scoped_fd')
    u.raw('#include "contracts/C14_fd.h"\n')
    OTHER = Rule(r'\bother\.fd\b', 'other->fd', count='+', regex=True)

    def init_expr(sig):
        e = u.snippet(src, CC, sig + r'\s*:\s*fd\(([^()]*)\)\s*\{', group=1)
        return re.sub(r'\bother\.fd\b', 'other->fd', e)
    u.function(src, CC, r'scoped_fd::scoped_fd\(\)\s*:\s*fd\([^()]*\)', new_header='void scoped_fd_ctor(scoped_fd* self)',
               body_prefix=' self->fd = %s; ' % init_expr(r'scoped_fd::scoped_fd\(\)'))
    u.function(src, CC, r'scoped_fd::scoped_fd\(int fd\)\s*:\s*fd\([^()]*\)', new_header='void scoped_fd_ctor_int(scoped_fd* self, int fd)',
               body_prefix=' self->fd = %s; ' % init_expr(r'scoped_fd::scoped_fd\(int fd\)'))
    u.function(src, CC, r'void scoped_fd::close\(\)', new_header='void scoped_fd_close(scoped_fd* self)', rules=[SYS(1)])
    u.function(src, CC, r'scoped_fd::scoped_fd\(scoped_fd&& other\)\s*:\s*fd\([^()]*\)', new_header='void scoped_fd_move_ctor(scoped_fd* self, scoped_fd* other)',
               body_prefix=' self->fd = %s; ' % init_expr(r'scoped_fd::scoped_fd\(scoped_fd&& other\)'), rules=[OTHER])
    CLOSE = Rule('self->close();', 'scoped_fd_close(self);', count=1)
    RET = Rule('return *this;', 'return self;', count=1)
    u.function(src, CC, r'scoped_fd::~scoped_fd\(\)', new_header='void scoped_fd_dtor(scoped_fd* self)', rules=[CLOSE])
    u.function(src, CC, r'scoped_fd& scoped_fd::operator=\(scoped_fd&& other\)', new_header='scoped_fd* scoped_fd_move_assign(scoped_fd* self, scoped_fd* other)',
               rules=[CLOSE, OTHER, RET])
    u.function(src, CC, r'scoped_fd& scoped_fd::operator=\(int other\)', new_header='scoped_fd* scoped_fd_assign_int(scoped_fd* self, int other)',
               rules=[CLOSE, RET])
    u.function(src, CC, r'void scoped_fd::open\(const char\* filename, int mode, mode_t perm\)',
               new_header='void scoped_fd_open(scoped_fd* self, const char* filename, int mode, unsigned perm)', ret_zero='',
               rules=[Rule(r'self->close\(\);', 'scoped_fd_close(self);', count=None, regex=True),
                      Rule(r'(?<![\w.>])(?:::)?\bopen\(', 'c14_open_raw(', count='+', regex=True)])
    u.function(src, CC, r'scoped_fd::operator int\(\) const', new_header='int scoped_fd_to_int(const scoped_fd* self)')
    u.function(src, CC, r'bool scoped_fd::is_open\(\)', new_header='bool scoped_fd_is_open(scoped_fd* self)')
    return u


def path_unit(ctx, src):
    u = Unit(ctx, 'path')
    u.raw('#include "stubs/C14_str.h"\n')
    RF = Rule(r"filename\.rfind\(", 'c14_rfind(filename, ', count='+', regex=True)
    NP = Rule('string::npos', 'C14_NPOS', count=None)
    # the returned std::string expression, whatever statement form carries it: a conditional expression is split into its two arms; an arm is
    # "" (empty), the parameter itself (copy), or filename.substr(pos[, n])
    def arm(e):
        e = e.strip()
        if e in ('""', 'string()', 'std::string()'):
            return 'vstr_clear(ret);'
        if e == 'filename':
            return 'c14_copy(ret, filename);'
        mo = re.fullmatch(r'filename\.substr\(([^,()]+(?:\([^()]*\))?[^,()]*)(?:,\s*(.+))?\)', e, re.S)
        if mo:
            return 'c14_substr(ret, filename, %s, %s);' % (mo.group(1).strip(), (mo.group(2) or 'C14_NPOS').strip())
        raise ExtractionBreak('basename/dirname: unsupported returned expression %r' % e)

    def ret_stmt(mo):
        e = mo.group(1).strip()
        c = re.fullmatch(r'\((.+?)\)\s*\?\s*(.+?)\s*:\s*(filename\.substr\(.*\)|filename|"")', e, re.S)
        if c:
            return '{ if (%s) { %s } else { %s } return; }' % (c.group(1), arm(c.group(2)), arm(c.group(3)))
        return '{ %s return; }' % arm(e)
    RET = Rule(r'\breturn ([^;]+);', ret_stmt, count='+', regex=True)
    u.function(src, CC, r'string basename\(const std::string& filename\)', new_header='void phosg_basename(vstr* ret, const vstr* filename)', rules=[RF, RET, NP])
    u.function(src, CC, r'string dirname\(const std::string& filename\)', new_header='void phosg_dirname(vstr* ret, const vstr* filename)', rules=[RF, RET, NP])
    return u


def poll_unit(ctx, src):
    """Poll::add / remove / empty; iterators become indices into the pvec model; the comparison lambdas are extracted as
    functions of their own (the search stubs assume "ordered by fd": that is what the lambdas must compute)."""
    from vf.lex import find_def
    _, cbody, _, _ = find_def(src.text(HH), r'class Poll', 'class')
    i = cbody.rfind('private:')
    members = [l.strip() for l in cbody[i + 8:].strip().rstrip('}').strip().split('\n') if l.strip()] if i >= 0 else None
    if members != ['std::vector<struct pollfd> poll_fds;']:
        raise ExtractionBreak('Poll: data members changed: %r' % members)
    u = Unit(ctx, 'poll')
    u.raw('#include "contracts/C14_poll.h"\n')
    LAMBDA = r'auto pred = \[\]\(const struct pollfd& x, const struct pollfd& y\)'
    common = [Rule(LAMBDA + r' \{.*?\};', '', count=1, regex=True),
              Rule('struct pollfd pfd;', 'c14_pollfd pfd;', count=1),
              Rule(r'auto (\w+) = (upper|lower)_bound\(self->poll_fds\.begin\(\),\s*self->poll_fds\.end\(\),\s*pfd,\s*pred\);',
                   r'size_t \1 = pvec_\2_bound(&self->poll_fds, &pfd);', count=1, regex=True),
              Rule('self->poll_fds.end()', 'pvec_end(&self->poll_fds)', count=None),
              Rule(r'\b(insert_it|erase_it)->', r'self->poll_fds.data[\1].', count=None, regex=True),
              # further std::vector members a variant of the code may use (type-directed; any number of uses)
              Rule(r'\*(insert_it|erase_it)\b', r'self->poll_fds.data[\1]', count=None, regex=True),
              Rule(r'self->poll_fds\.back\(\)', 'self->poll_fds.data[self->poll_fds.n - 1]', count=None, regex=True),
              Rule(r'self->poll_fds\.front\(\)', 'self->poll_fds.data[0]', count=None, regex=True),
              Rule(r'self->poll_fds\.pop_back\(\);', 'pvec_pop_back(&self->poll_fds);', count=None, regex=True),
              Rule(r'self->poll_fds\.size\(\)', 'self->poll_fds.n', count=None, regex=True)]
    for nm, sig, hdr in (('add', r'void Poll::add\(int fd, short events\)', 'void Poll_add(Poll* self, int fd, short events)'),
                         ('remove', r'void Poll::remove\(int fd, bool close_fd\)', 'void Poll_remove(Poll* self, int fd, bool close_fd)')):
        u.block(src, CC, sig, LAMBDA, new_header='bool Poll_%s_pred(const c14_pollfd* x, const c14_pollfd* y)' % nm,
                rules=[Rule(r'\b([xy])\.fd\b', r'\1->fd', count=2, regex=True)])
        extra = ([Rule('self->poll_fds.insert(insert_it, pfd);', 'pvec_insert(&self->poll_fds, insert_it, &pfd);', count=None)] if nm == 'add' else
                 [Rule('self->poll_fds.erase(erase_it);', 'pvec_erase(&self->poll_fds, erase_it);', count=None), SYS(1)])
        u.function(src, CC, sig, new_header=hdr, rules=common + extra)
    u.function(src, CC, r'bool Poll::empty\(\) const', new_header='bool Poll_empty(const Poll* self)',
               rules=[Rule('self->poll_fds.empty()', 'pvec_empty(&self->poll_fds)', count=1)])
    return u


def plan(ctx):
    src = Source(ctx.src)
    groups = []
    ue = exact_unit(ctx, src)
    ue.write()
    ctx.functions_under_contract = list(ue.functions)
    H = 'harness/C14/exact.c'

    def E(fn, cxx, replace, mode='exact'):
        # the exact-size functions are single calls in the code as it is; a version that loops until everything has arrived has no loop
        # contract here: it is checked with its loop unwound for requests of at most 4 bytes (bounded stand-in, labelled)
        mtxt = re.search(r'\nvoid phosg_%s\([^\n]*\)\n\{(.*?)\n\}\n' % re.escape(fn), ue.text(), re.S)
        loopy = bool(mtxt and re.search(r'\b(?:while|for|do)\b', lex.mask(mtxt.group(1))))
        kwb = dict(kind='bounded', bound='the function now contains a loop without loop contract: size <= 4, unwound 6 times (unwinding assertions on)',
                   cbmc_flags=['--unwind', '6', '--unwinding-assertions'], defines=['C14_EXACT_SMALL=1']) if loopy else {}
        groups.append(Group(name='Filesystem.' + fn, harness=H, entry='h_' + fn, function=cxx, enforce='phosg_' + fn, replace=replace, **kwb,
                            clause_note='a transfer of exactly `size` bytes returns normally, a failed or empty one raises io_error; on a normal return the buffer '
                                        'holds exactly the `size` stream bytes (ghost index) -- "exactly the bytes the source delivers, or throw"; the write side: '
                                        'returns normally iff the one underlying call transferred `size` bytes',
                            replay=Replay(driver='C14/fs.cc', mode=mode, extra=[fn], sources=ALL_LIB, small_define='VERIF_SMALL')))
    E('readx', 'readx(int, void*, size_t)', ['c14_read'])
    E('readx_str', 'readx(int, size_t)', ['phosg_readx', 'vstr_resize'])
    E('writex', 'writex(int, const void*, size_t)', ['c14_write'])
    E('writex_str', 'writex(int, const string&)', ['phosg_writex'])
    E('preadx', 'preadx(int, void*, size_t, off_t)', ['c14_pread'])
    E('preadx_str', 'preadx(int, size_t, off_t)', ['phosg_preadx', 'vstr_resize'])
    E('pwritex', 'pwritex(int, const void*, size_t, off_t)', ['c14_pwrite'])
    E('pwritex_str', 'pwritex(int, const string&, off_t)', ['phosg_pwritex'])
    E('freadx', 'freadx(FILE*, void*, size_t)', ['c14_fread'])
    E('freadx_str', 'freadx(FILE*, size_t)', ['phosg_freadx', 'vstr_resize'])
    E('fwritex', 'fwritex(FILE*, const void*, size_t)', ['c14_fwrite'])
    E('fwritex_str', 'fwritex(FILE*, const string&)', ['phosg_fwritex'])
    E('fgetcx', 'fgetcx(FILE*)', ['c14_fgetc', 'c14_feof'])
    E('read_str', 'read(int, size_t)', ['c14_read', 'vstr_resize'])
    E('fread_str', 'fread(FILE*, size_t)', ['c14_fread', 'vstr_resize'])
    E('load_file', 'load_file', ['c14_open', 'c14_fstat_size', 'c14_read', 'vstr_resize'], mode='file_replace')
    E('save_file', 'save_file(const string&, const void*, size_t)', ['c14_open', 'c14_write'], mode='file_replace')
    E('save_file_str', 'save_file(const string&, const string&)', ['phosg_save_file'], mode='file_replace')
    ul = loops_unit(ctx, src)
    ul.write()
    ctx.functions_under_contract += ul.functions
    HL = 'harness/C14/loops.c'
    VS = ['vstr_assign', 'vstr_append', 'vsv_at', 'vsv_concat_out']
    groups.append(Group(name='Filesystem.read_all(fd)', harness=HL, entry='h_read_all_fd', function='read_all(int)', enforce='phosg_read_all_fd',
                        replace=['c14_read'] + VS, loops=True, kind='loop-contract', timeout=300, fallback_unwind=4, object_bits=12,
                        clause_note='returns exactly the g_src_len bytes of the ghost stream, only after read() reported end-of-file; io_error iff read() failed',
                        replay=Replay(driver='C14/fs.cc', mode='read_all_fd', sources=ALL_LIB, small_define='VERIF_SMALL')))
    groups.append(Group(name='Filesystem.read_all(FILE*)', harness=HL, entry='h_read_all_file', function='read_all(FILE*)', enforce='phosg_read_all_file',
                        replace=[f for f in ('c14_fread', 'c14_read', 'c14_fileno', 'c14_ferror')
                                 if f + '(' in ul.text().split('void phosg_read_all_file(')[1] or (f == 'c14_read' and 'phosg_read_all_fd(' in ul.text().split('void phosg_read_all_file(')[1])] + VS, loops=True, kind='loop-contract', timeout=300, fallback_unwind=4, object_bits=12,
                        replay=Replay(driver='C14/fs.cc', mode='read_all_file', sources=ALL_LIB, small_define='VERIF_SMALL')))
    groups.append(Group(name='Filesystem.fgets(FILE*)', harness=HL, entry='h_fgets', function='fgets(FILE*)', enforce='phosg_fgets',
                        replace=['c14_fgets', 'c14_feof', 'c14_strlen', 'vsv_concat_out'], loops=True, kind='loop-contract', timeout=300, fallback_unwind=5,
                        clause_note='the result is the whole ghost line (g_src_len bytes, with its newline if it has one), whatever its length relative to the 256-byte block',
                        replay=Replay(driver='C14/fs.cc', mode='fgets_line', sources=ALL_LIB, small_define='VERIF_SMALL_LINE')))
    ud = dir_unit(ctx, src)
    ud.write()
    ctx.functions_under_contract += ud.functions
    for fn in ('list_directory', 'list_directory_sorted'):
        groups.append(Group(name='Filesystem.' + fn, harness='harness/C14/dir.c', entry='h_' + fn, function=fn, enforce='phosg_' + fn, loops=True,
                            kind='loop-contract', timeout=300,
                            clause_note='contracts/C14_dir.h: the (arbitrary) watched entry of a directory of any size is stored exactly once unless its name is '
                                        'exactly "." or ".."; nothing else is stored; every entry is consumed; closedir exactly once; cannot_open_file iff opendir fails',
                            replay=Replay(driver='C14/fs.cc', mode='list_directory', extra=[fn], sources=ALL_LIB)))
    uf = fd_unit(ctx, src)
    uf.write()
    ctx.functions_under_contract += uf.functions
    HF = 'harness/C14/fd.c'
    for fn, cxx, rep in [('ctor', 'scoped_fd::scoped_fd()', []), ('ctor_int', 'scoped_fd::scoped_fd(int)', []),
                         ('move_ctor', 'scoped_fd::scoped_fd(scoped_fd&&)', []), ('close', 'scoped_fd::close', ['c14_close']),
                         ('dtor', 'scoped_fd::~scoped_fd', ['c14_close']), ('move_assign', 'scoped_fd::operator=(scoped_fd&&)', ['c14_close']),
                         ('assign_int', 'scoped_fd::operator=(int)', ['c14_close']), ('to_int', 'scoped_fd::operator int', []),
                         ('is_open', 'scoped_fd::is_open', []), ('open', 'scoped_fd::open(const char*, int, mode_t)', ['c14_close', 'c14_open_raw'])]:
        groups.append(Group(name='scoped_fd.' + fn, harness=HF, entry='h_' + fn, function=cxx, enforce='scoped_fd_' + fn, replace=rep,
                            clause_note='the descriptor held on entry is closed exactly once (ghost close counters), ownership moves, the moved-from object holds -1',
                            replay=Replay(driver='C14/fs.cc', mode='scoped_fd', extra=[fn], sources=ALL_LIB)))
    FDC = ['scoped_fd_ctor', 'scoped_fd_ctor_int', 'scoped_fd_move_ctor', 'scoped_fd_close', 'scoped_fd_dtor', 'scoped_fd_move_assign', 'scoped_fd_assign_int']
    groups.append(Group(name='scoped_fd.lifetime[move]', harness=HF, entry='l_lifetime_move', function='scoped_fd (ctor, move ctor, move assignment, destructor)',
                        replace=[f for f in FDC if f in ('scoped_fd_ctor_int', 'scoped_fd_move_ctor', 'scoped_fd_move_assign', 'scoped_fd_dtor')], kind='lemma', min_post=4))
    groups.append(Group(name='scoped_fd.lifetime[assign,close]', harness=HF, entry='l_lifetime_assign_close', function='scoped_fd (ctor, operator=(int), close, destructor)',
                        replace=[f for f in FDC if f in ('scoped_fd_ctor', 'scoped_fd_assign_int', 'scoped_fd_close', 'scoped_fd_dtor')], kind='lemma', min_post=4))
    up = path_unit(ctx, src)
    up.write()
    ctx.functions_under_contract += up.functions
    HP = 'harness/C14/path.c'
    for fn in ('basename', 'dirname'):
        groups.append(Group(name='Filesystem.' + fn, harness=HP, entry='h_' + fn, function=fn, enforce='phosg_' + fn, replace=['c14_rfind', 'vstr_assign'],
                            clause_note='the part after / before the last slash (ghost g_ls), byte for byte (ghost index)',
                            replay=Replay(driver='C14/fs.cc', mode='dirname_basename', sources=ALL_LIB, small_define='VERIF_SMALL')))
    groups.append(Group(name='Filesystem.dirname+basename.recompose', harness=HP, entry='l_recompose', function='dirname / basename',
                        replace=['phosg_dirname', 'phosg_basename'], kind='lemma', min_post=3,
                        replay=Replay(driver='C14/fs.cc', mode='dirname_basename', sources=ALL_LIB, small_define='VERIF_SMALL')))
    uq = poll_unit(ctx, src)
    uq.write()
    ctx.functions_under_contract += uq.functions
    HQ = 'harness/C14/poll.c'
    qtext = uq.text()
    for fn, rep in (('add', ['pvec_insert']), ('remove', ['pvec_erase', 'c14_close'])):
        body = qtext.split('void Poll_%s(' % fn)[1].split('\nvoid ')[0].split('\nbool ')[0]
        rep = rep + [b for b in ('pvec_upper_bound', 'pvec_lower_bound') if b + '(' in body]
        groups.append(Group(name='Poll.' + fn, harness=HQ, entry='h_' + fn, function='Poll::' + fn, enforce='Poll_' + fn, replace=rep,
                            clause_note='map semantics at the key: present exactly once with the new events / absent; size changes by one only when the key was '
                                        'absent / present; every other entry kept in order (ghost value idiom)',
                            stage1=60, timeout=300, replay=Replay(driver='C14/fs.cc', mode='poll_ops', extra=[fn], sources=ALL_LIB, small_define='VERIF_SMALL')))
    groups.append(Group(name='Poll.empty', harness=HQ, entry='h_empty', function='Poll::empty', enforce='Poll_empty'))
    groups.append(Group(name='Poll.add.pred', harness=HQ, entry='h_add_pred', function='Poll::add (comparison lambda)', enforce='Poll_add_pred'))
    groups.append(Group(name='Poll.history[add,add,remove;n<=3]', harness='harness/C14/poll_bounded.c', entry='h_poll_bounded', function='Poll::add / remove / empty',
                        kind='bounded', bound='vectors of at most 3 registered descriptors (symbolic fds and events), history add(fd); add(fd); remove(fd); '
                                              'executable models of lower_bound / upper_bound / insert / erase (stubs/C14_pvec_impl.h), loops unwound 8 times',
                        cbmc_flags=['--unwind', '8', '--unwinding-assertions'], defines=['PB_N=3'], min_post=8, timeout=300, stage1=60,
                        replay=Replay(driver='C14/fs.cc', mode='poll_add_twice', sources=ALL_LIB)))
    groups.append(Group(name='Poll.remove.pred', harness=HQ, entry='h_remove_pred', function='Poll::remove (comparison lambda)', enforce='Poll_remove_pred'))
    return groups


EXPLANATION = ('The read helpers of src/Filesystem.cc are put under function contracts whose source/sink is a GHOST STREAM (stubs/C14_io.h): '
               'g_src_len bytes in total, g_pos delivered so far, sticky end-of-file / error flags, content through one ghost position. '
               'read(2) may return ANY count in [1, min(n, remaining)] (0 only at end-of-file, -1 on error), so one proof covers every '
               'chunking: pipes with delayed writers, short reads, sockets. read_all(int) / read_all(FILE*) / fgets(FILE*) are loops with '
               'loop contracts over a model of the block container (stubs/C14_vsv.h); the exact-size family, the single-call readers, '
               'load_file / save_file (including the open(2) flags recorded in a ghost), scoped_fd, basename / dirname and Poll are loop-free and discharged over their whole input domain; '
               '"closed exactly once" and dirname + "/" + basename == p are lemmas over the contracts. Poll::add / remove are proved for '
               'vectors of ANY length, described around the key (lower-bound position, present flag; stubs/C14_pvec.h).')
TRUSTED = [
    'stubs/C14_io.h: contract-only models of read, pread, write, pwrite, close (POSIX.1-2017) and fread, fwrite, fgetc, fgets, feof, ferror, strlen '
    '(ISO C 7.21/7.24) over the ghost stream; open / fstat as "descriptor or exception" / "reported size or exception"',
    'stubs/C14_vsv.h: model of std::vector<std::string> / std::deque<std::string> as a sequence of blocks summarised by (count, total size, live last block, '
    'one ghost byte of the concatenation); sequential iteration; phosg::join(blocks) with the empty delimiter = concatenation',
    'stubs/C14_pvec.h: std::vector<struct pollfd> with iterators as indices; std::lower_bound / std::upper_bound on a strictly sorted vector described around the key',
    'stubs/C14_str.h: std::string::rfind(char) answered from the ghost description of the path (g_ls = position of the last slash), substr per [string.substr]',
    'stubs/vstr.h (std::string model), contracts/C14_*.h (the specification clauses, written from the property statement)',
    'stubs/C14_dir.h: opendir / readdir / closedir over a ghost directory of any size whose entry names are arbitrary NUL-terminated strings (POSIX: one statically '
    'allocated dirent, overwritten per call); strcmp against a literal of at most two characters; the result container as a counting stub',
]
ASSUMPTIONS = [
    'ASSUMED syscall / stdio contracts (stubs/C14_io.h): read() returns -1, or 0 only at end-of-file, or any k in [1, min(n, remaining)] and stores the next k stream bytes; '
    'fread() returns a short count only at end-of-file or on error; fgets(buf, n) stores exactly min(n-1, rest of line) characters plus a NUL; '
    'write()/fwrite() may accept fewer bytes than asked; the eof indicator is only set at end-of-file',
    'the line given to fgets(FILE*) contains no NUL byte (the C fgets interface cannot report a length: strlen of the filled buffer = number of characters stored)',
    'read_all / fgets start on a fresh stream (position 0, no eof / error indicator set)',
    'allocation succeeds: result strings have capacity for the data (vstr capacity model), block buffers of the container model are large enough',
    'scoped_fd::operator=(int) is not given the descriptor the object already owns (that would close it and keep it)',
    'Poll: the vector is strictly sorted by fd on entry (representation invariant; the contracts re-establish it around the key and keep every other entry in order)',
    'sizes below 2^47 bytes (cbmc object-size limit)',
]
DROPS = ('std::string results -> vstr out-parameters; FILE -> opaque C14_FILE; io_error / runtime_error / cannot_open_file -> verif_exc flag (message arguments such as '
         'string_printf(...) and fileno(f) dropped with the throw expression); function-local `static const ssize_t read_size` -> enum constant; '
         'vector<string> / deque<string> locals -> vsv model (buffers.back().data() -> vsv_back_data, range-for -> index loop over vsv_at); '
         'for (;;) -> while (1) where a loop contract is attached; scoped_fd class -> struct { int fd; } with explicit self, member-initialiser lists emitted as assignments; '
         'the local scoped_fd of load_file / save_file -> descriptor from the open stub (its destructor call at scope exit is not modelled there); '
         'Poll iterators -> indices, the comparison lambdas extracted as functions of their own; struct pollfd -> c14_pollfd')
NOT_DECIDED = [
    'load_file(save_file(d)) = d through a real file system: that the bytes a later read() delivers are the bytes an earlier write() accepted is a property of the kernel, '
    'not of phosg; proved are the two halves (save_file hands exactly d to write() or throws; load_file returns exactly the fstat-size bytes read() delivered or throws) '
    'and the open(2) protocol that makes them compose under POSIX: save_file opens for writing with O_CREAT and O_TRUNC and without O_APPEND (so a longer previous '
    'content cannot survive), load_file opens without O_TRUNC / O_APPEND / write-only access',
    'real pipes with staggered writers, link-time interposition of read(): covered only through the ASSUMED read(2) contract (any short-read plan), not observed on a kernel '
    '(the native replay drivers do use a real pipe / fopencookie / tmpfile, but only for counterexamples)',
    'recursive unlink removes the whole tree: restates rmdir/unlink/readdir; recursion over an unbounded directory tree (its enumeration step, list_directory, is under contract)',
    'list_directory: that two entries have different names / the set semantics of unordered_set and the order produced by std::sort are the library containers (the result '
    'container is a counting stub); decided: every readdir entry other than "." / ".." is stored exactly once, nothing else is stored, closedir exactly once',
    'Poll::poll (the revents map) and the exhaustive add/remove histories over 3 descriptors: single operations are proved for any vector instead; '
    'that strict sortedness of the WHOLE vector is preserved is only shown around the key plus "all other entries kept in order"',
    'scoped_fd(const char*, int, mode_t) / open(): wrap open(2)',
    'lines containing NUL bytes in fgets(FILE*)',
]
CLAIMED = True
MANIFEST = dict(
    category='proof',
    text=('read_all(int), read_all(FILE*), fgets(FILE*) (loop contracts), readx/preadx/freadx/writex/pwritex/fwritex in both overloads, fgetcx, read(int,size_t), '
          'fread(FILE*,size_t), load_file, save_file, list_directory, list_directory_sorted, every member of scoped_fd, basename, dirname, Poll::add/remove/empty are extracted from src/Filesystem.cc on every run and '
          'proved against contracts taken from the statement: the result is exactly the bytes of a ghost source stream up to end-of-file / exactly n bytes / exactly the line, '
          'or an exception -- for EVERY way read() may chunk the data (any short-read plan, unbounded stream length). Descriptors are closed exactly once (ghost close '
          'counters, lifetime lemmas), dirname(p)+"/"+basename(p)=p is a lemma over the two contracts, Poll behaves as a map at the key for vectors of any length. '
          'The directory listers store every readdir entry except exactly "." and ".." once, for a directory of any size and any names (loop contract, file-local helpers '
          'extracted with the loop); save_file / load_file pass open(2) the flags under which POSIX makes load_file(save_file(d)) == d (O_TRUNC etc.).'),
    note=('Everything rests on ASSUMED contracts for the system calls and stdio functions (stubs/C14_io.h, written from POSIX / ISO C) and on models of the block container, '
          'the pollfd vector and std::string (stubs/C14_vsv.h, C14_pvec.h, C14_str.h, vstr.h). Not decided: anything that only restates the kernel -- real pipes, '
          'recursive unlink, the kernel side of load_file(save_file(d)) -- and Poll::poll. Lines with NUL bytes are outside the fgets claim.'),
    technique=('function contracts + loop contracts (requires/ensures/assigns, loop_invariant/decreases) enforced with goto-instrument --dfcc, callees and libc/syscalls replaced by '
               'contract-only stubs over a ghost stream, discharged by cbmc (SAT/SMT portfolio); lemmas over the contracts'),
)
