"""C18 -- time, duration and size formatting (DESIGN.md section 4, C18)."""
import os
import re

from vf import lex
from vf.extract import Source, Unit
from vf.lex import Rule, ExtractionBreak
from vf.pipeline import Group, Replay, ALL_LIB, VERIF

ID = 'C18'
LEVEL = 'proof'
EXPLANATION = (
    'format_duration, usecs_to_timeval, timeval_to_usecs, format_size (64-bit variant), parse_size and format_time are cut from src/Time.cc / '
    'src/Strings.cc on every run and put under function contracts (goto-instrument --dfcc, cbmc). A std::string built by string_printf / operator+ is '
    'modelled by the sequence of printf conversions that produced it (stubs/C18_text.h): the format string of every string_printf call is parsed by the '
    'extractor on every run and becomes one stub call per conversion, so the contracts speak about WHICH value is printed with WHICH conversion, width, '
    'flag and precision, in WHICH order. format_duration: never throws (std::string::at lowered to the exception flag); the text is in the grammar '
    '[d:][h:][m:]s[.f]; inner fields are two characters zero padded (for every possible length of the "%.*lf" seconds text: 1 or 2 integer digits, with '
    'or without a point); days*86400e6 + hours*3600e6 + minutes*60e6 + numerator == usecs exactly, where numerator/10^6 is the one division whose result '
    'the seconds conversion prints; h < 24, m < 60, s < 60; the requested precision is the printed one -- for all 2^64 durations x all 256 int8 '
    'precisions, split into five magnitude ranges. The nested floor-division identities behind the field decomposition are arithmetic lemma functions '
    '(spec/C18_arith.h) proved for all 2^64 arguments by cvc5 with integer reasoning and then used through their contracts. The timeval conversions have '
    'exact contracts and both inverse laws are lemmas over the contracts. format_size: the unit is the largest power of 1024 <= size, the printed '
    'quotient is size / unit, byte count and fixed text exact, for all sizes. parse_size: loop contracts -- the scan never leaves the NUL-terminated '
    'buffer (any length up to 2^20), the digit loop folds exactly the maximal digit prefix by value*10+digit (lock-step ghost), blanks, unit letter -> '
    'power of 1024. format_time: the second count handed to gmtime_r is floor(t/10^6), the microsecond field is ".%06u" of t mod 10^6 written right '
    'behind the strftime text within the remaining room, runtime_error iff libc reports failure.')
TRUSTED = [
    'stubs/C18_text.h: the printf / std::string model (token summary of a formatted text; %u, %s, %f, literal runs; std::string::at throws iff i >= size(); '
    'number of integer digits of a "%.Pf" text as a function of the value, with both neighbours allowed in the rounding windows [9.5,10) and [99.5,100); '
    'recogniser of the duration grammar [d:][h:][m:]s[.f] and its per-path evaluation in microseconds); c18_ratio/c18_ratiof: '
    '"(double)x / c" and "(float)x / c" with the operands recorded in ghosts; isdigit in the "C" locale',
    'stubs/C18_ftime.h: gmtime_r / strftime / snprintf(".%06u") as memory-safety preconditions + ghost records of their arguments + any return value '
    'ISO C / POSIX allow; std::string(n, c) / data() / size() / resize() on a 256-byte buffer',
    'props/C18.py PrintfLowering: the parser of printf format strings (literal runs, %[0][w]u with l/ll/z/h/hh, %.Pf / %.*lf, %s, %%; PRIu64 = "lu", '
    'PRIu32 = "u") and the statement shapes "return string_printf(..) [+ s];" / "string s = string_printf(..);"',
    'tools/C18_cvc5_int.sh: cvc5 --solve-bv-as-int=sum (same solver, integer encoding of bit-vector arithmetic) for the arithmetic lemma groups',
    'contracts/C18_*.h, spec/C18_arith.h: the contracts (transcription of the property statement and of the documented text forms) and lemma statements',
]
ASSUMPTIONS = [
    'printf conforms to ISO C 7.21.6.1 for the conversions used (decimal numerals; field width and 0 flag; "%.Pf" prints P decimals of the correctly '
    'rounded value, no point for P = 0; a negative "*" precision counts as omitted); string_printf / std::string allocation succeeds (bad_alloc not modelled)',
    'time_t / suseconds_t are signed 64-bit (LP64 glibc); size_t is 64 bits: the SIZE_T_BITS == 64 variants of format_size / parse_size are the ones checked',
    'timeval_to_usecs is specified for 0 <= tv_usec < 10^6 and tv_sec*10^6 + tv_usec <= INT64_MAX (the property statement: durations up to 2^63 us): beyond that the '
    'signed multiplication tv_sec * 1000000 in the real code overflows (undefined behaviour in C++; wraps to the right value on x86-64 gcc)',
    'isdigit() of a negative char value answers 0 (glibc; formally undefined in ISO C) -- parse_size passes plain char',
    'parse_size: the argument is a NUL-terminated buffer of at most 2^20 bytes',
]
DROPS = ('std::string results -> out-parameter c18_text* / c18_fstr* (a typed global object); string_printf(FMT, ...) -> c18_put_* calls generated from FMT; '
         'operator+ -> c18_append; .at()/.size() -> c18_at/c18_size; static_cast<double>(x) / c -> c18_ratio(x, c), (float)x / c -> c18_ratiof(x, c) (same '
         'arithmetic, operands recorded); timeval& -> pointer; throw -> verif_exc flag; min<size_t> -> macro; gmtime_r/strftime/snprintf/isdigit -> stubs; '
         'of the four preprocessor variants of format_size only SIZE_T_BITS == 64 is extracted (SIZE_T_BITS and the KB_SIZE.. ladder are cut verbatim from '
         'Platform.hh / Strings.cc); ghost statements: one lemma call at the start of format_duration, lock-step fold / counters in the parse_size loops')
NOT_DECIDED = [
    'the decimal digits printf produces: that the "%.*lf" text of numerator/10^6 is that value correctly rounded at P decimals (ties, double rounding of the '
    'quotient) -- libc + floating point; the check proves which double is printed (numerator, denominator 10^6) and at which precision, not its digits',
    'format_time: the UTC calendar date/time itself (gmtime_r, strftime are libc); only the seconds/microseconds split, the call protocol, the field '
    'format and the length arithmetic are decided. That the strftime text always fits the 128-byte string (it is 19..21 characters) is libc behaviour',
    'format_size / parse_size agreement "to the printed precision": the value of (float)size / unit and its "%.02f" text, and the fractional part of '
    'parse_size (double arithmetic in a loop) are not decided; decided are the unit ladder, the operands of the division, the byte count, the fixed text, '
    'and parse_size for inputs without a fractional part',
    'format_time_natural (local time zone) and now() are outside the statement',
    'the SIZE_T_BITS == 8/16/32 variants of format_size / parse_size (dead code on LP64)',
    'timeval_to_usecs for times beyond 2^63 us (signed overflow in the real code: undefined behaviour, outside the quantifier of the property)',
]

TIME, STR, PLAT = 'src/Time.cc', 'src/Strings.cc', 'src/Platform.hh'

PRI = {'PRIu64': 'lu', 'PRIu32': 'u', 'PRIu16': 'hu', 'PRIu8': 'hhu'}


# ---------------------------------------------------------------------------------------------------------------------
# printf lowering: the format string of every string_printf call is parsed on every run; one c18_put_* call per
# conversion specification / literal run (stubs/C18_text.h)
# ---------------------------------------------------------------------------------------------------------------------
def split_args(text, masked):
    out, depth, s = [], 0, 0
    for i, ch in enumerate(masked):
        if ch in '([{':
            depth += 1
        elif ch in ')]}':
            depth -= 1
        elif ch == ',' and depth == 0:
            out.append(text[s:i])
            s = i + 1
    out.append(text[s:])
    return [a.strip() for a in out]


def format_text(arg, where):
    """"..." PRIu64 "..."  ->  the format string (escape sequences of the C literal decoded)."""
    out, i = [], 0
    while i < len(arg):
        c = arg[i]
        if c in ' \t\r\n':
            i += 1
        elif c == '"':
            j = lex._lit_end(arg, i)
            lit = arg[i + 1:j - 1]
            k = 0
            while k < len(lit):
                if lit[k] == '\\':
                    e = lit[k + 1]
                    m = {'n': '\n', 't': '\t', '\\': '\\', '"': '"', "'": "'", '0': '\0', 'r': '\r'}
                    if e not in m:
                        raise ExtractionBreak('%s: escape \\%s in a format string is not handled' % (where, e))
                    out.append(m[e])
                    k += 2
                else:
                    out.append(lit[k])
                    k += 1
            i = j
        else:
            mo = re.match(r'[A-Za-z_]\w*', arg[i:])
            if not mo or mo.group(0) not in PRI:
                raise ExtractionBreak('%s: format argument %r is not a string literal / PRI macro sequence' % (where, arg))
            out.append(PRI[mo.group(0)])
            i += mo.end()
    return ''.join(out)


SPEC = re.compile(r'%([-+ #0]*)(\d+|\*)?(?:\.(\d*|\*))?(hh|h|ll|l|z|j|t|L)?([a-zA-Z%])')


def lower_format(out, fmt, args, where):
    """C statements that append the rendering of fmt/args to the c18_text `out`."""
    stmts, pos, ai = [], 0, 0

    def lit(run):
        for k in range(0, len(run), 8):
            chunk = run[k:k + 8]
            packed = sum(ord(ch) << (8 * n) for n, ch in enumerate(chunk))
            stmts.append('c18_put_lit(%s, 0x%Xull /* %r */, %d);' % (out, packed, chunk, len(chunk)))

    def arg():
        nonlocal ai
        if ai >= len(args):
            raise ExtractionBreak('%s: format %r consumes more arguments than are passed' % (where, fmt))
        ai += 1
        return args[ai - 1]
    run = ''
    for mo in SPEC.finditer(fmt):
        run += fmt[pos:mo.start()]
        pos = mo.end()
        flags, width, prec, length, conv = mo.groups()
        if conv == '%':
            run += '%'
            continue
        if run:
            lit(run)
            run = ''
        if conv == 'u' and width != '*' and prec is None and set(flags) <= {'0'} and length in (None, 'l', 'll', 'z', 'h', 'hh'):
            stmts.append('c18_put_u64(%s, (uint64_t)(%s), %d, %d);' % (out, arg(), int(width or 0), 1 if '0' in flags else 0))
        elif conv == 'f' and not flags and width is None and length in (None, 'l'):
            if prec == '*':
                p = '(int)(%s)' % arg()
            elif prec is None:
                p = '-1'
            else:
                p = str(int(prec or 0))
            stmts.append('c18_put_double(%s, %s, (double)(%s));' % (out, p, arg()))
        elif conv == 's' and not flags and width is None and prec is None and length is None:
            stmts.append('c18_put_cstr(%s, %s);' % (out, arg()))
        else:
            raise ExtractionBreak('%s: conversion %r of format %r has no model in stubs/C18_text.h' % (where, mo.group(0), fmt))
    run += fmt[pos:]
    if '%' in run:
        raise ExtractionBreak('%s: malformed conversion in format %r' % (where, fmt))
    if run:
        lit(run)
    if ai != len(args):
        raise ExtractionBreak('%s: format %r leaves %d arguments unused' % (where, fmt, len(args) - ai))
    return stmts


class PrintfLowering(Rule):
    """Every statement of one of the shapes
           return string_printf(FMT, args...) [+ NAME];
           string NAME = string_printf(FMT, args...) [+ NAME2];
       becomes a block that builds the text token by token in the out-parameter `ret` / a local c18_text NAME.  `ncalls`: None or
       the exact number of string_printf calls expected."""

    def __init__(self, ncalls=None):
        self.ncalls = ncalls
        self.pat = 'string_printf lowering'

    def apply(self, text, where=''):
        n = 0
        while True:
            m = lex.mask(text)
            mo = re.search(r'\bstring_printf\s*\(', m)
            if not mo:
                break
            n += 1
            p = mo.end() - 1
            pe = lex.match_close(m, p)
            s = mo.start()
            while s > 0 and m[s - 1] not in ';{}':
                s -= 1
            e = pe + 1
            depth = 0
            while e < len(m) and not (m[e] == ';' and depth == 0):
                if m[e] in '([':
                    depth += 1
                elif m[e] in ')]':
                    depth -= 1
                elif m[e] in '{}':
                    raise ExtractionBreak('%s: string_printf call inside a statement the lowering does not know' % where)
                e += 1
            head = ' '.join(text[s:mo.start()].split())
            tail = ' '.join(text[pe + 1:e].split())
            args = split_args(text[p + 1:pe], m[p + 1:pe])
            fmt = format_text(args[0], where)
            if head == 'return':
                out, pre, post = 'ret', 'c18_begin(ret);', 'return;'
            else:
                hm = re.fullmatch(r'string (\w+) =', head)
                if not hm:
                    raise ExtractionBreak('%s: string_printf result used as %r: no lowering' % (where, head))
                out, pre, post = '&' + hm.group(1), 'c18_text %s; c18_begin(&%s);' % (hm.group(1), hm.group(1)), ''
            stmts = lower_format(out, fmt, args[1:], where)
            if tail:
                tm = re.fullmatch(r'\+ (\w+)', tail)
                if not tm:
                    raise ExtractionBreak('%s: string_printf(...) followed by %r: no lowering' % (where, tail))
                stmts.append('c18_append(%s, &%s);' % (out, tm.group(1)))
            ws = re.match(r'\s*', text[s:]).group(0)
            ind = '\n' + ' ' * (len(ws.split('\n')[-1]) + 2)
            if post:
                # an exception raised while the arguments were evaluated (std::string::at) leaves the function first
                block = '%s{ /* %s */%s%s%s%s%sif (verif_exc) return;%s%s%s}' % (
                    ws, fmt.replace('*/', '* /').replace('\n', '\\n'), ind, pre, ind, ind.join(stmts), ind, ind, post, ind[:-2])
            else:
                block = '%s%s%s%s%sif (verif_exc) return;' % (ws, pre, ind, ind.join(stmts), ind)
            text = text[:s] + block + text[e + 1:]
        if self.ncalls is not None and n != self.ncalls:
            raise ExtractionBreak('%s: %d string_printf calls, expected %d' % (where, n, self.ncalls))
        if n == 0:
            raise ExtractionBreak('%s: no string_printf call found' % where)
        return text


class AtLoopBodyStart(Rule):
    """Ghost statements at the start of the body of the loop with the given textual ordinal (1-based)."""

    def __init__(self, ordinal, ghost):
        self.ordinal, self.ghost = ordinal, ghost
        self.pat = 'ghost at body start of loop %d' % ordinal

    def apply(self, text, where=''):
        loops = lex.find_loops(text)
        if self.ordinal > len(loops):
            raise ExtractionBreak('%s: loop %d not found' % (where, self.ordinal))
        kind, pos = loops[self.ordinal - 1]
        m = lex.mask(text)
        j = pos
        while m[j] in ' \t\r\n':
            j += 1
        if m[j] != '{':
            raise ExtractionBreak('%s: loop %d has no braced body' % (where, self.ordinal))
        return text[:j + 1] + ' ' + self.ghost + text[j + 1:]


STR_METHODS = [Rule(r'\b(\w+)\.at\(', r'c18_at(&\1, ', regex=True),
               Rule(r'\b(\w+)\.size\(\)', r'c18_size(&\1)', regex=True)]
# static_cast<double>(X) / C  (after the generic cast rewrite: ((double)(X)) / C)
RATIO = Rule(r'\(\(double\)\((\w+)\)\)\s*/\s*(\w+)', r'c18_ratio(\1, \2)', regex=True)
RATIOF = Rule(r'\(float\)\s*(\w+)\s*/\s*(\w+)', r'c18_ratiof(\1, \2)', regex=True)


class SliceSource:
    """A view of a Source in which everything of one file outside [start, end) is blanked (newlines kept): used to pick one
    preprocessor variant of a function that is defined several times."""

    def __init__(self, src, rel, start_regex, end_regex):
        t = src.text(rel)
        ms = list(re.finditer(start_regex, t))
        if len(ms) != 1:
            raise ExtractionBreak('%s: /%s/ matches %d times' % (rel, start_regex, len(ms)))
        me = re.compile(end_regex).search(t, ms[0].end())
        if not me:
            raise ExtractionBreak('%s: /%s/ not found after /%s/' % (rel, end_regex, start_regex))
        blank = lambda x: ''.join('\n' if c == '\n' else ' ' for c in x)
        self.rel = rel
        self._t = blank(t[:ms[0].end()]) + t[ms[0].end():me.start()] + blank(t[me.start():])
        self._src = src

    def text(self, rel):
        return self._t if rel == self.rel else self._src.text(rel)


# ---------------------------------------------------------------------------------------------------------------------
def duration_unit(ctx, src):
    u = Unit(ctx, 'format_duration')
    u.raw('#include "stubs/C18_text.h"\n#include "spec/C18_arith.h"\n')
    u.function(src, TIME, r'string format_duration\(uint64_t usecs, int8_t subsecond_precision\)',
               new_header='void format_duration(c18_text* ret, uint64_t usecs, int8_t subsecond_precision)',
               rules=STR_METHODS + [RATIO, PrintfLowering()],
               # ghost: the nested-division lemma (spec/C18_arith.h; proved by its own group, bound to its contract here)
               body_prefix=' c18_lemma_dhm(usecs); ')
    return u


def timeval_unit(ctx, src):
    u = Unit(ctx, 'timeval')
    u.raw('#include <stdint.h>\n#include <sys/time.h>\n')
    # <cstdlib> div / ldiv / lldiv: `auto parts = div(a, b);` -- the overload is the one of the second argument when it is an unsuffixed
    # integer literal (int; the first argument is CONVERTED to it, [over.match.best]), with suffix L / LL long / long long; named forms by name
    u.raw('typedef struct { int quot; int rem; } c18_div_t; typedef struct { long quot; long rem; } c18_ldiv_t;\n'
          'static inline c18_div_t c18_div(int a, int b) { c18_div_t r; r.quot = a / b; r.rem = a % b; return r; }\n'
          'static inline c18_ldiv_t c18_ldiv(long a, long b) { c18_ldiv_t r; r.quot = a / b; r.rem = a % b; return r; }')
    DIV = [Rule(r'\bauto (\w+) = div\(([^,;]+), (\d+)\);', r'c18_div_t \1 = c18_div((int)(\2), \3);', count=None, regex=True),
           Rule(r'\bauto (\w+) = (?:div\(([^,;]+), (\d+)[lL]{1,2}\)|l{1,2}div\(([^,;]+), ([^;]+)\));',
                lambda mo: 'c18_ldiv_t %s = c18_ldiv((long)(%s), (long)(%s));' % (mo.group(1), mo.group(2) or mo.group(4), mo.group(3) or mo.group(5)), count=None, regex=True)]
    u.function(src, TIME, r'struct timeval usecs_to_timeval\(uint64_t usecs\)', rules=DIV)
    u.function(src, TIME, r'uint64_t timeval_to_usecs\(struct timeval& tv\)',
               new_header='uint64_t timeval_to_usecs(struct timeval* tv)',
               rules=[Rule(r'\btv\.', 'tv->', regex=True, count='+')])
    return u


def format_time_unit(ctx, src):
    u = Unit(ctx, 'format_time')
    u.raw('#include "stubs/C18_ftime.h"\n')
    u.function(src, TIME, r'string format_time\(uint64_t t\)', new_header='void format_time(c18_fstr* ret, uint64_t t)', ret_zero='',
               rules=[Rule(r'\bstring ret\(([^;]*?)\);', r'c18_fstr_init(ret, \1);', regex=True, count=1),
                      Rule('ret.data()', 'c18_fstr_data(ret)', count='+'),
                      Rule('ret.size()', 'c18_fstr_size(ret)', count='+'),
                      Rule(r'\bret\.resize\(', 'c18_fstr_resize(ret, ', regex=True, count=1),
                      Rule('min<size_t>(', 'C18_MIN_SIZE(', count=None),   # (std::min<T> is lowered generically to VERIF_MIN_T by vf.lex before this rule)
                      Rule(r'\bgmtime_r\(', 'c18_gmtime_r(', regex=True, count=1),
                      Rule(r'\bstrftime\(', 'c18_strftime(', regex=True, count=1),
                      # snprintf(dst, n, ".%[0][w]" PRIu32, v): flag and width of the conversion become arguments of the stub
                      Rule(r'\bsnprintf\(([^;]*?),\s*"\.%(0?)(\d*)"\s*PRIu32\s*,',
                           lambda mo: 'c18_snprintf_dot_u32(%s, %d, %d,' % (mo.group(1), 1 if mo.group(2) else 0, int(mo.group(3) or 0)), regex=True, count=1),
                      Rule(r'\breturn ret;', 'return;', regex=True, count=1)])
    return u


def size_macros(u, src):
    """SIZE_T_BITS (Platform.hh) and the KB_SIZE.. ladder constants (Strings.cc), verbatim preprocessor text."""
    u.raw('#include <stdint.h>\n#include <stddef.h>\n')
    u.raw(u.snippet(src, PLAT, r'#if \(SIZE_MAX == 0xFF\)\n.*?\n#endif'))
    u.raw(u.snippet(src, STR, r'(?:#define [KMGTPEZYH]B_SIZE [^\n]*\n)+'))


def format_size_unit(ctx, src):
    u = Unit(ctx, 'format_size')
    size_macros(u, src)
    u.raw('#include "stubs/C18_text.h"\n#if SIZE_T_BITS != 64\n#error "the C18 check extracts the SIZE_T_BITS == 64 variant of format_size"\n#endif\n')
    s64 = SliceSource(src, STR, r'#elif \(SIZE_T_BITS == 64\)', r'#endif')
    u.function(s64, STR, r'string format_size\(size_t size, bool include_bytes\)',
               new_header='void format_size(c18_text* ret, size_t size, bool include_bytes)',
               rules=[RATIOF, PrintfLowering()])
    return u


PARSE_INT_LOOP = """
__CPROVER_assigns(str, integer_part, g_ps_int, g_ps_ndig)
__CPROVER_loop_invariant(__CPROVER_same_object(str, g_ps_base) && __CPROVER_POINTER_OFFSET(str) == g_ps_ndig && g_ps_ndig < g_ps_n)
__CPROVER_loop_invariant(integer_part == g_ps_int)
__CPROVER_loop_invariant(g_ps_k < g_ps_ndig ==> C18_ISDIGIT(g_ps_base[g_ps_k]))
__CPROVER_decreases(g_ps_n - g_ps_ndig)
"""
PARSE_FRAC_LOOP = """
__CPROVER_assigns(str, fractional_part, factor)
__CPROVER_loop_invariant(__CPROVER_same_object(str, g_ps_base) && __CPROVER_POINTER_OFFSET(str) < g_ps_n)
__CPROVER_loop_invariant(__CPROVER_POINTER_OFFSET(str) > g_ps_ndig)
__CPROVER_decreases(g_ps_n - __CPROVER_POINTER_OFFSET(str))
"""
PARSE_SP_LOOP = """
__CPROVER_assigns(str, g_ps_nsp)
__CPROVER_loop_invariant(__CPROVER_same_object(str, g_ps_base) && __CPROVER_POINTER_OFFSET(str) < g_ps_n)
__CPROVER_loop_invariant(g_ps_sp0 < g_ps_n && g_ps_nsp < g_ps_n && __CPROVER_POINTER_OFFSET(str) == g_ps_sp0 + g_ps_nsp)
__CPROVER_loop_invariant(g_ps_k2 < g_ps_nsp ==> g_ps_base[g_ps_sp0 + g_ps_k2] == ' ')
__CPROVER_decreases(g_ps_n - __CPROVER_POINTER_OFFSET(str))
"""


def parse_size_unit(ctx, src):
    u = Unit(ctx, 'parse_size')
    size_macros(u, src)
    u.raw('#include "contracts/C18_size.h"\n')
    u.function(src, STR, r'size_t parse_size\(const char\* str\)',
               rules=[Rule('isdigit(', 'c18_isdigit(', count=2),
                      # lock-step specification fold (DESIGN.md 3.4): the ghost accumulator is advanced by the numeral
                      # definition value(s.d) = value(s) * 10 + digit(d) on the character the loop is about to consume
                      AtLoopBodyStart(1, 'g_ps_int = g_ps_int * 10 + C18_DIGIT(*str); g_ps_ndig++;'),
                      AtLoopBodyStart(3, 'g_ps_nsp++;'),
                      Rule(r'(for \(; \*str == \' \'; str\+\+\))', r'g_ps_sp0 = __CPROVER_POINTER_OFFSET(str); \1', regex=True, count=1)],
               nloops=3, loops={1: PARSE_INT_LOOP, 2: PARSE_FRAC_LOOP, 3: PARSE_SP_LOOP},
               body_prefix=' g_ps_base = str; g_ps_int = 0; g_ps_ndig = 0; g_ps_sp0 = 0; g_ps_nsp = 0; ')
    return u


def plan(ctx):
    src = Source(ctx.src)
    groups = []
    ud = duration_unit(ctx, src)
    ud.write()
    ctx.functions_under_contract = list(ud.functions)
    RP = Replay(driver='C18/time.cc', mode='format_duration', sources=ALL_LIB)
    US = 1000000
    ranges = [('lt_1s', 0, US - 1), ('lt_1min', US, 60 * US - 1), ('lt_1h', 60 * US, 3600 * US - 1),
              ('lt_1d', 3600 * US, 86400 * US - 1), ('ge_1d', 86400 * US, 2 ** 64 - 1)]
    NOTE = ('contracts/C18_duration.h: never throws; grammar [d:][h:][m:]s[.f]; inner fields two characters zero padded; '
            'fields * unit + numerator of the printed seconds == usecs; h<24, m<60, s<60; requested precision')
    for nm, lo, hi in ranges:
        # the day/hour ranges need an SMT back end (the lemma facts are used through shared terms; z3 also normalises the sums); the
        # widest range is checked in three groups, one per clause set of the contract (DUR_PART), which keeps every solver run short
        heavy = nm in ('lt_1d', 'ge_1d')
        parts = [('', [])] if nm != 'ge_1d' else [('.text', ['DUR_PART=1']), ('.value', ['DUR_PART=2']), ('.canonical', ['DUR_PART=3'])]
        for sfx, pd in parts:
            groups.append(Group(name='Time.format_duration[%s]%s' % (nm, sfx), harness='harness/C18/duration.c', entry='h_format_duration',
                                function='format_duration', enforce='format_duration', replace=['c18_fdiv', 'c18_lemma_dhm'],
                                defines=['DUR_LO=%dull' % lo, 'DUR_HI=%dull' % hi] + pd, first='z3' if heavy else 'cadical', stage1=2 if heavy else 15,
                                engines=['z3', 'cvc5'] if heavy else None, timeout=600, replay=RP, clause_note=NOTE))
    # bounded falsifiers (never counted as proof): the same contract on narrow bands across the unit boundaries.  A source edit that
    # makes an unbounded group above undecidable within its time budget still gets a concrete, natively replayable counterexample here.
    bands = [('band_1h', 59 * 60 * US + 58 * US), ('band_1d', (23 * 3600 + 59 * 60 + 58) * US), ('band_1d13h', (86400 + 12 * 3600 + 59 * 60 + 58) * US)]
    for nm, lo in bands:
        groups.append(Group(name='Time.format_duration[%s]' % nm, harness='harness/C18/duration.c', entry='h_format_duration',
                            function='format_duration', enforce='format_duration', replace=['c18_fdiv', 'c18_lemma_dhm'],
                            defines=['DUR_LO=%dull' % lo, 'DUR_HI=%dull' % (lo + 4 * US - 1)], kind='bounded',
                            bound='usecs in [%d, %d] (4 s at microsecond resolution across a unit boundary), all precisions' % (lo, lo + 4 * US - 1),
                            first='cadical', stage1=15, timeout=300, replay=RP))
    groups.append(Group(name='stub.c18_fdiv.bounds', harness='harness/C18/duration.c', entry='h_fdiv', function='(double)num / den (model lemma)',
                        enforce='c18_fdiv', defines=['DUR_LO=0', 'DUR_HI=0'], kind='lemma', first='cvc5', stage1=60, timeout=300))
    ufm = format_time_unit(ctx, src)
    ufm.write()
    ctx.functions_under_contract += ufm.functions
    groups.append(Group(name='Time.format_time', harness='harness/C18/ftime.c', entry='h_format_time', function='format_time', enforce='format_time',
                        first='cvc5', stage1=20, min_post=6, replay=Replay(driver='C18/time.cc', mode='format_time', sources=ALL_LIB),
                        clause_note='contracts/C18_ftime.h: gmtime_r gets floor(t/10^6); ".%06u" of t mod 10^6 right behind the strftime text; runtime_error iff libc fails'))
    uf = format_size_unit(ctx, src)
    uf.write()
    ctx.functions_under_contract += uf.functions
    groups.append(Group(name='Strings.format_size', harness='harness/C18/size.c', entry='h_format_size', function='format_size', enforce='format_size',
                        min_post=4, replay=Replay(driver='C18/time.cc', mode='format_size', sources=ALL_LIB),
                        clause_note='contracts/C18_size.h: unit = largest power of 1024 <= size; printed quotient = size / unit; byte count and fixed text exact'))
    up = parse_size_unit(ctx, src)
    up.write()
    ctx.functions_under_contract += up.functions
    groups.append(Group(name='Strings.parse_size', harness='harness/C18/size.c', entry='h_parse_size', function='parse_size', enforce='parse_size',
                        loops=True, kind='loop-contract', defines=['C18_PARSE=1'], min_post=6, timeout=300, fallback_unwind=10,
                        replay=Replay(driver='C18/time.cc', mode='parse_size', sources=ALL_LIB, small_define='VERIF_SMALL'),
                        clause_note='contracts/C18_size.h: scan stays inside the buffer; maximal digit prefix folded by value*10+digit; blanks; unit letter -> power of 1024'))
    # bounded falsifier: the same contract on the loop-unwound code for buffers of at most 8 bytes (counterexamples of the loop-contract
    # proof start from an arbitrary invariant state and cannot be replayed; these are real executions)
    groups.append(Group(name='Strings.parse_size[unwound]', harness='harness/C18/size.c', entry='h_parse_size', function='parse_size', enforce='parse_size',
                        defines=['C18_PARSE=1', 'VERIF_SMALL=1'], kind='bounded', bound='buffers of at most 8 bytes (7 characters + NUL), loops unwound',
                        cbmc_flags=['--unwind', '9', '--unwinding-assertions'], min_post=6, timeout=300, first='cadical', stage1=30,
                        replay=Replay(driver='C18/time.cc', mode='parse_size', sources=ALL_LIB)))
    # cvc5 with bit-vector arithmetic solved as integer arithmetic (tools/C18_cvc5_int.sh): quotient/remainder facts
    INTBLAST = dict(engines=['cvc5'], cbmc_flags=['--external-smt2-solver', os.path.join(VERIF, 'tools', 'C18_cvc5_int.sh')], stage1=120, timeout=120)
    ut = timeval_unit(ctx, src)
    ut.write()
    ctx.functions_under_contract += ut.functions
    HT = 'harness/C18/timeval.c'
    RT = lambda mode: Replay(driver='C18/time.cc', mode=mode, sources=ALL_LIB)
    groups.append(Group(name='Time.usecs_to_timeval', harness=HT, entry='h_usecs_to_timeval', function='usecs_to_timeval', enforce='usecs_to_timeval',
                        min_post=3, **INTBLAST, replay=RT('usecs_to_timeval'),
                        clause_note='0 <= tv_usec < 10^6, tv_sec * 10^6 + tv_usec == usecs'))
    groups.append(Group(name='Time.timeval_to_usecs', harness=HT, entry='h_timeval_to_usecs', function='timeval_to_usecs', enforce='timeval_to_usecs',
                        first='cvc5', stage1=20, min_post=2, replay=RT('timeval_to_usecs')))
    groups.append(Group(name='Time.timeval.roundtrip_usecs', harness=HT, entry='l_roundtrip_usecs', function='timeval_to_usecs(usecs_to_timeval(u)) == u',
                        replace=['usecs_to_timeval', 'timeval_to_usecs'], kind='lemma', first='cvc5', stage1=20, replay=RT('roundtrip_usecs')))
    groups.append(Group(name='Time.timeval.roundtrip_timeval', harness=HT, entry='l_roundtrip_timeval', function='usecs_to_timeval(timeval_to_usecs(tv)) == tv',
                        replace=['usecs_to_timeval', 'timeval_to_usecs', 'c18_lemma_divmod_unique'], kind='lemma', first='cvc5', stage1=20,
                        replay=RT('roundtrip_timeval')))
    groups.append(Group(name='lemma.divmod_unique', harness=HT, entry='h_lemma_divmod_unique', function='uniqueness of quotient and remainder (arithmetic lemma)',
                        enforce='c18_lemma_divmod_unique', kind='lemma', **INTBLAST))
    groups.append(Group(name='lemma.nested_div', harness='harness/C18/duration.c', entry='h_lemma_nested_div', function='u / (a*b) == (u / a) / b (arithmetic lemma)',
                        enforce='c18_lemma_nested_div', defines=['DUR_LO=0', 'DUR_HI=0'], kind='lemma', min_post=2, **INTBLAST))
    groups.append(Group(name='lemma.cong24', harness='harness/C18/duration.c', entry='h_lemma_cong24', function='x == y ==> x % 24 == y % 24 (arithmetic lemma)',
                        enforce='c18_lemma_cong24', defines=['DUR_LO=0', 'DUR_HI=0'], kind='lemma'))
    groups.append(Group(name='lemma.dhm', harness='harness/C18/duration.c', entry='h_lemma_dhm', function='days/hours/minutes decomposition (arithmetic lemma)',
                        enforce='c18_lemma_dhm', replace=['c18_lemma_nested_div', 'c18_lemma_cong24'], defines=['DUR_LO=0', 'DUR_HI=0'], kind='lemma', min_post=8, **INTBLAST))
    if ctx.tier == 'thorough':
        # more boundary bands as independent bounded falsifiers; cheap unbounded groups must be answered identically by two engines
        for nm, lo in [('band_1s', 0), ('band_1min', 58 * US), ('band_2d', (2 * 86400 - 2) * US), ('band_max', 2 ** 64 - 4 * US)]:
            groups.append(Group(name='Time.format_duration[%s]' % nm, harness='harness/C18/duration.c', entry='h_format_duration',
                                function='format_duration', enforce='format_duration', replace=['c18_fdiv', 'c18_lemma_dhm'],
                                defines=['DUR_LO=%dull' % lo, 'DUR_HI=%dull' % (lo + 4 * US - 1)], kind='bounded', tier='thorough',
                                bound='usecs in [%d, %d] (4 s at microsecond resolution), all precisions' % (lo, lo + 4 * US - 1),
                                first='cadical', stage1=15, timeout=600, replay=RP))
        for g in groups:
            if g.engines is None and g.kind != 'bounded':
                g.two_engines = True
            g.timeout = max(g.timeout, 900)
    return groups


CLAIMED = True
MANIFEST = dict(
    category='proof',
    text=('format_duration (all 2^64 durations x all int8 precisions, five magnitude ranges), usecs_to_timeval / timeval_to_usecs and both inverse laws, '
          'format_size (all sizes, both modes), parse_size (any NUL-terminated buffer up to 2^20 bytes, loop contracts) and the phosg-owned part of format_time '
          'are put under function contracts on the text extracted from src/Time.cc / src/Strings.cc on every run and discharged by cbmc. Formatted strings are '
          'modelled by the printf conversions that produce them (format strings parsed on every run), so the contracts decide totality (never throws), the '
          'field grammar and zero padding, the exact field decomposition (fields*unit + printed numerator == usecs, h<24, m<60, s<60), the unit ladder and the '
          'printed operands. The nested-division identities are lemma functions proved for all 64-bit arguments and used via their contracts.'),
    note=('Not decided (libc / floating point): the decimal digits of %f conversions, the UTC calendar of format_time, format_size/parse_size agreement at the '
          'printed precision, fractional inputs of parse_size. Trusted: cbmc/goto-instrument, the answering solver (cvc5 with integer encoding for the arithmetic '
          'lemmas), the extractor incl. the printf-format lowering, the text/libc stubs (stubs/C18_text.h, stubs/C18_ftime.h). Confirmed defect: format_duration '
          'threw std::out_of_range in the minutes branch for precision 0 and seconds < 10 (fixes/C18-1.patch).'),
    technique='function contracts + loop contracts enforced with goto-instrument --dfcc, lemma functions bound by --replace-call-with-contract, discharged by cbmc (SAT/SMT portfolio)',
)
