/* C09: format_data_string(const std::string& data, const std::string* mask, uint64_t flags) -- the std::string overload.
 * "for every byte string and optional mask": a mask, when given, classifies every byte, so its length must be the length of the
 * data; otherwise logic_error and nothing is formatted.  Otherwise the pointer/size form is called exactly once with the bytes,
 * the size, the mask bytes (or null) and the flags.  The callee is a recording stub here (its own contract is C09_format.h). */
#ifndef C09_WRAPPER_H
#define C09_WRAPPER_H
#include "stubs/C09_str.h"
#include "contracts/C09_glue.h"

extern unsigned g_f_calls; extern const void* g_f_data; extern size_t g_f_size; extern const void* g_f_mask; extern uint64_t g_f_flags;
extern OUT_STR* g_f_ret;

#ifdef MASK_NULL
#define WR_MASK_REQ __CPROVER_requires(mask == 0)
#else
#define WR_MASK_REQ __CPROVER_requires(__CPROVER_is_fresh(mask, sizeof(vstr)))
#endif
#define WR_MISMATCH (mask != 0 && mask->size != data->size)

void format_data_string_str(OUT_STR* ret, const vstr* data, const vstr* mask, uint64_t flags)
__CPROVER_requires(__CPROVER_is_fresh(data, sizeof(vstr)))
WR_MASK_REQ
__CPROVER_requires(verif_exc == 0 && g_f_calls == 0)
__CPROVER_ensures(WR_MISMATCH ? verif_exc == EXC_logic_error : verif_exc == 0)
__CPROVER_ensures(WR_MISMATCH ==> g_f_calls == 0)
__CPROVER_ensures(!WR_MISMATCH ==> (g_f_calls == 1 && g_f_ret == ret && g_f_data == (const void*)data->data && g_f_size == data->size &&
                                    g_f_mask == (mask != 0 ? (const void*)mask->data : (const void*)0) && g_f_flags == flags))
__CPROVER_assigns(verif_exc, g_f_calls, g_f_data, g_f_size, g_f_mask, g_f_flags, g_f_ret);

#endif
